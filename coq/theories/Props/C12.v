(* C12 (reader half)  Math regions are delimited correctly and tolerate
   unbalanced brackets.
   Statements only; proofs in Proofs/AttachProofs.v.

   "Each of $..$, $$..$$, \(..\), \[..\] yields one math node of the
   corresponding kind whose body is the enclosed source; brackets inside math
   are plain text that need not balance, including directly after the
   zero-argument operators (\cup, \cap, \in, \notin, \infty); \item is
   rejected in math mode."

   One-layer statements at arbitrary fuel `S f` (recursive calls at fuel `f`
   named on the right-hand side), and statements for every fuel proved by
   induction.  VERDICT: holds of the model as stated. *)
From Coq Require Import List NArith ZArith Bool Lia.
From TexModel Require Import Base Tables Chars Tokenizer Tree Reader.
From TexProofs Require Import TokProofs ReaderLen ReaderTotal AttachProofs.
Import ListNotations.
Local Open Scope Z_scope.

(* ------------------------------------------------------------------ 6 --- *)
(* MATH_TOKEN_TO_ENV: a token category opens kind k iff it is k's begin token
   in the generated table *)
Theorem C12_math_begin_kinds :
  forall c k, math_kind_of_begin c = Some k <-> math_tok_begin k = Some c.
Proof. exact math_begin_kinds. Qed.
Print Assumptions C12_math_begin_kinds.

Theorem C12_is_math_end_iff :
  forall k t, is_math_end k t = true <-> math_tok_end k = Some (tcat t).
Proof. exact is_math_end_iff. Qed.
Print Assumptions C12_is_math_end_iff.

(* the four pairs of token categories and of delimiter strings *)
Theorem C12_math_tokens :
  (math_tok_begin MInline = Some TMathSwitch /\ math_tok_end MInline = Some TMathSwitch) /\
  (math_tok_begin MDisplay = Some TDisplayMathSwitch /\
   math_tok_end MDisplay = Some TDisplayMathSwitch) /\
  (math_tok_begin MParen = Some TMathGroupBegin /\ math_tok_end MParen = Some TMathGroupEnd) /\
  (math_tok_begin MBracket = Some TDisplayMathGroupBegin /\
   math_tok_end MBracket = Some TDisplayMathGroupEnd).
Proof. exact math_tokens. Qed.
Print Assumptions C12_math_tokens.

Theorem C12_math_delims :
  (math_begin MInline = [36]%N /\ math_end MInline = [36]%N) /\                      (* $ $ *)
  (math_begin MDisplay = [36; 36]%N /\ math_end MDisplay = [36; 36]%N) /\            (* $$ $$ *)
  (math_begin MParen = [92; 40]%N /\ math_end MParen = [92; 41]%N) /\                (* \( \) *)
  (math_begin MBracket = [92; 91]%N /\ math_end MBracket = [92; 93]%N).              (* \[ \] *)
Proof. exact math_delims. Qed.
Print Assumptions C12_math_delims.

(* an opener starts the math loop of its kind, whatever the mode, tolerance
   and skip list *)
Theorem C12_math_opens :
  forall f skip strict m c src k,
  math_kind_of_begin (tcat c) = Some k ->
  read_expr (S f) skip strict m (c :: src) = read_math_loop f k (tpos c) strict [] src.
Proof. exact AttachProofs.C12_math_opens. Qed.
Print Assumptions C12_math_opens.

(* ------------------------------------------------------------------ 7 --- *)
Theorem C12_math_closes :
  forall f k pos strict acc t src,
  is_math_end k t = true ->
  read_math_loop (S f) k pos strict acc (t :: src) = Ok (EMath k acc pos, src).
Proof. exact AttachProofs.C12_math_closes. Qed.
Print Assumptions C12_math_closes.

Theorem C12_math_continues :
  forall f k pos strict acc t src,
  is_math_end k t = false ->
  read_math_loop (S f) k pos strict acc (t :: src) =
  bind (read_expr f [] strict MMath (t :: src)) (fun '(e, src1) =>
    read_math_loop f k pos strict (acc ++ [e]) src1).
Proof. exact AttachProofs.C12_math_continues. Qed.
Print Assumptions C12_math_continues.

(* the end of the input inside math: EOFError in BOTH tolerance modes *)
Theorem C12_math_at_eof :
  forall f k pos strict acc, read_math_loop (S f) k pos strict acc [] = Err EOFError.
Proof. exact AttachProofs.C12_math_at_eof. Qed.
Print Assumptions C12_math_at_eof.

(* every fuel: the result is ONE math node of this kind at the opener's
   position, printing as begin ++ body ++ end; what was consumed is a body
   followed by one closer of this kind *)
Theorem C12_read_math_loop_spec :
  forall f k pos strict acc toks e rest,
  read_math_loop f k pos strict acc toks = Ok (e, rest) ->
  (exists body, e = EMath k (acc ++ body) pos /\
                estr e = math_begin k ++ estr_list (acc ++ body) ++ math_end k) /\
  (exists pre t_end, toks = pre ++ t_end :: rest /\ is_math_end k t_end = true).
Proof.
  intros f k pos strict acc toks e rest H. split.
  - exact (read_math_loop_spec f k pos strict acc toks e rest H).
  - exact (math_region_ends_at_closer f k pos strict acc toks e rest H).
Qed.
Print Assumptions C12_read_math_loop_spec.

Theorem C12_math_region :
  forall f skip strict m c src k e rest,
  math_kind_of_begin (tcat c) = Some k ->
  read_expr (S f) skip strict m (c :: src) = Ok (e, rest) ->
  exists body, e = EMath k body (tpos c) /\
               estr e = math_begin k ++ estr_list body ++ math_end k.
Proof. exact AttachProofs.C12_math_region. Qed.
Print Assumptions C12_math_region.

(* no closer of the kind among the remaining tokens: no node, any fuel, both
   tolerance modes *)
Theorem C12_unclosed_math_fails :
  forall f k pos strict acc toks r,
  (forall t, In t toks -> is_math_end k t = false) ->
  read_math_loop f k pos strict acc toks <> Ok r.
Proof. exact AttachProofs.C12_unclosed_math_fails. Qed.
Print Assumptions C12_unclosed_math_fails.

(* exact body, flat case: text-leaf tokens (brackets, parentheses, closing
   braces included, balanced or not) up to the first closer of this kind are
   the body, one text element each; `f` spare fuel is arbitrary *)
Theorem C12_flat_region_exact :
  forall f skip strict m c k t_end rest body,
  math_kind_of_begin (tcat c) = Some k ->
  is_math_end k t_end = true ->
  Forall (fun t => leaf_cat (tcat t) = true /\ is_math_end k t = false) body ->
  read_expr (S (S (length body + f))) skip strict m (c :: body ++ t_end :: rest)
  = Ok (EMath k (map EText body) (tpos c), rest) /\
  estr (EMath k (map EText body) (tpos c)) = math_begin k ++ texts body ++ math_end k.
Proof. exact AttachProofs.C12_flat_region_exact. Qed.
Print Assumptions C12_flat_region_exact.

(* ------------------------------------------------------------------ 8 --- *)
Theorem C12_brackets_in_math_are_text :
  forall f skip strict t rest,
  In (tcat t) [TBracketBegin; TBracketEnd; TParenBegin; TParenEnd; TGroupEnd] ->
  read_expr (S f) skip strict MMath (t :: rest) = Ok (EText t, rest).
Proof. exact AttachProofs.C12_brackets_in_math_are_text. Qed.
Print Assumptions C12_brackets_in_math_are_text.

(* in the loop: appended as text, nothing opened, nothing has to balance *)
Theorem C12_bracket_in_math_loop :
  forall f k pos strict acc t src,
  In (tcat t) [TBracketBegin; TBracketEnd; TParenBegin; TParenEnd; TGroupEnd] ->
  read_math_loop (S (S f)) k pos strict acc (t :: src) =
  read_math_loop (S f) k pos strict (acc ++ [EText t]) src.
Proof. exact AttachProofs.C12_bracket_in_math_loop. Qed.
Print Assumptions C12_bracket_in_math_loop.

(* the names with signature (0, 0) are exactly those filtered from the
   generated table; the five operators of the property are among them *)
Theorem C12_zero_arg_operators :
  forall n,
  signature_of n = (0, 0) <->
  In n (map fst (filter (fun x => (fst (snd x) =? 0) && (snd (snd x) =? 0)) Tables.signatures)).
Proof. exact zero_arg_operators. Qed.
Print Assumptions C12_zero_arg_operators.

Theorem C12_named_operators_zero_arg :
  forall n,
  In n [[99; 117; 112]; [99; 97; 112]; [105; 110]; [110; 111; 116; 105; 110];
        [105; 110; 102; 116; 121]]%N ->                (* cup cap in notin infty *)
  signature_of n = (0, 0).
Proof. exact named_operators_zero_arg. Qed.
Print Assumptions C12_named_operators_zero_arg.

(* a zero-argument name consumes nothing after itself (special-command names
   included: the mode is irrelevant when nothing is read) *)
Theorem C12_zero_arg_command :
  forall f strict m nametok src,
  signature_of (ttext nametok) = (0, 0) ->
  read_command (S (S f)) (-1) (-1) 0 strict m (nametok :: src) = Ok ((ttext nametok, []), src).
Proof. exact AttachProofs.C12_zero_arg_command. Qed.
Print Assumptions C12_zero_arg_command.

Theorem C12_zero_arg_operator :
  forall f skip strict m c nametok src,
  is_tc TEscape c = true -> signature_of (ttext nametok) = (0, 0) ->
  read_expr (S (S (S f))) skip strict m (c :: nametok :: src)
  = Ok (ECmd (strip (ttext nametok)) [] [] (tpos c), src).
Proof. exact AttachProofs.C12_zero_arg_operator. Qed.
Print Assumptions C12_zero_arg_operator.

(* operator, then a bracket: the math loop gets a command node without
   arguments and a text node *)
Theorem C12_operator_then_bracket :
  forall f k pos strict acc c nametok t src,
  is_tc TEscape c = true -> signature_of (ttext nametok) = (0, 0) ->
  In (tcat t) [TBracketBegin; TBracketEnd; TParenBegin; TParenEnd; TGroupEnd] ->
  read_math_loop (S (S (S (S (S f))))) k pos strict acc (c :: nametok :: t :: src) =
  read_math_loop (S (S (S f))) k pos strict
    (acc ++ [ECmd (strip (ttext nametok)) [] [] (tpos c); EText t]) src.
Proof. exact AttachProofs.C12_operator_then_bracket. Qed.
Print Assumptions C12_operator_then_bracket.

(* \item in math mode *)
Theorem C12_item_rejected_in_math :
  forall f skip strict c src name args src1,
  is_tc TEscape c = true ->
  read_command f (-1) (-1) 0 strict MMath src = Ok ((name, args), src1) ->
  str_eqb name s_item = true ->
  read_expr (S f) skip strict MMath (c :: src) = Err AssertionError.
Proof. exact AttachProofs.C12_item_rejected_in_math. Qed.
Print Assumptions C12_item_rejected_in_math.

Theorem C12_item_never_parses_in_math :
  forall f skip strict c nametok src r,
  is_tc TEscape c = true -> ttext nametok = s_item ->
  read_expr f skip strict MMath (c :: nametok :: src) <> Ok r.
Proof. exact AttachProofs.C12_item_never_parses_in_math. Qed.
Print Assumptions C12_item_never_parses_in_math.

Theorem C12_math_loop_propagates :
  forall f k pos strict acc t src e,
  is_math_end k t = false -> read_expr f [] strict MMath (t :: src) = Err e ->
  read_math_loop (S f) k pos strict acc (t :: src) = Err e.
Proof. exact AttachProofs.C12_math_loop_propagates. Qed.
Print Assumptions C12_math_loop_propagates.

(* ------------------------------------------------------------ examples --- *)

(* $a[0,1)$ *)
Example C12_ex_inline_hyps :
  map tcat (toks_of ex_math) = [TMathSwitch; TText; TBracketBegin; TText; TMathSwitch] /\
  math_kind_of_begin TMathSwitch = Some MInline /\
  Forall (fun t => leaf_cat (tcat t) = true /\ is_math_end MInline t = false)
         (firstn 3 (skipn 1 (toks_of ex_math))).
Proof. repeat split; vm_compute; repeat constructor. Qed.
Example C12_ex_inline :
  first_math (parse ex_math true []) = Some (MInline, [[97]; [91]; [48; 44; 49; 41]]%N) /\
  root_strs (parse ex_math true []) = Some [ex_math].
Proof. split; vm_compute; reflexivity. Qed.

(* $$a]$$   \(a(b\)   \[a]b\] *)
Example C12_ex_kinds :
  first_math (parse ex_display true []) = Some (MDisplay, [[97]; [93]]%N) /\
  first_math (parse ex_paren true []) = Some (MParen, [[97; 40; 98]]%N) /\
  first_math (parse ex_brack true []) = Some (MBracket, [[97]; [93]; [98]]%N) /\
  root_strs (parse ex_display true []) = Some [ex_display] /\
  root_strs (parse ex_paren true []) = Some [ex_paren] /\
  root_strs (parse ex_brack true []) = Some [ex_brack].
Proof. repeat split; vm_compute; reflexivity. Qed.

(* $\cup[x$ : the operator takes no argument, the bracket is text *)
Example C12_ex_cup_hyps :
  map tcat (toks_of ex_cup) =
    [TMathSwitch; TEscape; TCommandName; TBracketBegin; TText; TMathSwitch] /\
  option_map ttext (nth_error (toks_of ex_cup) 2) = Some [99; 117; 112]%N.
Proof. split; vm_compute; reflexivity. Qed.
Example C12_ex_cup :
  first_math (parse ex_cup true []) = Some (MInline, [[92; 99; 117; 112]; [91]; [120]]%N) /\
  match parse ex_cup true [] with
  | Ok (ERoot [EMath MInline [ECmd _ [] [] _; EText _; EText _] _]) => True
  | _ => False
  end.
Proof. split; vm_compute; [reflexivity | exact I]. Qed.

(* $\item$ : rejected in both tolerance modes;  $a[ : EOFError in both *)
Example C12_ex_item :
  parse ex_item true [] = Err AssertionError /\ parse ex_item false [] = Err AssertionError.
Proof. split; vm_compute; reflexivity. Qed.
Example C12_ex_item_hyps :
  map tcat (skipn 1 (toks_of ex_item)) = [TEscape; TCommandName; TMathSwitch] /\
  option_map ttext (nth_error (toks_of ex_item) 2) = Some s_item /\
  exists r, read_command 3 (-1) (-1) 0 true MMath (skipn 2 (toks_of ex_item)) = Ok r.
Proof. split; [|split]; [vm_compute; reflexivity ..|]. eexists. vm_compute. reflexivity. Qed.
Example C12_ex_unclosed :
  parse ex_unclosed true [] = Err EOFError /\ parse ex_unclosed false [] = Err EOFError /\
  forallb (fun t => negb (is_math_end MInline t)) (skipn 1 (toks_of ex_unclosed)) = true.
Proof. repeat split; vm_compute; reflexivity. Qed.
