(* C08  Serialisation conserves the characters of any parseable input.
   Statements only; proofs in Proofs/ReaderCons.v (CP, one mutual induction
   over all reader functions) and Proofs/ConsTop.v.

   `Rel false toks out` (ReaderCons.v) says: `out` is the concatenation of the
   token texts, in order, except that a MergedSpacer token standing directly
   before a GroupBegin/BracketBegin token may be dropped.  Nothing else is
   lost, duplicated, reordered or invented.  `Rel true` additionally allows
   closers `}` `]` `\end{name}` to be inserted (tolerant mode).

   The hypotheses `Hyp` name exactly the places where the code is NOT
   conservative (each is a recorded observation/finding, DESIGN.md section 8):
     h_wf     structural tokens carry their delimiter text (true of every
              tokenizer output: Proofs/ConsBridge.v);
     h_names  every command name is unpadded, and every \begin / \end is
              followed either by nothing that opens a group or by a simple
              name group `{` Text `}` with unpadded text (excludes
              \begin[x], \end[x], \begin{ a }, names containing markup);
     h_skip   the \end{name} that closes a verbatim-like environment is made
              of exactly five tokens (the code drops five tokens);
   and `nobare t` is the property's own side condition: no fixed-signature
   command took a bare token as mandatory argument (those get braces). *)
From Coq Require Import List NArith ZArith Bool.
From TexModel Require Import Base Tables Chars Tokenizer Tree Reader.
From TexProofs Require Import TokProofs ReaderLen ReaderCons ConsTop ConsBridge.
Import ListNotations.

Theorem C08_conserves :
  forall (s : str) (user : list str) (t : expr) (toks : list token),
    tokens_of_string s = (toks, TEnd) -> parse s true user = Ok t ->
    Hyp (all_skip user) toks -> nobare t = true ->
    Rel false toks (estr t).
Proof. intros s user t toks. exact (parse_conserves_hyp s true user t toks). Qed.
Print Assumptions C08_conserves.

(* string level, all hypotheses decidable: the output is the concatenation of a
   sub-list `kept` of the input's tokens, in order, where every dropped token is
   a MergedSpacer standing directly before a GroupBegin/BracketBegin token
   (`Kept`, Proofs/ConsBridge.v): nothing lost, duplicated, reordered, invented *)
Theorem C08_conserves_string :
  forall (s : str) (user : list str) (t : expr),
    parse s true user = Ok t ->
    hypb (all_skip user) (fst (tokens_of_string s)) = true -> nobare t = true ->
    exists kept, Kept (fst (tokens_of_string s)) kept /\ estr t = texts kept.
Proof. exact parse_strict_kept. Qed.
Print Assumptions C08_conserves_string.

(* the structural-token hypothesis of `Hyp` holds for every tokenizer output *)
Theorem C08_tokenizer_output_wf :
  forall (s : str) toks e, tokens_of_string s = (toks, e) -> Forall tok_wf toks.
Proof. exact tokenize_wf. Qed.
Print Assumptions C08_tokenizer_output_wf.

(* and the token texts are the input (without NUL/DEL: exactly the input) *)
Theorem C08_tokens_are_input :
  forall (s : str) toks e, tokens_of_string s = (toks, e) ->
    Forall (fun c => ign c = false) (categorize s) -> texts toks = s.
Proof. exact tokens_concat_exact. Qed.
Print Assumptions C08_tokens_are_input.

(* the invariant holds for every reader function at every fuel: what a call
   consumed is a prefix of what it was given, and it re-serialises to it *)
Theorem C08_expr_conserves :
  forall SK f skip strict m toks e rest,
    sub_skip SK skip -> Hyp SK toks -> read_expr f skip strict m toks = Ok (e, rest) ->
    exists used, toks = used ++ rest /\ (nobare e = true -> Rel (negb strict) used (estr e)).
Proof. intros SK f. exact (proj1 (cp_all_holds SK f)). Qed.
Print Assumptions C08_expr_conserves.

(* non-vacuity: `\a [x] {y}z` parses, satisfies the hypotheses, and is
   serialised as `\a[x]{y}z` *)
Example C08_example :
  let s := [92; 97; 32; 91; 120; 93; 32; 123; 121; 125; 122]%N in
  exists t, parse s true [] = Ok t /\ nobare t = true /\
            clean_names (fst (tokens_of_string s)) = true /\
            estr t = [92; 97; 91; 120; 93; 123; 121; 125; 122]%N.
Proof. eexists. repeat split; vm_compute; reflexivity. Qed.
