(* C04  Navigation views of a node are mutually consistent.
   Every statement is about an arbitrary node n = (path, expression) of an
   arbitrary tree (Views.v); items of the views are (path, expression) pairs,
   a string item being an ERaw (Token) or an EStr (plain str). *)
From Coq Require Import List NArith ZArith Bool Permutation.
From TexModel Require Import Base Tables Chars Tokenizer Tree Reader Views.
From TexProofs Require Import ViewsProofs.
Import ListNotations.

(* `contents` is `expr.all` with every TexText replaced by the Token it wraps
   and the whitespace-only strings dropped ... *)
Theorem contents_is_all_minus_blank : forall n : item,
  map snd (contents n)
  = filter (fun x => negb (is_blank x)) (map unwrap (expr_all (snd n))).
Proof. exact ViewsProofs.contents_is_all_minus_blank. Qed.
Print Assumptions contents_is_all_minus_blank.

(* ... so the texts of its items are the texts of the non-blank items of `expr.all` *)
Theorem contents_strings : forall n : item,
  map estr (map snd (contents n))
  = map estr (filter (fun x => negb (is_blank x)) (expr_all (snd n))).
Proof. exact ViewsProofs.contents_strings. Qed.
Print Assumptions contents_strings.

(* `children` is `contents` without the strings (and wraps TexExpr.children) *)
Theorem children_is_contents_minus_text : forall n : item,
  children n = filter (fun it => negb (is_strlike (snd it))) (contents n)
  /\ map snd (children n) = expr_children (snd n).
Proof. exact ViewsProofs.children_is_contents_minus_text. Qed.
Print Assumptions children_is_contents_minus_text.

(* iteration and indexing (Python indexing, negative indices included) follow `contents` *)
Theorem iter_index_follow_contents : forall n : item,
  node_iter n = contents n /\
  forall k, k < length (contents n) ->
            node_getitem n (Z.of_nat k) = nth_error (contents n) k /\
            node_getitem n (Z.of_nat k - Z.of_nat (length (contents n)))
            = nth_error (contents n) k.
Proof. exact ViewsProofs.iter_index_follow_contents. Qed.
Print Assumptions iter_index_follow_contents.

(* the equation of the code: own contents first, then each child's descendants *)
Theorem descendants_unfold : forall n : item,
  descendants n = contents n ++ flat_map descendants (children n).
Proof. exact ViewsProofs.descendants_eq. Qed.
Print Assumptions descendants_unfold.

(* `descendants` is exactly the transitive closure of `contents` ... *)
Theorem descendants_is_closure : forall n x : item,
  In x (descendants n) <-> reach n x.
Proof. exact ViewsProofs.descendants_is_closure. Qed.
Print Assumptions descendants_is_closure.

(* ... every node (every position of the tree) once *)
Theorem descendants_each_once : forall n : item,
  NoDup (map fst (descendants n)).
Proof. exact ViewsProofs.descendants_nodup. Qed.
Print Assumptions descendants_each_once.

(* `text` lists the non-blank string leaves in the order of the depth-first,
   left-to-right walk (arguments before body); `leaves` is an independent
   structural enumeration of the string leaves, `walk` the structural
   depth-first enumeration of all non-blank content items *)
Theorem text_is_leaves_in_order : forall n : item,
  map snd (text n) = leaves (snd n)
  /\ leaves (snd n) = filter is_strlike (walk (snd n)).
Proof. exact ViewsProofs.text_is_leaves_in_order. Qed.
Print Assumptions text_is_leaves_in_order.

(* the text items are the string items of `descendants` (as a multiset:
   `descendants` is not in document order) *)
Theorem text_is_strings_of_descendants : forall n : item,
  Permutation (map snd (text n)) (filter is_strlike (map snd (descendants n))).
Proof. exact ViewsProofs.text_perm_descendants. Qed.
Print Assumptions text_is_strings_of_descendants.

(* at the root the complete content list concatenates to the whole document *)
Theorem root_all_concat : forall b : list expr,
  concat (map estr (expr_all (ERoot b))) = estr (ERoot b).
Proof. exact ViewsProofs.root_all_concat. Qed.
Print Assumptions root_all_concat.

(* and node.all (which asserts that every item is a TexExpr) succeeds there
   when the body holds no bare Token / str *)
Theorem root_node_all_ok : forall b : list expr,
  forallb is_texexpr b = true -> node_all ([], ERoot b) = Some b.
Proof. exact ViewsProofs.root_node_all_ok. Qed.
Print Assumptions root_node_all_ok.

(* the parent of an item reached through a view is the node it was reached
   from; for `descendants` that node is n itself or a descendant node of n *)
Theorem parent_of_view_item : forall n x : item,
  (In x (contents n) -> parent_path (fst x) = fst n) /\
  (In x (children n) -> parent_path (fst x) = fst n) /\
  (In x (node_iter n) -> parent_path (fst x) = fst n) /\
  (In x (descendants n) ->
   exists m, (m = n \/ (In m (descendants n) /\ is_env_or_cmd (snd m) = true))
             /\ In x (contents m) /\ parent_path (fst x) = fst m).
Proof. exact ViewsProofs.parent_of_view_item. Qed.
Print Assumptions parent_of_view_item.

(* walking parents from any descendant ends at the node the view was taken of
   (at the root when that node is the root: fst n = []) ... *)
Theorem parents_reach_root : forall n x : item,
  In x (descendants n) ->
  length (fst n) < length (fst x) /\
  ancestor_path (length (fst x) - length (fst n)) (fst x) = fst n.
Proof. exact ViewsProofs.parents_reach_root. Qed.
Print Assumptions parents_reach_root.

(* ... passing only through descendant nodes of n *)
Theorem parents_walk_through_descendants : forall (n : item) (i : nat) (x : item),
  In x (descendants n) ->
  i < length (fst x) - length (fst n) ->
  exists m, In m (descendants n) /\ fst m = ancestor_path i (fst x)
            /\ (0 < i -> is_env_or_cmd (snd m) = true).
Proof. exact ViewsProofs.parents_walk_through_descendants. Qed.
Print Assumptions parents_walk_through_descendants.
