(* C12 (tokenizer half)  Math switches and sizing commands: which characters form
   ONE token and of which category.  Statements only; proofs in Proofs/TokFacts.v.
   `run_rules Tables.rule_order cx rest` is one round of next_token at a token
   boundary; cx (index, previous token, peek(-1), set iteration order) is arbitrary
   unless constrained. *)
From Coq Require Import List NArith ZArith Bool Permutation.
From TexModel Require Import Base Tables Chars Tokenizer.
From TexProofs Require Import TokProofs TokFacts.
Import ListNotations.

(* "$$": one DisplayMathSwitch token consuming both characters *)
Theorem C12_display_switch_token :
  forall cx c0 c1 r, ccat c0 = CMathSwitch -> ccat c1 = CMathSwitch ->
    run_rules Tables.rule_order cx (c0 :: c1 :: r) =
    RTok (mkt [ch c0; ch c1] (cpos c0) TDisplayMathSwitch) r.
Proof. exact display_switch_token. Qed.
Print Assumptions C12_display_switch_token.

(* a "$" followed by the end of input or by a non-MathSwitch character:
   not_switch_next r := match r with [] => True | c1 :: _ => ccat c1 <> CMathSwitch end *)
Theorem C12_single_switch_token :
  forall cx c0 r, ccat c0 = CMathSwitch -> not_switch_next r ->
    run_rules Tables.rule_order cx (c0 :: r) = RTok (mkt [ch c0] (cpos c0) TMathSwitch) r.
Proof. exact single_switch_token. Qed.
Print Assumptions C12_single_switch_token.

(* "\$": one EscapedComment token consuming both, never a math switch *)
Theorem C12_escaped_dollar_not_switch :
  forall cx c0 c1 r, ccat c0 = CEscape -> ccat c1 = CMathSwitch ->
    run_rules Tables.rule_order cx (c0 :: c1 :: r) =
    RTok (mkt [ch c0; ch c1] (cpos c0) TEscapedComment) r.
Proof. exact escaped_dollar_not_switch. Qed.
Print Assumptions C12_escaped_dollar_not_switch.

(* "\[" "\]" "\(" "\)" *)
Theorem C12_asym_switch_tokens :
  forall cx c0 c1 r, ccat c0 = CEscape ->
    (ccat c1 = CBracketBegin ->
     run_rules Tables.rule_order cx (c0 :: c1 :: r) =
     RTok (mkt [ch c0; ch c1] (cpos c0) TDisplayMathGroupBegin) r) /\
    (ccat c1 = CBracketEnd ->
     run_rules Tables.rule_order cx (c0 :: c1 :: r) =
     RTok (mkt [ch c0; ch c1] (cpos c0) TDisplayMathGroupEnd) r) /\
    (ccat c1 = CParenBegin ->
     run_rules Tables.rule_order cx (c0 :: c1 :: r) =
     RTok (mkt [ch c0; ch c1] (cpos c0) TMathGroupBegin) r) /\
    (ccat c1 = CParenEnd ->
     run_rules Tables.rule_order cx (c0 :: c1 :: r) =
     RTok (mkt [ch c0; ch c1] (cpos c0) TMathGroupEnd) r).
Proof. exact asym_switch_tokens. Qed.
Print Assumptions C12_asym_switch_tokens.

(* every sizing command of the table starts with a letter (by computation) *)
Theorem C12_points_start_letter :
  forall p, In p Tables.punctuation_commands ->
    exists c p', p = c :: p' /\ categorize_char c = CLetter.
Proof. exact points_start_letter. Qed.
Print Assumptions C12_points_start_letter.

(* after an escape character, when the input continues with an element p of the
   table (first character categorised as categorize does), the round yields ONE
   PunctuationCommandName token whose text is exactly p and which consumes
   length p characters -- under any iteration order of the set.  The delimiter is
   the last part of p: it is inside this token. *)
Theorem C12_punctuation_command_one_token :
  forall cx c0 r p,
    Permutation (cx_points cx) Tables.punctuation_commands ->
    prev_is_escape (cx_prevc_punct cx) = true ->
    ccat c0 = categorize_char (ch c0) ->
    In p Tables.punctuation_commands ->
    firstn (length p) (chars_of (c0 :: r)) = p ->
    run_rules Tables.rule_order cx (c0 :: r) =
      RTok (mkt p (cpos c0) TPunctuationCommandName) (skipn (length p) (c0 :: r)) /\
    chars_of (firstn (length p) (c0 :: r)) = p /\ p <> [].
Proof. exact punctuation_command_one_token. Qed.
Print Assumptions C12_punctuation_command_one_token.

(* p is the only element of the table that is a prefix of the input *)
Theorem C12_punct_match_unique :
  forall p q s, In p Tables.punctuation_commands -> In q Tables.punctuation_commands ->
    firstn (length p) s = p -> firstn (length q) s = q -> p = q.
Proof. exact punct_match_unique. Qed.
Print Assumptions C12_punct_match_unique.

(* non-vacuity on the real tables *)
Example C12_example_cats :
  categorize_char 92 = CEscape /\ categorize_char 36 = CMathSwitch /\
  categorize_char 91 = CBracketBegin /\ categorize_char 93 = CBracketEnd /\
  categorize_char 40 = CParenBegin /\ categorize_char 41 = CParenEnd /\
  mem_str [108; 101; 102; 116; 91]%N Tables.punctuation_commands = true.
Proof. vm_compute. repeat split. Qed.

(* "$$", "$a", "\$", "\[\]\(\)", "\left[x" *)
Example C12_example_display : show [36; 36]%N = [([36; 36]%N, 0%Z, TDisplayMathSwitch)].
Proof. vm_compute. reflexivity. Qed.

Example C12_example_single :
  show [36; 97]%N = [([36]%N, 0%Z, TMathSwitch); ([97]%N, 1%Z, TText)].
Proof. vm_compute. reflexivity. Qed.

Example C12_example_escaped_dollar : show [92; 36]%N = [([92; 36]%N, 0%Z, TEscapedComment)].
Proof. vm_compute. reflexivity. Qed.

Example C12_example_asym :
  show [92; 91; 92; 93; 92; 40; 92; 41]%N =
  [([92; 91]%N, 0%Z, TDisplayMathGroupBegin); ([92; 93]%N, 2%Z, TDisplayMathGroupEnd);
   ([92; 40]%N, 4%Z, TMathGroupBegin); ([92; 41]%N, 6%Z, TMathGroupEnd)].
Proof. vm_compute. reflexivity. Qed.

Example C12_example_left_bracket :
  show [92; 108; 101; 102; 116; 91; 120]%N =
  [([92]%N, 0%Z, TEscape); ([108; 101; 102; 116; 91]%N, 1%Z, TPunctuationCommandName);
   ([120]%N, 6%Z, TText)].
Proof. vm_compute. reflexivity. Qed.
