(* C16  Serialised output is a fixed point of the parser.
   Statements only; proofs in Proofs/ConsTop.v.

   PARTIAL.  Proved: for inputs on which the round-trip conditions of C01 hold
   (in particular: no whitespace between commands and their argument groups)
   the serialised text IS the input, hence re-parsing it gives the identical
   tree and text.  Missing: inputs whose argument spacers are dropped by
   serialisation - showing that the second parse of the shortened text yields
   the same tree needs the tokenizer inverse (TOKINV) and reader completeness
   (PP) of DESIGN.md section 5, which are not proved; that case is decided by
   correspondence + oracle (re-parse of the implementation's output). *)
From Coq Require Import List NArith ZArith Bool.
From TexModel Require Import Base Tables Chars Tokenizer Tree Reader.
From TexProofs Require Import TokProofs ReaderLen ReaderCons ConsTop ConsBridge ConsFix.
Import ListNotations.

Theorem C16_fixed_point_partial :
  forall (s : str) (user : list str) (t : expr) (toks : list token),
    tokens_of_string s = (toks, TEnd) -> parse s true user = Ok t ->
    Hyp (all_skip user) toks -> nobare t = true -> no_arg_spacer toks = true ->
    Forall (fun c => ign c = false) (categorize s) ->
    parse (estr t) true user = Ok t /\
    (forall t', parse (estr t) true user = Ok t' -> estr t' = estr t).
Proof. exact parse_fixed_point_hyp. Qed.
Print Assumptions C16_fixed_point_partial.

Theorem C16_fixed_point_decidable_partial :
  forall (s : str) (user : list str) (t : expr),
    parse s true user = Ok t ->
    hypb (all_skip user) (fst (tokens_of_string s)) = true ->
    nobare t = true ->
    no_arg_spacer (fst (tokens_of_string s)) = true ->
    Forall (fun c => ign c = false) (categorize s) ->
    parse (estr t) true user = Ok t /\
    (forall t', parse (estr t) true user = Ok t' -> estr t' = estr t).
Proof. exact parse_fixed_point. Qed.
Print Assumptions C16_fixed_point_decidable_partial.

(* the general case on an example: `\a [x] {y}z` -> `\a[x]{y}z` -> same text,
   same shape *)
Example C16_example :
  let s := [92; 97; 32; 91; 120; 93; 32; 123; 121; 125; 122]%N in
  exists t t', parse s true [] = Ok t /\ parse (estr t) true [] = Ok t' /\ estr t' = estr t.
Proof. eexists. eexists. repeat split; vm_compute; reflexivity. Qed.
