(* C02string  C02 (the tree mirrors the construct structure of the source) and
   the first sentence of C01 (parsing succeeds and the tree prints back the
   source) at STRING level, for the document grammar `doc` of
   Proofs/ReaderComplete.v (see Props/C02pp.v for the grammar, `flat`, `tree`
   and every well-formedness condition of `wf` / `wf_seq`).
   Statements only; proofs in Proofs/RenderProofs.v, which assembles

     PP      C02_structure_partial (C02pp.v)   tokens of a well-formed grammar
             document  --reader-->  the generating tree
     TOKINV  C16tok_tokinv (C16tok.v)          text of lexically well-shaped
             tokens  --tokenizer-->  these tokens, offsets recomputed
     POS     C16_position_insensitive (C16full.v)  the reader ignores offsets

   Vocabulary
     render ds          the source text of the grammar document ds: the
                        concatenation of the texts of its tokens, in order
     TokInverse.shape t the text of t has the lexical form of its category and
                        no NUL/DEL character (C16tok.v)
     TokInverse.follows_ok toks   maximal munch between adjacent tokens: no
                        token could have been longer, and a token that starts
                        with a letter is classified by whether an escape stands
                        before it.  NOT ReaderComplete.follows_ok (the follow
                        condition of a grammar element, part of wf_seq); both
                        TokInverse and FixedPoint names are written qualified
     TokInverse.first_ok toks     the first token is not a command name and the
                        text does not trigger the tokenizer's index-0 quirk
     lexb toks          the conjunction of the three, as one boolean
     TokInverse.offsets_ok 0 toks the recorded offsets are the consecutive ones
     FixedPoint.expr_pos_sim t t' the same tree up to every recorded position:
                        same constructors, names, group / math kinds, argument
                        and content lists; text leaves agree on text and
                        category (C16full.v)

   All hypotheses are decidable (booleans, or Forall of a boolean).  The
   hypothesis `Forall tok_wf` of C02_print_parse_print is gone: it follows from
   the lexical hypotheses (C02string_lex_tok_wf).

   PARTIAL in the same sense as C02pp.v: the grammar does not cover bare-token
   mandatory arguments, \newcommand-style commands, verbatim environments and
   unclosed constructs.  Inside the grammar nothing is left open: the three
   `_refuted` theorems show that neither the lexical hypotheses nor `printable`
   can be dropped and that "up to positions" cannot be strengthened without
   offsets_ok (witnesses replayed on the real code). *)
From Coq Require Import List NArith ZArith Bool.
From TexModel Require Import Base Tables Chars Tokenizer Tree Reader.
From TexProofs Require Import ReaderLen ReaderTotal ReaderCons AttachProofs ReaderComplete
                              RenderProofs.
From TexProofs Require TokInverse FixedPoint.
Import ListNotations.

(* ------------------------------------------------------------ vocabulary *)

Theorem C02string_render : forall ds, render ds = texts (flat_list ds).
Proof. reflexivity. Qed.

Theorem C02string_lexb : forall toks,
  lexb toks =
  forallb TokInverse.shape toks && TokInverse.follows_ok toks && TokInverse.first_ok toks.
Proof. reflexivity. Qed.

Theorem C02string_lexb_parts : forall toks,
  lexb toks = true ->
  Forall (fun t => TokInverse.shape t = true) toks /\
  TokInverse.follows_ok toks = true /\ TokInverse.first_ok toks = true.
Proof. exact lexb_parts. Qed.

(* lexically well-shaped tokens carry their delimiter texts *)
Theorem C02string_lex_tok_wf :
  forall toks,
    Forall (fun t => TokInverse.shape t = true) toks ->
    TokInverse.follows_ok toks = true -> TokInverse.first_ok toks = true ->
    Forall tok_wf toks.
Proof. exact lex_tok_wf. Qed.
Print Assumptions C02string_lex_tok_wf.

(* --------------------------------------------------- C02, string level *)

(* the tokens of the source text are the tokens of the document *)
Theorem C02_render_tokens :
  forall ds,
    Forall (fun t => TokInverse.shape t = true) (flat_list ds) ->
    TokInverse.follows_ok (flat_list ds) = true -> TokInverse.first_ok (flat_list ds) = true ->
    tokens_of_string (render ds) = (TokInverse.repos 0 (flat_list ds), TEnd).
Proof. exact render_tokens. Qed.
Print Assumptions C02_render_tokens.

(* the parse tree of the SOURCE TEXT of a well-formed, lexically well-shaped
   grammar document is the generating syntax tree - every command,
   environment, brace group, math region, item, comment and text run once and
   in order, names, argument kinds / order / contents and nesting as written -
   up to the recorded positions, strictly and tolerantly, for every user skip
   list that does not name one of its environments; and literally that tree
   when the tokens record consecutive offsets *)
Theorem C02_structure_string :
  forall ds strict user,
    wf_seq (all_skip user) false CTop ds [] = true ->
    Forall (fun t => TokInverse.shape t = true) (flat_list ds) ->
    TokInverse.follows_ok (flat_list ds) = true -> TokInverse.first_ok (flat_list ds) = true ->
    (exists t', parse (render ds) strict user = Ok t' /\
                FixedPoint.expr_pos_sim (ERoot (map tree ds)) t') /\
    (TokInverse.offsets_ok 0 (flat_list ds) ->
     parse (render ds) strict user = Ok (ERoot (map tree ds))).
Proof. exact structure_string. Qed.
Print Assumptions C02_structure_string.

Theorem C02_structure_string_text :
  forall ds strict user,
    wf_seq (all_skip user) false CTop ds [] = true ->
    Forall (fun t => TokInverse.shape t = true) (flat_list ds) ->
    TokInverse.follows_ok (flat_list ds) = true -> TokInverse.first_ok (flat_list ds) = true ->
    exists t', parse (render ds) strict user = Ok t' /\
               FixedPoint.expr_pos_sim (ERoot (map tree ds)) t' /\
               estr t' = estr (ERoot (map tree ds)).
Proof. exact structure_string_text. Qed.
Print Assumptions C02_structure_string_text.

(* --------------------------------------------------- C01, first sentence *)

(* parsing the source succeeds and the tree prints back the source exactly,
   when no argument group is preceded by a spacer and names are unpadded
   (`printable`, C02pp_printable) *)
Theorem C01_grammar_parses_and_roundtrips :
  forall ds strict user,
    wf_seq (all_skip user) false CTop ds [] = true -> forallb printable ds = true ->
    Forall (fun t => TokInverse.shape t = true) (flat_list ds) ->
    TokInverse.follows_ok (flat_list ds) = true -> TokInverse.first_ok (flat_list ds) = true ->
    exists t', parse (render ds) strict user = Ok t' /\ estr t' = render ds.
Proof. exact grammar_parses_and_roundtrips. Qed.
Print Assumptions C01_grammar_parses_and_roundtrips.

(* ------------------------------------------ the bridge: from the source *)

(* whenever the tokens of a source string can be grouped into a well-formed
   grammar document, the parse tree is that document's tree - literally,
   positions included (the tokens are the tokenizer's own).  No hypothesis on s
   at all: not even NUL/DEL-freeness or the absence of the index-0 quirk. *)
Theorem C02_structure_of_source :
  forall s ds strict user,
    fst (tokens_of_string s) = flat_list ds ->
    wf_seq (all_skip user) false CTop ds [] = true ->
    parse s strict user = Ok (ERoot (map tree ds)).
Proof. exact structure_of_source. Qed.
Print Assumptions C02_structure_of_source.

(* and for a NUL/DEL-free, quirk-free s the lexical hypotheses of
   C02_structure_string hold automatically, and s is the rendering: the
   string-level theorems are not vacuous, they apply to every grouping of
   tokenizer output *)
Theorem C02_source_lexical :
  forall s ds,
    TokInverse.clean s = true -> TokInverse.start_quirk s = false ->
    fst (tokens_of_string s) = flat_list ds ->
    render ds = s /\
    Forall (fun t => TokInverse.shape t = true) (flat_list ds) /\
    TokInverse.follows_ok (flat_list ds) = true /\ TokInverse.first_ok (flat_list ds) = true /\
    TokInverse.offsets_ok 0 (flat_list ds).
Proof. exact source_lexical. Qed.
Print Assumptions C02_source_lexical.

Theorem C01_source_parses_and_roundtrips :
  forall s ds strict user,
    TokInverse.clean s = true ->
    fst (tokens_of_string s) = flat_list ds ->
    wf_seq (all_skip user) false CTop ds [] = true -> forallb printable ds = true ->
    parse s strict user = Ok (ERoot (map tree ds)) /\ estr (ERoot (map tree ds)) = s.
Proof. exact source_parses_and_roundtrips. Qed.
Print Assumptions C01_source_parses_and_roundtrips.

(* ------------------------------------------- nothing more can be said *)

(* without offsets_ok, "up to positions" cannot be dropped: the hand-made
   document exP_doc = \begin{q}\a[x]{y}$z$\end{q}w, every token at offset 0 *)
Theorem C02_structure_string_literal_refuted :
  exists ds,
    wf_seq (all_skip []) false CTop ds [] = true /\ lexb (flat_list ds) = true /\
    parse (render ds) true [] <> Ok (ERoot (map tree ds)).
Proof. exact structure_string_literal_refuted. Qed.
Print Assumptions C02_structure_string_literal_refuted.

(* the lexical hypotheses cannot be dropped: two adjacent Text leaves `a` `b`
   are a well-formed grammar document whose text "ab" is ONE Text token *)
Theorem C02_structure_string_without_lexical_refuted :
  exists ds t',
    wf_seq (all_skip []) false CTop ds [] = true /\
    forallb TokInverse.shape (flat_list ds) = true /\ TokInverse.first_ok (flat_list ds) = true /\
    TokInverse.follows_ok (flat_list ds) = false /\
    parse (render ds) true [] = Ok t' /\ ~ FixedPoint.expr_pos_sim (ERoot (map tree ds)) t'.
Proof. exact structure_string_without_lexical_refuted. Qed.
Print Assumptions C02_structure_string_without_lexical_refuted.

(* `printable` cannot be dropped from the round trip (the known C01 defect):
   \a[x]{y \b{z}} {g $m_1$} t  parses to the grammar's tree, which prints
   \a[x]{y \b{z}}{g $m_1$} t - one character, the argument spacer, is lost *)
Theorem C01_grammar_without_printable_refuted :
  exists ds t',
    wf_seq (all_skip []) false CTop ds [] = true /\ lexb (flat_list ds) = true /\
    forallb printable ds = false /\
    parse (render ds) true [] = Ok t' /\ t' = ERoot (map tree ds) /\
    estr t' <> render ds /\ length (estr t') = Nat.pred (length (render ds)).
Proof. exact roundtrip_without_printable_refuted. Qed.
Print Assumptions C01_grammar_without_printable_refuted.

(* ------------------------------------------------------------ non-vacuity *)

(* what is computed for a source / document pair ... *)
Theorem C02string_ex_hyps : forall src doc,
  ex_hyps src doc =
  (TokInverse.clean src = true /\ TokInverse.start_quirk src = false /\
   fst (tokens_of_string src) = flat_list doc /\
   wf_seq (all_skip []) false CTop doc [] = true).
Proof. reflexivity. Qed.

(* ... and what the theorems above conclude from it (C02_source_lexical,
   C02_structure_of_source, C02_structure_string) *)
Theorem C02string_ex_concl : forall src doc,
  ex_concl src doc =
  (render doc = src /\ lexb (flat_list doc) = true /\
   TokInverse.offsets_ok 0 (flat_list doc) /\
   forall strict,
     parse src strict [] = Ok (ERoot (map tree doc)) /\
     parse (render doc) strict [] = Ok (ERoot (map tree doc)) /\
     exists t', parse (render doc) strict [] = Ok t' /\
                FixedPoint.expr_pos_sim (ERoot (map tree doc)) t').
Proof. reflexivity. Qed.

(* (C01_grammar_parses_and_roundtrips) *)
Theorem C02string_ex_roundtrips : forall src,
  ex_roundtrips src = forall strict, exists t', parse src strict [] = Ok t' /\ estr t' = src.
Proof. reflexivity. Qed.

Theorem C02string_ex_by_theorems : forall src doc, ex_hyps src doc -> ex_concl src doc.
Proof. exact ex_by_theorems. Qed.
Print Assumptions C02string_ex_by_theorems.

(* \a[x]{y \b{z}} {g $m_1$} t   (not printable: a spacer before an argument) *)
Example C02string_ex1 : ex_hyps ex1_src ex1_doc /\ ex_concl ex1_src ex1_doc.
Proof. exact ex1_string. Qed.

(* {a {b $c$}} \d[e]{f}g *)
Example C02string_ex2 :
  ex_hyps ex2_src ex2_doc /\ forallb printable ex2_doc = true /\
  ex_concl ex2_src ex2_doc /\ ex_roundtrips ex2_src.
Proof. exact ex2_string. Qed.

(* \begin{q}a\begin{r}b{c}$d$\end{r} \e{f}\end{q}z *)
Example C02string_ex3 :
  ex_hyps ex3_src ex3_doc /\ forallb printable ex3_doc = true /\
  ex_concl ex3_src ex3_doc /\ ex_roundtrips ex3_src.
Proof. exact ex3_string. Qed.

(* \begin{q}\item a $b$\item[x] c {\item d}\end{q}e *)
Example C02string_ex4 :
  ex_hyps ex4_src ex4_doc /\ forallb printable ex4_doc = true /\
  ex_concl ex4_src ex4_doc /\ ex_roundtrips ex4_src.
Proof. exact ex4_string. Qed.

(* \section[s]{t}\a{x}[y]{z}[w] \begin{tab}{ll}[h]\textbf{b}$\cup[$\end{tab} *)
Example C02string_ex5 :
  ex_hyps ex5_src ex5_doc /\ forallb printable ex5_doc = true /\
  ex_concl ex5_src ex5_doc /\ ex_roundtrips ex5_src.
Proof. exact ex5_string. Qed.

(* \begin{equation}a_1\cup[\frac{x}{y}\end{equation} *)
Example C02string_ex6 :
  ex_hyps ex6_src ex6_doc /\ forallb printable ex6_doc = true /\
  ex_concl ex6_src ex6_doc /\ ex_roundtrips ex6_src.
Proof. exact ex6_string. Qed.

(* a document that is NOT tokenizer output (every token records offset 0):
   \begin{q}\a[x]{y}$z$\end{q}w.  Hypotheses computed, conclusion by
   C02_structure_string and C01_grammar_parses_and_roundtrips; here TOKINV and
   POS do real work (C02_structure_string_literal_refuted is this document) *)
Example C02string_exP :
  (render exP_doc = exP_src /\
   wf_seq (all_skip []) false CTop exP_doc [] = true /\ forallb printable exP_doc = true /\
   lexb (flat_list exP_doc) = true) /\
  forall strict,
    exists t', parse exP_src strict [] = Ok t' /\
               FixedPoint.expr_pos_sim (ERoot (map tree exP_doc)) t' /\ estr t' = exP_src.
Proof. exact (conj exP_hyps exP_structure). Qed.
