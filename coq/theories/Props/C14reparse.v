(* C14, last sentence: "The change is visible to subsequent searches, and
   re-parsing the new text yields a tree that shows the same change."
   Statements only; proofs in Proofs/ReparseProofs.v.

   Setting.  `ds : list doc` is a document of the token-level grammar of
   Proofs/ReaderComplete.v (Props/C02pp.v explains `doc`, `flat_list`, `tree`,
   `wf_seq`, `printable`); its tree is `ERoot (map tree ds)`; by C02
   (`C02_structure_partial`) that IS the result of parsing its tokens.  The
   edits are those of Model/Edit.v (`set_name`, `set_string`, `set_args`,
   proved local on `estr` in Props/C14.v), addressed by the same raw paths
   (`SArg i` / `SBody i` steps).  An edit is mirrored on the document
   (`rename_docs`, `restring_docs`, `reargs_docs`), and three things are proved:
     (a) commutation: the tree of the edited document is the edited tree;
     (b) the edited document is still well-formed, under explicit decidable
         conditions on the new material (`rename_ok`, `restring_target`,
         `reargs_ok`);
     (c) hence (C02) re-parsing the edited TOKEN sequence yields exactly the
         edited tree, in both tolerance modes            [Stage 1]
     (d) the edited tokens are the serialised new text token by token, and
         when they are lexically what the tokenizer produces (`lex_ok`: TOKINV
         hypotheses) parsing the new TEXT yields the edited tree up to the
         recorded positions (`expr_pos_sim`)               [Stage 2]
     (e) the renamed node is found by a search for the new name and by no
         search for another name                           [Stage 3]
   Where a condition is dropped the statement is false: `_refuted` witnesses
   (all replayed on the real code, see the report). *)
From Coq Require Import List NArith ZArith Bool.
From TexModel Require Import Base Tables Chars Tokenizer Tree Reader Edit.
From TexModel Require Views.
From TexProofs Require Import ReaderLen ReaderTotal ReaderCons AttachProofs ReaderComplete.
From TexProofs Require TokInverse FixedPoint.
From TexProofs Require Import ReparseProofs.
Import ListNotations.

(* ------------------------------------------------------------ definitions *)

(* addressing a grammar document with the paths of Edit.v: a node is an
   element, an argument group or the root; `SArg i` selects the i-th argument
   group (for an environment: of the groups after the name group), `SBody i`
   the i-th element of the content list *)
Theorem C14r_addressing :
  (forall n i, dn_child n (SArg i) = option_map Na (nth_error (dn_args n) i)) /\
  (forall n i, dn_child n (SBody i) = option_map Nd (nth_error (dn_body n) i)) /\
  (forall n, dn_get n [] = Some n) /\
  (forall n s p, dn_get n (s :: p) =
                 match dn_child n s with Some c => dn_get c p | None => None end) /\
  (forall e n a, dn_args (Nd (DCmd e n a)) = a /\ dn_body (Nd (DCmd e n a)) = []) /\
  (forall e n a b, dn_args (Nd (DItem e n a b)) = a /\ dn_body (Nd (DItem e n a b)) = b) /\
  (forall e b ng xa body e2 en ng2,
     dn_args (Nd (DEnv e b ng xa body e2 en ng2)) = xa /\
     dn_body (Nd (DEnv e b ng xa body e2 en ng2)) = body) /\
  (forall o b c, dn_body (Nd (DGroup o b c)) = b) /\
  (forall k o b c, dn_body (Nd (DMath k o b c)) = b) /\
  (forall sp k o b c, dn_body (Na (Arg sp k o b c)) = b) /\
  (forall ds, dn_body (Nr ds) = ds).
Proof. repeat split. Qed.

(* the addressing is that of Edit.v on the tree *)
Theorem C14r_get_tree : forall p n, get (dn_tree n) p = option_map dn_tree (dn_get n p).
Proof. exact get_tree. Qed.
Theorem C14r_put_tree : forall p n x x',
  dn_get n p = Some x -> same_sort x x' ->
  exists n', dn_put n p x' = Some n' /\ same_sort n n' /\
             put (dn_tree n) p (dn_tree x') = Some (dn_tree n').
Proof. exact put_tree. Qed.

(* apply f to the element at path p *)
Theorem C14r_edit_docs : forall f p ds,
  edit_docs f p ds =
  match dn_get (Nr ds) p with
  | Some (Nd x) => match dn_put (Nr ds) p (Nd (f x)) with Some (Nr ds') => ds' | _ => ds end
  | _ => ds
  end.
Proof. reflexivity. Qed.

(* node.name = s: the name token of a command gets the text s; both name
   groups of an environment get the single Text token s *)
Theorem C14r_rename_node :
  (forall s e n args, rename_node s (DCmd e n args) = DCmd e (mkt s (tpos n) (tcat n)) args) /\
  (forall s e b sp k o bd c xa body e2 en sp2 k2 o2 bd2 c2,
     rename_node s (DEnv e b (Arg sp k o bd c) xa body e2 en (Arg sp2 k2 o2 bd2 c2)) =
     DEnv e b (Arg sp k o [DLeaf (mkt s (-1)%Z TText)] c) xa body e2 en
              (Arg sp2 k2 o2 [DLeaf (mkt s (-1)%Z TText)] c2)) /\
  (forall s p ds, rename_docs s p ds = edit_docs (rename_node s) p ds).
Proof. repeat split. Qed.

(* the conditions on a new name.
   command: unpadded, not item / begin / end, not a \newcommand-like command;
   the argument list as written is one the NEW signature reads completely
   (`cmd_shape`), and whatever may follow the command under the old signature
   may follow it under the new one (`follow_le`; both trivially true when the
   signature does not change); `name_ok n` restates that the old name was a
   plain one (true in every well-formed document).
   environment: unpadded, not read verbatim (SK = built-in + user skip list),
   and a math environment name exactly if the old name was one. *)
Theorem C14r_rename_ok :
  (forall SK s e n args,
     rename_ok SK s (DCmd e n args) =
     name_ok n && new_name_ok s && cmd_shape (signature_of s) args &&
     follow_le (signature_of (ttext n)) args (signature_of s) args) /\
  (forall SK s e b ng xa body e2 en ng2,
     rename_ok SK s (DEnv e b ng xa body e2 en ng2) =
     str_eqb (strip s) s && negb (mem_str s SK) &&
     Bool.eqb (mem_str s Tables.math_env_names) (mem_str (env_name ng) Tables.math_env_names)) /\
  (forall s, new_name_ok s =
     str_eqb (strip s) s &&
     negb (str_eqb s s_item) && negb (str_eqb s s_begin) && negb (str_eqb s s_end) &&
     negb (mem_str s Tables.special_commands)) /\
  (forall sg args sg' args',
     follow_le sg args sg' args' =
     forallb (fun q => match q with (a, b, c, d) =>
                implb (cmd_follow_b sg args a b c d) (cmd_follow_b sg' args' a b c d) end)
             follow_combos) /\
  (forall sg args, follow_le sg args sg args = true).
Proof. repeat split. apply follow_le_refl. Qed.

Theorem C14r_follow_le_sound : forall sg args sg' args' r,
  follow_le sg args sg' args' = true ->
  cmd_follow sg args r = true -> cmd_follow sg' args' r = true.
Proof. exact follow_le_sound. Qed.

(* node.string = s: the body of the single argument group of a command, or
   the content list of an environment, becomes the one Text token s
   (the token of Edit.text_of) *)
Theorem C14r_restring_node :
  (forall s e n sp k o b c,
     restring_node s (DCmd e n [Arg sp k o b c]) =
     DCmd e n [Arg sp k o [DLeaf (mkt s (-1)%Z TText)] c]) /\
  (forall s e b ng xa body e2 en ng2,
     restring_node s (DEnv e b ng xa body e2 en ng2) =
     DEnv e b ng xa [DLeaf (mkt s (-1)%Z TText)] e2 en ng2) /\
  (forall e n a, restring_target (DCmd e n [a]) = true) /\
  (forall e b ng xa body e2 en ng2, restring_target (DEnv e b ng xa body e2 en ng2) = true) /\
  (forall s p ds, restring_docs s p ds = edit_docs (restring_node s) p ds).
Proof. repeat split. Qed.

(* node.args = [node.args[i] for i in idxs] on a command; `drop` removes the
   spacers in front of the selected groups.  Conditions: no index twice, all
   in range, the new list is one the command's signature reads completely
   (brackets before braces in each of the two passes: a permutation can leave
   the grammar), and what followed the old list may follow the new one. *)
Theorem C14r_reargs_node :
  (forall drop idxs args,
     pick_args drop idxs args =
     match select args idxs with
     | Some a' => Some (if drop then map unspace a' else a')
     | None => None
     end) /\
  (forall sp k o b c, unspace (Arg sp k o b c) = Arg None k o b c) /\
  (forall drop idxs e n args,
     reargs_node drop idxs (DCmd e n args) =
     match pick_args drop idxs args with Some a' => DCmd e n a' | None => DCmd e n args end) /\
  (forall drop idxs e n args,
     reargs_ok drop idxs (DCmd e n args) =
     nodup_nat idxs &&
     match pick_args drop idxs args with
     | Some a' => cmd_shape (signature_of (ttext n)) a' &&
                  follow_le (signature_of (ttext n)) args (signature_of (ttext n)) a'
     | None => false
     end) /\
  (forall drop idxs p ds, reargs_docs drop idxs p ds = edit_docs (reargs_node drop idxs) p ds).
Proof. repeat split. Qed.

(* ------------------------------------------------- (a) commutation, per node *)

Theorem C14r_rename_commutes : forall s d,
  strip s = s ->
  (match d with DCmd _ _ _ | DEnv _ _ _ _ _ _ _ _ => true | _ => false end) = true ->
  rename (tree d) s = Done (tree (rename_node s d)).
Proof. exact rename_commutes. Qed.

Theorem C14r_restring_commutes : forall s d t',
  restring_target d = true -> restring (tree d) s = Done t' -> t' = tree (restring_node s d).
Proof. exact restring_commutes. Qed.

Theorem C14r_reargs_commutes : forall drop idxs d,
  reargs_ok drop idxs d = true ->
  reargs (tree d) idxs = Done (tree (reargs_node drop idxs d)).
Proof. exact reargs_commutes. Qed.

(* --------------------------------- Stage 1: re-parsing the edited tokens *)

(* C14_reparse_tokens, renaming: the tree edit of Edit.v succeeds and gives the
   tree of the edited document, which is well-formed, so that parsing its
   token sequence (strictly or tolerantly) yields exactly that tree *)
Theorem C14_reparse_tokens_rename :
  forall ds p x s strict user,
    wf_seq (all_skip user) false CTop ds [] = true ->
    dn_get (Nr ds) p = Some (Nd x) -> rename_ok (all_skip user) s x = true ->
    set_name (ERoot (map tree ds)) p s = Done (ERoot (map tree (rename_docs s p ds))) /\
    wf_seq (all_skip user) false CTop (rename_docs s p ds) [] = true /\
    parse_tokens (flat_list (rename_docs s p ds)) strict user =
      Ok (ERoot (map tree (rename_docs s p ds))).
Proof. exact reparse_rename_tokens. Qed.
Print Assumptions C14_reparse_tokens_rename.

(* assigning the string: whenever the assignment succeeds on the tree (always
   for a one-argument command; for an environment when its `contents` view is
   one text); no condition on s at token level *)
Theorem C14_reparse_tokens_restring :
  forall ds p x s t' strict user,
    wf_seq (all_skip user) false CTop ds [] = true ->
    dn_get (Nr ds) p = Some (Nd x) -> restring_target x = true ->
    set_string (ERoot (map tree ds)) p s = Done t' ->
    t' = ERoot (map tree (restring_docs s p ds)) /\
    wf_seq (all_skip user) false CTop (restring_docs s p ds) [] = true /\
    parse_tokens (flat_list (restring_docs s p ds)) strict user = Ok t'.
Proof. exact reparse_restring_tokens. Qed.
Print Assumptions C14_reparse_tokens_restring.

Theorem C14_reparse_tokens_reargs :
  forall ds p x drop idxs strict user,
    wf_seq (all_skip user) false CTop ds [] = true ->
    dn_get (Nr ds) p = Some (Nd x) -> reargs_ok drop idxs x = true ->
    set_args (ERoot (map tree ds)) p idxs =
      Done (ERoot (map tree (reargs_docs drop idxs p ds))) /\
    wf_seq (all_skip user) false CTop (reargs_docs drop idxs p ds) [] = true /\
    parse_tokens (flat_list (reargs_docs drop idxs p ds)) strict user =
      Ok (ERoot (map tree (reargs_docs drop idxs p ds))).
Proof. exact reparse_reargs_tokens. Qed.
Print Assumptions C14_reparse_tokens_reargs.

(* the conditions are forced.  "shows a different tree": the new text parses,
   prints as itself, but its root has another number of children *)
Theorem C14r_reparse_other_arity : forall t',
  reparse_other_arity t' <->
  exists t'', parse (estr t') true [] = Ok t'' /\ estr t'' = estr t' /\
              length (body_of t'') <> length (body_of t').
Proof. intro t'. reflexivity. Qed.

(* \section{a}{b}, section -> foo : \foo{a}{b} re-parses with TWO arguments *)
Theorem C14_rename_to_free_signature_refuted :
  exists ds p s t',
    tokens_of_string [92;115;101;99;116;105;111;110;123;97;125;123;98;125]%N = (flat_list ds, TEnd) /\
    wf_seq (all_skip []) false CTop ds [] = true /\ new_name_ok s = true /\
    set_name (ERoot (map tree ds)) p s = Done t' /\ reparse_other_arity t'.
Proof. exact rename_to_free_signature_refuted. Qed.
Print Assumptions C14_rename_to_free_signature_refuted.

(* \foo{a}{b}, foo -> section : \section{a}{b} re-parses with ONE argument *)
Theorem C14_rename_to_fixed_signature_refuted :
  exists ds p s t',
    tokens_of_string [92;102;111;111;123;97;125;123;98;125]%N = (flat_list ds, TEnd) /\
    wf_seq (all_skip []) false CTop ds [] = true /\ new_name_ok s = true /\
    set_name (ERoot (map tree ds)) p s = Done t' /\ reparse_other_arity t'.
Proof. exact rename_to_fixed_signature_refuted. Qed.
Print Assumptions C14_rename_to_fixed_signature_refuted.

(* \begin{e}\item x\end{e}, e -> equation : the new text does not parse *)
Theorem C14_rename_to_math_env_refuted :
  exists ds p s t',
    tokens_of_string
      [92;98;101;103;105;110;123;101;125;92;105;116;101;109;32;120;92;101;110;100;123;101;125]%N
      = (flat_list ds, TEnd) /\
    wf_seq (all_skip []) false CTop ds [] = true /\
    strip s = s /\ mem_str s (all_skip []) = false /\
    set_name (ERoot (map tree ds)) p s = Done t' /\
    parse (estr t') true [] = Err AssertionError.
Proof. exact rename_to_math_env_refuted. Qed.
Print Assumptions C14_rename_to_math_env_refuted.

(* \begin{e}x\end{e}, e -> verbatim : the body re-parses as raw text *)
Theorem C14_rename_to_skip_env_refuted :
  exists ds p s t' t'',
    tokens_of_string [92;98;101;103;105;110;123;101;125;120;92;101;110;100;123;101;125]%N
      = (flat_list ds, TEnd) /\
    wf_seq (all_skip []) false CTop ds [] = true /\
    strip s = s /\ mem_str s Tables.math_env_names = false /\
    set_name (ERoot (map tree ds)) p s = Done t' /\
    parse (estr t') true [] = Ok t'' /\
    first_child_is_raw t' = false /\ first_child_is_raw t'' = true.
Proof. exact rename_to_skip_env_refuted. Qed.
Print Assumptions C14_rename_to_skip_env_refuted.

(* \a[w]{x}[y]{z}, args rotated to {x}[y]{z}[w] : [w] is no longer read *)
Theorem C14_reargs_shape_refuted :
  exists ds p idxs t',
    tokens_of_string [92;97;91;119;93;123;120;125;91;121;93;123;122;125]%N = (flat_list ds, TEnd) /\
    wf_seq (all_skip []) false CTop ds [] = true /\ nodup_nat idxs = true /\
    set_args (ERoot (map tree ds)) p idxs = Done t' /\ reparse_other_arity t'.
Proof. exact reargs_shape_refuted. Qed.
Print Assumptions C14_reargs_shape_refuted.

(* \a[y]{x} [z], args swapped : \a{x}[y] [z] re-parses with [z] as third
   argument (shape fine, follow condition violated) *)
Theorem C14_reargs_follow_refuted :
  exists ds p idxs t',
    tokens_of_string [92;97;91;121;93;123;120;125;32;91;122;93]%N = (flat_list ds, TEnd) /\
    wf_seq (all_skip []) false CTop ds [] = true /\ nodup_nat idxs = true /\
    (match dn_get (Nr ds) p with
     | Some (Nd (DCmd _ n args)) =>
       match pick_args false idxs args with
       | Some a' => cmd_shape (signature_of (ttext n)) a'
       | None => false
       end
     | _ => false
     end = true) /\
    set_args (ERoot (map tree ds)) p idxs = Done t' /\
    parse_tokens (flat_list (reargs_docs false idxs p ds)) true [] <> Ok t'.
Proof. exact reargs_follow_refuted. Qed.
Print Assumptions C14_reargs_follow_refuted.

(* --------------------------------------------- Stage 2: the new text *)

(* the lexical conditions on the edited token list (all decidable): delimiter
   tokens carry their text, every token has the shape its rule produces,
   consecutive tokens do not fuse (maximal munch), no index-0 quirk:
   the hypotheses of TOKINV (Proofs/TokInverse.v) *)
Theorem C14r_lex_ok : forall toks,
  lex_ok toks = forallb tok_wfb toks && forallb TokInverse.shape toks &&
                TokInverse.follows_ok toks && TokInverse.first_ok toks.
Proof. reflexivity. Qed.

(* any well-formed printable document with lexically sound tokens: its tree
   prints as its tokens, the text tokenizes back to them (positions
   recomputed), and parses to the tree up to recorded positions *)
Theorem C14_reparse_string_generic :
  forall ds strict user,
    wf_seq (all_skip user) false CTop ds [] = true ->
    forallb printable ds = true -> Forall tok_wf (flat_list ds) ->
    Forall (fun t => TokInverse.shape t = true) (flat_list ds) ->
    TokInverse.follows_ok (flat_list ds) = true -> TokInverse.first_ok (flat_list ds) = true ->
    estr (ERoot (map tree ds)) = texts (flat_list ds) /\
    tokens_of_string (estr (ERoot (map tree ds))) = (TokInverse.repos 0 (flat_list ds), TEnd) /\
    exists t'', parse (estr (ERoot (map tree ds))) strict user = Ok t'' /\
                FixedPoint.expr_pos_sim (ERoot (map tree ds)) t''.
Proof. exact reparse_string_generic. Qed.
Print Assumptions C14_reparse_string_generic.

(* C14_reparse_string_partial: re-parsing the new TEXT yields the edited tree
   up to recorded positions.  Partial: for documents of the grammar, under the
   Stage 1 conditions, printable (no spacer before an argument group) and
   `lex_ok` of the edited token list *)
Theorem C14_reparse_string_partial_rename :
  forall ds p x s strict user,
    wf_seq (all_skip user) false CTop ds [] = true ->
    dn_get (Nr ds) p = Some (Nd x) -> rename_ok (all_skip user) s x = true ->
    forallb printable (rename_docs s p ds) = true ->
    lex_ok (flat_list (rename_docs s p ds)) = true ->
    exists t', set_name (ERoot (map tree ds)) p s = Done t' /\
      estr t' = texts (flat_list (rename_docs s p ds)) /\
      exists t'', parse (estr t') strict user = Ok t'' /\ FixedPoint.expr_pos_sim t' t''.
Proof. exact reparse_rename_string. Qed.
Print Assumptions C14_reparse_string_partial_rename.

Theorem C14_reparse_string_partial_restring :
  forall ds p x s t' strict user,
    wf_seq (all_skip user) false CTop ds [] = true ->
    dn_get (Nr ds) p = Some (Nd x) -> restring_target x = true ->
    set_string (ERoot (map tree ds)) p s = Done t' ->
    forallb printable (restring_docs s p ds) = true ->
    lex_ok (flat_list (restring_docs s p ds)) = true ->
    estr t' = texts (flat_list (restring_docs s p ds)) /\
    exists t'', parse (estr t') strict user = Ok t'' /\ FixedPoint.expr_pos_sim t' t''.
Proof. exact reparse_restring_string. Qed.
Print Assumptions C14_reparse_string_partial_restring.

Theorem C14_reparse_string_partial_reargs :
  forall ds p x drop idxs strict user,
    wf_seq (all_skip user) false CTop ds [] = true ->
    dn_get (Nr ds) p = Some (Nd x) -> reargs_ok drop idxs x = true ->
    forallb printable (reargs_docs drop idxs p ds) = true ->
    lex_ok (flat_list (reargs_docs drop idxs p ds)) = true ->
    exists t', set_args (ERoot (map tree ds)) p idxs = Done t' /\
      estr t' = texts (flat_list (reargs_docs drop idxs p ds)) /\
      exists t'', parse (estr t') strict user = Ok t'' /\ FixedPoint.expr_pos_sim t' t''.
Proof. exact reparse_reargs_string. Qed.
Print Assumptions C14_reparse_string_partial_reargs.

(* --------------------------------------------- Stage 3: searches *)

(* after node.name = s at a raw path that ends with a content step: a search
   for s finds the renamed node; a search for another identifier does not
   return it *)
Theorem C14_rename_visible :
  forall root np h s root',
    get root np = Some h -> ends_in_body np = true ->
    set_name root np s = Done root' -> Views.ident_query s = true ->
    exists h', rename h s = Done h' /\ get root' np = Some h' /\ Views.expr_name h' = s /\
      In h' (map snd (Views.find_all (Views.QName s) ([], root'))) /\
      forall q, Views.ident_query q = true -> q <> s ->
                ~ In h' (map snd (Views.find_all (Views.QName q) ([], root'))).
Proof. exact rename_visible. Qed.
Print Assumptions C14_rename_visible.

(* ------------------------------------------------------------ non-vacuity *)

(* {\begin{e}x\a{y}\end{e}}z : rename \a (path body 0 / body 0 / body 1) to
   zz, and the environment e (path body 0 / body 0) to ff *)
Example C14r_exA :
  exA_src = [123;92;98;101;103;105;110;123;101;125;120;92;97;123;121;125;92;101;110;100;123;101;125;125;122]%N /\
  tokens_of_string exA_src = (flat_list exA_doc, TEnd) /\
  wf_seq (all_skip []) false CTop exA_doc [] = true /\
  match dn_get (Nr exA_doc) exA_cmd_path with
  | Some (Nd x) => rename_ok (all_skip []) [122;122]%N x = true
  | _ => False
  end /\
  match dn_get (Nr exA_doc) exA_env_path with
  | Some (Nd x) => rename_ok (all_skip []) [102;102]%N x = true
  | _ => False
  end /\
  (* \zz: the edited tokens spell the new text, and parse to the edited tree *)
  texts (flat_list (rename_docs [122;122]%N exA_cmd_path exA_doc)) =
    [123;92;98;101;103;105;110;123;101;125;120;92;122;122;123;121;125;92;101;110;100;123;101;125;125;122]%N /\
  forallb printable (rename_docs [122;122]%N exA_cmd_path exA_doc) = true /\
  lex_ok (flat_list (rename_docs [122;122]%N exA_cmd_path exA_doc)) = true /\
  (* ff *)
  texts (flat_list (rename_docs [102;102]%N exA_env_path exA_doc)) =
    [123;92;98;101;103;105;110;123;102;102;125;120;92;97;123;121;125;92;101;110;100;123;102;102;125;125;122]%N /\
  forallb printable (rename_docs [102;102]%N exA_env_path exA_doc) = true /\
  lex_ok (flat_list (rename_docs [102;102]%N exA_env_path exA_doc)) = true.
Proof. repeat split; vm_compute; reflexivity. Qed.

(* a\emph{x}b : string of \emph := yy;  \begin{e}x\end{e}w : string of e := new *)
Example C14r_exB :
  exB_src = [97;92;101;109;112;104;123;120;125;98]%N /\
  tokens_of_string exB_src = (flat_list exB_doc, TEnd) /\
  wf_seq (all_skip []) false CTop exB_doc [] = true /\
  match dn_get (Nr exB_doc) exB_path with Some (Nd x) => restring_target x = true | _ => False end /\
  set_string (ERoot (map tree exB_doc)) exB_path [121;121]%N =
    Done (ERoot (map tree (restring_docs [121;121]%N exB_path exB_doc))) /\
  texts (flat_list (restring_docs [121;121]%N exB_path exB_doc)) =
    [97;92;101;109;112;104;123;121;121;125;98]%N /\
  forallb printable (restring_docs [121;121]%N exB_path exB_doc) = true /\
  lex_ok (flat_list (restring_docs [121;121]%N exB_path exB_doc)) = true /\
  exD_src = [92;98;101;103;105;110;123;101;125;120;92;101;110;100;123;101;125;119]%N /\
  tokens_of_string exD_src = (flat_list exD_doc, TEnd) /\
  wf_seq (all_skip []) false CTop exD_doc [] = true /\
  match dn_get (Nr exD_doc) exD_path with Some (Nd x) => restring_target x = true | _ => False end /\
  set_string (ERoot (map tree exD_doc)) exD_path [110;101;119]%N =
    Done (ERoot (map tree (restring_docs [110;101;119]%N exD_path exD_doc))) /\
  texts (flat_list (restring_docs [110;101;119]%N exD_path exD_doc)) =
    [92;98;101;103;105;110;123;101;125;110;101;119;92;101;110;100;123;101;125;119]%N /\
  forallb printable (restring_docs [110;101;119]%N exD_path exD_doc) = true /\
  lex_ok (flat_list (restring_docs [110;101;119]%N exD_path exD_doc)) = true.
Proof. repeat split; vm_compute; reflexivity. Qed.

(* \a{x}{y}z : the two brace arguments reversed *)
Example C14r_exC :
  exC_src = [92;97;123;120;125;123;121;125;122]%N /\
  tokens_of_string exC_src = (flat_list exC_doc, TEnd) /\
  wf_seq (all_skip []) false CTop exC_doc [] = true /\
  match dn_get (Nr exC_doc) exC_path with
  | Some (Nd x) => reargs_ok false [1; 0]%nat x = true
  | _ => False
  end /\
  texts (flat_list (reargs_docs false [1; 0]%nat exC_path exC_doc)) =
    [92;97;123;121;125;123;120;125;122]%N /\
  forallb printable (reargs_docs false [1; 0]%nat exC_path exC_doc) = true /\
  lex_ok (flat_list (reargs_docs false [1; 0]%nat exC_path exC_doc)) = true.
Proof. repeat split; vm_compute; reflexivity. Qed.

(* searches on the renamed tree of exA *)
Example C14r_exA_visible :
  ends_in_body exA_cmd_path = true /\ Views.ident_query [122;122]%N = true /\
  (exists h, get (ERoot (map tree exA_doc)) exA_cmd_path = Some h) /\
  match set_name (ERoot (map tree exA_doc)) exA_cmd_path [122;122]%N with
  | Done r => map fst (Views.find_all (Views.QName [122;122]%N) ([], r)) = [[0; 0; 1]]%nat /\
              Views.find_all (Views.QName [97]%N) ([], r) = []
  | _ => False
  end.
Proof.
  split; [reflexivity|]. split; [reflexivity|].
  split; [eexists; vm_compute; reflexivity|]. vm_compute. split; reflexivity.
Qed.

(* ------- Stage 2, conditions on the OLD token list (renaming a command) *)

(* an edit at a path replaces exactly the token segment of the addressed
   element *)
Theorem C14r_edit_tokens_local : forall f ds p x,
  dn_get (Nr ds) p = Some (Nd x) ->
  exists pre post, flat_list ds = pre ++ flat x ++ post /\
                   flat_list (edit_docs f p ds) = pre ++ flat (f x) ++ post.
Proof. exact edit_tokens_local. Qed.
Print Assumptions C14r_edit_tokens_local.

(* `printable` survives an edit that puts a printable element in place *)
Theorem C14r_edit_printable : forall f ds p x,
  forallb printable ds = true -> dn_get (Nr ds) p = Some (Nd x) ->
  printable x = true /\
  (printable (f x) = true -> forallb printable (edit_docs f p ds) = true).
Proof. exact edit_printable. Qed.
Theorem C14r_rename_printable : forall s x,
  strip s = s -> printable x = true -> printable (rename_node s x) = true.
Proof. exact rename_printable. Qed.
Theorem C14r_restring_printable : forall s x,
  printable x = true -> printable (restring_node s x) = true.
Proof. exact restring_printable. Qed.

(* `nosize t`: t is not a CommandName token whose text is the letter part of
   a sizing command (left, right, big, Big, bigg, Bigg) *)
Theorem C14r_nosize : forall t,
  nosize t = negb (tc_beq (tcat t) TCommandName) ||
             negb (mem_str (ttext t) TokInverse.sizing_prefixes).
Proof. reflexivity. Qed.

(* the tokenizer's follow conditions are local for such tokens: a suffix A of
   the token list can be replaced by B when both start with the same
   character and the same kind of token *)
Theorem C14r_follows_ok_splice : forall pre A B,
  Forall (fun t => TokInverse.shape t = true) pre -> forallb nosize pre = true ->
  hd_error (TokInverse.texts A) = hd_error (TokInverse.texts B) ->
  (forall e, TokInverse.pre_ok e A = TokInverse.pre_ok e B) ->
  TokInverse.follows_ok (pre ++ A) = true -> TokInverse.follows_ok B = true ->
  TokInverse.follows_ok (pre ++ B) = true.
Proof. exact follows_ok_splice. Qed.
Print Assumptions C14r_follows_ok_splice.

(* a renamed CommandName token keeps shape / follow: the new name has the
   shape of a command name and is not a sizing prefix *)
Theorem C14r_rename_follows : forall e n s post,
  tcat e = TEscape -> tcat n = TCommandName ->
  TokInverse.shape n = true -> TokInverse.shape (mkt s (tpos n) (tcat n)) = true ->
  mem_str s TokInverse.sizing_prefixes = false ->
  TokInverse.follows_ok (e :: n :: post) = true ->
  TokInverse.follows_ok (e :: mkt s (tpos n) (tcat n) :: post) = true.
Proof. exact rename_follows. Qed.
Print Assumptions C14r_rename_follows.

(* C14_reparse_string_partial for the renaming of a command, every lexical
   hypothesis stated on the old token list and the new name; of the new list
   only the index-0 quirk (`first_ok`) is asked *)
Theorem C14_reparse_string_partial_rename_cmd :
  forall ds p e n args s strict user,
    wf_seq (all_skip user) false CTop ds [] = true ->
    dn_get (Nr ds) p = Some (Nd (DCmd e n args)) ->
    rename_ok (all_skip user) s (DCmd e n args) = true ->
    forallb printable ds = true -> Forall tok_wf (flat_list ds) ->
    Forall (fun t => TokInverse.shape t = true) (flat_list ds) ->
    TokInverse.follows_ok (flat_list ds) = true -> forallb nosize (flat_list ds) = true ->
    tcat e = TEscape -> tcat n = TCommandName ->
    TokInverse.shape (mkt s (tpos n) (tcat n)) = true ->
    mem_str s TokInverse.sizing_prefixes = false ->
    TokInverse.first_ok (flat_list (rename_docs s p ds)) = true ->
    exists t', set_name (ERoot (map tree ds)) p s = Done t' /\
      estr t' = texts (flat_list (rename_docs s p ds)) /\
      exists t'', parse (estr t') strict user = Ok t'' /\ FixedPoint.expr_pos_sim t' t''.
Proof. exact reparse_rename_cmd_string_old. Qed.
Print Assumptions C14_reparse_string_partial_rename_cmd.

Example C14r_exA_old_hyps :
  forallb printable exA_doc = true /\ forallb tok_wfb (flat_list exA_doc) = true /\
  forallb TokInverse.shape (flat_list exA_doc) = true /\
  TokInverse.follows_ok (flat_list exA_doc) = true /\
  forallb nosize (flat_list exA_doc) = true /\
  match dn_get (Nr exA_doc) exA_cmd_path with
  | Some (Nd (DCmd e n args)) =>
    tcat e = TEscape /\ tcat n = TCommandName /\
    TokInverse.shape (mkt [122;122]%N (tpos n) (tcat n)) = true
  | _ => False
  end /\
  mem_str [122;122]%N TokInverse.sizing_prefixes = false /\
  TokInverse.first_ok (flat_list (rename_docs [122;122]%N exA_cmd_path exA_doc)) = true.
Proof. exact exA_rename_cmd_old_hyps. Qed.

(* both sizing conditions are forced: Stage 1 holds, the string level fails *)
(* \left\lang, lang -> langle : \left\langle is ONE sizing command *)
Theorem C14_rename_sizing_context_refuted :
  exists ds p x s t' t'',
    tokens_of_string [92;108;101;102;116;92;108;97;110;103]%N = (flat_list ds, TEnd) /\
    wf_seq (all_skip []) false CTop ds [] = true /\
    dn_get (Nr ds) p = Some (Nd x) /\ rename_ok (all_skip []) s x = true /\
    forallb printable ds = true /\ lex_ok (flat_list ds) = true /\
    mem_str s TokInverse.sizing_prefixes = false /\
    set_name (ERoot (map tree ds)) p s = Done t' /\
    parse_tokens (flat_list (rename_docs s p ds)) true [] = Ok t' /\
    parse (estr t') true [] = Ok t'' /\ ~ FixedPoint.expr_pos_sim t' t''.
Proof. exact rename_sizing_context_refuted. Qed.
Print Assumptions C14_rename_sizing_context_refuted.

(* \a(x), a -> left : \left(x) starts with the sizing command "left(" *)
Theorem C14_rename_to_sizing_prefix_refuted :
  exists ds p x s t' t'',
    tokens_of_string [92;97;40;120;41]%N = (flat_list ds, TEnd) /\
    wf_seq (all_skip []) false CTop ds [] = true /\
    dn_get (Nr ds) p = Some (Nd x) /\ rename_ok (all_skip []) s x = true /\
    forallb printable ds = true /\ lex_ok (flat_list ds) = true /\
    forallb nosize (flat_list ds) = true /\
    set_name (ERoot (map tree ds)) p s = Done t' /\
    parse_tokens (flat_list (rename_docs s p ds)) true [] = Ok t' /\
    parse (estr t') true [] = Ok t'' /\ ~ FixedPoint.expr_pos_sim t' t''.
Proof. exact rename_to_sizing_prefix_refuted. Qed.
Print Assumptions C14_rename_to_sizing_prefix_refuted.
