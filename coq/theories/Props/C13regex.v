(* C13, clause 3: "every match reported by search_regex carries the source
   offset at which the matched text actually occurs".
   Statements only; model in Model/Regex.v, proofs in Proofs/RegexProofs.v.

   The regular-expression engine is not modelled: `re.finditer(pattern, .)` is
   the universally quantified function [finditer : str -> list (nat * str)]
   (for a string: the (match.start(), match.group()) pairs in the order the
   engine yields them).  Its documented contract -- match.group() is the text
   standing at match.start() -- appears as an explicit hypothesis of the offset
   theorems; it is not an axiom, and `find_literal` (the engine the harness
   runs, re.finditer(re.escape(pat), .)) is proved to satisfy it.

   Vocabulary
     search_regex finditer n   (Model/Regex.v) the pair (matches yielded, how
                               the generator ended); a match is
                               (body, Some offset) = Token(body, offset)
     leaves e                  (Model/Views.v) the non-blank string leaves of e
                               in document order: [ERaw s p] a Token with text
                               s at position p, [EStr s] a plain str
                               (= map snd (text n): ViewsProofs.text_is_leaves_in_order)
     leaf_hits finditer x      (Proofs/RegexProofs.v) for x = ERaw s p:
                               [(body, Some (p + start)) | (start, body) <- finditer s]
     slice s q n               (Proofs/TokProofs.v) s[q : q+n]
     item_in x t               (Proofs/NodeProofs.v) x is a content item of t
                               at any depth

   Results
     C13_search_regex_leafwise            exact characterisation, no hypothesis
     C13_search_regex_offsets             the clause, for every source without
                                          NUL/DEL, any mode: no hygiene hypothesis
     C13_search_regex_offsets_hyp         the same under the hypotheses of
                                          C01/node_slices, plus: no exception
     C13_search_regex_offsets_tokens      unconditional: true of every match not
                                          found inside a raw verbatim body
     C13_search_regex_offsets_raw_body_refuted   the NUL/DEL hypothesis is needed
                                          (verbatim body with a DEL; same on the code)
     C13_search_regex_no_error            no bare-token argument => never raises
     C13_search_regex_total_refuted       `a \textbf b`, "b": AttributeError
                                          (same on the code)                       *)
From Coq Require Import List NArith ZArith Bool.
From TexModel Require Import Base Tables Chars Tokenizer Tree Reader Views Regex.
From TexProofs Require Import TokProofs ReaderLen ReaderCons ConsTop ConsBridge NodeProofs
     ViewsProofs RegexProofs.
Import ListNotations.

(* the reported matches are exactly, leaf by leaf over the string leaves of
   the tree in document order, the engine's matches with the leaf's position
   added to their start; the generator raises AttributeError at the first
   plain-str leaf in which the engine finds something (having yielded the
   matches of all leaves before it), and ends normally otherwise *)
Theorem C13_search_regex_leafwise :
  forall (finditer : str -> list (nat * str)) (n : item),
    (exists pre s post, leaves (snd n) = pre ++ EStr s :: post /\ finditer s <> [] /\
       (forall s', In (EStr s') pre -> finditer s' = []) /\
       search_regex finditer n = (flat_map (leaf_hits finditer) pre, Some AttributeError)) \/
    ((forall s, In (EStr s) (leaves (snd n)) -> finditer s = []) /\
     search_regex finditer n = (flat_map (leaf_hits finditer) (leaves (snd n)), None)).
Proof. exact search_regex_leafwise. Qed.
Print Assumptions C13_search_regex_leafwise.

(* the clause: the source has no NUL/DEL character (the characters the
   tokenizer drops); strict or tolerant mode, any user skip list, nothing
   else assumed.  Every match reported at the root occurs in the SOURCE at
   the reported offset. *)
Theorem C13_search_regex_offsets :
  forall (finditer : str -> list (nat * str)),
    (forall leaf start body, In (start, body) (finditer leaf) ->
                             firstn (length body) (skipn start leaf) = body) ->
    forall (s : str) (strict : bool) (user : list str) (t : expr),
      parse s strict user = Ok t ->
      Forall (fun c => ign c = false) (categorize s) ->
      forall body q, In (body, Some q) (fst (search_regex finditer ([], t))) ->
        (0 <= q)%Z /\ slice s q (length body) = body.
Proof. exact search_regex_offsets. Qed.
Print Assumptions C13_search_regex_offsets.

(* under the hypotheses of C01 / node_slices (the property's own grammar) the
   generator moreover ends without an exception *)
Theorem C13_search_regex_offsets_hyp :
  forall (finditer : str -> list (nat * str)),
    (forall leaf start body, In (start, body) (finditer leaf) ->
                             firstn (length body) (skipn start leaf) = body) ->
    forall (s : str) (user : list str) (t : expr),
      parse s true user = Ok t ->
      hypb (all_skip user) (fst (tokens_of_string s)) = true ->
      nobare t = true ->
      no_arg_spacer (fst (tokens_of_string s)) = true ->
      Forall (fun c => ign c = false) (categorize s) ->
      snd (search_regex finditer ([], t)) = None /\
      forall body q, In (body, Some q) (fst (search_regex finditer ([], t))) ->
        (0 <= q)%Z /\ slice s q (length body) = body.
Proof. exact search_regex_offsets_hyp. Qed.
Print Assumptions C13_search_regex_offsets_hyp.

(* unconditional (any source at all): a reported match occurs in the source
   at the reported offset, unless it was found inside the raw body of a
   verbatim-like environment *)
Theorem C13_search_regex_offsets_tokens :
  forall (finditer : str -> list (nat * str)),
    (forall leaf start body, In (start, body) (finditer leaf) ->
                             firstn (length body) (skipn start leaf) = body) ->
    forall (s : str) (strict : bool) (user : list str) (t : expr),
      parse s strict user = Ok t ->
      forall body q, In (body, Some q) (fst (search_regex finditer ([], t))) ->
        ((0 <= q)%Z /\ slice s q (length body) = body) \/
        (exists raw p start, item_in (ERaw raw p) t /\ In (start, body) (finditer raw) /\
                             q = (p + Z.of_nat start)%Z).
Proof. exact search_regex_offsets_tokens. Qed.
Print Assumptions C13_search_regex_offsets_tokens.

(* ... and that exception is real: with the literal engine (which satisfies
   the contract, next theorem),  \begin{verbatim}}<DEL>b\end{verbatim}  and
   the pattern "b": offset 17 is reported, where the source has the DEL *)
Theorem C13_search_regex_offsets_raw_body_refuted :
  exists (s : str) t body q,
    parse s true [] = Ok t /\
    In (body, Some q) (fst (search_regex (find_literal [98]%N) ([], t))) /\
    slice s q (length body) <> body.
Proof. exact search_regex_offsets_raw_body_refuted. Qed.
Print Assumptions C13_search_regex_offsets_raw_body_refuted.

Theorem C13_find_literal_contract :
  forall (pat leaf : str) (start : nat) (body : str),
    In (start, body) (find_literal pat leaf) ->
    firstn (length body) (skipn start leaf) = body.
Proof. exact find_literal_contract. Qed.
Print Assumptions C13_find_literal_contract.

(* every reported match carries a position, and every item search_regex
   iterates over is a Token or a plain str (the TexText / non-str branches of
   Regex.leaf_matches are unreachable) *)
Theorem C13_search_regex_positions_present :
  forall (finditer : str -> list (nat * str)) (n : item) body o,
    In (body, o) (fst (search_regex finditer n)) -> exists q, o = Some q.
Proof. exact search_regex_positions_present. Qed.
Print Assumptions C13_search_regex_positions_present.

Theorem C13_text_items_are_strings :
  forall (n : item) (it : item), In it (text n) ->
    (exists s p, snd it = ERaw s p) \/ (exists s, snd it = EStr s).
Proof. exact text_items_are_strings. Qed.
Print Assumptions C13_text_items_are_strings.

(* a tree without bare-token arguments: the generator never raises *)
Theorem C13_search_regex_no_error :
  forall (finditer : str -> list (nat * str)) (n : item),
    nobare (snd n) = true ->
    search_regex finditer n = (flat_map (leaf_hits finditer) (leaves (snd n)), None).
Proof. exact search_regex_no_error. Qed.
Print Assumptions C13_search_regex_no_error.

(* outside that grammar it does: `a \textbf b`, pattern "b" *)
Theorem C13_search_regex_total_refuted :
  exists (s : str) t,
    parse s true [] = Ok t /\
    search_regex (find_literal [98]%N) ([], t) = ([], Some AttributeError).
Proof. exact search_regex_total_refuted. Qed.
Print Assumptions C13_search_regex_total_refuted.

(* non-vacuity:  ab \begin{verbatim} ab $x$ab\end{verbatim} abab aba
   satisfies every hypothesis above; "ab" is reported at 0, 20, 26 (inside
   the verbatim body), 43, 45, 48 -- as the code does *)
Example C13_search_regex_example :
  let s := [97; 98; 32; 92; 98; 101; 103; 105; 110; 123; 118; 101; 114; 98; 97; 116; 105; 109;
            125; 32; 97; 98; 32; 36; 120; 36; 97; 98; 92; 101; 110; 100; 123; 118; 101; 114;
            98; 97; 116; 105; 109; 125; 32; 97; 98; 97; 98; 32; 97; 98; 97]%N in
  exists t, parse s true [] = Ok t /\
    hypb (all_skip []) (fst (tokens_of_string s)) = true /\
    nobare t = true /\ no_arg_spacer (fst (tokens_of_string s)) = true /\
    forallb (fun c => negb (ign c)) (categorize s) = true /\
    search_regex (find_literal [97; 98]%N) ([], t) =
      (map (fun q => ([97; 98]%N, Some q)) [0; 20; 26; 43; 45; 48]%Z, None).
Proof.
  eexists. do 5 (split; [vm_compute; reflexivity|]). vm_compute. reflexivity.
Qed.
