(* C14gen  The model of the three setters is the translated source.

   Model/EditGen.v is regenerated on every run from the Python abstract syntax of
     TexNode.name / args / string / contents (setters; name and args also getters),
     TexExpr.string / contents (setters)
   of TexSoup/data.py (harness/gen_edit.py, fail-closed); Model/EditDSL.v gives the
   generated bodies their meaning.  Vocabulary as in Props/C05gen.v:
     node_store np ms = (RIn np 0, PUnknown) :: ms     wrapper 0 is the node at path np
     run recv m args st      interpret the translated body; compared are the outcome class,
                             the returned value and the tree
     M_set a                 the setter of property a:  node.a = value
     VNewArgs [at_ (np ++ [SArg i]) | i in idxs]
                             a TexArgs object made of the argument objects number idxs of
                             this very node (TexArgs([node.args[i] for i in idxs]))
   Assigning `name` or `args` on a TexExpr is a plain attribute store (no class of the
   hierarchy defines such a property: the translator checks); `string` and `contents` go
   through the translated setters of TexExpr; TexText(x) wraps (Edit.text_of).
   Statements only; proofs are in Proofs/EditGenProofs.v. *)
From Coq Require Import List NArith ZArith Bool.
From TexModel Require Import Base Tables Chars Tokenizer Tree Reader Edit EditDSL EditGen.
From TexProofs Require Import EditProofs EditGenProofs.
Import ListNotations.
Local Open Scope Z_scope.

(* node.name = s, on a command or a named environment (the classes whose name the model
   carries; Edit.rename is `outside the model` elsewhere) *)
Theorem C14gen_set_name : forall root ms np h s,
  get root np = Some h ->
  match h with ECmd _ _ _ _ | ENamed _ _ _ _ => True | _ => False end ->
  run (VNode 0) (M_set A_name) [VStr s] (init root (node_store np ms)) = of_tree root (set_name root np s).
Proof. exact run_set_name. Qed.
Print Assumptions C14gen_set_name.

(* node.args = TexArgs([node.args[i] for i in idxs]), the guards of Edit.set_args / C14 *)
Theorem C14gen_set_args : forall root ms np h idxs a',
  get root np = Some h -> has_args h = true -> nodup_nat idxs = true ->
  select (args_of h) idxs = Some a' ->
  run (VNode 0) (M_set A_args) [VNewArgs (map (fun i => at_ (np ++ [SArg i])) idxs)]
      (init root (node_store np ms))
  = of_tree root (set_args root np idxs).
Proof. exact run_set_args. Qed.
Print Assumptions C14gen_set_args.

(* node.string = s on a command: AssertionError unless it has exactly one argument; that
   argument must be a TexCmd/TexEnv object (always so: TexArgs) *)
Theorem C14gen_set_string_cmd : forall root ms np nm a b q s,
  get root np = Some (ECmd nm a b q) -> (forall a0, a = [a0] -> is_node a0 = true) ->
  run (VNode 0) (M_set A_string) [VStr s] (init root (node_store np ms))
  = of_tree root (set_string root np s).
Proof. exact run_set_string_cmd. Qed.
Print Assumptions C14gen_set_string_cmd.

(* node.string = s on an environment / group / the root: AssertionError unless its contents
   view is exactly one text *)
Theorem C14gen_set_string_env : forall root ms np h s,
  get root np = Some h -> is_env h = true ->
  run (VNode 0) (M_set A_string) [VStr s] (init root (node_store np ms))
  = of_tree root (set_string root np s).
Proof. exact run_set_string_env. Qed.
Print Assumptions C14gen_set_string_env.

(* expr.string = s  and  expr.contents = [v]  (v the str s or a TexText of s), for every
   state in which r is a usable reference to the TexCmd/TexEnv object h at path p *)
Theorem C14gen_expr_set_string : forall n st r p h s,
  live st r p h -> is_node h = true ->
  exists t, put (s_root st) p (set_body h [text_of s]) = Some t /\
    call (S (S n)) gen_e_tbl (VExpr r) (M_set A_string) [VStr s] st
    = ODone (after_body st p t) (RVal VNone).
Proof. exact gen_expr_set_string_ok. Qed.
Print Assumptions C14gen_expr_set_string.

Theorem C14gen_expr_set_contents : forall n st r p h v s,
  live st r p h -> is_node h = true -> (v = VStr s \/ v = VExpr (ROut (text_of s))) ->
  exists t, put (s_root st) p (set_body h [text_of s]) = Some t /\
    call (S n) gen_e_tbl (VExpr r) (M_set A_contents) [VList [v]] st
    = ODone (after_body st p t) (RVal VNone).
Proof. exact gen_expr_set_contents_one. Qed.
Print Assumptions C14gen_expr_set_contents.

(* ----------------------------------- the C14 theorems, of the translated source *)
Theorem C14gen_rename_cmd_local : forall root ms np nm a b p s,
  get root np = Some (ECmd nm a b p) ->
  exists root',
    run (VNode 0) (M_set A_name) [VStr s] (init root (node_store np ms)) = GDone root' VNone /\
    estr root' = ctx_pre root np ++ (backslash :: s ++ estr_list a ++ estr_list b) ++ ctx_post root np.
Proof. exact gen_C14_rename_cmd. Qed.
Print Assumptions C14gen_rename_cmd_local.

Theorem C14gen_rename_env_local : forall root ms np nm a b p s,
  get root np = Some (ENamed nm a b p) ->
  exists root',
    run (VNode 0) (M_set A_name) [VStr s] (init root (node_store np ms)) = GDone root' VNone /\
    estr root' = ctx_pre root np ++ (env_begin s ++ estr_list a ++ estr_list b ++ env_end s)
                   ++ ctx_post root np.
Proof. exact gen_C14_rename_env. Qed.
Print Assumptions C14gen_rename_env_local.

Theorem C14gen_set_string_cmd_local : forall root ms np nm a0 b p s,
  get root np = Some (ECmd nm [a0] b p) -> is_node a0 = true ->
  exists root',
    run (VNode 0) (M_set A_string) [VStr s] (init root (node_store np ms)) = GDone root' VNone /\
    estr root' = span_pre root (np ++ [SArg 0]) ++ s ++ span_post root (np ++ [SArg 0]).
Proof. exact gen_C14_set_string_cmd. Qed.
Print Assumptions C14gen_set_string_cmd_local.

Theorem C14gen_set_string_env_local : forall root ms np h q x s,
  get root np = Some h -> is_env h = true -> cview h = [(q, x)] -> is_node x = false ->
  exists root',
    run (VNode 0) (M_set A_string) [VStr s] (init root (node_store np ms)) = GDone root' VNone /\
    estr root' = span_pre root np ++ s ++ span_post root np.
Proof. exact gen_C14_set_string_env. Qed.
Print Assumptions C14gen_set_string_env_local.

Theorem C14gen_set_args_local : forall root ms np h idxs a',
  get root np = Some h -> has_args h = true -> nodup_nat idxs = true ->
  select (args_of h) idxs = Some a' ->
  exists root',
    run (VNode 0) (M_set A_args) [VNewArgs (map (fun i => at_ (np ++ [SArg i])) idxs)]
        (init root (node_store np ms)) = GDone root' VNone /\
    estr root' = ctx_pre root np
                   ++ (head_of h ++ estr_list a' ++ estr_list (body_of h) ++ close_of h)
                   ++ ctx_post root np.
Proof. exact gen_C14_set_args. Qed.
Print Assumptions C14gen_set_args_local.

(* the hypotheses hold, and the interpreter computes, on  \begin{e} ab \end{e}\g{h} ,
   \c[o]{p}{q}  and  \begin{e}{x}\end{e}  (the last: the text that .string read stays, the
   refuted clause of Props/C14.v, reproduced by the translated source) *)
Theorem C14gen_examples :
  gstr (run (VNode 0) (M_set A_name) [VStr s_ren] (init (parsed doc_env) (node_store [SBody 0%nat] [])))
  = Some (None, s_renamed_env) /\
  gstr (run (VNode 0) (M_set A_string) [VStr s_new] (init (parsed doc_env) (node_store [SBody 1%nat] [])))
  = Some (None, s_cmd_string) /\
  gstr (run (VNode 0) (M_set A_args) [VNewArgs (map (fun i => at_ ([SBody 0%nat] ++ [SArg i])) [2; 0]%nat)]
            (init (parsed doc_args) (node_store [SBody 0%nat] [])))
  = Some (None, s_args_sel) /\
  gstr (run (VNode 0) (M_set A_string) [VStr s_S] (init (parsed doc_envarg) (node_store [SBody 0%nat] [])))
  = Some (None, s_envarg_S).
Proof. exact ex_setters. Qed.
Print Assumptions C14gen_examples.
