(* C10 (string level)  "Everything from an unescaped % to the end of its line is one
   text leaf ... A % preceded by an odd number of backslashes is an escaped percent
   sign, not a comment."  -- where the token boundaries of a SOURCE STRING are, and
   what that means for comment characters.  Statements only; proofs in
   Proofs/BoundaryProofs.v (built on the shape facts of Proofs/TokInverse.v).

   Vocabulary.
   TokInverse.v:
     clean s            no character of s has category Ignored / Invalid (NUL, DEL)
     start_quirk s      the index-0 quirk of peek(-1): s starts letter, escape, and the
                        character at index min(|s|, 1 + longest sizing command) - 1 is
                        an escape (then the first token is a one-letter CommandName)
     is_c k c           the category of c is k;  noeol_c c := c is not an end of line
     texts toks         concatenation of the token texts
     nc_not P o         o is None, or Some c with P c = false
   BoundaryProofs.v:
     toks_of s          := fst (tokens_of_string s)
     boundary_b s i     := some token of s records offset i, or i = |s|
     inside_b s k i     := some token t of s of category k has tpos t < i < tpos t + |t|
                           (i is strictly inside it)
     ends_escape u      := the last character of u is an escape (false for u = [])
     all_esc es         := every character of es is an escape
     no_pct l           := no character of l is a comment character
     lex_marks in_c par s   a scan of s that only asks of each character whether it is
                        an escape, a comment character or an end of line; one boolean
                        per character: "a comment starts here"
     tok_marks toks     one boolean per character of texts toks: true exactly at the
                        first character of each Comment token
     same_class c d     := c and d agree on: is escape, is comment char, is end of line
   All theorems are about a clean string without the index-0 quirk; offsets are
   written as lengths of prefixes (s = u ++ es ++ c :: w: c is at offset |u ++ es|). *)
From Coq Require Import List NArith ZArith Bool.
From TexModel Require Import Base Tables Chars Tokenizer.
From TexProofs Require Import TokProofs TokFacts TokInverse BoundaryProofs.
Import ListNotations.

(* ------------------------------------------------------------- boundaries *)

(* backslash_run: 2j escapes starting at a token boundary are j two-character
   EscapedComment tokens, whatever follows; the offset after them is a boundary
   again, and the next token starts with the next character (so 2j+1 escapes are j
   such tokens followed by a token that starts with the last escape) *)
Theorem C10_backslash_run :
  forall s u es w j,
    clean s = true -> start_quirk s = false ->
    s = u ++ es ++ w -> boundary_b s (length u) = true ->
    all_esc es = true -> length es = 2 * j ->
    exists a ps r,
      toks_of s = a ++ ps ++ r /\ texts a = u /\ texts ps = es /\ texts r = w /\ length ps = j /\
      Forall (fun t => tcat t = TEscapedComment /\ length (ttext t) = 2) ps /\
      boundary_b s (length (u ++ es)) = true /\
      (forall e w', w = e :: w' -> exists t r' m, r = t :: r' /\ ttext t = e :: m).
Proof. exact backslash_run. Qed.
Print Assumptions C10_backslash_run.

(* every maximal run of escapes starts at a token boundary, unless it starts inside
   a Comment token or inside a sizing command + delimiter ("left\{", "Big\langle") *)
Theorem C10_run_start_boundary :
  forall s u e w,
    clean s = true -> start_quirk s = false ->
    s = u ++ e :: w -> is_c CEscape e = true -> ends_escape u = false ->
    inside_b s TComment (length u) = false ->
    inside_b s TPunctuationCommandName (length u) = false ->
    boundary_b s (length u) = true.
Proof. exact run_start_boundary. Qed.
Print Assumptions C10_run_start_boundary.

(* an escape that is NOT at a token boundary is inside a Comment, inside a sizing
   command + delimiter, or the second character of an EscapedComment token that
   starts (at the escape just before it) at a boundary *)
Theorem C10_escape_not_boundary_cases :
  forall s u e w,
    clean s = true -> start_quirk s = false ->
    s = u ++ e :: w -> is_c CEscape e = true -> boundary_b s (length u) = false ->
    inside_b s TComment (length u) = true \/
    inside_b s TPunctuationCommandName (length u) = true \/
    exists u' c0 a t b,
      u = u' ++ [c0] /\ is_c CEscape c0 = true /\ toks_of s = a ++ t :: b /\ texts a = u' /\
      tcat t = TEscapedComment /\ ttext t = [c0; e] /\ boundary_b s (length u') = true.
Proof. exact escape_not_boundary_cases. Qed.
Print Assumptions C10_escape_not_boundary_cases.

(* escape_at_boundary: an escape preceded by a maximal run of escapes of EVEN length
   (possibly 0) is at a token boundary, unless it lies inside a Comment or inside a
   sizing command + delimiter *)
Theorem C10_escape_at_boundary :
  forall s u es e w,
    clean s = true -> start_quirk s = false ->
    s = u ++ es ++ e :: w -> ends_escape u = false ->
    all_esc es = true -> Nat.even (length es) = true -> is_c CEscape e = true ->
    inside_b s TComment (length (u ++ es)) = false ->
    inside_b s TPunctuationCommandName (length (u ++ es)) = false ->
    boundary_b s (length (u ++ es)) = true.
Proof. exact escape_at_boundary. Qed.
Print Assumptions C10_escape_at_boundary.

(* ---------------------------------------------------- comment characters *)

(* s = u ++ es ++ c :: w, c a comment character, es the maximal run of escapes before
   it, c not strictly inside a Comment token (one started earlier on the same line).
   |es| even: a Comment token starts at c, its text is c :: body, body has no end of
              line, and what follows it is empty or starts with an end of line.
   |es| odd:  the last escape and c are the two-character EscapedComment token "\%";
              w is tokenised after it as ordinary input. *)
Theorem C10_comment_string :
  forall s u es c w,
    clean s = true -> start_quirk s = false ->
    s = u ++ es ++ c :: w -> ends_escape u = false -> all_esc es = true ->
    is_c CComment c = true ->
    inside_b s TComment (length (u ++ es)) = false ->
    if Nat.even (length es) then
      exists a t b body,
        toks_of s = a ++ t :: b /\ texts a = u ++ es /\
        tcat t = TComment /\ tpos t = Z.of_nat (length (u ++ es)) /\ ttext t = c :: body /\
        forallb noeol_c body = true /\ w = body ++ texts b /\
        nc_not noeol_c (hd_error (texts b)) = true
    else
      exists es' e a t b,
        es = es' ++ [e] /\ toks_of s = a ++ t :: b /\ texts a = u ++ es' /\
        tcat t = TEscapedComment /\ tpos t = Z.of_nat (length (u ++ es')) /\ ttext t = [e; c] /\
        texts b = w.
Proof. exact comment_string. Qed.
Print Assumptions C10_comment_string.

(* the same with a condition on the string alone: c is the FIRST comment character
   of its line (l = the line so far; u0 = everything up to and including the last
   end-of-line character, or empty) *)
Theorem C10_first_pct_on_line :
  forall s u0 l es c w,
    clean s = true -> start_quirk s = false ->
    s = (u0 ++ l) ++ es ++ c :: w ->
    (u0 = [] \/ exists u1 d, u0 = u1 ++ [d] /\ is_c CEndOfLine d = true) ->
    no_pct l = true -> ends_escape (u0 ++ l) = false -> all_esc es = true ->
    is_c CComment c = true ->
    if Nat.even (length es) then
      exists a t b body,
        toks_of s = a ++ t :: b /\ texts a = (u0 ++ l) ++ es /\
        tcat t = TComment /\ tpos t = Z.of_nat (length ((u0 ++ l) ++ es)) /\ ttext t = c :: body /\
        forallb noeol_c body = true /\ w = body ++ texts b /\
        nc_not noeol_c (hd_error (texts b)) = true
    else
      exists es' e a t b,
        es = es' ++ [e] /\ toks_of s = a ++ t :: b /\ texts a = (u0 ++ l) ++ es' /\
        tcat t = TEscapedComment /\ tpos t = Z.of_nat (length ((u0 ++ l) ++ es')) /\
        ttext t = [e; c] /\ texts b = w.
Proof. exact first_pct_on_line. Qed.
Print Assumptions C10_first_pct_on_line.

(* without "not inside a Comment token" the even case fails: the second comment
   character of "%a%b" starts no token *)
Theorem C10_second_pct_refuted :
  exists s u es c w,
    clean s = true /\ start_quirk s = false /\ s = u ++ es ++ c :: w /\
    ends_escape u = false /\ all_esc es = true /\ is_c CComment c = true /\
    Nat.even (length es) = true /\ inside_b s TComment (length (u ++ es)) = true /\
    boundary_b s (length (u ++ es)) = false.
Proof. exact second_pct_refuted. Qed.
Print Assumptions C10_second_pct_refuted.

(* where Comment tokens start is decided by line structure and escape parity
   alone: a scan that asks of each character only whether it is an escape, a
   comment character or an end of line finds exactly the starts of the Comment
   tokens ... *)
Theorem C10_lex_marks_spec :
  forall s, clean s = true -> start_quirk s = false ->
    tok_marks (toks_of s) = lex_marks false false s.
Proof. exact lex_marks_spec. Qed.
Print Assumptions C10_lex_marks_spec.

(* ... so two strings that agree on these three classes, whatever else they
   contain, have their Comment tokens at the same offsets *)
Theorem C10_comment_starts_by_class :
  forall s1 s2,
    clean s1 = true -> start_quirk s1 = false -> clean s2 = true -> start_quirk s2 = false ->
    Forall2 same_class s1 s2 ->
    tok_marks (toks_of s1) = tok_marks (toks_of s2).
Proof. exact comment_starts_by_class. Qed.
Print Assumptions C10_comment_starts_by_class.

(* ----------------------------------------------------------- non-vacuity *)

(* "a\\\b" = a, two escapes, an escape, b: offset 3 is a boundary *)
Example C10_escape_at_boundary_ex :
  let s := [97; 92; 92; 92; 98]%N in
  clean s = true /\ start_quirk s = false /\
  s = ([97] ++ [92; 92] ++ 92 :: [98])%N /\ ends_escape [97]%N = false /\
  all_esc [92; 92]%N = true /\ Nat.even (length [92; 92]%N) = true /\ is_c CEscape 92%N = true /\
  inside_b s TComment 3 = false /\ inside_b s TPunctuationCommandName 3 = false /\
  boundary_b s 1 = true /\ boundary_b s 3 = true /\
  map (fun t => (ttext t, tpos t, tcat t)) (toks_of s) =
  [([97]%N, 0%Z, TText); ([92; 92]%N, 1%Z, TEscapedComment); ([92]%N, 3%Z, TEscape);
   ([98]%N, 4%Z, TCommandName)].
Proof. vm_compute. repeat split. Qed.

(* the two exclusions are needed: "\left\{x" (second escape inside "left\{") and "%\x" *)
Example C10_escape_in_punct :
  let s := [92; 108; 101; 102; 116; 92; 123; 120]%N in
  clean s = true /\ start_quirk s = false /\
  s = ([92; 108; 101; 102; 116] ++ [] ++ 92 :: [123; 120])%N /\
  ends_escape [92; 108; 101; 102; 116]%N = false /\
  inside_b s TComment 5 = false /\ inside_b s TPunctuationCommandName 5 = true /\
  boundary_b s 5 = false.
Proof. vm_compute. repeat split. Qed.

Example C10_escape_in_comment :
  let s := [37; 92; 120]%N in
  clean s = true /\ start_quirk s = false /\
  inside_b s TComment 1 = true /\ boundary_b s 1 = false.
Proof. vm_compute. repeat split. Qed.

(* "ab\\%x}y<LF>z" (even) and "ab\\\%x}y<LF>z" (odd) *)
Example C10_comment_string_even_ex :
  let s := [97; 98; 92; 92; 37; 120; 125; 121; 10; 122]%N in
  clean s = true /\ start_quirk s = false /\
  s = ([97; 98] ++ [92; 92] ++ 37 :: [120; 125; 121; 10; 122])%N /\
  ends_escape [97; 98]%N = false /\ all_esc [92; 92]%N = true /\ is_c CComment 37%N = true /\
  inside_b s TComment 4 = false /\ Nat.even (length [92; 92]%N) = true /\
  map (fun t => (ttext t, tpos t, tcat t)) (toks_of s) =
  [([97; 98]%N, 0%Z, TText); ([92; 92]%N, 2%Z, TEscapedComment);
   ([37; 120; 125; 121]%N, 4%Z, TComment); ([10; 122]%N, 8%Z, TText)].
Proof. vm_compute. repeat split. Qed.

Example C10_comment_string_odd_ex :
  let s := [97; 98; 92; 92; 92; 37; 120; 125; 121; 10; 122]%N in
  clean s = true /\ start_quirk s = false /\
  s = ([97; 98] ++ [92; 92; 92] ++ 37 :: [120; 125; 121; 10; 122])%N /\
  ends_escape [97; 98]%N = false /\ all_esc [92; 92; 92]%N = true /\
  inside_b s TComment 5 = false /\ Nat.even (length [92; 92; 92]%N) = false /\
  map (fun t => (ttext t, tpos t, tcat t)) (toks_of s) =
  [([97; 98]%N, 0%Z, TText); ([92; 92]%N, 2%Z, TEscapedComment);
   ([92; 37]%N, 4%Z, TEscapedComment); ([120]%N, 6%Z, TText); ([125]%N, 7%Z, TGroupEnd);
   ([121; 10; 122]%N, 8%Z, TText)].
Proof. vm_compute. repeat split. Qed.

(* "x%y<LF>a\\%b": the scan and the tokens agree (comments at offsets 1 and 7) *)
Example C10_lex_marks_ex :
  let s := [120; 37; 121; 10; 97; 92; 92; 37; 98]%N in
  clean s = true /\ start_quirk s = false /\
  lex_marks false false s = [false; true; false; false; false; false; false; true; false] /\
  tok_marks (toks_of s) = [false; true; false; false; false; false; false; true; false] /\
  map (fun t => (tpos t, tcat t)) (toks_of s) =
  [(0%Z, TText); (1%Z, TComment); (3%Z, TText); (5%Z, TEscapedComment); (7%Z, TComment)].
Proof. vm_compute. repeat split. Qed.

(* "a\\\b": the run of three escapes starts at offset 1, a boundary *)
Example C10_run_start_boundary_ex :
  let s := [97; 92; 92; 92; 98]%N in
  clean s = true /\ start_quirk s = false /\ s = ([97] ++ 92 :: [92; 92; 98])%N /\
  is_c CEscape 92%N = true /\ ends_escape [97]%N = false /\
  inside_b s TComment 1 = false /\ inside_b s TPunctuationCommandName 1 = false /\
  boundary_b s 1 = true.
Proof. vm_compute. repeat split. Qed.

(* "a\\b": the second escape (offset 2) is not at a boundary: it is the second
   character of the EscapedComment token "\\" that starts at the boundary 1 *)
Example C10_escape_not_boundary_ex :
  let s := [97; 92; 92; 98]%N in
  clean s = true /\ start_quirk s = false /\ s = ([97; 92] ++ 92 :: [98])%N /\
  boundary_b s 2 = false /\ inside_b s TComment 2 = false /\
  inside_b s TPunctuationCommandName 2 = false /\ boundary_b s 1 = true /\
  map (fun t => (ttext t, tpos t, tcat t)) (toks_of s) =
  [([97]%N, 0%Z, TText); ([92; 92]%N, 1%Z, TEscapedComment); ([98]%N, 3%Z, TCommandName)].
Proof. vm_compute. repeat split. Qed.

(* first comment character on the second line of "x%y<LF>a\\%b" *)
Example C10_first_pct_on_line_ex :
  let s := [120; 37; 121; 10; 97; 92; 92; 37; 98]%N in
  clean s = true /\ start_quirk s = false /\
  s = (([120; 37; 121; 10] ++ [97]) ++ [92; 92] ++ 37 :: [98])%N /\
  [120; 37; 121; 10]%N = ([120; 37; 121] ++ [10])%N /\ is_c CEndOfLine 10%N = true /\
  no_pct [97]%N = true /\ ends_escape ([120; 37; 121; 10] ++ [97])%N = false /\
  map (fun t => (ttext t, tpos t, tcat t)) (toks_of s) =
  [([120]%N, 0%Z, TText); ([37; 121]%N, 1%Z, TComment); ([10; 97]%N, 3%Z, TText);
   ([92; 92]%N, 5%Z, TEscapedComment); ([37; 98]%N, 7%Z, TComment)].
Proof. exact first_pct_on_line_ex. Qed.

(* "x%y<LF>a\\%b" and "$%}<LF>[\\%[" agree on the three classes and on nothing else *)
Example C10_comment_starts_by_class_ex :
  let s1 := [120; 37; 121; 10; 97; 92; 92; 37; 98]%N in
  let s2 := [36; 37; 125; 10; 91; 92; 92; 37; 91]%N in
  clean s1 = true /\ start_quirk s1 = false /\ clean s2 = true /\ start_quirk s2 = false /\
  Forall2 same_class s1 s2 /\
  map (fun t => (tpos t, tcat t)) (toks_of s2) =
  [(0%Z, TMathSwitch); (1%Z, TComment); (3%Z, TMergedSpacer); (4%Z, TBracketBegin);
   (5%Z, TEscapedComment); (7%Z, TComment)].
Proof. exact comment_starts_by_class_ex. Qed.
