(* C02pp  The parse tree mirrors the construct structure of the document:
   the COMPLETENESS direction ("parse o print = id", PP of DESIGN.md section 5)
   at TOKEN level, for a sub-grammar.  Statements only; proofs in
   Proofs/ReaderComplete.v.

   PARTIAL.  Covered constructs (type `doc` of ReaderComplete.v):
     DLeaf t            one token that read_expr turns into a text leaf
                        (Text, Comment, MergedSpacer, EscapedComment, LineBreak,
                        CommandName, free `[` `]` `(` `)`, stray closers, ...)
     DGroup o body c    a brace group  { body }
     DCmd e n args      a command  \name <argument groups>, the name not
                        item / begin / end / a \newcommand-style name:
                        - name outside the signature table ("as many as there
                          are"): bracket groups, brace groups, and - glued on
                          without a spacer - bracket groups, brace groups once
                          more (BOTH passes of read_args), each group optionally
                          preceded by one MergedSpacer token;
                        - name with a fixed signature (\section, \textbf,
                          \label, \def, \cup ...): at most `optional` bracket
                          groups, then exactly `required` BRACE GROUPS
     DMath k o body c   a math region  $..$  $$..$$  \(..\)  \[..\]
     DEnv e b ng xargs body e2 en ng2
                        a named environment  \begin{name}<args> body \end{name}
                        (ng, ng2 the two name groups, brace arguments; xargs
                        the further arguments of \begin; math environment
                        names included; not a verbatim name)
     DItem e n args body
                        a list item  \item <args> body : the body extends to
                        the next \item, an \end, a closing brace or the end of
                        the input
     Arg sp k o body c  an argument group of kind k with its optional spacer
   NOT covered: required arguments given as bare tokens (\textbf x, \def\a..),
   \newcommand-style special commands, verbatim environments, unclosed constructs (tolerant mode), and - for
   `\end{name}` - groups directly following it (see C02pp_follows_ok_env).

   `flat d` is the token list of d, `tree d` the node the reader must build:
     EText t / EGroup GBrace (map tree body) (tpos o) /
     ECmd (strip (ttext n)) (map tree_arg args) [] (tpos e) /
     EMath k (map tree body) (tpos o) /
     ENamed (strip (arg_string (tree_arg ng))) (map tree_arg xargs) (map tree body) (tpos e) /
     ECmd (strip (ttext n)) (map tree_arg args) (map tree body) (tpos e)  [item];
   an argument is EGroup k (map tree body) (tpos o).

   Arguments of `wf`: SK, the names of the environments read verbatim
   (Tables.skip_env_names ++ the user's list: all_skip user), and mm, "read in
   math mode" (inside a math region or a math environment; inherited by
   argument groups and environment bodies; reset by a free-standing brace
   group and by an item body): \item is an AssertionError in math mode.

   The well-formedness conditions were found by doing the proof; each is
   stated below as an equation (the C02pp_wf_ theorems) with the behaviour of the code that
   forces it. *)
From Coq Require Import List NArith ZArith Bool.
From TexModel Require Import Base Tables Chars Tokenizer Tree Reader.
From TexProofs Require Import ReaderLen ReaderTotal ReaderCons AttachProofs ReaderComplete.
Import ListNotations.

(* ---------------------------------------------------------------- Stage 0 *)

(* fuel monotonicity: a result other than OutOfFuel is stable under more fuel,
   for every one of the ten reader functions *)
Theorem C02pp_fuel_monotone :
  forall f,
  (forall skip strict m toks r, read_expr f skip strict m toks = r -> r <> Err OutOfFuel ->
     read_expr (S f) skip strict m toks = r) /\
  (forall acc toks r, read_item_loop f acc toks = r -> r <> Err OutOfFuel ->
     read_item_loop (S f) acc toks = r) /\
  (forall k pos strict acc toks r, read_math_loop f k pos strict acc toks = r ->
     r <> Err OutOfFuel -> read_math_loop (S f) k pos strict acc toks = r) /\
  (forall name args pos skip strict m acc toks r,
     read_env_loop f name args pos skip strict m acc toks = r -> r <> Err OutOfFuel ->
     read_env_loop (S f) name args pos skip strict m acc toks = r) /\
  (forall nreq nopt sk strict m toks r, read_command f nreq nopt sk strict m toks = r ->
     r <> Err OutOfFuel -> read_command (S f) nreq nopt sk strict m toks = r) /\
  (forall nreq nopt strict m toks r, read_args f nreq nopt strict m toks = r ->
     r <> Err OutOfFuel -> read_args (S f) nreq nopt strict m toks = r) /\
  (forall args nopt strict m toks r, read_arg_optional f args nopt strict m toks = r ->
     r <> Err OutOfFuel -> read_arg_optional (S f) args nopt strict m toks = r) /\
  (forall args nreq strict m toks r, read_arg_required f args nreq strict m toks = r ->
     r <> Err OutOfFuel -> read_arg_required (S f) args nreq strict m toks = r) /\
  (forall c strict m toks r, read_arg f c strict m toks = r -> r <> Err OutOfFuel ->
     read_arg (S f) c strict m toks = r) /\
  (forall k pos strict m acc toks r, read_arg_loop f k pos strict m acc toks = r ->
     r <> Err OutOfFuel -> read_arg_loop (S f) k pos strict m acc toks = r).
Proof. exact fuel_mono_S. Qed.
Print Assumptions C02pp_fuel_monotone.

Theorem C02pp_enough_fuel :
  forall f f' skip strict m toks r,
    read_expr f skip strict m toks = r -> r <> Err OutOfFuel -> (f <= f')%nat ->
    read_expr f' skip strict m toks = r.
Proof. exact enough_fuel_expr. Qed.
Print Assumptions C02pp_enough_fuel.

(* with TOT: from 3*|toks|+3 on, the result does not depend on the fuel *)
Theorem C02pp_fuel_independent :
  forall f1 f2 skip strict m toks,
    (3 * length toks + 3 <= f1)%nat -> (3 * length toks + 3 <= f2)%nat ->
    read_expr f1 skip strict m toks = read_expr f2 skip strict m toks.
Proof. exact fuel_independent_expr. Qed.
Print Assumptions C02pp_fuel_independent.

(* ------------------------------------------ Stage 1: the conditions `wf` *)

(* a leaf is a token of a category on which read_expr falls through to
   TexText: not Escape, not GroupBegin, not one of the four math openers
   (AttachProofs.leaf_cat_table).  [forced by: the dispatch of read_expr] *)
Theorem C02pp_wf_leaf : forall SK mm t, wf SK mm (DLeaf t) = leaf_cat (tcat t).
Proof. reflexivity. Qed.

(* a brace group: `o` a GroupBegin token, `c` a GroupEnd token, the body a
   well-formed sequence for the loop closed by `}`.
   [forced by: read_expr dispatches on GroupBegin; read_arg_loop stops at the
   FIRST token for which is_group_end holds] *)
Theorem C02pp_wf_group : forall SK mm o b c,
  wf SK mm (DGroup o b c) =
  is_tc TGroupBegin o && is_group_end GBrace c && wf_seq SK false (CGroup GBrace) b [c].
Proof. exact wf_group. Qed.

(* a command: `e` an Escape token directly followed by the name token `n`
   (adjacent in `flat`), the name admissible, the argument list of a shape the
   signature of the name can read, every argument well-formed.
   [forced by: read_command takes the token after the escape as the name
   whatever it is, and looks its signature up in SIGNATURES] *)
Theorem C02pp_wf_cmd : forall SK mm e n args,
  wf SK mm (DCmd e n args) =
  is_tc TEscape e && name_ok n && cmd_shape (signature_of (ttext n)) args &&
  forallb (wf_arg SK mm) args.
Proof. exact wf_cmd. Qed.

(* the name: not `item` (reads an item body), not `begin` (opens an
   environment), not `end` (closes the enclosing environment or item when
   peeked by read_env / read_item), not a special command (\newcommand ...:
   arguments are read in special mode).  [forced by: the name tests of
   read_expr, read_env, read_item; SPECIAL in read_command] *)
Theorem C02pp_name_ok : forall n,
  name_ok n =
  negb (str_eqb (ttext n) s_item) && negb (str_eqb (ttext n) s_begin) &&
  negb (str_eqb (ttext n) s_end) &&
  negb (mem_str (ttext n) Tables.special_commands).
Proof. reflexivity. Qed.

(* the shape of the argument list, by signature sg = (required, optional):
   - free signature (-1,-1): the arguments are exactly four runs - brackets,
     braces (first pass), brackets, braces (second pass) - and the first group
     of each second-pass run has no spacer before it (read_args enters a
     second pass only on the very next token; inside a pass read_spacer skips
     one spacer before every group);
   - (0,0): no arguments (read_args returns at once);
   - otherwise: at most `optional` bracket groups, then exactly `required`
     brace groups (fewer would make read_arg_required take bare tokens). *)
Theorem C02pp_cmd_shape : forall sg args,
  cmd_shape sg args =
  if is_free sg then
    let '(_, _, b2, c2, r4) := split4 args in
    negb (nonempty r4) && head_no_spacer b2 && head_no_spacer c2
  else
    (0 <=? fst sg)%Z && (0 <=? snd sg)%Z &&
    (if is_zero sg then negb (nonempty args)
     else let (bs, r1) := take_kind GBracket args in
          let (cs, r2) := take_kind GBrace r1 in
          negb (nonempty r2) && (Z.of_nat (length bs) <=? snd sg)%Z &&
          (Z.of_nat (length cs) =? fst sg)%Z).
Proof. reflexivity. Qed.

Theorem C02pp_split4 : forall args,
  split4 args =
  let (b1, r1) := take_kind GBracket args in
  let (c1, r2) := take_kind GBrace r1 in
  let (b2, r3) := take_kind GBracket r2 in
  let (c2, r4) := take_kind GBrace r3 in
  (b1, c1, b2, c2, r4).
Proof. reflexivity. Qed.

Theorem C02pp_take_kind : forall k a l,
  take_kind k [] = ([], []) /\
  take_kind k (a :: l) =
  if groupkind_beq (arg_kind a) k
  then let (x, y) := take_kind k l in (a :: x, y)
  else ([], a :: l).
Proof. intros; split; reflexivity. Qed.

(* an argument group: the optional token before it is a MergedSpacer
   (read_spacer skips exactly one such token), `o` opens a group of kind k,
   `c` is the closer of kind k, the body is a well-formed sequence for the
   loop closed by that closer. *)
Theorem C02pp_wf_arg : forall SK mm sp k o b c,
  wf_arg SK mm (Arg sp k o b c) =
  match sp with Some s => is_tc TMergedSpacer s | None => true end &&
  opens_group_kind k o && is_group_end k c && wf_seq SK mm (CGroup k) b [c].
Proof. exact wf_arg_eq. Qed.

(* a math region: `o` the begin token of kind k, `c` an end token of kind k
   (for `$` and `$$` these are the same category), the body a well-formed
   sequence for the loop closed by that end token.
   [forced by: MATH_TOKEN_TO_ENV dispatch; read_math_env stops at the FIRST
   token of the end category - so `$` cannot start an element of a `$` body] *)
Theorem C02pp_wf_math : forall SK mm k o b c,
  wf SK mm (DMath k o b c) =
  opens_math_kind k o && is_math_end k c && wf_seq SK true (CMath k) b [c].
Proof. exact wf_math. Qed.

(* an environment:
   - `e` an Escape token, `b` the name token `begin`        [read_expr's test]
   - ng a well-formed BRACE argument: the name group.  Its string, stripped,
     is the environment name (whatever the group contains)
   - the name is not in SK (those bodies are not parsed at all)
   - the body - and the closing name group - are read in math mode if the name
     is a math environment name (env_mm), else in the mode of the environment
   - ng followed by the further arguments xargs is an argument list of the
     free shape (\begin is read by read_command with "as many as there are"
     counts; all groups but the first become the arguments of the
     environment), the further arguments are well-formed, and what follows
     them - the body, then `\end` - satisfies the follow condition of that
     command (a body starting with a group would lose it to \begin)
   - the body is a well-formed sequence for the environment loop (nothing
     closes it but `\end`; a command named `end` is not an element: name_ok)
   - `e2` an Escape token, `en` the name token `end`, ng2 a well-formed brace
     argument whose string EQUALS the environment name (read_env compares
     them; on a mismatch strict mode raises, tolerant mode leaves `\end`
     unread) *)
Theorem C02pp_wf_env : forall SK mm e b ng xargs body e2 en ng2,
  wf SK mm (DEnv e b ng xargs body e2 en ng2) =
  is_tc TEscape e && str_eqb (ttext b) s_begin &&
  wf_arg SK mm ng && is_brace_arg ng &&
  negb (mem_str (env_name ng) SK) &&
  cmd_shape free_sig (ng :: xargs) && forallb (wf_arg SK mm) xargs &&
  cmd_follow free_sig (ng :: xargs) (flat_list body ++ [e2]) &&
  wf_seq SK (env_mm mm ng) CEnv body [e2; en] &&
  is_tc TEscape e2 && str_eqb (ttext en) s_end &&
  wf_arg SK (env_mm mm ng) ng2 && is_brace_arg ng2 &&
  str_eqb (arg_string (tree_arg ng2)) (env_name ng).
Proof. exact wf_env. Qed.

Theorem C02pp_env_name : forall ng, env_name ng = strip (arg_string (tree_arg ng)).
Proof. reflexivity. Qed.

Theorem C02pp_env_mm : forall mm ng,
  env_mm mm ng = mm || mem_str (env_name ng) Tables.math_env_names.
Proof. reflexivity. Qed.

(* an item: not in math mode (read_expr asserts), `e` an Escape token, `n` the
   name token `item`, arguments as for a command of free signature,
   well-formed.  Its body is not closed by a token of its own, so the
   conditions on the body are part of the FOLLOW condition below. *)
Theorem C02pp_wf_item : forall SK mm e n args body,
  wf SK mm (DItem e n args body) =
  negb mm && is_tc TEscape e && str_eqb (ttext n) s_item &&
  cmd_shape free_sig args && forallb (wf_arg SK mm) args.
Proof. exact wf_item. Qed.

(* a sequence read by a loop of context x and followed by `rest`:
   every element (1) does not START with the closer of the loop (CTop: nothing
   closes; CGroup k: the end token of k; CMath k: the end token of k) - the
   loop tests the first token of every element before reading it; (2) is
   well-formed; (3) is followed by tokens its follow condition allows. *)
Theorem C02pp_wf_seq : forall SK mm x d ds rest,
  wf_seq SK mm x (d :: ds) rest =
  negb (closes x (dhead d)) && allowed x d && wf SK mm d &&
  follows_ok SK d (flat_list ds ++ rest) && wf_seq SK mm x ds rest.
Proof. exact wf_seq_cons. Qed.

(* (1b) an \item is not an element of an item body: read_item stops in front
   of it (it becomes the next sibling); an item body element does not start
   with `}` either (CItem below) *)
Theorem C02pp_allowed : forall x d,
  allowed x d = match x with CItem => negb (is_item d) | _ => true end.
Proof. reflexivity. Qed.

Theorem C02pp_closes : forall x t,
  closes x t = match x with
               | CTop => false
               | CGroup k => is_group_end k t
               | CMath k => is_math_end k t
               | CEnv => false
               | CItem => is_tc TGroupEnd t
               end.
Proof. reflexivity. Qed.

(* the follow condition of a command, by signature and argument list, in
   terms of four facts about the tokens that follow:
     sg_  after an optional MergedSpacer the next token is not `{`
     sb_  after an optional MergedSpacer the next token is not `[`
     hb_  the very next token is not `[`      hg_  the very next token is not `{`
   free signature, by the last run that is non-empty:
     nothing or first-pass brackets only:  sg_ && sb_   (either loop would go on)
     first-pass braces:   sg_ && hb_  (the brace loop would go on; a `[` glued on
                                       starts the second pass)
     second-pass brackets: sb_ && hg_ (the bracket loop would go on; a `{` glued
                                       on starts the second brace pass; ` {` does
                                       not)
     second-pass braces:  sg_          (there is no third pass: `[` is text)
   fixed signature: nothing for (0,0); otherwise nothing if the optional count
   is used up, else no `[` may follow (after a spacer if there is no required
   argument, directly if there is: the second pass would attach it). *)
Theorem C02pp_follows_ok : forall SK e n args rest,
  follows_ok SK (DCmd e n args) rest = cmd_follow (signature_of (ttext n)) args rest.
Proof. reflexivity. Qed.

Theorem C02pp_cmd_follow : forall sg args rest,
  cmd_follow sg args rest =
  let sg_ := stopsb TGroupBegin rest in
  let sb_ := stopsb TBracketBegin rest in
  let hb_ := head_notb TBracketBegin rest in
  let hg_ := head_notb TGroupBegin rest in
  if is_free sg then
    let '(_, c1, b2, c2, _) := split4 args in
    match b2, c2 with
    | [], _ => sg_ && (if nonempty c1 then hb_ else sb_)
    | _ :: _, [] => sb_ && hg_
    | _ :: _, _ :: _ => sg_
    end
  else
    if is_zero sg then true
    else let (bs, _) := take_kind GBracket args in
         (Z.of_nat (length bs) =? snd sg)%Z || (if (fst sg =? 0)%Z then sb_ else hb_).
Proof. reflexivity. Qed.

(* after `\end{name}` the follow condition of a command with the one brace
   argument ng2: read_env PEEKS at `\end` with read_command, which reads every
   following group as an argument of `\end` - in the mode of the environment
   body - before the name is compared; the groups are then left unread (the
   code re-reads only the name group).  The condition is sufficient, not
   necessary (`\begin{q}x\end{q}{y}` is read as the grammar would say), but it
   cannot simply be dropped: C02pp_end_follow_refuted below. *)
Theorem C02pp_follows_ok_env : forall SK e b ng xargs body e2 en ng2 rest,
  follows_ok SK (DEnv e b ng xargs body e2 en ng2) rest = cmd_follow free_sig [ng2] rest.
Proof. reflexivity. Qed.

(* an item followed by `rest`:
   - the command part `\item <args>` is followed by body ++ rest as a command
     with these arguments may be (a body starting with ` {` would be taken as
     an argument);
   - the body is a well-formed sequence for the item loop, which ends where
     `rest` begins; it is ALWAYS read strictly, in non-math mode and without
     skip list (read_item passes none of the three on);
   - `rest` is where read_item stops: empty, or starting with `}`, or with an
     escape followed by a token named `end` or `item` (in particular an item
     that is the last element of a bracket group or of a math region does NOT
     stop: it swallows the closer). *)
Theorem C02pp_follows_ok_item : forall SK e n args body rest,
  follows_ok SK (DItem e n args body) rest =
  cmd_follow free_sig args (flat_list body ++ rest) && wf_seq SK false CItem body rest &&
  item_stop_b rest.
Proof. exact follows_ok_item. Qed.

Theorem C02pp_item_stop_b : forall rest,
  item_stop_b rest =
  match rest with
  | [] => true
  | t :: tl =>
    if is_tc TEscape t
    then match tl with
         | n :: _ => str_eqb (ttext n) s_end || str_eqb (ttext n) s_item
         | [] => false
         end
    else is_tc TGroupEnd t
  end.
Proof. reflexivity. Qed.

(* one more condition for items, not a boolean: before it looks at the name
   after an escape, read_item READS the whole command there (name and all
   argument groups), strictly and in non-math mode; that read must succeed.
   Inside a well-formed sequence this follows from the well-formedness of the
   next item / of the `\end <name group>` and is discharged in the proofs of
   the sequence theorems (C02pp_group_body ... C02_structure_partial have no
   such hypothesis); it remains a hypothesis of the single-element theorem
   C02pp_expr only. *)
Theorem C02pp_peek_ok : forall d R,
  peek_ok d R =
  if is_item d
  then forall e src, R = e :: src -> is_tc TEscape e = true ->
       exists r f0, forall f, (f0 <= f)%nat ->
                    read_command f (-1) (-1) 1 true MNonMath R = Ok r
  else True.
Proof. reflexivity. Qed.

Theorem C02pp_head_peek : forall R,
  head_peek R =
  forall e src, R = e :: src -> is_tc TEscape e = true ->
  exists r f0, forall f, (f0 <= f)%nat ->
               read_command f (-1) (-1) 1 true MNonMath R = Ok r.
Proof. reflexivity. Qed.

Theorem C02pp_follows_ok_other : forall SK d rest,
  match d with
  | DCmd _ _ _ | DEnv _ _ _ _ _ _ _ _ | DItem _ _ _ _ => True
  | _ => follows_ok SK d rest = true
  end.
Proof.
  intros SK [t|o b c|e n a|k o b c|e b ng xa body e2 en ng2|e n a body] rest;
    exact I || reflexivity.
Qed.

Theorem C02pp_stopsb : forall k toks,
  stopsb k toks =
  match head_after_spacer toks with Some c => negb (is_tc k c) | None => true end.
Proof. reflexivity. Qed.

(* the follow conditions cannot be dropped *)
Theorem C02pp_without_follow_refuted :
  exists ds, forallb (wf (all_skip []) false) ds = true /\
             parse_tokens (flat_list ds) true [] <> Ok (ERoot (map tree ds)).
Proof. exact PP_without_follow_refuted. Qed.
Print Assumptions C02pp_without_follow_refuted.

Theorem C02pp_first_pass_follow_only_refuted :
  exists e n args ds,
    wf (all_skip []) false (DCmd e n args) = true /\
    forallb (wf (all_skip []) false) ds = true /\
    existsb is_brace_arg args = true /\ stopsb TGroupBegin (flat_list ds) = true /\
    parse_tokens (flat_list (DCmd e n args :: ds)) true []
    <> Ok (ERoot (map tree (DCmd e n args :: ds))).
Proof. exact PP_first_pass_follow_only_refuted. Qed.
Print Assumptions C02pp_first_pass_follow_only_refuted.

(* fixed signatures: `\section{t}[x]` (optional count not used up: the second
   pass attaches [x]) and `\textbf x` (a required argument that is not a group
   is taken as a bare token) are not read as "command, then leaves" *)
Theorem C02pp_fixed_signature_refuted :
  (flat_list bad5_doc = fst (tokens_of_string bad5_src) /\
   parse_tokens (flat_list bad5_doc) true [] <> Ok (ERoot (map tree bad5_doc))) /\
  (flat_list bad6_doc = fst (tokens_of_string bad6_src) /\
   parse_tokens (flat_list bad6_doc) true [] <> Ok (ERoot (map tree bad6_doc))).
Proof. exact PP_fixed_signature_refuted. Qed.
Print Assumptions C02pp_fixed_signature_refuted.

(* \item in math mode: AssertionError in both tolerance modes ($\item a$) *)
Theorem C02pp_item_in_math_refuted :
  flat_list bad3_doc = fst (tokens_of_string bad3_src) /\
  parse_tokens (flat_list bad3_doc) true [] = Err AssertionError /\
  parse_tokens (flat_list bad3_doc) false [] = Err AssertionError.
Proof. exact PP_item_in_math_refuted. Qed.
Print Assumptions C02pp_item_in_math_refuted.

Theorem C02pp_item_in_math_env_refuted :
  flat_list bad7_doc = fst (tokens_of_string bad7_src) /\
  parse_tokens (flat_list bad7_doc) true [] = Err AssertionError.
Proof. exact PP_item_in_math_env_refuted. Qed.
Print Assumptions C02pp_item_in_math_env_refuted.

(* a brace group directly after `\end{equation}` is read by the look-ahead in
   MATH mode: `\begin{equation}x\end{equation}{\item a}` raises AssertionError
   (both tolerance modes), every element being well-formed *)
Theorem C02pp_end_follow_refuted :
  flat_list bad8_doc = fst (tokens_of_string bad8_src) /\
  forallb (wf (all_skip []) false) bad8_doc = true /\
  parse_tokens (flat_list bad8_doc) true [] = Err AssertionError /\
  parse_tokens (flat_list bad8_doc) false [] = Err AssertionError.
Proof. exact PP_end_follow_refuted. Qed.
Print Assumptions C02pp_end_follow_refuted.

(* an item at the end of a bracket group swallows the `]`  (\a[\item x]) *)
Theorem C02pp_item_in_bracket_group_refuted :
  flat_list bad4_doc = fst (tokens_of_string bad4_src) /\
  parse_tokens (flat_list bad4_doc) true [] = Err TypeError /\
  parse_tokens (flat_list bad4_doc) false [] <> Ok (ERoot (map tree bad4_doc)).
Proof. exact PP_item_in_bracket_group_refuted. Qed.
Print Assumptions C02pp_item_in_bracket_group_refuted.

(* the condition on SK cannot be dropped: with `q` in the user's skip list
   the environment q of example 3 is read verbatim *)
Theorem C02pp_env_in_skip_list_refuted :
  wf_seq (all_skip []) false CTop ex3_doc [] = true /\
  parse_tokens (flat_list ex3_doc) true [s_q] <> Ok (ERoot (map tree ex3_doc)).
Proof. exact PP_env_in_skip_list_refuted. Qed.
Print Assumptions C02pp_env_in_skip_list_refuted.

(* ------------------------------------------------- Stage 2: completeness *)

(* one element, followed by anything its follow condition allows: read_expr
   returns exactly the expected node and exactly the rest - in every mode,
   both tolerances, any skip list, any sufficient fuel *)
Theorem C02pp_expr :
  forall SK d skip strict m rest f,
    mode_is_special m = false -> sub_skip SK skip ->
    wf SK (mode_is_math m) d = true -> follows_ok SK d rest = true -> peek_ok d rest ->
    (3 * length (flat d ++ rest) + 1 <= f)%nat ->
    read_expr f skip strict m (flat d ++ rest) = Ok (tree d, rest).
Proof. exact PP_expr. Qed.
Print Assumptions C02pp_expr.

(* the body of a group: the elements one by one, in order, then the closer *)
Theorem C02pp_group_body :
  forall SK ds k pos strict m acc c rest f,
    mode_is_special m = false ->
    wf_seq SK (mode_is_math m) (CGroup k) ds (c :: rest) = true -> is_group_end k c = true ->
    (3 * length (flat_list ds ++ c :: rest) + 2 <= f)%nat ->
    read_arg_loop f k pos strict m acc (flat_list ds ++ c :: rest)
    = Ok (EGroup k (acc ++ map tree ds) pos, rest).
Proof. exact PP_seq_group. Qed.
Print Assumptions C02pp_group_body.

(* the body of a math region *)
Theorem C02pp_math_body :
  forall SK ds k pos strict acc c rest f,
    wf_seq SK true (CMath k) ds (c :: rest) = true -> is_math_end k c = true ->
    (3 * length (flat_list ds ++ c :: rest) + 2 <= f)%nat ->
    read_math_loop f k pos strict acc (flat_list ds ++ c :: rest)
    = Ok (EMath k (acc ++ map tree ds) pos, rest).
Proof. exact PP_seq_math. Qed.
Print Assumptions C02pp_math_body.

(* the body of an environment, up to and including `\end <name group>` *)
Theorem C02pp_env_body :
  forall SK ds name args pos skip strict m acc e2 en ng2 rest f,
    mode_is_special m = false -> sub_skip SK skip ->
    wf_seq SK (mode_is_math m) CEnv ds (e2 :: en :: flat_arg ng2 ++ rest) = true ->
    is_tc TEscape e2 = true -> str_eqb (ttext en) s_end = true ->
    wf_arg SK (mode_is_math m) ng2 = true -> is_brace_arg ng2 = true ->
    str_eqb (arg_string (tree_arg ng2)) name = true ->
    cmd_follow free_sig [ng2] rest = true ->
    (3 * length (flat_list ds ++ e2 :: en :: flat_arg ng2 ++ rest) + 2 <= f)%nat ->
    read_env_loop f name args pos skip strict m acc
                  (flat_list ds ++ e2 :: en :: flat_arg ng2 ++ rest)
    = Ok (ENamed name args (acc ++ map tree ds) pos, rest).
Proof. exact PP_seq_env. Qed.
Print Assumptions C02pp_env_body.

(* the body of an item, up to where it stops (R is left unread) *)
Theorem C02pp_item_body :
  forall SK ds acc R f,
    wf_seq SK false CItem ds R = true -> item_stop_b R = true -> head_peek R ->
    (3 * length (flat_list ds ++ R) + 2 <= f)%nat ->
    read_item_loop f acc (flat_list ds ++ R) = Ok (acc ++ map tree ds, R).
Proof. exact PP_seq_item. Qed.
Print Assumptions C02pp_item_body.

(* C02 for the covered sub-grammar: the token list of a well-formed sequence
   of constructs parses - strictly and tolerantly, for every user skip list
   that does not name one of its environments - to the root whose children
   are exactly the expected nodes, once each and in order, with names,
   argument kinds / order / contents and nesting as written *)
Theorem C02_structure_partial :
  forall ds strict user,
    wf_seq (all_skip user) false CTop ds [] = true ->
    parse_tokens (flat_list ds) strict user = Ok (ERoot (map tree ds)).
Proof. exact PP_parse_tokens. Qed.
Print Assumptions C02_structure_partial.

(* the expected tree prints as the token texts when no argument is preceded by
   a spacer, names are unpadded (`printable`) and the structural tokens carry
   their delimiter text (tok_wf: true of all tokenizer output,
   Proofs/ConsBridge.v) *)
Theorem C02pp_printable :
  (forall t, printable (DLeaf t) = true) /\
  (forall o b c, printable (DGroup o b c) = forallb printable b) /\
  (forall e n args, printable (DCmd e n args) =
                    str_eqb (strip (ttext n)) (ttext n) && forallb printable_arg args) /\
  (forall k o b c, printable (DMath k o b c) = forallb printable b) /\
  (forall e b ng xargs body e2 en ng2,
     printable (DEnv e b ng xargs body e2 en ng2) =
     printable_arg ng && forallb printable_arg xargs && printable_arg ng2 &&
     str_eqb (strip (arg_string (tree_arg ng))) (arg_string (tree_arg ng)) &&
     forallb printable body) /\
  (forall e n args body, printable (DItem e n args body) =
                         forallb printable_arg args && forallb printable body) /\
  (forall sp k o b c, printable_arg (Arg sp k o b c) =
                      match sp with None => true | Some _ => false end && forallb printable b).
Proof. repeat split. Qed.

Theorem C02pp_estr_tree :
  forall SK mm d rest,
    wf SK mm d = true -> follows_ok SK d rest = true ->
    printable d = true -> Forall tok_wf (flat d) ->
    estr (tree d) = texts (flat d).
Proof. exact estr_tree. Qed.
Print Assumptions C02pp_estr_tree.

Theorem C02_print_parse_print :
  forall ds strict user,
    wf_seq (all_skip user) false CTop ds [] = true -> forallb printable ds = true ->
    Forall tok_wf (flat_list ds) ->
    exists t, parse_tokens (flat_list ds) strict user = Ok t /\
              estr t = texts (flat_list ds).
Proof. exact PP_print_parse_print. Qed.
Print Assumptions C02_print_parse_print.

(* ------------------------------------------------------------ non-vacuity *)

(* \a[x]{y \b{z}} {g $m_1$} t : nesting depth 4 (command, argument, command,
   argument, leaf / command, argument, math, leaf); the third argument is
   preceded by a spacer.  Its `flat` IS the tokenizer output for that string. *)
Example C02pp_ex1 :
  ex1_src = [92;97;91;120;93;123;121;32;92;98;123;122;125;125;32;123;103;32;36;109;95;49;36;125;32;116]%N /\
  tokens_of_string ex1_src = (flat_list ex1_doc, TEnd) /\
  wf_seq (all_skip []) false CTop ex1_doc [] = true /\
  parse ex1_src true [] = Ok (ERoot (map tree ex1_doc)) /\
  parse ex1_src false [] = Ok (ERoot (map tree ex1_doc)).
Proof. repeat split; vm_compute; reflexivity. Qed.

(* {a {b $c$}} \d[e]{f}g : a free-standing group nested three deep, then a
   command with a bracket and a brace argument; printable and tok_wf *)
Example C02pp_ex2 :
  ex2_src = [123;97;32;123;98;32;36;99;36;125;125;32;92;100;91;101;93;123;102;125;103]%N /\
  tokens_of_string ex2_src = (flat_list ex2_doc, TEnd) /\
  wf_seq (all_skip []) false CTop ex2_doc [] = true /\ forallb printable ex2_doc = true /\
  Forall tok_wf (flat_list ex2_doc) /\
  texts (flat_list ex2_doc) = ex2_src.
Proof.
  repeat split; try (vm_compute; reflexivity).
  apply tok_wfb_all. vm_compute. reflexivity.
Qed.

(* \begin{q}a\begin{r}b{c}$d$\end{r} \e{f}\end{q}z : an environment in an
   environment, with a group, a math region and a command inside *)
Example C02pp_ex3 :
  ex3_src = [92;98;101;103;105;110;123;113;125;97;92;98;101;103;105;110;123;114;125;98;123;99;125;36;100;36;92;101;110;100;123;114;125;32;92;101;123;102;125;92;101;110;100;123;113;125;122]%N /\
  tokens_of_string ex3_src = (flat_list ex3_doc, TEnd) /\
  wf_seq (all_skip []) false CTop ex3_doc [] = true /\ forallb printable ex3_doc = true /\
  Forall tok_wf (flat_list ex3_doc) /\
  parse ex3_src true [] = Ok (ERoot (map tree ex3_doc)) /\
  estr (ERoot (map tree ex3_doc)) = ex3_src.
Proof.
  repeat split; try (vm_compute; reflexivity).
  apply tok_wfb_all. vm_compute. reflexivity.
Qed.

(* \begin{q}\item a $b$\item[x] c {\item d}\end{q}e : two items in an
   environment (the second with a bracket argument), one item in a group *)
Example C02pp_ex4 :
  ex4_src = [92;98;101;103;105;110;123;113;125;92;105;116;101;109;32;97;32;36;98;36;92;105;116;101;109;91;120;93;32;99;32;123;92;105;116;101;109;32;100;125;92;101;110;100;123;113;125;101]%N /\
  tokens_of_string ex4_src = (flat_list ex4_doc, TEnd) /\
  wf_seq (all_skip []) false CTop ex4_doc [] = true /\ forallb printable ex4_doc = true /\
  Forall tok_wf (flat_list ex4_doc) /\
  parse ex4_src true [] = Ok (ERoot (map tree ex4_doc)) /\
  parse ex4_src false [] = Ok (ERoot (map tree ex4_doc)) /\
  estr (ERoot (map tree ex4_doc)) = ex4_src.
Proof.
  repeat split; try (vm_compute; reflexivity).
  apply tok_wfb_all. vm_compute. reflexivity.
Qed.

(* \section[s]{t}\a{x}[y]{z}[w] \begin{tab}{ll}[h]\textbf{b}$\cup[$\end{tab} :
   fixed signatures (1,1), (1,0), (0,0); both argument passes; an environment
   with a brace and a (second-pass) bracket argument *)
Example C02pp_ex5 :
  ex5_src = [92;115;101;99;116;105;111;110;91;115;93;123;116;125;92;97;123;120;125;91;121;93;123;122;125;91;119;93;32;92;98;101;103;105;110;123;116;97;98;125;123;108;108;125;91;104;93;92;116;101;120;116;98;102;123;98;125;36;92;99;117;112;91;36;92;101;110;100;123;116;97;98;125]%N /\
  tokens_of_string ex5_src = (flat_list ex5_doc, TEnd) /\
  wf_seq (all_skip []) false CTop ex5_doc [] = true /\ forallb printable ex5_doc = true /\
  Forall tok_wf (flat_list ex5_doc) /\
  parse ex5_src true [] = Ok (ERoot (map tree ex5_doc)) /\
  parse ex5_src false [] = Ok (ERoot (map tree ex5_doc)) /\
  estr (ERoot (map tree ex5_doc)) = ex5_src.
Proof.
  repeat split; try (vm_compute; reflexivity).
  apply tok_wfb_all. vm_compute. reflexivity.
Qed.

(* \begin{equation}a_1\cup[\frac{x}{y}\end{equation} : a math environment *)
Example C02pp_ex6 :
  ex6_src = [92;98;101;103;105;110;123;101;113;117;97;116;105;111;110;125;97;95;49;92;99;117;112;91;92;102;114;97;99;123;120;125;123;121;125;92;101;110;100;123;101;113;117;97;116;105;111;110;125]%N /\
  tokens_of_string ex6_src = (flat_list ex6_doc, TEnd) /\
  wf_seq (all_skip []) false CTop ex6_doc [] = true /\ forallb printable ex6_doc = true /\
  Forall tok_wf (flat_list ex6_doc) /\
  parse ex6_src true [] = Ok (ERoot (map tree ex6_doc)) /\
  estr (ERoot (map tree ex6_doc)) = ex6_src.
Proof.
  repeat split; try (vm_compute; reflexivity).
  apply tok_wfb_all. vm_compute. reflexivity.
Qed.

(* hypotheses of the element / body theorems on pieces of ex1 and ex4 *)
Example C02pp_ex_expr :
  match ex1_doc with
  | d :: ds => wf (all_skip []) false d = true /\
               follows_ok (all_skip []) d (flat_list ds) = true /\ peek_ok d (flat_list ds)
  | [] => False
  end.
Proof. exact ex_PP_expr_hyps. Qed.
Example C02pp_ex_expr_item :
  let t i := nth i ex4_toks tok0 in
  let d := DItem (t 5%nat) (t 6%nat) []
                 [DLeaf (t 7%nat); DMath MInline (t 8%nat) [DLeaf (t 9%nat)] (t 10%nat)] in
  let rest := skipn 11 ex4_toks in
  wf (all_skip []) false d = true /\ follows_ok (all_skip []) d rest = true /\ peek_ok d rest.
Proof. exact ex_PP_expr_item_hyps. Qed.
Example C02pp_ex_group_body :
  let t i := nth i ex1_toks tok0 in
  wf_seq (all_skip []) false (CGroup GBrace)
         [DLeaf (t 6%nat); DCmd (t 7%nat) (t 8%nat)
                                [Arg None GBrace (t 9%nat) [DLeaf (t 10%nat)] (t 11%nat)]]
         (t 12%nat :: skipn 13 ex1_toks) = true /\
  is_group_end GBrace (t 12%nat) = true.
Proof. exact ex_PP_seq_group_hyps. Qed.
Example C02pp_ex_env_body :
  let t i := nth i ex4_toks tok0 in
  let ng2 := Arg None GBrace (t 24%nat) [DLeaf (t 25%nat)] (t 26%nat) in
  match ex4_doc with
  | DEnv _ _ ng _ body e2 en _ :: ds =>
    wf_seq (all_skip []) false CEnv body (e2 :: en :: flat_arg ng2 ++ flat_list ds) = true /\
    is_tc TEscape e2 = true /\ str_eqb (ttext en) s_end = true /\
    wf_arg (all_skip []) false ng2 = true /\ is_brace_arg ng2 = true /\
    str_eqb (arg_string (tree_arg ng2)) (env_name ng) = true /\
    cmd_follow free_sig [ng2] (flat_list ds) = true
  | _ => False
  end.
Proof. exact ex_PP_seq_env_hyps. Qed.
Example C02pp_ex_item_body :
  let t i := nth i ex4_toks tok0 in
  let body := [DLeaf (t 16%nat);
               DGroup (t 17%nat) [DItem (t 18%nat) (t 19%nat) [] [DLeaf (t 20%nat)]] (t 21%nat)] in
  let R := skipn 22 ex4_toks in
  wf_seq (all_skip []) false CItem body R = true /\ item_stop_b R = true /\ head_peek R.
Proof. exact ex_PP_seq_item_hyps. Qed.
Example C02pp_ex_math_body :
  let t i := nth i ex1_toks tok0 in
  wf_seq (all_skip []) true (CMath MInline) [DLeaf (t 17%nat)]
         (t 18%nat :: skipn 19 ex1_toks) = true /\
  is_math_end MInline (t 18%nat) = true.
Proof. exact ex_PP_seq_math_hyps. Qed.
