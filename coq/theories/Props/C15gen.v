(* C15gen  Histories of edits, executed with the translated source.

   Props/C15.v and C15views.v are about the hand-written model Model/Edit.v.  C05gen.v /
   C14gen.v prove every method of Model/EditGen.v (regenerated on every run from the Python
   abstract syntax of the editing methods of TexSoup/data.py by harness/gen_edit.py,
   interpreted by Model/EditDSL.v) equal to the hand operation, for all trees, under guards.
   This file is the history-level statement: an invariant that provides the guards at every
   step and that every step preserves, a runner that executes a history (list Edit.op, the
   very type Props/C15.v uses, same addressing) with the translated methods, and the
   equality of the two runs, outcome by outcome.

   Vocabulary (Proofs/HistGenProofs.v; Props/C05gen.v for run / init / stores / gres):
     inv_b e          every argument list anywhere in e holds TexCmd/TexEnv objects only
                      (what TexArgs enforces)
     Inv t            := is_node t && inv_b t      (the root is itself a TexEnv)
     mat_ok e         acceptable material: a plain str (EStr), or a TexExpr object (TexCmd,
                      TexEnv, TexText -- not a bare Token) that satisfies inv_b
     mats_of o        the material of an operation (replace_with / insert / append)
     res_tree o       the tree an outcome leaves behind: Done t / Partial e t -> Some t
     gen_apply w t o  the operation o as a call of the Python API on the translated source:
                        ODelete      node.delete()            ORemove    node.parent.remove(node)
                        OReplaceWith node.replace_with( *m )   OInsert    node.insert(i, *m )
                        OAppend      node.append( *m )         ORename    node.name = s
                        OSetString.. node.string = s          OSetArgs   node.args = TexArgs([..])
                      run (EditGenProofs) in the state init t store: wrapper 0 is the node at the
                      position the op names, for delete / remove / replace_with its .parent is
                      wrapper 1 at Edit.nav_parent of the holder (how navigation makes a
                      TexNode).  Material: a str is a VStr; a TexExpr e is fresh material by
                      value (ROut e), passed bare or -- where w j says so for item j -- wrapped
                      in a TexNode of its own (next store entry, no parent).  Every wrapper
                      therefore wraps a fresh TexExpr, has no parent, occurs once
                      (EditGenProofs.mats_fresh) BY CONSTRUCTION; what remains a stipulation is
                      the representation itself (EditDSL.v): each ROut is a new object, not
                      part of the tree.
     tgt_ok t o       decidable: the op is aimed at an existing object that a TexNode can wrap
                        delete / replace_with  a TexExpr; a TexText only at a regular position
                        remove                 a TexExpr; a TexText only in the parent's own list
                        insert / append / string  a TexCmd / TexEnv
                        name                   a TexCmd / TexNamedEnv
                        args                   each index once, all in range (as Edit.op_ok)
     step_ok t o      := tgt_ok t o && forallb mat_ok (mats_of o)
     next_tree g      GDone t' _ | GExc _ t' -> Some t'   (an exception leaves a tree behind,
                      changed or not; the history goes on from it, as Edit.run_loop does)
     hand_trace t ops / gen_trace ws t ops
                      the outcomes (gres) of all steps, hand model / translated source
                      (ws k j: item j of the material of step k is wrapped)
     hist_ok t ops    decidable: step_ok at every step, against the tree reached
     all_done t tr    the final tree if every outcome of the trace is a normal return
     fresh_ok t ops   decidable: along Edit.run_ops, delete / remove / replace_with aim at a
                      TexExpr and all material is mat_ok
   Statements only; proofs are in Proofs/HistGenProofs.v. *)
From Coq Require Import List NArith ZArith Bool Permutation.
From TexModel Require Import Base Tables Chars Tokenizer Tree Reader Edit EditDSL EditGen.
From TexProofs Require Import EditProofs EditGenProofs HistGenProofs.
From TexModel Require Views ViewDSL ViewGen Args ArgDSL ArgGen.
From TexProofs Require ViewsProofs ViewGenProofs ArgsProofs ArgGenProofs.
Import ListNotations.
Local Open Scope Z_scope.

(* ------------------------------------------------------------- the invariant *)
(* it holds of every tree the reader returns *)
Theorem C15gen_invariant_parsed : forall (s : str) strict user t,
  parse s strict user = Ok t -> Inv t = true.
Proof. exact parse_Inv. Qed.
Print Assumptions C15gen_invariant_parsed.

(* it gives the guards of C05gen_delete / C05gen_replace(_with) / C14gen_set_string_cmd at
   every addressable position *)
Theorem C15gen_invariant_guards : forall t p h,
  Inv t = true -> get t p = Some h ->
  forallb is_node (args_of h) = true /\ (forall a0, args_of h = [a0] -> is_node a0 = true).
Proof. exact Inv_guards. Qed.
Print Assumptions C15gen_invariant_guards.

(* ... and the guard args_ok of the translated views (C03gen / C04gen) *)
Theorem C15gen_invariant_view_guard : forall t,
  Inv t = true -> ViewDSL.args_ok t = true /\ Views.is_texexpr t = true.
Proof. exact Inv_view_guard. Qed.
Print Assumptions C15gen_invariant_view_guard.

(* every operation of a history preserves it, whatever the outcome (returned, or raised
   after a partial change), for ALL targets, well aimed or not *)
Theorem C15gen_invariant_preserved : forall t o t',
  Inv t = true -> forallb mat_ok (mats_of o) = true ->
  res_tree (apply_op t o) = Some t' -> Inv t' = true.
Proof. exact apply_op_Inv. Qed.
Print Assumptions C15gen_invariant_preserved.

(* the operations with an explicit parent (anc.replace(node, ..), node.delete() through any
   parent, parent.remove(node)) and node.args.insert *)
Theorem C15gen_invariant_replace : forall root pp thp ti new r,
  Inv root = true -> forallb mat_ok new = true ->
  res_tree (replace_via root pp thp ti new) = Some r -> Inv r = true.
Proof. exact replace_via_Inv. Qed.
Print Assumptions C15gen_invariant_replace.
Theorem C15gen_invariant_delete : forall root pp thp ti r,
  Inv root = true -> res_tree (delete_via root pp thp ti) = Some r -> Inv r = true.
Proof. exact delete_via_Inv. Qed.
Print Assumptions C15gen_invariant_delete.
Theorem C15gen_invariant_remove : forall root pp thp ti r,
  Inv root = true -> res_tree (remove_via root pp thp ti) = Some r -> Inv r = true.
Proof. exact remove_via_Inv. Qed.
Print Assumptions C15gen_invariant_remove.
Theorem C15gen_invariant_args_insert : forall root np i k s r,
  Inv root = true -> res_tree (args_insert root np i k s) = Some r -> Inv r = true.
Proof. exact args_insert_Inv. Qed.
Print Assumptions C15gen_invariant_args_insert.

(* ------------------------------------------------------------------- one step *)
Theorem C15gen_step : forall w t o,
  Inv t = true -> step_ok t o = true -> gen_apply w t o = of_tree t (apply_op t o).
Proof. exact gen_apply_eq. Qed.
Print Assumptions C15gen_step.

(* neither side leaves its model: the step returns or raises, and leaves a tree *)
Theorem C15gen_step_total : forall t o,
  Inv t = true -> step_ok t o = true ->
  exists t', next_tree (of_tree t (apply_op t o)) = Some t'.
Proof. exact step_total. Qed.
Print Assumptions C15gen_step_total.

(* ------------------------------------------------------------------ histories *)
(* the same outcome -- returned value, exception, tree -- at every step *)
Theorem C15gen_history : forall ops ws t,
  Inv t = true -> hist_ok t ops = true -> gen_trace ws t ops = hand_trace t ops.
Proof. exact gen_trace_eq. Qed.
Print Assumptions C15gen_history.

Theorem C15gen_history_length : forall ops ws t,
  Inv t = true -> hist_ok t ops = true -> length (gen_trace ws t ops) = length ops.
Proof. exact trace_length. Qed.
Print Assumptions C15gen_history_length.

(* the invariant holds of every tree on the way *)
Theorem C15gen_history_invariant : forall ops ws t,
  Inv t = true -> hist_ok t ops = true ->
  forall g t', In g (gen_trace ws t ops) -> next_tree g = Some t' -> Inv t' = true.
Proof. exact gen_trace_Inv. Qed.
Print Assumptions C15gen_history_invariant.

(* the same final tree as Edit.run_ops, the history function of Props/C15.v *)
Theorem C15gen_final : forall ops ws t t',
  Inv t = true -> hist_ok t ops = true ->
  (all_done t (gen_trace ws t ops) = Some t' <-> run_ops t ops = Done t').
Proof. exact gen_final. Qed.
Print Assumptions C15gen_final.

(* the histories of Props/C15.v (ops_ok) are covered once their targets are TexExprs and
   their material acceptable *)
Theorem C15gen_covers_C15 : forall ops t,
  ops_ok t ops -> fresh_ok t ops = true -> hist_ok t ops = true.
Proof. exact hist_ok_of_ops_ok. Qed.
Print Assumptions C15gen_covers_C15.

(* C15_well_targeted_runs and C15_refines_partial, of the translated source *)
Theorem C15gen_well_targeted_runs : forall ops ws t,
  Inv t = true -> ops_ok t ops -> fresh_ok t ops = true ->
  exists t', all_done t (gen_trace ws t ops) = Some t' /\ run_ops t ops = Done t' /\ Inv t' = true.
Proof. exact gen_well_targeted_runs. Qed.
Print Assumptions C15gen_well_targeted_runs.

Theorem C15gen_refines_partial : forall ops ws t t',
  Inv t = true -> ops_ok t ops -> fresh_ok t ops = true ->
  all_done t (gen_trace ws t ops) = Some t' ->
  estr t' = ref_str (fold_left ref_step (map op_abs ops) (abs t)).
Proof. exact gen_refines. Qed.
Print Assumptions C15gen_refines_partial.

(* C15views.v for the generated run: after every step (a raising one included) the tree
   satisfies the guard of the translated navigation / search methods, so what THEY return
   (Model/ViewGen.v, C03gen / C04gen) is Model/Views.v, which is consistent *)
Theorem C15gen_views_consistent : forall ops ws t,
  Inv t = true -> hist_ok t ops = true ->
  forall g t', In g (gen_trace ws t ops) -> next_tree g = Some t' ->
  (ViewDSL.args_ok t' = true /\ Views.is_texexpr t' = true) /\
  (forall par, exists l,
     ViewDSL.run_node ViewGen.gen_v_cls ViewDSL.M_descendants par ([], t') []
     = Some (ViewDSL.RVal (ViewDSL.VList (map ViewDSL.of_item l))) /\
     Permutation (map snd l) (Views.walk t') /\ NoDup (map fst l)) /\
  (forall par q, exists l,
     ViewDSL.run_node ViewGen.gen_v_cls ViewDSL.M_find_all par ([], t') [ViewDSL.qval q]
     = Some (ViewDSL.RVal (ViewDSL.VList (map ViewDSL.of_item l))) /\
     ViewDSL.run_node ViewGen.gen_v_cls ViewDSL.M_find par ([], t') [ViewDSL.qval q]
     = Some (ViewDSL.RVal (ViewDSL.of_opt_item (hd_error l))) /\
     ViewDSL.run_node ViewGen.gen_v_cls ViewDSL.M_count par ([], t') [ViewDSL.qval q]
     = Some (ViewDSL.RVal (ViewDSL.VInt (Z.of_nat (length l))))) /\
  (forall n : Views.item, snd n = t' \/ In n (Views.descendants ([], t')) ->
     (forall x, In x (Views.descendants n) <-> Views.reach n x) /\
     NoDup (map fst (Views.descendants n)) /\
     Permutation (map snd (Views.descendants n)) (Views.walk (snd n)) /\
     map snd (Views.text n) = Views.leaves (snd n) /\
     (forall q, Views.find q n = hd_error (Views.find_all q n)) /\
     (forall q, Views.count q n = length (Views.find_all q n))).
Proof. exact gen_views_consistent. Qed.
Print Assumptions C15gen_views_consistent.

(* ------------------------------------------------ the argument-list operations *)
(* Edit.op has no constructor for node.args.insert(i, '{s}') (Edit.args_insert); it keeps the
   invariant (C15gen_invariant_args_insert), so it may be interleaved with a history.  Its
   tie to the source goes through Model/ArgGen.v (C18gen_insert).  What is ASSUMED: the glue
   between the two models -- the argument list of a node, a list of group objects, is the
   list  map grp (args_of h)  of (kind, text of the body) that Model/Args.v works on
   (grp keeps str(): render_grp), and the shadow list `.all` is any list satisfying the
   invariant of C18 (ArgsProofs.Inv: true of every TexArgs made by its constructor and
   changed through its methods, C18_shadow_invariant).
     brk k s    the Python str '{s}' / '[s]' *)
Theorem C15gen_grp_keeps_str : forall e, is_group_e e = true -> Args.render (grp e) = zs_of (estr e).
Proof. exact render_grp. Qed.
Print Assumptions C15gen_grp_keeps_str.

Theorem C15gen_args_insert : forall root np h i k s (st : Args.state),
  get root np = Some h -> has_args h = true ->
  fst st = map grp (args_of h) -> ArgsProofs.Inv st ->
  exists root' h',
    args_insert root np i k s = Done root' /\ get root' np = Some h' /\
    ArgDSL.run_meth ArgGen.gen_a_cls ArgDSL.M_insert
                    [ArgDSL.VInt i; ArgDSL.value_of_arg (Args.AS (brk k s))] st
    = ArgGenProofs.done (Args.m_insert st i (Args.AS (brk k s))) /\
    snd (Args.m_insert st i (Args.AS (brk k s))) = Args.ONone /\
    fst (fst (Args.m_insert st i (Args.AS (brk k s)))) = map grp (args_of h') /\
    ArgsProofs.Inv (fst (Args.m_insert st i (Args.AS (brk k s)))).
Proof. exact args_insert_C18gen. Qed.
Print Assumptions C15gen_args_insert.

(* the TexArgs constructor behind  node.args = TexArgs([node.args[i] for i in idxs])
   (C14gen_set_args is the assignment; C18gen_init the constructor) *)
Theorem C15gen_set_args_constructor : forall root np h idxs a',
  get root np = Some h -> has_args h = true -> nodup_nat idxs = true ->
  select (args_of h) idxs = Some a' ->
  exists root' h',
    set_args root np idxs = Done root' /\ get root' np = Some h' /\
    ArgDSL.run_meth ArgGen.gen_a_cls ArgDSL.M_init
                    [ArgDSL.VArgs (map Args.AG (map grp a'))] Args.empty_state
    = ArgGenProofs.done (Args.m_new (map Args.AG (map grp a'))) /\
    snd (Args.m_new (map Args.AG (map grp a'))) = Args.ONone /\
    fst (fst (Args.m_new (map Args.AG (map grp a')))) = map grp (args_of h') /\
    ArgsProofs.Inv (fst (Args.m_new (map Args.AG (map grp a')))).
Proof. exact set_args_C18gen. Qed.
Print Assumptions C15gen_set_args_constructor.

(* such a state exists for every node *)
Theorem C15gen_args_state_exists : forall h,
  let st := fst (Args.m_new (map Args.AG (map grp (args_of h)))) in
  fst st = map grp (args_of h) /\ ArgsProofs.Inv st.
Proof. exact args_state_exists. Qed.
Print Assumptions C15gen_args_state_exists.

(* ------------------------------------------------------- examples, refuted *)
(* \a{\b}\b\c[o]{p}: into the argument group of \a, in front, a copy of a \b parsed elsewhere
   (now the twin of the \b behind it) and a str; swap the arguments of \c; delete the
   ORIGINAL \b of the group, the second twin (a textual look-up would leave \a{S\b}).
   All hypotheses hold; both sides computed; replayed on the implementation. *)
Theorem C15gen_history_example :
  let t := parsed doc_hist in
  parse doc_hist true [] = Ok t /\
  Inv t = true /\ hist_ok t hist3 = true /\ ops_okb t hist3 = true /\ fresh_ok t hist3 = true /\
  gen_trace (fun _ _ => true) t hist3 = hand_trace t hist3 /\
  gen_trace (fun _ _ => false) t hist3 = hand_trace t hist3 /\
  map gstr (gen_trace (fun _ _ => true) t hist3)
  = [Some (None, s_hist3_1); Some (None, s_hist3_2); Some (None, s_hist3_3)] /\
  (exists t', all_done t (gen_trace (fun _ _ => true) t hist3) = Some t' /\
              run_ops t hist3 = Done t' /\
              estr t' = ref_str (fold_left ref_step (map op_abs hist3) (abs t))).
Proof. exact hist3_example. Qed.
Print Assumptions C15gen_history_example.

(* a history with a raising step (insert into \b, a command without contents: TypeError,
   tree untouched); the run goes on.  Replayed. *)
Theorem C15gen_history_raise_example :
  let t := parsed doc_hist in
  Inv t = true /\ hist_ok t hist_raise = true /\
  gen_trace (fun _ _ => true) t hist_raise = hand_trace t hist_raise /\
  map gstr (gen_trace (fun _ _ => true) t hist_raise)
  = [Some (None, s_hist3_1); Some (Some TypeError, s_hist3_1); Some (None, s_hist_raise_3)].
Proof. exact hist_raise_example. Qed.
Print Assumptions C15gen_history_raise_example.

Theorem C15gen_args_insert_example :
  let t := parsed doc_hist in
  exists h,
    get t [SBody 2]%nat = Some h /\ has_args h = true /\ forallb is_group_e (args_of h) = true /\
    (let st := fst (Args.m_new (map Args.AG (map grp (args_of h)))) in
     fst st = map grp (args_of h) /\
     ArgDSL.run_meth ArgGen.gen_a_cls ArgDSL.M_insert
                     [ArgDSL.VInt 1; ArgDSL.value_of_arg (Args.AS (brk GBrace s_S))] st
     = ArgGenProofs.done (Args.m_insert st 1 (Args.AS (brk GBrace s_S))) /\
     exists t' h', args_insert t [SBody 2]%nat 1 GBrace s_S = Done t' /\
                   get t' [SBody 2]%nat = Some h' /\
                   fst (fst (Args.m_insert st 1 (Args.AS (brk GBrace s_S)))) = map grp (args_of h') /\
                   Inv t' = true /\
                   estr t' = [92; 97; 123; 92; 98; 125; 92; 98; 92; 99; 91; 111; 93; 123; 83; 125; 123; 112; 125]%N).
Proof. exact args_insert_example. Qed.
Print Assumptions C15gen_args_insert_example.

(* REFUTED: "the generated run equals the hand run on every history Props/C15.v accepts
   (ops_ok)".  C15's op_ok lets delete / remove / replace_with aim at ANY element of a content
   list, a plain str included.  A str is not a TexExpr; no TexNode wraps it
   (TexNode.__init__ asserts); the code has no such call.  The hand model deletes the str,
   the translated source leaves the fragment.  Replayed:
     s = TexSoup(r'\a'); s.insert(0, 'S'); c = list(s.contents)[0]
     c is the str 'S': c.delete() -> AttributeError, TexNode(c) -> AssertionError.
   The hand model is used outside what it models; fresh_ok / hist_ok exclude exactly this. *)
Theorem C15gen_text_target_refuted :
  let t := parsed doc_a in
  Inv t = true /\ ops_okb t hist_text_target = true /\
  forallb (fun o => forallb mat_ok (mats_of o)) hist_text_target = true /\
  fresh_ok t hist_text_target = false /\
  (exists t1 t2, hand_trace t hist_text_target = [GDone t1 VNone; GDone t2 VNone] /\
                 get t1 [SBody 0]%nat = Some (EStr s_S) /\
                 gen_trace (fun _ _ => true) t hist_text_target = [GDone t1 VNone; GUnsup]).
Proof. exact text_target_refuted. Qed.
Print Assumptions C15gen_text_target_refuted.

(* REFUTED: "every edit preserves the invariant whatever the material", and "C15gen_step
   without Inv".  Material that is a TexCmd whose argument list holds a text (mat_ok false;
   TexArgs cannot build it, so there is nothing to replay) breaks the invariant; a later
   well-aimed delete inside it leaves the fragment while the hand model answers. *)
Theorem C15gen_bad_material_refuted :
  let t := parsed doc_a in
  let o := OAppend [] [bad_mat] in
  Inv t = true /\ tgt_ok t o = true /\ step_ok t o = false /\
  match apply_op t o with
  | Done t' =>
    Inv t' = false /\ tgt_ok t' (ODelete [SBody 1]%nat 0) = true /\
    (exists t'', apply_op t' (ODelete [SBody 1]%nat 0) = Done t'') /\
    gen_apply (fun _ => true) t' (ODelete [SBody 1]%nat 0) = GUnsup
  | _ => False
  end.
Proof. exact bad_material_refuted. Qed.
Print Assumptions C15gen_bad_material_refuted.
