(* C13, clause 1, for EVERY node of the tree ("the position recorded for every
   command, environment, group, math region and text token is the offset of
   its first character in the source").
   Statements only; proofs in Proofs/NodeProofs.v.

   Vocabulary (Proofs/NodeProofs.v):
     ebody e / eargs e   content list / argument list of a node
     child c e           c is an element of ebody e or of eargs e
     sub x e             reflexive-transitive closure of child
     item_in x t         exists p, sub p t /\ In x (ebody p)   (x is a content
                         item - element of the body of the root, of an
                         environment, of an \item, of a math region, of a
                         group, argument groups included - at any depth)
     arg_in x t          exists p, sub p t /\ In x (eargs p)   (x is an argument
                         of a command or environment at any depth)
     is_suffix a b       exists pre, b = pre ++ a
   Every node of t other than t itself is item_in or arg_in (C13_node_cases).

   All theorems in this file are UNCONDITIONAL: any source string / token
   list, strict or tolerant mode, any user skip list; the only hypothesis is
   that parsing succeeded.  They hold with three explicit exceptions, which
   are not results of read_expr / read_arg and are named in the statements:
     - the plain `str` inside a bare-token argument (it has no position) and
       the brace group the code wraps it in, which records position -1
       (C13_coerced_group_position_refuted; same on the real code:
       TexSoup(r'\textbf x').textbf.args[0].position == -1);
     - the raw body of a verbatim-like environment is not a read_expr result
       either, but it IS covered by the position theorems: it records the
       position of the token at which the scan started. *)
From Coq Require Import List NArith ZArith Bool.
From TexModel Require Import Base Tables Chars Tokenizer Tree Reader.
From TexProofs Require Import TokProofs ReaderLen ReaderCons ConsTop StructProofs ConsBridge NodeProofs.
Import ListNotations.

(* Step 1, the sub-call lemma for a whole parse: every content item, at any
   depth, is the result of a read_expr call on a suffix of the token list
   (with the caller's or the empty skip list, in the caller's mode or strict),
   or the raw body of a verbatim-like environment (the texts of a run of
   consecutive tokens), or the plain string of a coerced bare token; every
   argument is the result of a read_arg call whose opening token c directly
   precedes the suffix it read, or a coerced bare token, or a bare command *)
Theorem C13_every_node_is_a_call_result :
  forall toks strict user t, parse_tokens toks strict user = Ok t ->
    (forall x, item_in x t ->
       (exists f skip' strict' m toks' rest,
           is_suffix toks' toks /\ (skip' = [] \/ skip' = all_skip user) /\
           (strict' = true \/ strict' = strict) /\
           read_expr f skip' strict' m toks' = Ok (x, rest)) \/
       (exists a pre b c, toks = a ++ pre ++ b /\ head (pre ++ b) = Some c /\
                          x = ERaw (texts pre) (tpos c)) \/
       (exists c, In c toks /\ x = EStr (ttext c))) /\
    (forall g, arg_in g t ->
       (exists f c strict' m toks' rest pre,
           toks = pre ++ c :: toks' /\ (strict' = true \/ strict' = strict) /\
           read_arg f c strict' m toks' = Ok (g, rest)) \/
       (exists c, In c toks /\ g = EGroup GBrace [EStr (ttext c)] (-1)%Z) \/
       (exists n c, In c toks /\ is_tc TEscape c = true /\ g = ECmd n [] [] (tpos c))).
Proof. exact parse_tokens_nodes. Qed.
Print Assumptions C13_every_node_is_a_call_result.

(* the same for the result of any single read_expr call, at every fuel *)
Theorem C13_subcalls_of_read_expr :
  forall f skip strict m toks e rest, read_expr f skip strict m toks = Ok (e, rest) ->
    (forall x, item_in x e ->
       (exists f' skip' strict' m' toks' rest',
           is_suffix toks' toks /\ (skip' = [] \/ skip' = skip) /\
           (strict' = true \/ strict' = strict) /\
           read_expr f' skip' strict' m' toks' = Ok (x, rest')) \/
       (exists a pre b c, toks = a ++ pre ++ b /\ head (pre ++ b) = Some c /\
                          x = ERaw (texts pre) (tpos c)) \/
       (exists c, In c toks /\ x = EStr (ttext c))) /\
    (forall g, arg_in g e ->
       (exists f' c strict' m' toks' rest' pre,
           toks = pre ++ c :: toks' /\ (strict' = true \/ strict' = strict) /\
           read_arg f' c strict' m' toks' = Ok (g, rest')) \/
       (exists c, In c toks /\ g = EGroup GBrace [EStr (ttext c)] (-1)%Z) \/
       (exists n c, In c toks /\ is_tc TEscape c = true /\ g = ECmd n [] [] (tpos c))).
Proof. exact read_expr_nodes. Qed.
Print Assumptions C13_subcalls_of_read_expr.

Theorem C13_node_cases :
  forall x t, sub x t -> x = t \/ item_in x t \/ arg_in x t.
Proof. exact sub_cases. Qed.
Print Assumptions C13_node_cases.

(* token level: every content item other than a plain str, and every argument
   other than a coerced bare token, records the position of a token of the
   list (commands, environments, math regions, groups, text leaves, raw
   verbatim bodies) *)
Theorem C13_every_node_position :
  forall toks strict user t, parse_tokens toks strict user = Ok t ->
    (forall x, item_in x t ->
       (exists c, In c toks /\ x = EStr (ttext c)) \/
       (exists c, In c toks /\ epos x = Some (tpos c))) /\
    (forall x, arg_in x t ->
       (exists c, In c toks /\ x = EGroup GBrace [EStr (ttext c)] (-1)%Z) \/
       (exists c, In c toks /\ epos x = Some (tpos c))).
Proof. exact every_node_position. Qed.
Print Assumptions C13_every_node_position.

(* string level: the position p recorded for a node is the recorded position of
   a token c of the source; the (non-empty) text of c stands in the source at
   exactly offset p; and the node's own text begins with the text of c (the
   only node whose text does not is an empty verbatim body).  So p is the
   offset in the source of the node's first character. *)
Theorem C13_node_positions_are_offsets :
  forall (s : str) strict user t, parse s strict user = Ok t ->
    forall x, item_in x t \/ arg_in x t ->
      (exists c, In c (fst (tokens_of_string s)) /\
                 (x = EStr (ttext c) \/ x = EGroup GBrace [EStr (ttext c)] (-1)%Z)) \/
      (exists c p, In c (fst (tokens_of_string s)) /\ epos x = Some p /\ p = tpos c /\
                   ttext c <> [] /\ slice s p (length (ttext c)) = ttext c /\
                   ((exists tail, estr x = ttext c ++ tail) \/ exists q, x = ERaw [] q)).
Proof. exact node_positions_are_offsets. Qed.
Print Assumptions C13_node_positions_are_offsets.

(* the exception is real (and reproduces on the implementation): the brace
   group made from a bare-token argument records -1 *)
Theorem C13_coerced_group_position_refuted :
  exists (s : str) t g, parse s true [] = Ok t /\ arg_in g t /\ is_group g = true /\
    epos g = Some (-1)%Z.
Proof. exact coerced_group_position_refuted. Qed.
Print Assumptions C13_coerced_group_position_refuted.

(* non-vacuity / illustration:
   \begin{itemize}\item a\begin{center}\k[o]{x}$y$\end{center}%c
   \item\(z\)\end{itemize}
   parses; its 16 nodes below the root (a command with an optional and a
   mandatory argument inside an environment inside an \item, two math regions,
   a comment, ...) record these offsets *)
Example C13_nodes_example :
  let s := [92; 98; 101; 103; 105; 110; 123; 105; 116; 101; 109; 105; 122; 101; 125; 92; 105;
            116; 101; 109; 32; 97; 92; 98; 101; 103; 105; 110; 123; 99; 101; 110; 116; 101; 114;
            125; 92; 107; 91; 111; 93; 123; 120; 125; 36; 121; 36; 92; 101; 110; 100; 123; 99;
            101; 110; 116; 101; 114; 125; 37; 99; 10; 92; 105; 116; 101; 109; 92; 40; 122; 92;
            41; 92; 101; 110; 100; 123; 105; 116; 101; 109; 105; 122; 101; 125]%N in
  exists t, parse s true [] = Ok t /\
    map epos (tl (nodes t)) =
      map Some [0; 15; 20; 22; 36; 38; 39; 41; 42; 44; 45; 59; 61; 62; 67; 69]%Z.
Proof. eexists. split; vm_compute; reflexivity. Qed.
