(* C13  Recorded source positions are true offsets.
   Statements only.  Token offsets: Proofs/TokProofs.v.  Line/column map:
   Proofs/CLOProofs.v.  Node positions: Proofs/ReaderPos.v (when present). *)
From Coq Require Import List NArith ZArith Bool.
From TexModel Require Import Base Tables Chars Tokenizer CLO.
From TexModel Require Import Tree Reader.
From TexProofs Require Import TokProofs CLOProofs StructProofs.
Import ListNotations.
Local Open Scope Z_scope.

(* the position recorded for every token is the offset of its first character:
   the token's text is the slice of the source at that offset *)
Theorem C13_token_positions :
  forall (s : str) toks e, tokens_of_string s = (toks, e) ->
    Forall (fun t => slice s (tpos t) (length (ttext t)) = ttext t) toks.
Proof. exact token_slices. Qed.
Print Assumptions C13_token_positions.

(* the position recorded for a command, environment, group, math region or text
   leaf is the recorded position of the first token it was read from (every
   reader call, every fuel, every nesting depth: each node of the tree is the
   result of such a call); with C13_token_positions that is the offset of its
   first character *)
Theorem C13_node_position_is_first_token :
  forall f skip strict m c src e rest,
    read_expr f skip strict m (c :: src) = Ok (e, rest) -> epos e = Some (tpos c).
Proof. exact read_expr_position. Qed.
Print Assumptions C13_node_position_is_first_token.

(* char_pos_to_line: for every source and every offset 0 <= i < len the result
   is (number of line feeds before offset i, distance from the last line feed
   before i) - the line and column at which character i stands *)
Theorem C13_line_column :
  forall (src : list N) (i : Z), 0 <= i < Z.of_nat (length src) ->
    clo src i = clo_spec src i.
Proof. exact clo_correct. Qed.
Print Assumptions C13_line_column.

(* the specification's column really is the length of the longest LF-free
   suffix of the text before the offset *)
Theorem C13_column_spec_sane :
  forall l : list N,
    exists pre, l = pre ++ lf_free_suffix l /\
                Forall (fun c => is_lf c = false) (lf_free_suffix l) /\
                (pre = [] \/ exists p, pre = p ++ [10%N]).
Proof. exact lf_free_suffix_spec. Qed.
Print Assumptions C13_column_spec_sane.

Example C13_line_column_example :
  map (clo [97; 98; 10; 99; 100; 10; 10; 101]%N) [0; 1; 2; 3; 4; 5; 6; 7] =
  [(0, 0); (0, 1); (0, 2); (1, 0); (1, 1); (1, 2); (2, 0); (3, 0)].
Proof. vm_compute. reflexivity. Qed.
