(* C02  The parse tree mirrors the construct structure of the document.
   Statements only; proofs in Proofs/StructProofs.v, ReaderCons.v.

   PARTIAL.  The full statement ("for every well-formed document d,
   parse (render d) = expected d") is the completeness direction PP of
   DESIGN.md section 5 and is NOT proved; it is decided by correspondence
   (extracted model vs. implementation) + the oracle that compares the
   implementation's tree with the generating syntax tree.
   Proved for every input and every fuel:
     - which node an expression becomes is decided by its first token alone
       (math opener -> math node of that kind, escape -> command/environment,
       `{` -> brace group, anything else -> one text leaf of exactly that
       token): nothing is reinterpreted;
     - every token is consumed exactly once, in order, by exactly one node
       (CP: what a node consumed re-serialises to that node): nothing is lost,
       duplicated, merged into a neighbour or attached elsewhere;
     - an \item owns the content up to the next \item, an \end, a closing
       brace or the end of input, and only there does it stop;
     - the arguments of \newcommand-style commands are read in special mode,
       which is inherited by nested groups, and in special mode \begin / \end
       are plain commands that open or close nothing. *)
From Coq Require Import List NArith ZArith Bool.
From TexModel Require Import Base Tables Chars Tokenizer Tree Reader.
From TexProofs Require Import ReaderLen ReaderCons StructProofs.
Import ListNotations.

Theorem C02_node_kind_by_first_token :
  forall f skip strict m c src e rest,
    read_expr f skip strict m (c :: src) = Ok (e, rest) ->
    match math_kind_of_begin (tcat c) with
    | Some k => exists body, e = EMath k body (tpos c)
    | None =>
      if is_tc TEscape c
      then (exists n a b, e = ECmd n a b (tpos c)) \/ (exists n a b, e = ENamed n a b (tpos c))
      else if is_tc TGroupBegin c
           then exists k body, e = EGroup k body (tpos c)
           else e = EText c /\ rest = src
    end.
Proof. exact read_expr_shape. Qed.
Print Assumptions C02_node_kind_by_first_token.

Theorem C02_each_token_once_in_order :
  forall SK f skip strict m toks e rest,
    sub_skip SK skip -> Hyp SK toks -> read_expr f skip strict m toks = Ok (e, rest) ->
    exists used, toks = used ++ rest /\ (nobare e = true -> Rel (negb strict) used (estr e)).
Proof. intros SK f. exact (proj1 (cp_all_holds SK f)). Qed.
Print Assumptions C02_each_token_once_in_order.

Theorem C02_item_stops_at_item_or_end :
  forall f acc t ts cname cargs crest,
    is_tc TEscape t = true ->
    read_command f (-1) (-1) 1 true MNonMath (t :: ts) = Ok ((cname, cargs), crest) ->
    str_eqb cname s_end || str_eqb cname s_item = true ->
    read_item_loop (S f) acc (t :: ts) = Ok (acc, t :: ts).
Proof. exact item_stops_at_item_or_end. Qed.
Print Assumptions C02_item_stops_at_item_or_end.

Theorem C02_item_stops_at_closing_brace :
  forall f acc t ts, is_tc TEscape t = false -> is_tc TGroupEnd t = true ->
    read_item_loop (S f) acc (t :: ts) = Ok (acc, t :: ts).
Proof. exact item_stops_at_closing_brace. Qed.
Print Assumptions C02_item_stops_at_closing_brace.

Theorem C02_item_continues_otherwise :
  forall f acc t ts,
    (is_tc TEscape t = false /\ is_tc TGroupEnd t = false) \/
    (is_tc TEscape t = true /\ exists cname cargs crest,
       read_command f (-1) (-1) 1 true MNonMath (t :: ts) = Ok ((cname, cargs), crest) /\
       str_eqb cname s_end || str_eqb cname s_item = false) ->
    read_item_loop (S f) acc (t :: ts) =
    bind (read_expr f [] true MNonMath (t :: ts))
         (fun '(e, src1) => read_item_loop f (acc ++ [e]) src1).
Proof. exact item_continues_otherwise. Qed.
Print Assumptions C02_item_continues_otherwise.

Theorem C02_item_only_extends :
  forall f acc toks es rest,
    read_item_loop f acc toks = Ok (es, rest) -> exists new, es = acc ++ new.
Proof. exact itemloop_shape. Qed.
Print Assumptions C02_item_only_extends.

Theorem C02_special_command_enters_special_mode :
  forall f nreq nopt strict m name src,
    mem_str (ttext name) Tables.special_commands = true ->
    read_command (S f) nreq nopt 0 strict m (name :: src) =
    (let '(nreq', nopt') :=
         if (nreq <? 0)%Z && (nopt <? 0)%Z then signature_of (ttext name) else (nreq, nopt) in
     bind (read_args f nreq' nopt' strict MSpecial src)
          (fun '(args, src1) => Ok ((ttext name, args), src1))).
Proof. exact special_command_enters_special_mode. Qed.
Print Assumptions C02_special_command_enters_special_mode.

Theorem C02_special_mode_begin_is_plain :
  forall f skip strict c src name args src1,
    math_kind_of_begin (tcat c) = None -> is_tc TEscape c = true ->
    read_command f (-1) (-1) 0 strict MSpecial src = Ok ((name, args), src1) ->
    str_eqb name s_item = false ->
    read_expr (S f) skip strict MSpecial (c :: src) = Ok (ECmd (strip name) args [] (tpos c), src1).
Proof. exact special_mode_begin_is_plain. Qed.
Print Assumptions C02_special_mode_begin_is_plain.

Theorem C02_special_mode_inherited :
  forall f k pos strict acc t src,
    is_group_end k t = false ->
    read_arg_loop (S f) k pos strict MSpecial acc (t :: src) =
    bind (read_expr f [] strict MSpecial (t :: src))
         (fun '(e, src1) => read_arg_loop f k pos strict MSpecial (acc ++ [e]) src1).
Proof. exact special_mode_inherited. Qed.
Print Assumptions C02_special_mode_inherited.

(* the document of the property's own example: \newcommand{\x}{\begin{y}} \begin{itemize}\item a \item b\end{itemize} *)
Example C02_example :
  let s := [92;110;101;119;99;111;109;109;97;110;100;123;92;120;125;123;92;98;101;103;105;110;123;121;125;125;
            92;98;101;103;105;110;123;105;116;101;109;105;122;101;125;92;105;116;101;109;32;97;32;92;105;116;101;109;32;98;
            92;101;110;100;123;105;116;101;109;105;122;101;125]%N in
  match parse s true [] with
  | Ok (ERoot [ECmd _ [EGroup GBrace [ECmd _ [] [] _] _; EGroup GBrace [ECmd b [EGroup GBrace _ _] [] _] _] [] _;
               ENamed _ [] [ECmd i1 [] [EText _] _; ECmd i2 [] [EText _] _] _]) =>
    b = s_begin /\ i1 = s_item /\ i2 = s_item
  | _ => False
  end.
Proof. vm_compute. repeat split. Qed.
