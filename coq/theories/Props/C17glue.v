(* C17glue  The pipeline glue of the model is the translated source.

   Model/GlueGen.v is regenerated on every run from the Python abstract syntax
   of read (TexSoup/tex.py) and TexSoup (TexSoup/__init__.py) -- and of
   categorize, next_token, tokenize, see C19glue -- by harness/gen_glue.py
   (fail-closed).  `top_call gen_env f args` runs function f on the argument
   values with the semantics of Model/GlueDSL.v; where the source calls
   categorize / tokenize it runs their translations (over the translated token
   rules of TokGen.v), where it calls reader.read_tex it runs the translated
   reader of ReadGen.v.  GDone v = returned v inside the modelled fragment and
   within all fuel; GRaise e = raised the Python exception e.

     skip_val l      the tuple of strs l          (skip_envs)
     tol_val strict  0 if strict else 1           (tolerance)
     chunks_val l    the list of strs l           (a non-str `tex`)
     read_result s r   r = Ok e  -> GDone (e, s)  [read returns (root, source)]
                       r = Err x -> GRaise x
     soup_result s r   r = Ok e  -> GDone (TexNode(e, src=s));  Err x -> GRaise x
   `parse` is Reader.parse, the hand-written model every other proof is about.
   Statements only; proofs are in Proofs/GlueGenProofs.v. *)
From Coq Require Import List NArith ZArith Bool.
From TexModel Require Import Base Tables Chars Tokenizer Tree Reader GlueDSL GlueGen.
From TexProofs Require Import GlueGenProofs.
Import ListNotations.

(* read on a str is the model's parse: categorize -> tokenize -> read_tex ->
   TexEnv('[tex]', ...), for every string, both tolerance levels, any skip list *)
Theorem C17glue_read_str :
  forall s skip strict,
    top_call gen_env F_read [VStr s; skip_val skip; tol_val strict]
    = read_result s (parse s strict skip).
Proof. exact read_str_ok. Qed.
Print Assumptions C17glue_read_str.

(* input form: on any list of chunks read is read on their concatenation
   (''.join(itertools.chain( *tex )) happens before anything else; the source
   returned is the joined string) *)
Theorem C17glue_read_chunks :
  forall l skip strict,
    top_call gen_env F_read [chunks_val l; skip_val skip; tol_val strict]
    = top_call gen_env F_read [VStr (concat l); skip_val skip; tol_val strict].
Proof. exact read_chunks_ok. Qed.
Print Assumptions C17glue_read_chunks.

(* the default arguments are skip_envs=() and tolerance=0 *)
Theorem C17glue_read_defaults :
  forall s, top_call gen_env F_read [VStr s] = read_result s (parse s true []).
Proof. exact read_defaults_ok. Qed.
Print Assumptions C17glue_read_defaults.

(* TexSoup passes its three arguments on and wraps the root and the source *)
Theorem C17glue_soup_str :
  forall s skip strict,
    top_call gen_env F_TexSoup [VStr s; skip_val skip; tol_val strict]
    = soup_result s (parse s strict skip).
Proof. exact soup_str_ok. Qed.
Print Assumptions C17glue_soup_str.

Theorem C17glue_soup_chunks :
  forall l skip strict,
    top_call gen_env F_TexSoup [chunks_val l; skip_val skip; tol_val strict]
    = top_call gen_env F_TexSoup [VStr (concat l); skip_val skip; tol_val strict].
Proof. exact soup_chunks_ok. Qed.
Print Assumptions C17glue_soup_chunks.

Theorem C17glue_soup_defaults :
  forall s, top_call gen_env F_TexSoup [VStr s] = soup_result s (parse s true []).
Proof. exact soup_defaults_ok. Qed.
Print Assumptions C17glue_soup_defaults.

(* non-vacuity: \a{} as a str and as the chunks "\a", "", "{}"; the unclosed
   \a{ raises in strict mode and parses in tolerant mode *)
Example C17glue_example :
  top_call gen_env F_read [VStr [92; 97; 123; 125]%N; skip_val []; tol_val true]
  = GDone (VTuple [VExpr (ERoot [ECmd [97%N] [EGroup GBrace [] 2] [] 0]);
                   VStr [92; 97; 123; 125]%N])
  /\ top_call gen_env F_read [chunks_val [[92; 97]%N; []; [123; 125]%N]; skip_val []; tol_val true]
     = GDone (VTuple [VExpr (ERoot [ECmd [97%N] [EGroup GBrace [] 2] [] 0]);
                      VStr [92; 97; 123; 125]%N])
  /\ top_call gen_env F_TexSoup [VStr [92; 97; 123]%N] = GRaise (XErr TypeError)
  /\ top_call gen_env F_TexSoup [VStr [92; 97; 123]%N; skip_val []; tol_val false]
     = GDone (VNode (ERoot [ECmd [97%N] [EGroup GBrace [] 2] [] 0]) (Some [92; 97; 123]%N)).
Proof. exact read_example. Qed.
