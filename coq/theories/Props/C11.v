(* C11  Verbatim-like environments are opaque.
   Statements only; proofs in Proofs/SkipEnvProofs.v.

   Model: Reader.skip_scan / Reader.read_skip_env mirror TexSoup.reader.read_skip_env
     contents = [src.forward_until(lambda s: s.startswith('\end{name}'), peek=False)]
     if not src.startswith('\end{name}'): unclosed_env_handler(...)    # EOFError
     src.forward(5)
   where the look-ahead of forward_until joins the next len('\end{name}') TOKENS.
   All theorems are about arbitrary token lists, names and fuel.

   Definitions from SkipEnvProofs used below (the first three are spelled out
   in the statements, which are convertible):
     end_here target toks   := starts_with (texts (firstn (length target) toks)) target
     no_end_inside target pre rest :=
        forall a b, pre = a ++ b -> b <> [] -> end_here target (b ++ rest) = false
     same_members s1 s2     := forall n, mem_str n s1 = mem_str n s2
     children e             := the immediate sub-expressions of e (arguments ++ contents)
     contents e             := the content list of e
     descendant e d         := d is reachable from e through `children` (>= 1 step)

   Verdicts: the token-level clauses are proved; two clauses of the English
   statement are refuted on the faithful model and on the real code
   (C11_user_like_builtin_refuted, C11_body_after_spacer_refuted). *)
From Coq Require Import List NArith ZArith Bool Permutation.
From TexModel Require Import Base Tables Chars Tokenizer Tree Reader.
From TexProofs Require Import SkipEnvProofs.
Import ListNotations.

(* 1. the scan: the body is the concatenated text of all tokens before the FIRST
   token boundary at which the next len(target) tokens, joined, start with the
   target - whatever those tokens are *)
Theorem skip_scan_spec :
  forall target acc toks body rest,
    skip_scan target acc toks = (body, rest) ->
    exists pre,
      toks = pre ++ rest /\ body = acc ++ texts pre /\
      (forall a b, pre = a ++ b -> b <> [] ->
         starts_with (texts (firstn (length target) (b ++ rest))) target = false) /\
      (rest = [] \/ starts_with (texts (firstn (length target) rest)) target = true).
Proof. exact SkipEnvProofs.skip_scan_spec. Qed.
Print Assumptions skip_scan_spec.

(* converse (hence uniqueness of the decomposition) *)
Theorem skip_scan_complete :
  forall target acc pre rest,
    (forall a b, pre = a ++ b -> b <> [] ->
       starts_with (texts (firstn (length target) (b ++ rest))) target = false) ->
    (rest = [] \/ starts_with (texts (firstn (length target) rest)) target = true) ->
    skip_scan target acc (pre ++ rest) = (acc ++ texts pre, rest).
Proof. exact SkipEnvProofs.skip_scan_complete. Qed.
Print Assumptions skip_scan_complete.

(* the scan never looks at categories or positions: only the token texts count *)
Theorem skip_scan_text_only :
  forall target acc toks1 toks2,
    map ttext toks1 = map ttext toks2 ->
    fst (skip_scan target acc toks1) = fst (skip_scan target acc toks2) /\
    map ttext (snd (skip_scan target acc toks1)) = map ttext (snd (skip_scan target acc toks2)).
Proof. exact SkipEnvProofs.skip_scan_text_only. Qed.
Print Assumptions skip_scan_text_only.

(* for token lists without empty tokens (all tokenizer outputs) the boundary test
   is "the remaining text starts with \end{name}" *)
Theorem end_here_text :
  forall target toks,
    Forall (fun t => ttext t <> []) toks ->
    starts_with (texts (firstn (length target) toks)) target = starts_with (texts toks) target.
Proof. exact SkipEnvProofs.end_here_text. Qed.
Print Assumptions end_here_text.

(* 2. read_skip_env succeeds exactly when the scan stops before the end *)
Theorem read_skip_env_spec :
  forall name args pos toks e rest',
    read_skip_env name args pos toks = Ok (e, rest') <->
    exists t0 pre rest,
      hd_error toks = Some t0 /\ toks = pre ++ rest /\ rest <> [] /\
      starts_with (texts (firstn (length (env_end name)) rest)) (env_end name) = true /\
      (forall a b, pre = a ++ b -> b <> [] ->
         starts_with (texts (firstn (length (env_end name)) (b ++ rest))) (env_end name) = false) /\
      e = ENamed name args [ERaw (texts pre) (tpos t0)] pos /\
      rest' = skipn 5 rest.
Proof. exact SkipEnvProofs.read_skip_env_ok_iff. Qed.
Print Assumptions read_skip_env_spec.

(* "can never cause a parse error": the only failure is EOFError ... *)
Theorem read_skip_env_only_eof :
  forall name args pos toks er,
    read_skip_env name args pos toks = Err er -> er = EOFError.
Proof. exact SkipEnvProofs.read_skip_env_only_eof. Qed.
Print Assumptions read_skip_env_only_eof.

(* ... raised exactly when \end{name} starts at no token boundary *)
Theorem read_skip_env_eof_iff :
  forall name args pos toks,
    read_skip_env name args pos toks = Err EOFError <->
    (forall a b, toks = a ++ b -> b <> [] ->
       starts_with (texts (firstn (length (env_end name)) b)) (env_end name) = false).
Proof. exact SkipEnvProofs.read_skip_env_eof_iff. Qed.
Print Assumptions read_skip_env_eof_iff.

(* serialisation: the body is written back as it was scanned, and the token texts
   consumed are body ++ (a remainder that starts with \end{name}) *)
Theorem read_skip_env_estr :
  forall name args pos toks e rest',
    read_skip_env name args pos toks = Ok (e, rest') ->
    exists body rest,
      estr e = env_begin name ++ concat (map estr args) ++ body ++ env_end name /\
      texts toks = body ++ texts rest /\
      starts_with (texts rest) (env_end name) = true /\
      rest' = skipn 5 rest.
Proof. exact SkipEnvProofs.read_skip_env_estr. Qed.
Print Assumptions read_skip_env_estr.

(* 3. the content list is ONE bare token; it has no sub-expression, so every
   expression below the environment node is the token itself or lies in the
   environment's arguments: nothing of the body is searchable *)
Theorem skip_env_single_raw :
  forall name args pos toks e rest',
    read_skip_env name args pos toks = Ok (e, rest') ->
    exists body p,
      e = ENamed name args [ERaw body p] pos /\
      contents e = [ERaw body p] /\
      children (ERaw body p) = [] /\
      (forall d, descendant e d ->
         d = ERaw body p \/ exists a, In a args /\ (d = a \/ descendant a d)).
Proof. exact SkipEnvProofs.skip_env_single_raw. Qed.
Print Assumptions skip_env_single_raw.

(* where the option is consulted: \begin{name} with name in the list *)
Theorem read_expr_begin_skip :
  forall f skip strict m c src a0 args' src1,
    math_kind_of_begin (tcat c) = None -> is_tc TEscape c = true ->
    read_command f (-1)%Z (-1)%Z 0 strict m src = Ok ((s_begin, a0 :: args'), src1) ->
    mode_is_special m = false ->
    mem_str (strip (arg_string a0)) skip = true ->
    read_expr (S f) skip strict m (c :: src) =
    read_skip_env (strip (arg_string a0)) args' (tpos c) src1.
Proof. exact SkipEnvProofs.read_expr_begin_skip. Qed.
Print Assumptions read_expr_begin_skip.

(* hence, with the option, \begin{name}... yields a tree with a single bare token
   or EOFError - whatever tokens follow *)
Theorem read_expr_begin_skip_cases :
  forall f skip strict m c src a0 args' src1,
    math_kind_of_begin (tcat c) = None -> is_tc TEscape c = true ->
    read_command f (-1)%Z (-1)%Z 0 strict m src = Ok ((s_begin, a0 :: args'), src1) ->
    mode_is_special m = false ->
    mem_str (strip (arg_string a0)) skip = true ->
    (exists body p rest',
       read_expr (S f) skip strict m (c :: src) =
       Ok (ENamed (strip (arg_string a0)) args' [ERaw body p] (tpos c), rest')) \/
    read_expr (S f) skip strict m (c :: src) = Err EOFError.
Proof. exact SkipEnvProofs.read_expr_begin_skip_cases. Qed.
Print Assumptions read_expr_begin_skip_cases.

Theorem read_expr_begin_noskip :
  forall f skip strict m c src a0 args' src1,
    math_kind_of_begin (tcat c) = None -> is_tc TEscape c = true ->
    read_command f (-1)%Z (-1)%Z 0 strict m src = Ok ((s_begin, a0 :: args'), src1) ->
    mode_is_special m = false ->
    mem_str (strip (arg_string a0)) skip = false ->
    read_expr (S f) skip strict m (c :: src) =
    read_env_loop f (strip (arg_string a0)) args' (tpos c) skip strict
      (if mem_str (strip (arg_string a0)) Tables.math_env_names then MMath else m) [] src1.
Proof. exact SkipEnvProofs.read_expr_begin_noskip. Qed.
Print Assumptions read_expr_begin_noskip.

(* nesting in named environments keeps the option: read_env passes its list on *)
Theorem env_loop_threads_skip :
  forall f name args pos skip strict m acc t ts,
    is_tc TEscape t = false ->
    read_env_loop (S f) name args pos skip strict m acc (t :: ts) =
    bind (read_expr f skip strict m (t :: ts)) (fun '(e, src1) =>
      read_env_loop f name args pos skip strict m (acc ++ [e]) src1).
Proof. exact SkipEnvProofs.env_loop_threads_skip. Qed.
Print Assumptions env_loop_threads_skip.

Theorem env_loop_threads_skip_cmd :
  forall f name args pos skip strict m acc t ts cname cargs x,
    is_tc TEscape t = true ->
    read_command f (-1)%Z (-1)%Z 1 strict m (t :: ts) = Ok ((cname, cargs), x) ->
    str_eqb cname s_end = false ->
    read_env_loop (S f) name args pos skip strict m acc (t :: ts) =
    bind (read_expr f skip strict m (t :: ts)) (fun '(e, src1) =>
      read_env_loop f name args pos skip strict m (acc ++ [e]) src1).
Proof. exact SkipEnvProofs.env_loop_threads_skip_cmd. Qed.
Print Assumptions env_loop_threads_skip_cmd.

(* 4. "a user-supplied name behaves exactly like the built-in ones", part that
   holds: the reader depends on the list only through membership *)
Theorem skip_names_only_by_membership :
  forall f skip1 skip2 strict m toks,
    (forall n, mem_str n skip1 = mem_str n skip2) ->
    read_expr f skip1 strict m toks = read_expr f skip2 strict m toks.
Proof. exact SkipEnvProofs.skip_names_only_by_membership. Qed.
Print Assumptions skip_names_only_by_membership.

Theorem skip_names_only_by_membership_env :
  forall f skip1 skip2 name args pos strict m acc toks,
    (forall n, mem_str n skip1 = mem_str n skip2) ->
    read_env_loop f name args pos skip1 strict m acc toks =
    read_env_loop f name args pos skip2 strict m acc toks.
Proof. exact SkipEnvProofs.skip_names_only_by_membership_env. Qed.
Print Assumptions skip_names_only_by_membership_env.

Theorem C11_builtin_user_same :
  forall s strict n user,
    mem_str n Tables.skip_env_names = true ->
    parse s strict (n :: user) = parse s strict user.
Proof. exact SkipEnvProofs.C11_builtin_user_same. Qed.
Print Assumptions C11_builtin_user_same.

Theorem C11_user_set_only :
  forall s strict u1 u2,
    (forall n, In n u1 <-> In n u2) -> parse s strict u1 = parse s strict u2.
Proof. exact SkipEnvProofs.C11_user_set_only. Qed.
Print Assumptions C11_user_set_only.

Theorem C11_user_permutation :
  forall s strict u1 u2, Permutation u1 u2 -> parse s strict u1 = parse s strict u2.
Proof. exact SkipEnvProofs.C11_user_permutation. Qed.
Print Assumptions C11_user_permutation.

Theorem C11_user_duplicate :
  forall s strict n u, parse s strict (n :: n :: u) = parse s strict (n :: u).
Proof. exact SkipEnvProofs.C11_user_duplicate. Qed.
Print Assumptions C11_user_duplicate.

(* ... and the part that does not hold.  forward(5) assumes that \end{name} is
   five tokens.  Provided it is, text of tree + text of remaining tokens = input: *)
Theorem skip_env_roundtrip_partial :
  forall name args pos toks e rest',
    read_skip_env name args pos toks = Ok (e, rest') ->
    texts (firstn 5 (snd (skip_scan (env_end name) [] toks))) = env_end name ->
    estr e ++ texts rest' = env_begin name ++ concat (map estr args) ++ texts toks.
Proof. exact SkipEnvProofs.skip_env_roundtrip_partial. Qed.
Print Assumptions skip_env_roundtrip_partial.

(* all built-in names satisfy the proviso *)
Theorem builtin_end_is_five_tokens :
  forallb (fun n => Nat.eqb (length (fst (tokens_of_string (env_end n)))) 5)
          Tables.skip_env_names = true.
Proof. exact SkipEnvProofs.builtin_end_is_five_tokens. Qed.
Print Assumptions builtin_end_is_five_tokens.

(* without the proviso it fails (witness: name a[b, tokens of  x\end{a[b}y ) *)
Theorem skip_env_roundtrip_refuted :
  exists name args pos toks e rest',
    read_skip_env name args pos toks = Ok (e, rest') /\
    estr e ++ texts rest' <> env_begin name ++ concat (map estr args) ++ texts toks.
Proof. exact SkipEnvProofs.skip_env_roundtrip_refuted. Qed.
Print Assumptions skip_env_roundtrip_refuted.

(* at the level of parse: \begin{a[b}x\end{a[b}y with skip_envs=('a[b',) yields a
   tree that serialises to \begin{a[b}x\end{a[b}b}y ; without the option it
   round-trips.  Replayed on the real code: identical. *)
Theorem C11_user_like_builtin_refuted :
  exists s user t, parse s true user = Ok t /\ estr t <> s /\
    exists t', parse s true [] = Ok t' /\ estr t' = s.
Proof. exact SkipEnvProofs.C11_user_like_builtin_refuted. Qed.
Print Assumptions C11_user_like_builtin_refuted.

(* the proviso "the body does not start with a brace/bracket" is too weak: a body
   starting with a spacer followed by a brace group loses both (the group becomes
   an argument, the spacer vanishes).  Replayed on the real code: identical. *)
Theorem C11_body_after_spacer_refuted :
  exists s t,
    s = env_begin s_verbatim ++ [10; 123; 120; 125; 10]%N ++ env_end s_verbatim /\
    parse s true [] = Ok t /\
    t = ERoot [ENamed s_verbatim [EGroup GBrace [EText (mkt [120]%N 18%Z TText)] 17%Z]
                 [ERaw [10]%N 20%Z] 0%Z] /\
    estr t <> s.
Proof. exact SkipEnvProofs.C11_body_after_spacer_refuted. Qed.
Print Assumptions C11_body_after_spacer_refuted.

(* 5. scope: groups, math and \item contents are read with the EMPTY list *)
Theorem C11_not_in_args :
  forall f skip1 skip2 strict m c src,
    tcat c = TGroupBegin \/ math_kind_of_begin (tcat c) <> None ->
    read_expr f skip1 strict m (c :: src) = read_expr f skip2 strict m (c :: src).
Proof. exact SkipEnvProofs.C11_not_in_args. Qed.
Print Assumptions C11_not_in_args.

Theorem group_ignores_skip :
  forall f skip strict m c src,
    tcat c = TGroupBegin ->
    read_expr (S f) skip strict m (c :: src) = read_arg f c strict MNonMath src.
Proof. exact SkipEnvProofs.group_ignores_skip. Qed.
Print Assumptions group_ignores_skip.

Theorem math_ignores_skip :
  forall f skip strict m c src k,
    math_kind_of_begin (tcat c) = Some k ->
    read_expr (S f) skip strict m (c :: src) = read_math_loop f k (tpos c) strict [] src.
Proof. exact SkipEnvProofs.math_ignores_skip. Qed.
Print Assumptions math_ignores_skip.

Theorem arg_loop_empty_skip :
  forall f k pos strict m acc t src,
    is_group_end k t = false ->
    read_arg_loop (S f) k pos strict m acc (t :: src) =
    bind (read_expr f [] strict m (t :: src)) (fun '(e, src1) =>
      read_arg_loop f k pos strict m (acc ++ [e]) src1).
Proof. exact SkipEnvProofs.arg_loop_empty_skip. Qed.
Print Assumptions arg_loop_empty_skip.

Theorem math_loop_empty_skip :
  forall f k pos strict acc t src,
    is_math_end k t = false ->
    read_math_loop (S f) k pos strict acc (t :: src) =
    bind (read_expr f [] strict MMath (t :: src)) (fun '(e, src1) =>
      read_math_loop f k pos strict (acc ++ [e]) src1).
Proof. exact SkipEnvProofs.math_loop_empty_skip. Qed.
Print Assumptions math_loop_empty_skip.

Theorem item_loop_empty_skip :
  forall f acc t src,
    is_tc TEscape t = false -> is_tc TGroupEnd t = false ->
    read_item_loop (S f) acc (t :: src) =
    bind (read_expr f [] true MNonMath (t :: src)) (fun '(e, src1) =>
      read_item_loop f (acc ++ [e]) src1).
Proof. exact SkipEnvProofs.item_loop_empty_skip. Qed.
Print Assumptions item_loop_empty_skip.

Theorem item_loop_empty_skip_cmd :
  forall f acc t src cname cargs x,
    is_tc TEscape t = true ->
    read_command f (-1)%Z (-1)%Z 1 true MNonMath (t :: src) = Ok ((cname, cargs), x) ->
    str_eqb cname s_end || str_eqb cname s_item = false ->
    read_item_loop (S f) acc (t :: src) =
    bind (read_expr f [] true MNonMath (t :: src)) (fun '(e, src1) =>
      read_item_loop f (acc ++ [e]) src1).
Proof. exact SkipEnvProofs.item_loop_empty_skip_cmd. Qed.
Print Assumptions item_loop_empty_skip_cmd.

(* ------------------------------------------------------------- examples *)
(* strings: ex_top      = \begin{verbatim}$\end{verbatim}
            ex_nested   = \begin{a}\begin{verbatim}${\end{verbatim}\end{a}
            ex_unclosed = \begin{verbatim}${x
            ex_in_arg   = \x{\begin{verbatim}$\end{verbatim}}
            ex_in_arg_math = \x{\begin{verbatim}$x$\end{verbatim}}
            ex_in_math  = $\begin{verbatim}{\end{verbatim}$
            ex_in_item  = \item\begin{verbatim}{\end{verbatim}
            ex_zz_math  = \begin{zz}$x$\end{zz}
            ex_zz_bad   = \begin{zz}${\end{zz}                                *)

Example C11_top_level_opaque :
  parse ex_top true [] = Ok (ERoot [ENamed s_verbatim [] [ERaw [36]%N 16%Z] 0%Z]).
Proof. exact SkipEnvProofs.C11_top_level_opaque. Qed.

Example C11_nested_in_named_env_opaque :
  parse ex_nested true [] =
  Ok (ERoot [ENamed [97]%N [] [ENamed s_verbatim [] [ERaw [36; 123]%N 25%Z] 9%Z] 0%Z]).
Proof. exact SkipEnvProofs.C11_nested_in_named_env_opaque. Qed.

Example C11_unclosed_eof : parse ex_unclosed true [] = Err EOFError.
Proof. exact SkipEnvProofs.C11_unclosed_eof. Qed.

(* inside an argument the body is parsed: the $ opens math that is never closed *)
Example C11_in_arg_parsed_error :
  parse ex_in_arg true [] = Err EOFError /\ parse ex_in_arg false [] = Err EOFError.
Proof. exact SkipEnvProofs.C11_in_arg_parsed_error. Qed.

Example C11_in_arg_parsed_math :
  parse ex_in_arg_math true [] =
  Ok (ERoot [ECmd [120]%N
               [EGroup GBrace
                  [ENamed s_verbatim []
                     [EMath MInline [EText (mkt [120]%N 20%Z TText)] 19%Z] 3%Z] 2%Z] [] 0%Z]).
Proof. exact SkipEnvProofs.C11_in_arg_parsed_math. Qed.

Example C11_in_math_parsed : parse ex_in_math true [] = Err EOFError.
Proof. exact SkipEnvProofs.C11_in_math_parsed. Qed.

Example C11_in_item_parsed : parse ex_in_item true [] = Err TypeError.
Proof. exact SkipEnvProofs.C11_in_item_parsed. Qed.

(* 6. without the option the same body is parsed normally *)
Example C11_without_option_parsed :
  parse ex_zz_math true [] =
    Ok (ERoot [ENamed s_zz [] [EMath MInline [EText (mkt [120]%N 11%Z TText)] 10%Z] 0%Z]) /\
  parse ex_zz_math true [s_zz] =
    Ok (ERoot [ENamed s_zz [] [ERaw [36; 120; 36]%N 10%Z] 0%Z]).
Proof. exact SkipEnvProofs.C11_without_option_parsed. Qed.

Example C11_without_option_error :
  parse ex_zz_bad true [] = Err TypeError /\
  parse ex_zz_bad true [s_zz] = Ok (ERoot [ENamed s_zz [] [ERaw [36; 123]%N 10%Z] 0%Z]).
Proof. exact SkipEnvProofs.C11_without_option_error. Qed.

(* the provisos about a trailing backslash and a % are needed: `\\` and a comment
   are single tokens, the \end{verbatim} inside them is at no token boundary
     ex_backslash = \begin{verbatim}a\\end{verbatim}b\end{verbatim}    body: a\\end{verbatim}b
     ex_comment   = \begin{verbatim}a%\end{verbatim}<LF>b\end{verbatim} body: a%\end{verbatim}<LF>b *)
Example C11_proviso_backslash_needed :
  parse ex_backslash true [] =
  Ok (ERoot [ENamed s_verbatim []
     [ERaw [97; 92; 92; 101; 110; 100; 123; 118; 101; 114; 98; 97; 116; 105; 109; 125; 98]%N 16%Z] 0%Z]).
Proof. exact SkipEnvProofs.C11_proviso_backslash_needed. Qed.

Example C11_proviso_comment_needed :
  parse ex_comment true [] =
  Ok (ERoot [ENamed s_verbatim []
     [ERaw [97; 37; 92; 101; 110; 100; 123; 118; 101; 114; 98; 97; 116; 105; 109; 125; 10; 98]%N 16%Z] 0%Z]).
Proof. exact SkipEnvProofs.C11_proviso_comment_needed. Qed.
