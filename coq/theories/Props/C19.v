(* C19  Categorising and tokenising partition the input.
   Statements only; proofs are in Proofs/CatProofs.v and Proofs/TokProofs.v. *)
From Coq Require Import List NArith ZArith Bool Permutation.
From TexModel Require Import Base Tables Chars Tokenizer.
From TexProofs Require Import CatProofs TokProofs IgnoredChars.
Import ListNotations.

(* every code point is in at most one category table (so "its" category is
   well defined; code points in no table are Other) ... *)
Theorem C19_one_category :
  forall c k1 vs1 k2 vs2,
    In (k1, vs1) Tables.category_table -> In (k2, vs2) Tables.category_table ->
    mem_N c vs1 = true -> mem_N c vs2 = true -> k1 = k2.
Proof. exact unique_category. Qed.
Print Assumptions C19_one_category.

(* ... whatever the iteration order of the category dict *)
Theorem C19_category_order_independent :
  forall tbl' c, Permutation tbl' Tables.category_table ->
    lookup_cat tbl' c = lookup_cat Tables.category_table c.
Proof. exact category_order_independent. Qed.
Print Assumptions C19_category_order_independent.

(* categorize keeps every character, in order, with its own index and its category *)
Theorem C19_categorize_index :
  forall s, length (categorize s) = length s /\
    forall i c, nth_error (categorize s) i = Some c ->
      nth_error s i = Some (ch c) /\ cpos c = Z.of_nat i /\ ccat c = categorize_char (ch c).
Proof. exact categorize_spec. Qed.
Print Assumptions C19_categorize_index.

(* the tokenizer terminates normally on every string (fuel = length + 1 is
   enough, no rule dereferences an exhausted buffer, no round without
   progress) and its tokens partition the characters: consecutive non-empty
   runs, each starting at the offset the token records, separated only by
   ignored (NUL) / invalid (DEL) characters *)
Theorem C19_tokens_partition :
  forall s : str, exists toks,
    tokens_of_string s = (toks, TEnd) /\ Part 0 (categorize s) toks.
Proof. exact tokenize_partition. Qed.
Print Assumptions C19_tokens_partition.

Theorem C19_concat_only_drops_ignored :
  forall (s : str) toks e, tokens_of_string s = (toks, e) ->
    e = TEnd /\ DropIgnored (categorize s) (concat (map ttext toks)) /\
    Forall (fun t => ttext t <> []) toks.
Proof. exact tokens_concat. Qed.
Print Assumptions C19_concat_only_drops_ignored.

Theorem C19_concat_exact :
  forall (s : str) toks e, tokens_of_string s = (toks, e) ->
    Forall (fun c => ign c = false) (categorize s) ->
    concat (map ttext toks) = s.
Proof. exact tokens_concat_exact. Qed.
Print Assumptions C19_concat_exact.

(* "dropping only NUL/DEL": with the tables of the current source the code
   points whose category the tokenizer skips (droppable n := the category of n
   is in Tables.ignore_cats) are exactly 0 and 127, and on a categorised string
   the skipped characters (ign) are the droppable ones *)
Theorem C19_only_nul_del_droppable :
  forall n : N, droppable n = true <-> n = 0%N \/ n = 127%N.
Proof. exact droppable_iff. Qed.
Print Assumptions C19_only_nul_del_droppable.

Theorem C19_ignored_is_droppable :
  forall (s : str) c, In c (categorize s) -> ign c = droppable (ch c).
Proof. exact ign_categorized. Qed.
Print Assumptions C19_ignored_is_droppable.

(* every token's text is the slice of the input at its recorded offset *)
Theorem C19_token_offsets :
  forall (s : str) toks e, tokens_of_string s = (toks, e) ->
    Forall (fun t => slice s (tpos t) (length (ttext t)) = ttext t) toks.
Proof. exact token_slices. Qed.
Print Assumptions C19_token_offsets.

(* non-vacuity: "\x00a \left( $$%c" followed by DEL tokenises into 7 tokens *)
Example C19_example :
  let s := [0; 97; 32; 92; 108; 101; 102; 116; 40; 32; 36; 36; 37; 99; 127]%N in
  map (fun t => (ttext t, tpos t)) (fst (tokens_of_string s)) =
  [([97; 32]%N, 1%Z); ([92]%N, 3%Z); ([108; 101; 102; 116; 40]%N, 4%Z); ([32]%N, 9%Z);
   ([36; 36]%N, 10%Z); ([37; 99; 127]%N, 12%Z)].
Proof. vm_compute. reflexivity. Qed.
