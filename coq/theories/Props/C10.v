(* C10  Comments are inert - the reader half.
   Statements only; proofs in Proofs/CommentProofs.v.

   (The tokenizer half - an unescaped % up to the end of its line is ONE
   token of category Comment whatever its payload, and \% is an
   EscapedComment token - is stated elsewhere.)

   Here: the reader is parametric in the TEXT of Comment tokens.  Two token
   lists related by  Forall2 tok_sim  (same categories, same positions, same
   text except in Comment tokens) are read to trees related by  expr_sim
   (same constructors, names, kinds, positions, nesting; only the text of
   Comment leaves, of raw verbatim bodies ERaw and of bare-token arguments
   EStr may differ), or to the same error.

   Side condition  ok_side toks = ok_struct toks && forallb comment_wf toks
   (boolean, suffix-closed, defined in CommentProofs.v), one clause for each
   place where the reader looks at token text:
    (1) the token directly after an Escape token is not a Comment (it is the
        command name).  True of every tokenizer output on NUL/DEL-free input
        (not proved here);
    (3) every Comment token's text begins with '%' (comment_wf; true of every
        tokenizer output, not proved here), and no name in the skip list
        contains '%' (skip_ok): read_skip_env joins token texts and tests
        startswith('\end{name}');
    (4) after an Escape and a token whose text is `begin` or `end`, and
        one optional MergedSpacer: IF the next token is a { or [ THEN only
        "leaf" tokens (not Comment, Escape, GroupBegin or a math opener)
        follow up to the first closer of that kind (name_flat): the
        environment name is the STRING of that group.  Sufficient, not
        necessary (a comment-free name group with nested commands, groups or
        math is excluded although harmless).
   ok_struct depends only on what tok_sim preserves, so it is asked of the
   first list only; comment_wf is asked of both.

   The unrestricted statement is FALSE of the model and of the real code:
   C10_unrestricted_refuted (a comment inside the name group of \begin).  *)
From Coq Require Import List NArith ZArith Bool.
From TexModel Require Import Base Tables Chars Tokenizer Tree Reader.
From TexProofs Require Import ReaderLen CommentProofs.
Import ListNotations.

(* ---- the reader is parametric in comment payloads: read_expr, any fuel *)
Theorem C10_parametric :
  forall f skip strict m toks1 toks2,
    Forall2 tok_sim toks1 toks2 ->
    ok_side toks1 = true -> forallb comment_wf toks2 = true -> skip_ok skip = true ->
    res_sim expr_sim (read_expr f skip strict m toks1) (read_expr f skip strict m toks2).
Proof. exact reader_parametric. Qed.
Print Assumptions C10_parametric.

(* ---- the same for all ten functions of the mutual fixpoint (one mutual
   induction on fuel); gp l1 l2 := Forall2 tok_sim l1 l2 /\ ok_side l1 = true
   /\ ok_side l2 = true; accumulators related pointwise; for read_command the
   token that becomes the name satisfies cmd_ok (clauses (1) and (4)) *)
Theorem C10_parametric_all :
  forall f,
  (forall skip strict m l1 l2, skip_ok skip = true -> gp l1 l2 ->
     res_sim expr_sim (read_expr f skip strict m l1) (read_expr f skip strict m l2)) /\
  (forall acc1 acc2 l1 l2, Forall2 expr_sim acc1 acc2 -> gp l1 l2 ->
     res_sim (Forall2 expr_sim) (read_item_loop f acc1 l1) (read_item_loop f acc2 l2)) /\
  (forall k pos strict acc1 acc2 l1 l2, Forall2 expr_sim acc1 acc2 -> gp l1 l2 ->
     res_sim expr_sim (read_math_loop f k pos strict acc1 l1) (read_math_loop f k pos strict acc2 l2)) /\
  (forall name args1 args2 pos skip strict m acc1 acc2 l1 l2,
     skip_ok skip = true -> Forall2 expr_sim args1 args2 -> Forall2 expr_sim acc1 acc2 -> gp l1 l2 ->
     res_sim expr_sim (read_env_loop f name args1 pos skip strict m acc1 l1)
                      (read_env_loop f name args2 pos skip strict m acc2 l2)) /\
  (forall nreq nopt sk strict m l1 l2, gp l1 l2 -> cmd_ok (skipn sk l1) = true ->
     res_sim name_args_sim (read_command f nreq nopt sk strict m l1)
                           (read_command f nreq nopt sk strict m l2)) /\
  (forall nreq nopt strict m l1 l2, gp l1 l2 ->
     res_sim (Forall2 expr_sim) (read_args f nreq nopt strict m l1) (read_args f nreq nopt strict m l2)) /\
  (forall acc1 acc2 nopt strict m l1 l2, Forall2 expr_sim acc1 acc2 -> gp l1 l2 ->
     res_sim args_n_sim (read_arg_optional f acc1 nopt strict m l1)
                        (read_arg_optional f acc2 nopt strict m l2)) /\
  (forall acc1 acc2 nreq strict m l1 l2, Forall2 expr_sim acc1 acc2 -> gp l1 l2 ->
     res_sim args_n_sim (read_arg_required f acc1 nreq strict m l1)
                        (read_arg_required f acc2 nreq strict m l2)) /\
  (forall c1 c2 strict m l1 l2, tok_sim c1 c2 -> gp l1 l2 ->
     res_sim expr_sim (read_arg f c1 strict m l1) (read_arg f c2 strict m l2)) /\
  (forall k pos strict m acc1 acc2 l1 l2, Forall2 expr_sim acc1 acc2 -> gp l1 l2 ->
     res_sim expr_sim (read_arg_loop f k pos strict m acc1 l1) (read_arg_loop f k pos strict m acc2 l2)).
Proof. exact reader_parametric_all. Qed.
Print Assumptions C10_parametric_all.

(* ---- read_tex_loop *)
Theorem C10_parametric_tex_loop :
  forall efuel skip strict fuel acc1 acc2 l1 l2,
    skip_ok skip = true -> Forall2 expr_sim acc1 acc2 -> gp l1 l2 ->
    res_sim0 (Forall2 expr_sim) (read_tex_loop fuel efuel skip strict acc1 l1)
                                (read_tex_loop fuel efuel skip strict acc2 l2).
Proof. exact read_tex_loop_par. Qed.
Print Assumptions C10_parametric_tex_loop.

(* ---- whole documents: two token lists that differ only in the text of
   Comment tokens parse to trees of the same shape, or to the same error, in
   both tolerance modes, with any '%'-free user skip list *)
Theorem C10_tree_shape_independent_of_payload :
  forall toks1 toks2 strict user_skip,
    Forall2 tok_sim toks1 toks2 ->
    ok_side toks1 = true -> forallb comment_wf toks2 = true -> skip_ok user_skip = true ->
    res_sim0 expr_sim (parse_tokens toks1 strict user_skip) (parse_tokens toks2 strict user_skip).
Proof. exact parse_tokens_par. Qed.
Print Assumptions C10_tree_shape_independent_of_payload.

(* ---- a Comment token is exactly one text leaf and consumes exactly itself,
   whatever its payload, in every mode, strictness and skip list *)
Theorem C10_comment_is_leaf :
  forall f skip strict m t rest,
    tcat t = TComment -> read_expr (S f) skip strict m (t :: rest) = Ok (EText t, rest).
Proof. exact comment_is_leaf. Qed.
Print Assumptions C10_comment_is_leaf.

(* ---- it is no closer and no opener: not the end token of a brace/bracket
   group or of any math region, not an Escape (so never \end or \item), not a
   GroupEnd (which stops \item), no group/bracket/math opener, no spacer *)
Theorem C10_comment_cannot_close :
  forall t, tcat t = TComment ->
    (forall k, is_group_end k t = false) /\ (forall k, is_math_end k t = false) /\
    is_tc TEscape t = false /\ is_tc TGroupEnd t = false /\
    is_tc TGroupBegin t = false /\ is_tc TBracketBegin t = false /\ is_tc TMergedSpacer t = false /\
    math_kind_of_begin (tcat t) = None /\ group_kind_of_begin (tcat t) = None.
Proof. exact comment_cannot_close. Qed.
Print Assumptions C10_comment_cannot_close.

(* ---- hence in each of the four content loops a Comment token is appended as
   one leaf and the loop continues with the next token *)
Theorem C10_comment_inert_in_group :
  forall f k pos strict m acc t rest, tcat t = TComment ->
    read_arg_loop (S (S f)) k pos strict m acc (t :: rest) =
    read_arg_loop (S f) k pos strict m (acc ++ [EText t]) rest.
Proof. exact comment_inert_arg_loop. Qed.
Print Assumptions C10_comment_inert_in_group.

Theorem C10_comment_inert_in_math :
  forall f k pos strict acc t rest, tcat t = TComment ->
    read_math_loop (S (S f)) k pos strict acc (t :: rest) =
    read_math_loop (S f) k pos strict (acc ++ [EText t]) rest.
Proof. exact comment_inert_math_loop. Qed.
Print Assumptions C10_comment_inert_in_math.

Theorem C10_comment_inert_in_env :
  forall f name args pos skip strict m acc t rest, tcat t = TComment ->
    read_env_loop (S (S f)) name args pos skip strict m acc (t :: rest) =
    read_env_loop (S f) name args pos skip strict m (acc ++ [EText t]) rest.
Proof. exact comment_inert_env_loop. Qed.
Print Assumptions C10_comment_inert_in_env.

Theorem C10_comment_inert_in_item :
  forall f acc t rest, tcat t = TComment ->
    read_item_loop (S (S f)) acc (t :: rest) = read_item_loop (S f) (acc ++ [EText t]) rest.
Proof. exact comment_inert_item_loop. Qed.
Print Assumptions C10_comment_inert_in_item.

(* ---- REFUTED without clause (4): a comment inside the name group of \begin
   is part of the environment name, so its payload decides whether \end
   matches.  Witness (replayed on the real code, same outcome):
     s1 = \begin{a%x⏎b}c\end{a%x⏎b}    strict: a tree
     s2 = \begin{a%y⏎b}c\end{a%x⏎b}    strict: EOFError; tolerant: a tree of
                                        another shape (a stray \end command)
   ok_side_weak is ok_side without clause (4). *)
Theorem C10_unrestricted_refuted :
  exists s1 s2 : str,
    let l1 := fst (tokens_of_string s1) in
    let l2 := fst (tokens_of_string s2) in
    Forall2 tok_sim l1 l2 /\ ok_side_weak l1 = true /\ ok_side_weak l2 = true /\
    (exists t, parse_tokens l1 true [] = Ok t) /\ parse_tokens l2 true [] = Err EOFError /\
    ~ res_sim0 expr_sim (parse_tokens l1 true []) (parse_tokens l2 true []) /\
    ~ res_sim0 expr_sim (parse_tokens l1 false []) (parse_tokens l2 false []).
Proof. exact unrestricted_refuted. Qed.
Print Assumptions C10_unrestricted_refuted.

(* ---- the other clauses are needed as well (token-level witnesses) *)
Theorem C10_escape_clause_needed :
  let l1 := [mkt [92%N] 0 TEscape; mkt [37; 97]%N 1 TComment] in
  let l2 := [mkt [92%N] 0 TEscape; mkt [37; 98]%N 1 TComment] in
  Forall2 tok_sim l1 l2 /\ forallb comment_wf l1 = true /\ forallb comment_wf l2 = true /\
  ~ res_sim0 expr_sim (parse_tokens l1 true []) (parse_tokens l2 true []).
Proof. exact escape_comment_needed. Qed.
Print Assumptions C10_escape_clause_needed.

Theorem C10_skip_names_clause_needed :
  let pre := [mkt [92%N] 0 TEscape; mkt s_begin 1 TCommandName; mkt [123%N] 6 TGroupBegin;
              mkt [97; 37; 98]%N 7 TText; mkt [125%N] 10 TGroupEnd;
              mkt [92; 101; 110; 100; 123; 97]%N 11 TText] in
  let l1 := pre ++ [mkt [37; 98; 125]%N 17 TComment] in
  let l2 := pre ++ [mkt [37; 99; 125]%N 17 TComment] in
  Forall2 tok_sim l1 l2 /\ ok_side l1 = true /\ ok_side l2 = true /\
  ~ res_sim0 expr_sim (parse_tokens l1 true [[97; 37; 98]%N]) (parse_tokens l2 true [[97; 37; 98]%N]).
Proof. exact skip_names_needed. Qed.
Print Assumptions C10_skip_names_clause_needed.

Theorem C10_comment_wf_clause_needed :
  let pre := [mkt [92%N] 0 TEscape; mkt s_begin 1 TCommandName; mkt [123%N] 6 TGroupBegin;
              mkt [118%N] 7 TText; mkt [125%N] 8 TGroupEnd] in
  let l1 := pre ++ [mkt [37; 101; 110; 100; 123; 118; 125]%N 9 TComment] in
  let l2 := pre ++ [mkt [92; 101; 110; 100; 123; 118; 125]%N 9 TComment] in
  Forall2 tok_sim l1 l2 /\ ok_side l1 = true /\ ok_struct l2 = true /\
  ~ res_sim0 expr_sim (parse_tokens l1 true [[118%N]]) (parse_tokens l2 true [[118%N]]).
Proof. exact comment_wf_needed. Qed.
Print Assumptions C10_comment_wf_clause_needed.

(* ---- non-vacuity: tokenizer outputs that satisfy every hypothesis, parse to
   DIFFERENT trees, and the trees are related.
   example_ok s1 s2 strict :=
     let l1 := fst (tokens_of_string s1) in let l2 := fst (tokens_of_string s2) in
     Forall2 tok_sim l1 l2 /\ ok_side l1 = true /\ forallb comment_wf l2 = true /\
     exists t1 t2, parse_tokens l1 strict [] = Ok t1 /\ parse_tokens l2 strict [] = Ok t2 /\
                   t1 <> t2 /\ expr_sim t1 t2 *)
(* \a{x %}{$⏎ y}  vs  \a{x %zzz⏎ y}: closers and openers inside the payload *)
Example C10_ex_group : example_ok exA exB true.
Proof. exact ex_group. Qed.
Example C10_ex_group_tolerant : example_ok exA exB false.
Proof. exact ex_group_tolerant. Qed.
(* \begin{itemize}%c⏎\item a%x⏎\end{itemize}  vs  ...%d...%y... *)
Example C10_ex_item_env : example_ok exC exD true.
Proof. exact ex_item_env. Qed.
(* \begin{verbatim}a%x⏎\end{verbatim}b  vs  ...%y...: the raw body differs *)
Example C10_ex_verbatim : example_ok exE exF true.
Proof. exact ex_verbatim. Qed.
(* the comment character is read off the category table *)
Example C10_comment_char : categorize_char comment_char = CComment.
Proof. exact comment_char_is_comment. Qed.

(* ---- the side condition is suffix-closed, and its structural half is
   invariant under tok_sim (so it is asked of the first list only) *)
Theorem C10_ok_side_suffix_closed :
  forall n toks, ok_side toks = true -> ok_side (skipn n toks) = true.
Proof. exact ok_side_skipn. Qed.
Print Assumptions C10_ok_side_suffix_closed.

Theorem C10_ok_struct_invariant :
  forall l1 l2, Forall2 tok_sim l1 l2 -> ok_struct l1 = ok_struct l2.
Proof. exact ok_struct_sim. Qed.
Print Assumptions C10_ok_struct_invariant.
