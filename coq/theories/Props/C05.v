(* C05  Structural edits are local to the targeted node.
   Model: TexModel.Edit (delete remove replace replace_with insert append of TexNode /
   TexExpr, mirrored branch by branch).  A target is a position: `hp` is the path to the
   expression that holds it (an argument group of the parent, or the parent itself), `i`
   its index in that expression's raw `_contents`; `span_pre root hp` / `span_post root hp`
   are the text of str(root) before / after that raw list and depend on root and hp only. *)
From Coq Require Import List NArith ZArith Bool.
From TexModel Require Import Base Tables Chars Tokenizer Tree Reader Edit.
From TexProofs Require Import EditProofs.
Import ListNotations.

(* the span lemma *)
Theorem serialise_update : forall root p h,
  get root p = Some h -> is_node h = true ->
  estr root = span_pre root p ++ estr_list (body_of h) ++ span_post root p /\
  forall i k new, exists root',
    splice_at root p i k new = Some root' /\
    estr root' = span_pre root p ++ estr_list (firstn i (body_of h)) ++ estr_list new
                   ++ estr_list (skipn (i + k) (body_of h)) ++ span_post root p.
Proof. exact EditProofs.serialise_update. Qed.
Print Assumptions serialise_update.

(* node.delete(): holders searched in the order list(parent.args) + [parent.expr]; the
   holder that contains the object is found, the object's own index is removed *)
Theorem C05_delete : forall root hp i h x,
  get root hp = Some h -> nth_error (body_of h) i = Some x -> arg_depth_ok hp = true ->
  exists root', delete root hp i = Done root' /\ splice_at root hp i 1 [] = Some root' /\
    estr root  = span_pre root hp ++ estr_list (firstn i (body_of h)) ++ estr x
                   ++ estr_list (skipn (S i) (body_of h)) ++ span_post root hp /\
    estr root' = span_pre root hp ++ estr_list (firstn i (body_of h))
                   ++ estr_list (skipn (S i) (body_of h)) ++ span_post root hp.
Proof. exact EditProofs.C05_delete_local. Qed.
Print Assumptions C05_delete.

(* parent.remove(node) for a node of the parent's own list *)
Theorem C05_remove : forall root hp i h x,
  get root hp = Some h -> nth_error (body_of h) i = Some x -> ends_in_arg hp = false ->
  exists root', remove root hp i = Done root' /\ splice_at root hp i 1 [] = Some root' /\
    estr root  = span_pre root hp ++ estr_list (firstn i (body_of h)) ++ estr x
                   ++ estr_list (skipn (S i) (body_of h)) ++ span_post root hp /\
    estr root' = span_pre root hp ++ estr_list (firstn i (body_of h))
                   ++ estr_list (skipn (S i) (body_of h)) ++ span_post root hp.
Proof. exact EditProofs.C05_remove_local. Qed.
Print Assumptions C05_remove.

(* node.replace_with( *new), new = any list of fresh nodes / strings.  The third hypothesis
   (the holder accepts contents once the child is out: holder.insert follows
   holder.remove) fails only for a command that is not \item holding this single content *)
Theorem C05_replace_with : forall root hp i h x new,
  get root hp = Some h -> nth_error (body_of h) i = Some x ->
  supports (set_body h (splice i 1 [] (body_of h))) = true -> arg_depth_ok hp = true ->
  exists root', replace_with root hp i new = Done root' /\
    splice_at root hp i 1 new = Some root' /\
    estr root  = span_pre root hp ++ estr_list (firstn i (body_of h)) ++ estr x
                   ++ estr_list (skipn (S i) (body_of h)) ++ span_post root hp /\
    estr root' = span_pre root hp ++ estr_list (firstn i (body_of h)) ++ estr_list new
                   ++ estr_list (skipn (S i) (body_of h)) ++ span_post root hp.
Proof. exact EditProofs.C05_replace_with_local. Qed.
Print Assumptions C05_replace_with.

(* parent.replace(child, *new): child in the parent's list or in one of its argument groups *)
Theorem C05_replace : forall root pp hp i P h x new,
  get root pp = Some P -> (hp = pp \/ exists j, hp = pp ++ [SArg j]) ->
  get root hp = Some h -> nth_error (body_of h) i = Some x ->
  supports (set_body h (splice i 1 [] (body_of h))) = true ->
  exists root', replace_via root pp hp i new = Done root' /\
    splice_at root hp i 1 new = Some root' /\
    estr root  = span_pre root hp ++ estr_list (firstn i (body_of h)) ++ estr x
                   ++ estr_list (skipn (S i) (body_of h)) ++ span_post root hp /\
    estr root' = span_pre root hp ++ estr_list (firstn i (body_of h)) ++ estr_list new
                   ++ estr_list (skipn (S i) (body_of h)) ++ span_post root hp.
Proof. exact EditProofs.C05_replace_local. Qed.
Print Assumptions C05_replace.

(* node.insert(i, *new) for every insertion index 0..len of the raw list *)
Theorem C05_insert : forall root np i h new,
  get root np = Some h -> is_node h = true -> supports h = true ->
  (i <= length (body_of h))%nat ->
  exists root', insert root np (Z.of_nat i) new = Done root' /\
    splice_at root np i 0 new = Some root' /\
    estr root  = span_pre root np ++ estr_list (firstn i (body_of h))
                   ++ estr_list (skipn i (body_of h)) ++ span_post root np /\
    estr root' = span_pre root np ++ estr_list (firstn i (body_of h)) ++ estr_list new
                   ++ estr_list (skipn i (body_of h)) ++ span_post root np.
Proof. exact EditProofs.C05_insert_local. Qed.
Print Assumptions C05_insert.

(* node.append( *new) *)
Theorem C05_append : forall root np h new,
  get root np = Some h -> is_node h = true -> supports h = true ->
  exists root', append root np new = Done root' /\
    splice_at root np (length (body_of h)) 0 new = Some root' /\
    estr root  = span_pre root np ++ estr_list (body_of h) ++ span_post root np /\
    estr root' = span_pre root np ++ estr_list (body_of h) ++ estr_list new ++ span_post root np.
Proof. exact EditProofs.C05_append_local. Qed.
Print Assumptions C05_append.

(* textually identical twins in one list: each can be deleted without touching the other *)
Theorem C05_twins : forall root hp h i j x y,
  get root hp = Some h -> arg_depth_ok hp = true ->
  nth_error (body_of h) i = Some x -> nth_error (body_of h) j = Some y ->
  estr x = estr y -> (i < j)%nat ->
  (exists root', delete root hp j = Done root' /\
     get root' (hp ++ [SBody i]) = Some x /\
     estr root' = span_pre root hp ++ estr_list (firstn j (body_of h))
                    ++ estr_list (skipn (S j) (body_of h)) ++ span_post root hp) /\
  (exists root', delete root hp i = Done root' /\
     get root' (hp ++ [SBody (j - 1)]) = Some y /\
     estr root' = span_pre root hp ++ estr_list (firstn i (body_of h))
                    ++ estr_list (skipn (S i) (body_of h)) ++ span_post root hp).
Proof. exact EditProofs.C05_twins. Qed.
Print Assumptions C05_twins.

(* ... on the parse of  \a{x} mid \a{x} end *)
Theorem C05_twins_example :
  let root := parsed doc_twins in
  estr root = doc_twins /\
  (exists x y, nth_error (body_of root) 0 = Some x /\ nth_error (body_of root) 2 = Some y /\
               estr x = estr y /\ x <> y /\ supports root = true) /\
  done_str (delete root [] 2) = Some s_twins_deleted /\
  done_str (delete root [] 0) = Some s_twins_deleted_first.
Proof. exact EditProofs.C05_twins_example. Qed.
Print Assumptions C05_twins_example.

(* every other item of the tree is the same value before and after an update *)
Theorem untargeted_unchanged : forall root p h i k new root',
  get root p = Some h -> is_node h = true -> (i <= length (body_of h))%nat ->
  splice_at root p i k new = Some root' ->
  (forall q, diverges p q = true -> get root' q = get root q) /\
  (forall j rest, (j < i)%nat ->
     get root' (p ++ SBody j :: rest) = get root (p ++ SBody j :: rest)) /\
  (forall j rest, (i + k <= j)%nat ->
     get root' (p ++ SBody (j - k + length new) :: rest) = get root (p ++ SBody j :: rest)) /\
  (forall j rest, get root' (p ++ SArg j :: rest) = get root (p ++ SArg j :: rest)).
Proof. exact EditProofs.untargeted_unchanged. Qed.
Print Assumptions untargeted_unchanged.

(* outside the property's quantifier (insertion indices 0..len): Python's list.insert
   normalises each index on its own, so several items inserted at a negative index do not
   end up adjacent -- no splice at any index *)
Theorem C05_insert_negative_index_refuted :
  exists (l new : list nat) (i : Z), forall k, insert_seq i new l <> splice k 0 new l.
Proof. exact EditProofs.insert_negative_index_not_a_splice. Qed.
Print Assumptions C05_insert_negative_index_refuted.

(* examples of the hypotheses: a node inside an argument group ( \b in \a{\b}\c ), and the
   root as a container *)
Theorem C05_position_example :
  let root := parsed doc_arg in
  exists h x, get root [SBody 0; SArg 0] = Some h /\ is_node h = true /\
              nth_error (body_of h) 0 = Some x /\ is_node x = true /\
              supports h = true /\ arg_depth_ok [SBody 0; SArg 0] = true /\
              nav_parent [SBody 0; SArg 0] = [SBody 0].
Proof. exact EditProofs.position_example. Qed.
Print Assumptions C05_position_example.
Theorem C05_container_example :
  let root := parsed doc_arg in
  exists h x, get root [] = Some h /\ is_node h = true /\ supports h = true /\
              nth_error (body_of h) 1 = Some x /\ ends_in_arg [] = false /\
              (2 <= length (body_of h))%nat.
Proof. exact EditProofs.container_example. Qed.
Print Assumptions C05_container_example.

Theorem C05_replace_hypothesis_example :
  let root := parsed doc_arg in
  exists h x, get root [SBody 0; SArg 0] = Some h /\ nth_error (body_of h) 0 = Some x /\
              supports (set_body h (splice 0 1 [] (body_of h))) = true /\
              done_str (replace_with root [SBody 0; SArg 0] 0 [EStr s_S])
              = Some [92; 97; 123; 83; 125; 92; 99]%N.
Proof. exact EditProofs.replace_hypothesis_example. Qed.
Print Assumptions C05_replace_hypothesis_example.
