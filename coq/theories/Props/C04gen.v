(* C04gen  The navigation views of the model are the translated source.

   Model/ViewGen.v is regenerated on every run from the Python abstract syntax
   of TexSoup/data.py (harness/gen_views.py, fail-closed):
     TexExpr.all / contents / children,
     TexNode.all / children / contents / descendants / __descendants / text /
             __iter__ / __getitem__
   (and the search methods, see C03gen.v), and TexNode.__init__ (what the
   `TexNode(x)` inside the views builds).  NOT translated: search_regex,
   .string, the setters and the editing methods.

   `call n gen_v_cls k M self args None h` interprets the translated body of
   method M (lookup starting in class kind k) with the semantics of
   Model/ViewDSL.v, call depth n, heap h;  `ODone r h'` means it finished inside
   the modelled fragment within the call depth with result r and heap h'.
   run_expr / run_node use call depth view_fuel e = 2 * edepth e + 8 and the
   empty heap and return `Some r` exactly for ODone r _.

   Vocabulary (Model/ViewDSL.v, Proofs/ViewGenProofs.v):
     VExpr p e          the expression object e named p : option path
     VNode p e par      the TexNode wrapping it, par its .parent (PNone | PNode q)
     of_item (p, e)     the Views.item as a value: a TexExpr item is
                        VNode (Some p) e (PNode (Some (parent_path p))), a
                        string item (Token / str) is VExpr (Some p) e
     tagv (p, e)        := VExpr (Some p) e     an element of expr.contents
     tagged p i l       the list l as elements named p ++ [i], p ++ [i+1], ..
     val_is_node v      := match v with VExpr _ x => is_env_or_cmd x | _ => false end
     all_node q x       := VNode None x (PNode (Some q))
     getitem_result n i := match node_getitem n i with
                           | Some x => RVal (of_item x) | None => RExc XIndex end
     args_ok e          every element of every argument list below e is a
                        TexExpr (what TexArgs enforces; true of every parsed
                        tree: C04gen_guard_parsed)
   Every statement is for ALL expressions / nodes satisfying args_ok, all
   names, parents and heaps, and EVERY call depth from the stated bound on.
   Statements only; proofs are in Proofs/ViewGenProofs.v. *)
From Coq Require Import List NArith ZArith Bool Permutation.
From TexModel Require Import Base Tables Chars Tokenizer Tree Reader Views ViewDSL ViewGen.
From TexProofs Require Import ViewsProofs ViewGenProofs.
Import ListNotations.

(* ---- the guard holds of every tree the reader produces *)
Theorem C04gen_guard_parsed : forall (s : str) strict user t,
  parse s strict user = Ok t -> args_ok t = true /\ is_texexpr t = true.
Proof. exact parse_args_ok. Qed.
Print Assumptions C04gen_guard_parsed.

(* ... and cannot be dropped: a command whose argument list holds a bare Token
   (TexArgs refuses to build it: TypeError, replayed) *)
Theorem C04gen_contents_unguarded_refuted :
  exists e, is_texexpr e = true /\ args_ok e = false /\
            expr_contents e = [] /\ run_expr gen_v_cls M_contents None e [] = None.
Proof. exact gen_contents_unguarded_refuted. Qed.
Print Assumptions C04gen_contents_unguarded_refuted.

(* ---- TexNode(x): the translated TexNode.__init__ (new_node: its body run
   with the three instance attributes as slots) builds the wrapper of x with
   .parent None for a TexExpr and raises AssertionError for a Token / str;
   this is what the primitive TNewNode of the interpreter does, so the
   TexNode(..) calls inside the translated views mean the translated
   constructor *)
Theorem C04gen_node_init : forall n p e h,
  new_node n gen_v_cls [VExpr p e] h
  = if is_texexpr e then ODone (RVal (VNode p e PNone)) h else ODone (RExc XAssertion) h.
Proof. exact gen_N_init_ok. Qed.
Print Assumptions C04gen_node_init.

Theorem C04gen_new_node_is_init : forall c0 callf self k n x p e en h,
  lookup en x = Some (VExpr p e) ->
  eval c0 callf self k (TNewNode (TVar x)) en h = of_outcome (new_node n gen_v_cls [VExpr p e] h).
Proof. exact gen_new_node_is_init. Qed.
Print Assumptions C04gen_new_node_is_init.

(* ---- expression level: one theorem per method *)

Theorem C04gen_expr_all : forall n e k p h,
  args_ok e = true -> is_texexpr e = true -> k <> KNode -> 2 * edepth e + 1 <= n ->
  call n gen_v_cls k M_all (VExpr p e) [] None h
  = ODone (RVal (VList (map (VExpr None) (expr_all e)))) h.
Proof. exact gen_E_all_ok. Qed.
Print Assumptions C04gen_expr_all.

Theorem C04gen_expr_contents : forall n e k p h,
  args_ok e = true -> is_texexpr e = true -> k <> KNode -> 2 * edepth e + 2 <= n ->
  call n gen_v_cls k M_contents (VExpr p e) [] None h
  = ODone (RVal (VList (tagged p 0 (expr_contents e)))) h.
Proof. exact gen_E_contents_ok. Qed.
Print Assumptions C04gen_expr_contents.

Theorem C04gen_expr_children : forall n e k p h,
  args_ok e = true -> is_texexpr e = true -> k <> KNode -> 2 * edepth e + 3 <= n ->
  call n gen_v_cls k M_children (VExpr p e) [] None h
  = ODone (RVal (VList (filter val_is_node (tagged p 0 (expr_contents e))))) h.
Proof. exact gen_E_children_ok. Qed.
Print Assumptions C04gen_expr_children.

(* the same through run_expr, for an expression of known name (its elements
   are the items of Views.contents / Views.children) and of unknown name *)
Theorem C04gen_expr_views_named : forall q e, args_ok e = true -> is_texexpr e = true ->
  run_expr gen_v_cls M_contents (Some q) e [] = Some (RVal (VList (map tagv (contents (q, e))))) /\
  run_expr gen_v_cls M_children (Some q) e [] = Some (RVal (VList (map tagv (children (q, e))))).
Proof. exact run_E_views_named. Qed.
Print Assumptions C04gen_expr_views_named.

Theorem C04gen_expr_views_anon : forall e, args_ok e = true -> is_texexpr e = true ->
  run_expr gen_v_cls M_all None e [] = Some (RVal (VList (map (VExpr None) (expr_all e)))) /\
  run_expr gen_v_cls M_contents None e [] = Some (RVal (VList (map (VExpr None) (expr_contents e)))) /\
  run_expr gen_v_cls M_children None e [] = Some (RVal (VList (map (VExpr None) (expr_children e)))).
Proof. exact run_E_views_anon. Qed.
Print Assumptions C04gen_expr_views_anon.

(* ---- node level: one theorem per method *)

Theorem C04gen_contents : forall n q e par h,
  args_ok e = true -> is_texexpr e = true -> 2 * edepth e + 3 <= n ->
  call n gen_v_cls KNode M_contents (VNode (Some q) e par) [] None h
  = ODone (RVal (VList (map of_item (contents (q, e))))) h.
Proof. exact gen_N_contents_ok. Qed.
Print Assumptions C04gen_contents.

Theorem C04gen_children : forall n q e par h,
  args_ok e = true -> is_texexpr e = true -> 2 * edepth e + 4 <= n ->
  call n gen_v_cls KNode M_children (VNode (Some q) e par) [] None h
  = ODone (RVal (VList (map of_item (children (q, e))))) h.
Proof. exact gen_N_children_ok. Qed.
Print Assumptions C04gen_children.

(* node.all: wrappers of expr.all (names unknown), or AssertionError as soon
   as one element is a Token / str -- Views.node_all n = None *)
Theorem C04gen_all : forall n q e par h,
  args_ok e = true -> is_texexpr e = true -> 2 * edepth e + 2 <= n ->
  call n gen_v_cls KNode M_all (VNode (Some q) e par) [] None h
  = ODone (match node_all (q, e) with
           | Some l => RVal (VList (map (all_node q) l))
           | None => RExc XAssertion
           end) h.
Proof. exact gen_N_all_model. Qed.
Print Assumptions C04gen_all.

Theorem C04gen_iter : forall n q e par h,
  args_ok e = true -> is_texexpr e = true -> 2 * edepth e + 4 <= n ->
  call n gen_v_cls KNode M_iter (VNode (Some q) e par) [] None h
  = ODone (RVal (VList (map of_item (node_iter (q, e))))) h.
Proof. exact gen_N_iter_ok. Qed.
Print Assumptions C04gen_iter.

Theorem C04gen_getitem : forall n q e par h i,
  args_ok e = true -> is_texexpr e = true -> 2 * edepth e + 4 <= n ->
  call n gen_v_cls KNode M_getitem (VNode (Some q) e par) [VInt i] None h
  = ODone (getitem_result (q, e) i) h.
Proof. exact gen_N_getitem_ok. Qed.
Print Assumptions C04gen_getitem.

Theorem C04gen_descendants : forall n q e par h,
  args_ok e = true -> is_texexpr e = true -> 2 * edepth e + 6 <= n ->
  call n gen_v_cls KNode M_descendants (VNode (Some q) e par) [] None h
  = ODone (RVal (VList (map of_item (descendants (q, e))))) h.
Proof. exact gen_N_descendants_ok. Qed.
Print Assumptions C04gen_descendants.

Theorem C04gen_priv_descendants : forall n q e par h,
  args_ok e = true -> is_texexpr e = true -> 2 * edepth e + 5 <= n ->
  call n gen_v_cls KNode M_priv_descendants (VNode (Some q) e par) [] None h
  = ODone (RVal (VList (map of_item (descendants (q, e))))) h.
Proof. exact gen_N_priv_descendants_ok. Qed.
Print Assumptions C04gen_priv_descendants.

Theorem C04gen_text : forall n q e par h,
  args_ok e = true -> is_texexpr e = true -> 2 * edepth e + 4 <= n ->
  call n gen_v_cls KNode M_text (VNode (Some q) e par) [] None h
  = ODone (RVal (VList (map of_item (text (q, e))))) h.
Proof. exact gen_N_text_ok. Qed.
Print Assumptions C04gen_text.

(* ---- hence the C04 theorems hold of what the translated methods return
        (n : item, any parent; run_node: call depth view_fuel, empty heap) *)

Theorem C04gen_contents_is_all_minus_blank : forall e, args_ok e = true -> is_texexpr e = true ->
  exists l,
    run_expr gen_v_cls M_all None e [] = Some (RVal (VList (map (VExpr None) l))) /\
    run_expr gen_v_cls M_contents None e []
    = Some (RVal (VList (map (VExpr None) (filter (fun x => negb (is_blank x)) (map unwrap l))))).
Proof. exact gen_contents_is_all_minus_blank. Qed.
Print Assumptions C04gen_contents_is_all_minus_blank.

Theorem C04gen_children_is_contents_minus_text : forall par n,
  args_ok (snd n) = true /\ is_texexpr (snd n) = true ->
  exists l,
    run_node gen_v_cls M_contents par n [] = Some (RVal (VList (map of_item l))) /\
    run_node gen_v_cls M_children par n []
    = Some (RVal (VList (map of_item (filter (fun it => negb (is_strlike (snd it))) l)))).
Proof. exact gen_children_is_contents_minus_text. Qed.
Print Assumptions C04gen_children_is_contents_minus_text.

Theorem C04gen_iter_index_follow_contents : forall par n,
  args_ok (snd n) = true /\ is_texexpr (snd n) = true ->
  exists l,
    run_node gen_v_cls M_contents par n [] = Some (RVal (VList (map of_item l))) /\
    run_node gen_v_cls M_iter par n [] = Some (RVal (VList (map of_item l))) /\
    (forall k x, nth_error l k = Some x ->
       run_node gen_v_cls M_getitem par n [VInt (Z.of_nat k)] = Some (RVal (of_item x)) /\
       run_node gen_v_cls M_getitem par n [VInt (Z.of_nat k - Z.of_nat (length l))]
       = Some (RVal (of_item x))).
Proof. exact gen_iter_index_follow_contents. Qed.
Print Assumptions C04gen_iter_index_follow_contents.

Theorem C04gen_descendants_is_closure : forall par n,
  args_ok (snd n) = true /\ is_texexpr (snd n) = true ->
  exists l,
    run_node gen_v_cls M_descendants par n [] = Some (RVal (VList (map of_item l))) /\
    l = contents n ++ flat_map descendants (children n) /\
    (forall x, In x l <-> reach n x) /\ NoDup (map fst l).
Proof. exact gen_descendants_closure. Qed.
Print Assumptions C04gen_descendants_is_closure.

Theorem C04gen_text_is_leaves_in_order : forall par n,
  args_ok (snd n) = true /\ is_texexpr (snd n) = true ->
  exists l,
    run_node gen_v_cls M_text par n [] = Some (RVal (VList (map of_item l))) /\
    map snd l = leaves (snd n) /\
    Permutation (map snd l) (filter is_strlike (map snd (descendants n))).
Proof. exact gen_text_is_leaves. Qed.
Print Assumptions C04gen_text_is_leaves_in_order.

Theorem C04gen_root_all : forall par b, forallb args_ok b = true ->
  run_node gen_v_cls M_all par ([], ERoot b) []
  = Some (if forallb is_texexpr b then RVal (VList (map (all_node []) b)) else RExc XAssertion).
Proof. exact gen_root_all. Qed.
Print Assumptions C04gen_root_all.

(* the .parent of a wrapper returned by the translated `descendants` is the
   node it is a content item of: n itself or another returned wrapper *)
Theorem C04gen_parent_of_descendant : forall par n,
  args_ok (snd n) = true /\ is_texexpr (snd n) = true ->
  exists l,
    run_node gen_v_cls M_descendants par n [] = Some (RVal (VList (map of_item l))) /\
    forall x, In x l -> is_texexpr (snd x) = true ->
      exists m, (m = n \/ (In m l /\ is_env_or_cmd (snd m) = true)) /\ In x (contents m) /\
                of_item x = VNode (Some (fst x)) (snd x) (PNode (Some (fst m))).
Proof. exact gen_parent_of_descendant. Qed.
Print Assumptions C04gen_parent_of_descendant.
