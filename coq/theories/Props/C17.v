(* C17  The parse result is a function of the source characters and the options
   alone: it does not depend on how the input is chunked, nor on the interpreter
   hash seed.  The only unordered collection the tokenizer iterates is the set
   PUNCTUATION_COMMANDS (tokenize_punctuation_command_name: first match wins);
   the model iterates a list `points` (find_point) and takes the sorted dump
   Tables.punctuation_commands.  Statements only; proofs in Proofs/TokFacts.v. *)
From Coq Require Import List NArith ZArith Bool Permutation.
From TexModel Require Import Base Tables Chars Tokenizer Tree Reader.
From TexProofs Require Import TokProofs TokFacts.
Import ListNotations.

(* no element of the generated table is a proper prefix of another element
   (checked by computation on the table) ... *)
Theorem C17_punct_prefix_free :
  forall p q, In p Tables.punctuation_commands -> In q Tables.punctuation_commands ->
    firstn (length p) q = p -> p = q.
Proof. exact punct_prefix_free. Qed.
Print Assumptions C17_punct_prefix_free.

(* ... so at most one element matches at any position ... *)
Theorem C17_punct_match_unique :
  forall p q s, In p Tables.punctuation_commands -> In q Tables.punctuation_commands ->
    firstn (length p) s = p -> firstn (length q) s = q -> p = q.
Proof. exact punct_match_unique. Qed.
Print Assumptions C17_punct_match_unique.

(* ... and "first match" is the same under every iteration order of the set *)
Theorem C17_find_point_order_independent :
  forall pts s, Permutation pts Tables.punctuation_commands ->
    find_point pts s = find_point Tables.punctuation_commands s.
Proof. exact find_point_order_independent. Qed.
Print Assumptions C17_find_point_order_independent.

(* the token stream (tokens, offsets, categories, termination status) is the
   same under every iteration order *)
Theorem C17_tokenize_order_independent :
  forall pts cs, Permutation pts Tables.punctuation_commands ->
    tokenize_with pts cs = tokenize_with Tables.punctuation_commands cs.
Proof. exact tokenize_order_independent. Qed.
Print Assumptions C17_tokenize_order_independent.

(* hence so is the parse result.
   parse_with pts s strict skip :=
     match tokenize_with pts (categorize s) with
     | (toks, TEnd) => parse_tokens toks strict skip | _ => Err TokenizerError end *)
Theorem C17_parse_order_independent :
  forall pts s strict skip, Permutation pts Tables.punctuation_commands ->
    parse_with pts s strict skip = parse s strict skip.
Proof. exact parse_order_independent. Qed.
Print Assumptions C17_parse_order_independent.

(* chunking: tex.read joins the chunks before anything else,
   read_chunks l strict skip := parse (concat l) strict skip *)
Theorem C17_flatten_chunks :
  forall l1 l2 strict skip, concat l1 = concat l2 ->
    read_chunks l1 strict skip = read_chunks l2 strict skip.
Proof. exact flatten_chunks. Qed.
Print Assumptions C17_flatten_chunks.

Theorem C17_read_chunks_single :
  forall s strict skip, read_chunks [s] strict skip = parse s strict skip.
Proof. exact read_chunks_single. Qed.
Print Assumptions C17_read_chunks_single.

(* non-vacuity: the reversed table is a different enumeration of the same set;
   "\left(" gives the same two tokens under both orders; two chunkings of "\bf" *)
Example C17_example_permutation :
  Permutation (rev Tables.punctuation_commands) Tables.punctuation_commands /\
  hd [] (rev Tables.punctuation_commands) <> hd [] Tables.punctuation_commands.
Proof. split; [exact rev_is_permutation | exact rev_is_different]. Qed.

Example C17_example_left_paren :
  let cs := categorize [92; 108; 101; 102; 116; 40]%N in
  map (fun t => (ttext t, tpos t, tcat t)) (fst (tokenize_with (rev Tables.punctuation_commands) cs)) =
    [([92]%N, 0%Z, TEscape); ([108; 101; 102; 116; 40]%N, 1%Z, TPunctuationCommandName)] /\
  map (fun t => (ttext t, tpos t, tcat t)) (fst (tokenize_with Tables.punctuation_commands cs)) =
    [([92]%N, 0%Z, TEscape); ([108; 101; 102; 116; 40]%N, 1%Z, TPunctuationCommandName)].
Proof. vm_compute. split; reflexivity. Qed.

Example C17_example_chunks :
  concat [[92; 98]%N; [102]%N] = concat [[92]%N; []; [98; 102]%N].
Proof. reflexivity. Qed.
