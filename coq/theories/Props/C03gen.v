(* C03gen  The search methods of the model are the translated source.

   Model/ViewGen.v is regenerated on every run from the Python abstract syntax
   of TexSoup/data.py (harness/gen_views.py, fail-closed):
     TexExpr.__match__, TexEnv.__match__, TexNode.__match__,
     TexNode.find_all / find / count / __getattr__
   (and the navigation views they are built on, see C04gen.v for the
   vocabulary: call, run_node, of_item, args_ok, view_fuel), and the __str__
   methods of TexNode / TexEnv / TexCmd / TexText / TexArgs.  search_regex is
   NOT translated (Model/Regex.v keeps its own hand model).

     qval q             the query as a value: QName s -> VStr s, QList l -> VStrs l
     of_opt_item o      Some it -> of_item it, None -> Python None
     dict_ok q d        the dict `attrs` shared by the __match__ calls of one
                        find_all: d = [] or, for a str query s, {'name': s}
                        (what TexExpr.__match__ leaves behind)
     match_post q h a b o := exists d', dict_ok q d' /\
                        o = ODone (RVal (VBool b)) (heap_set h a d')
                        the call returned b and left dict d' at address a
     run_match c v q d  v.__match__(q, attrs) with attrs = d the only dict
   The dict aliasing of the Python code is modelled (one heap cell), so the
   statements about __match__ say what the cell holds afterwards; find_all /
   find / count / __getattr__ allocate their own `**attrs` dicts: the final
   heap is existentially quantified.
   Statements only; proofs are in Proofs/ViewGenProofs.v. *)
From Coq Require Import List NArith ZArith Bool Permutation.
From TexModel Require Import Base Tables Chars Tokenizer Tree Reader Views ViewDSL ViewGen.
From TexProofs Require Import ViewsProofs ViewGenProofs.
Import ListNotations.

(* ---- __match__, for every query, every TexExpr, every state of the shared dict *)

Theorem C03gen_expr_match : forall n p e q a h d,
  is_texexpr e = true -> nth_error h a = Some d -> dict_ok q d ->
  match_post q h a (texexpr_match q e)
    (call (S n) gen_v_cls KExpr M_match (VExpr p e) [qval q; VDict a] None h).
Proof. exact gen_E_match_ok. Qed.
Print Assumptions C03gen_expr_match.

Theorem C03gen_env_match : forall n p e q a h d,
  is_env e = true -> nth_error h a = Some d -> dict_ok q d ->
  match_post q h a (texenv_match q e)
    (call (S (S n)) gen_v_cls KEnv M_match (VExpr p e) [qval q; VDict a] None h).
Proof. exact gen_Env_match_ok. Qed.
Print Assumptions C03gen_env_match.

Theorem C03gen_node_match : forall n p e par q a h d,
  is_texexpr e = true -> nth_error h a = Some d -> dict_ok q d ->
  match_post q h a (match_item q e)
    (call (S (S (S n))) gen_v_cls KNode M_match (VNode p e par) [qval q; VDict a] None h).
Proof. exact gen_N_match_ok. Qed.
Print Assumptions C03gen_node_match.

(* the same in one statement: whatever TexExpr or TexNode, the call returns
   Views.match_item and keeps the dict within dict_ok *)
Theorem C03gen_match : forall v q d,
  (exists p e par, v = VNode p e par /\ is_texexpr e = true) \/
  (exists p e, v = VExpr p e /\ is_texexpr e = true) ->
  dict_ok q d ->
  exists d', dict_ok q d' /\
    run_match gen_v_cls v q d
    = Some (VBool (match v with VNode _ e _ | VExpr _ e => match_item q e | _ => false end), d').
Proof. exact run_match_ok. Qed.
Print Assumptions C03gen_match.

(* ---- str(x), which __match__ compares with a query containing { or [ : the
   interpreter reads it as Tree.estr (estr_list for a TexArgs).  The __str__
   methods of the source are translated too, and each of them, run on an object
   of its class with that reading for the str() calls it makes on the parts,
   returns that reading for the whole (ViewDSL.run_plain): Tree.estr is the
   solution of the equations the source consists of *)
Theorem C03gen_str_node : forall p e par h,
  run_plain gen_v_cls gen_TexNode_str (VNode p e par) h = ODone (RVal (VStr (estr e))) h.
Proof. exact gen_str_node_ok. Qed.
Print Assumptions C03gen_str_node.

Theorem C03gen_str_cmd : forall p n a b pos h,
  run_plain gen_v_cls gen_TexCmd_str (VExpr p (ECmd n a b pos)) h
  = ODone (RVal (VStr (estr (ECmd n a b pos)))) h.
Proof. exact gen_str_cmd_ok. Qed.
Print Assumptions C03gen_str_cmd.

Theorem C03gen_str_env : forall p e h, is_env e = true ->
  run_plain gen_v_cls gen_TexEnv_str (VExpr p e) h = ODone (RVal (VStr (estr e))) h.
Proof. exact gen_str_env_ok. Qed.
Print Assumptions C03gen_str_env.

Theorem C03gen_str_text : forall p t h,
  run_plain gen_v_cls gen_TexText_str (VExpr p (EText t)) h = ODone (RVal (VStr (estr (EText t)))) h.
Proof. exact gen_str_text_ok. Qed.
Print Assumptions C03gen_str_text.

Theorem C03gen_str_args : forall l h,
  run_plain gen_v_cls gen_TexArgs_str (VArgs l) h = ODone (RVal (VStr (estr_list l))) h.
Proof. exact gen_str_args_ok. Qed.
Print Assumptions C03gen_str_args.

(* ---- find_all / find / count / __getattr__: one theorem per method *)

Theorem C03gen_find_all : forall n q0 e par q h kw,
  args_ok e = true -> is_texexpr e = true -> 2 * edepth e + 6 <= n ->
  kw = None \/ kw = Some [] ->
  exists h',
    call n gen_v_cls KNode M_find_all (VNode (Some q0) e par) [qval q] kw h
    = ODone (RVal (VList (map of_item (find_all q (q0, e))))) h'.
Proof. exact gen_N_find_all_ok. Qed.
Print Assumptions C03gen_find_all.

Theorem C03gen_find : forall n q0 e par q h,
  args_ok e = true -> is_texexpr e = true -> 2 * edepth e + 7 <= n ->
  exists h',
    call n gen_v_cls KNode M_find (VNode (Some q0) e par) [qval q] None h
    = ODone (RVal (of_opt_item (find q (q0, e)))) h'.
Proof. exact gen_N_find_ok. Qed.
Print Assumptions C03gen_find.

Theorem C03gen_count : forall n q0 e par q h,
  args_ok e = true -> is_texexpr e = true -> 2 * edepth e + 7 <= n ->
  exists h',
    call n gen_v_cls KNode M_count (VNode (Some q0) e par) [qval q] None h
    = ODone (RVal (VInt (Z.of_nat (count q (q0, e))))) h'.
Proof. exact gen_N_count_ok. Qed.
Print Assumptions C03gen_count.

(* the body of __getattr__ (Python only calls it for names that normal lookup
   does not find: Views.is_real_attr) *)
Theorem C03gen_getattr : forall n q0 e par a h,
  args_ok e = true -> is_texexpr e = true -> 2 * edepth e + 8 <= n ->
  exists h',
    call n gen_v_cls KNode M_getattr (VNode (Some q0) e par) [VStr a] None h
    = ODone (RVal (of_opt_item (find (QName a) (q0, e)))) h'.
Proof. exact gen_N_getattr_ok. Qed.
Print Assumptions C03gen_getattr.

Theorem C03gen_getattr_is_model : forall par n a,
  args_ok (snd n) = true /\ is_texexpr (snd n) = true -> is_real_attr a = false ->
  exists o, getattr a n = AFound o /\
            run_node gen_v_cls M_getattr par n [VStr a] = Some (RVal (of_opt_item o)).
Proof. exact gen_getattr_is_model. Qed.
Print Assumptions C03gen_getattr_is_model.

(* ---- hence the C03 theorems hold of what the translated methods return *)

Theorem C03gen_descendants_complete : forall par n,
  args_ok (snd n) = true /\ is_texexpr (snd n) = true ->
  exists l,
    run_node gen_v_cls M_descendants par n [] = Some (RVal (VList (map of_item l))) /\
    Permutation (map snd l) (walk (snd n)) /\ NoDup (map fst l).
Proof. exact gen_descendants_complete. Qed.
Print Assumptions C03gen_descendants_complete.

Theorem C03gen_find_all_spec_partial : forall par n q,
  args_ok (snd n) = true /\ is_texexpr (snd n) = true -> ident_query q = true ->
  exists l,
    run_node gen_v_cls M_descendants par n [] = Some (RVal (VList (map of_item l))) /\
    run_node gen_v_cls M_find_all par n [VStr q]
    = Some (RVal (VList (map of_item
         (filter (fun it => is_env_or_cmd (snd it) && str_eqb (expr_name (snd it)) q) l)))).
Proof. exact gen_find_all_spec_partial. Qed.
Print Assumptions C03gen_find_all_spec_partial.

Theorem C03gen_list_query_exact : forall par n l,
  args_ok (snd n) = true /\ is_texexpr (snd n) = true -> query_has_brace (QList l) = false ->
  exists ds,
    run_node gen_v_cls M_descendants par n [] = Some (RVal (VList (map of_item ds))) /\
    run_node gen_v_cls M_find_all par n [VStrs l]
    = Some (RVal (VList (map of_item
         (filter (fun it => is_env_or_cmd (snd it) && mem_str (expr_name (snd it)) l) ds)))).
Proof. exact gen_list_query_exact. Qed.
Print Assumptions C03gen_list_query_exact.

Theorem C03gen_full_expr_query_spec : forall par n q,
  args_ok (snd n) = true /\ is_texexpr (snd n) = true -> query_has_brace (QName q) = true ->
  exists ds,
    run_node gen_v_cls M_descendants par n [] = Some (RVal (VList (map of_item ds))) /\
    run_node gen_v_cls M_find_all par n [VStr q]
    = Some (RVal (VList (map of_item
         (filter (fun it => is_env_or_cmd (snd it)
                            && (str_eqb (estr (snd it)) q
                                || (is_env (snd it) && mem_str q (env_openings (snd it))))) ds)))).
Proof. exact gen_full_expr_query_spec. Qed.
Print Assumptions C03gen_full_expr_query_spec.

Theorem C03gen_find_count_getattr : forall par n q,
  args_ok (snd n) = true /\ is_texexpr (snd n) = true ->
  exists l,
    run_node gen_v_cls M_find_all par n [qval q] = Some (RVal (VList (map of_item l))) /\
    run_node gen_v_cls M_find par n [qval q] = Some (RVal (of_opt_item (hd_error l))) /\
    run_node gen_v_cls M_count par n [qval q] = Some (RVal (VInt (Z.of_nat (length l)))) /\
    (forall a, q = QName a ->
       run_node gen_v_cls M_getattr par n [VStr a] = Some (RVal (of_opt_item (hd_error l)))).
Proof. exact gen_find_count_getattr. Qed.
Print Assumptions C03gen_find_count_getattr.

Theorem C03gen_absent_name_empty : forall par n q,
  args_ok (snd n) = true /\ is_texexpr (snd n) = true ->
  forallb (fun d => negb (mem_str q (names_of (snd d)))) (descendants n) = true ->
  run_node gen_v_cls M_find_all par n [VStr q] = Some (RVal (VList [])) /\
  run_node gen_v_cls M_find par n [VStr q] = Some (RVal VNone) /\
  run_node gen_v_cls M_count par n [VStr q] = Some (RVal (VInt 0)).
Proof. exact gen_absent_name_empty. Qed.
Print Assumptions C03gen_absent_name_empty.
