(* ReadGen  The reader of the model is the translated source.

   Model/ReadGen.v is regenerated on every run from the Python abstract syntax
   of TexSoup/reader.py (harness/gen_reader.py, fail-closed): one `fundef` per
   function, `gen_table` maps the function names to them.  `call gen_table m f
   args (mkbuf all i)` interprets function f with the semantics of
   Model/ReadDSL.v, with fuel m, on the buffer holding the tokens `all` with the
   cursor at i; its result is
     CDone v locs b   returned v, final locals locs, buffer b
     CExc e           raised the Python exception e
     CUnsup / CFuel   left the modelled fragment / ran out of fuel.
   The functions of Model/Reader.v (read_expr, read_item_loop, ...) are the
   hand-written model every other proof is about; they take the suffix
   `skipn i all` and their own fuel f.

   NE all := Forall (fun t => ttext t <> []) all   (no empty-text token; the
   tokenizer never produces one).  For r the hand-written result and c the
   result of the call (definitions in Proofs/ReadGenEquiv.v):
     rel_expr all i r c :=
       match r with
       | Err OutOfFuel => True
       | Err er => c = CExc er
       | Ok (e, rest) => exists i' locs, c = CDone (VExpr e) locs (mkbuf all i')
                                         /\ rest = skipn i' all /\ i <= i'
       end
     rel_ref   the same with locs = Some (VExpr e) :: _   (the mutated parameter)
     rel_list  the same with the value VList (map VExpr es)
     rel_args  the same with the value VArgs args
     rel_cmd   the same with the value VTuple [VTok name p k; VArgs args] for some p k
     rel_cnt   r = Ok ((args, n), rest): the value VInt n, locs = Some (VArgs args) :: _
   So each theorem below says: if the hand-written function, run with fuel f,
   does not run out of fuel, the translated function run with any fuel
   m >= 2 f + 2 returns the same value / raises the same exception and leaves
   the cursor where the hand-written function's remaining input starts.
   Statements only; proofs are in Proofs/ReadGenProofs.v and ReadGenEquiv.v. *)
From Coq Require Import List NArith ZArith Bool.
From TexModel Require Import Base Tables Chars Tokenizer Tree Reader ReadDSL ReadGen.
From TexProofs Require Import ReadGenProofs ReadGenEquiv.
Import ListNotations.

(* ---- tables and constants read from the source *)

Theorem ReadGen_signatures : gen_signatures = Tables.signatures.
Proof. exact gen_signatures_ok. Qed.
Print Assumptions ReadGen_signatures.

Theorem ReadGen_modes :
  gen_MODE_NON_MATH = str_mode_non_math /\ gen_MODE_MATH = str_mode_math
  /\ gen_MODE_SPECIAL = str_mode_special.
Proof. exact gen_modes_ok. Qed.
Print Assumptions ReadGen_modes.

(* ---- the leaves: no calls, any fuel >= 1 (read_skip_env: >= 2) *)

(* spacer_step all i := match skipn i all with
     | t :: _ => if is_tc TMergedSpacer t then (tok_val t, S i) else (VStr [], i)
     | [] => (VStr [], i) end *)
Theorem ReadGen_read_spacer :
  forall n all i, NE all ->
    call gen_table (S n) F_read_spacer [] (mkbuf all i) =
    CDone (fst (spacer_step all i)) [] (mkbuf all (snd (spacer_step all i))).
Proof. exact call_read_spacer. Qed.
Print Assumptions ReadGen_read_spacer.

(* ... which is the hand-written read_spacer: same truth value, same rest *)
Theorem ReadGen_read_spacer_hand :
  forall all i, NE all ->
    let '(b, src) := read_spacer (skipn i all) in
    truthy (fst (spacer_step all i)) = Some b /\ src = skipn (snd (spacer_step all i)) all
    /\ (i <= snd (spacer_step all i) <= S i)%nat.
Proof. exact spacer_step_hand. Qed.
Print Assumptions ReadGen_read_spacer_hand.

(* has_end e: e is a TexNamedEnv or one of the math environments;
   tok_or_none v: v is None or a Token *)
Theorem ReadGen_unclosed_env_handler :
  forall n e v b, has_end e -> tok_or_none v ->
    call gen_table (S n) F_unclosed_env_handler [VExpr e; v] b = CExc EOFError.
Proof. exact call_unclosed. Qed.
Print Assumptions ReadGen_unclosed_env_handler.

Theorem ReadGen_read_skip_env :
  forall n all i name args pos, NE all ->
    rel_ref all i (read_skip_env name args pos (skipn i all))
            (call gen_table (S (S n)) F_read_skip_env [VExpr (ENamed name args [] pos)] (mkbuf all i)).
Proof. exact call_read_skip_env. Qed.
Print Assumptions ReadGen_read_skip_env.

(* ---- the mutually recursive functions *)

Theorem ReadGen_read_expr :
  forall f m, (2 * f + 2 <= m)%nat -> forall all i skip strict md, NE all ->
    rel_expr all i (read_expr f skip strict md (skipn i all))
             (call gen_table m F_read_expr [skip_val skip; tol_val strict; mode_val md] (mkbuf all i)).
Proof. intros f m H. exact (ra_expr _ _ (rel_all_holds f m H f (le_n f))). Qed.
Print Assumptions ReadGen_read_expr.

Theorem ReadGen_read_item :
  forall f m, (2 * f + 2 <= m)%nat -> forall all i, NE all ->
    rel_list all i (read_item_loop f [] (skipn i all))
             (call gen_table m F_read_item [tol_val true] (mkbuf all i)).
Proof. intros f m H. exact (ra_item _ _ (rel_all_holds f m H f (le_n f))). Qed.
Print Assumptions ReadGen_read_item.

Theorem ReadGen_read_math_env :
  forall f m, (2 * f + 2 <= m)%nat -> forall all i k pos strict, NE all ->
    rel_ref all i (read_math_loop f k pos strict [] (skipn i all))
            (call gen_table m F_read_math_env [VExpr (EMath k [] pos); tol_val strict] (mkbuf all i)).
Proof. intros f m H. exact (ra_math _ _ (rel_all_holds f m H f (le_n f))). Qed.
Print Assumptions ReadGen_read_math_env.

Theorem ReadGen_read_env :
  forall f m, (2 * f + 2 <= m)%nat -> forall all i name args pos skip strict md, NE all ->
    rel_ref all i (read_env_loop f name args pos skip strict md [] (skipn i all))
            (call gen_table m F_read_env
                  [VExpr (ENamed name args [] pos); skip_val skip; tol_val strict; mode_val md]
                  (mkbuf all i)).
Proof. intros f m H. exact (ra_env _ _ (rel_all_holds f m H f (le_n f))). Qed.
Print Assumptions ReadGen_read_env.

(* skip = 0 or 1 are the values the code passes *)
Theorem ReadGen_read_command :
  forall f m, (2 * f + 2 <= m)%nat -> forall all i nreq nopt sk strict md, NE all -> (sk <= 1)%nat ->
    rel_cmd all i (read_command f nreq nopt sk strict md (skipn i all))
            (call gen_table m F_read_command
                  [VInt nreq; VInt nopt; VInt (Z.of_nat sk); tol_val strict; mode_val md] (mkbuf all i)).
Proof. intros f m H. exact (ra_cmd _ _ (rel_all_holds f m H f (le_n f))). Qed.
Print Assumptions ReadGen_read_command.

Theorem ReadGen_read_args :
  forall f m, (2 * f + 2 <= m)%nat -> forall all i nreq nopt strict md, NE all ->
    rel_args all i (read_args f nreq nopt strict md (skipn i all))
             (call gen_table m F_read_args [VInt nreq; VInt nopt; VNone; tol_val strict; mode_val md]
                   (mkbuf all i)).
Proof. intros f m H. exact (ra_args _ _ (rel_all_holds f m H f (le_n f))). Qed.
Print Assumptions ReadGen_read_args.

Theorem ReadGen_read_arg_optional :
  forall f m, (2 * f + 2 <= m)%nat -> forall all i args nopt strict md, NE all ->
    rel_cnt all i (read_arg_optional f args nopt strict md (skipn i all))
            (call gen_table m F_read_arg_optional [VArgs args; VInt nopt; tol_val strict; mode_val md]
                  (mkbuf all i)).
Proof. intros f m H. exact (ra_opt _ _ (rel_all_holds f m H f (le_n f))). Qed.
Print Assumptions ReadGen_read_arg_optional.

Theorem ReadGen_read_arg_required :
  forall f m, (2 * f + 2 <= m)%nat -> forall all i args nreq strict md, NE all ->
    rel_cnt all i (read_arg_required f args nreq strict md (skipn i all))
            (call gen_table m F_read_arg_required [VArgs args; VInt nreq; tol_val strict; mode_val md]
                  (mkbuf all i)).
Proof. intros f m H. exact (ra_req _ _ (rel_all_holds f m H f (le_n f))). Qed.
Print Assumptions ReadGen_read_arg_required.

Theorem ReadGen_read_arg :
  forall f m, (2 * f + 2 <= m)%nat -> forall all i c strict md, NE all ->
    rel_expr all i (read_arg f c strict md (skipn i all))
             (call gen_table m F_read_arg [tok_val c; tol_val strict; mode_val md] (mkbuf all i)).
Proof. intros f m H. exact (ra_arg _ _ (rel_all_holds f m H f (le_n f))). Qed.
Print Assumptions ReadGen_read_arg.

(* ---- from the top: read_tex, run to exhaustion, wrapped in the root.
   parse_tokens_gen_full runs the translated read_tex with fuel
   2 * fuel_for toks + 8 (fuel_for toks = 4 * length toks + 8 is the fuel of the
   hand model); GDone r = finished inside the modelled fragment, within the
   fuel, with result r. *)

Theorem ReadGen_parse_tokens :
  forall toks strict user_skip, NE toks ->
    parse_tokens_gen_full gen_table toks strict user_skip
    = GDone (parse_tokens toks strict user_skip).
Proof. exact parse_tokens_gen_full_ok. Qed.
Print Assumptions ReadGen_parse_tokens.

(* on every input string (the tokenizer produces no empty token) *)
Theorem ReadGen_parse :
  forall s strict user_skip, parse_gen gen_table s strict user_skip = parse s strict user_skip.
Proof. exact parse_gen_ok. Qed.
Print Assumptions ReadGen_parse.

(* and not for arbitrary token lists: the source (and so the translated reader)
   stops at a token with empty text, the hand-written model does not *)
Theorem ReadGen_parse_tokens_unconditional_refuted :
  exists toks strict user_skip,
    parse_tokens_gen_full gen_table toks strict user_skip
    <> GDone (parse_tokens toks strict user_skip).
Proof. exact parse_tokens_gen_unconditional_refuted. Qed.
Print Assumptions ReadGen_parse_tokens_unconditional_refuted.
