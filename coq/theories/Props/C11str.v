(* C11 (string level)  "Provided the body neither starts with a brace/bracket ... nor
   ends with a backslash, and no % precedes the closing \end on its line, the body of
   a verbatim-like environment ... is kept as a single uninterpreted text exactly as
   written up to the first `\end{name}`".  Statements only; proofs in
   Proofs/BoundaryProofs.v (built on Proofs/TokInverse.v and Proofs/SkipEnvProofs.v).

   SkipEnvProofs.v shows that read_skip_env stops at the FIRST TOKEN BOUNDARY at which
   the remaining text starts with "\end{name}".  Here: where that boundary is in the
   source string.

   Vocabulary (see also Props/C10str.v):
     Tree.env_end name      = "\end{" ++ name ++ "}"
     letters name           := every character of name has category Letter
     first_occ target pre rest := no proper suffix y of pre (y <> []) has y ++ rest start
                               with target  (rest starts with target: its occurrence at
                               offset |pre| is the first one in pre ++ rest)
     first_occ_b            a decidable form of first_occ (first_occ_b_ok)
     toks_of s = hd_toks ++ body_toks, texts hd_toks = head
                            the body of the environment starts at the token boundary
                            |head|; body_toks is what read_skip_env is called with
     boundary_b, inside_b, ends_escape, all_esc, no_pct   as in C10str.v
     cut toks u v           := toks = a ++ b with texts a = u and texts b = v
     inside toks k u v      := the cut between u and v falls strictly inside a token of
                               category k of toks
     shaped / follows_ok    the lexical shape and maximal-munch conditions of
                            TokInverse.v, true of every tokenizer output on a clean
                            quirk-free string (TokInverse.tokens_shaped) *)
From Coq Require Import List NArith ZArith Bool.
From TexModel Require Import Base Tables Chars Tokenizer.
From TexModel Require Tree Reader.
From TexProofs Require Import TokProofs TokFacts TokInverse BoundaryProofs.
From TexProofs Require ReaderCons.
Import ListNotations.

(* (i) at a token boundary, "\end{name}" with a non-empty name made of letters is
   exactly five tokens: Escape, CommandName "end", GroupBegin, Text name, GroupEnd
   (no sizing command starts with "e", and "end" is followed by "{") *)
Theorem C11_end_five_tokens :
  forall r name post,
    shaped r -> follows_ok r = true -> name <> [] -> letters name = true ->
    texts r = Tree.env_end name ++ post ->
    exists t1 t2 t3 t4 t5 r',
      r = t1 :: t2 :: t3 :: t4 :: t5 :: r' /\
      (tcat t1 = TEscape /\ ttext t1 = [92]%N) /\
      (tcat t2 = TCommandName /\ ttext t2 = [101; 110; 100]%N) /\
      (tcat t3 = TGroupBegin /\ ttext t3 = [123]%N) /\
      (tcat t4 = TText /\ ttext t4 = name) /\
      (tcat t5 = TGroupEnd /\ ttext t5 = [125]%N) /\
      texts r' = post.
Proof. exact end_five_tokens. Qed.
Print Assumptions C11_end_five_tokens.

(* (ii) an occurrence of "\end{..." whose escape follows an even, maximal run of
   escapes and is not inside a Comment token starts at a token boundary (inside a
   sizing command + delimiter an escape is never followed by "e") *)
Theorem C11_end_at_cut :
  forall toks u es name post j,
    shaped toks -> follows_ok toks = true ->
    texts toks = u ++ es ++ Tree.env_end name ++ post -> ends_escape u = false ->
    all_esc es = true -> length es = 2 * j ->
    ~ inside toks TComment (u ++ es) (Tree.env_end name ++ post) ->
    cut toks (u ++ es) (Tree.env_end name ++ post).
Proof. exact end_at_cut. Qed.
Print Assumptions C11_end_at_cut.

(* the built-in verbatim-like names qualify *)
Theorem C11_builtin_name_ok :
  forall name, mem_str name Tables.skip_env_names = true -> name <> [] /\ letters name = true.
Proof. exact builtin_name_ok. Qed.
Print Assumptions C11_builtin_name_ok.

(* C11 on strings.  s = head ++ pre ++ "\end{name}" ++ post, clean and quirk-free;
   the body tokens start at the boundary |head|; name is non-empty and made of
   letters; this is the first occurrence of "\end{name}" from the body start; it is
   not inside a Comment token; the escapes just before it are an even, maximal run
   (head ++ pre = u ++ es).  Then: the body tokens split at |head ++ pre|, which is a
   token boundary; "\end{name}" is exactly the five tokens t1..t5 there; the scan of
   read_skip_env stops exactly there and the raw body is pre -- "exactly as written up
   to the first \end{name}"; the five-token condition of ReaderCons.hyp_skip holds at
   the stop; read_skip_env returns the environment with the single raw child pre
   (positioned at |head|) and continues after the five tokens. *)
Theorem C11_first_end_occurrence :
  forall s head pre name post hd_toks body_toks u es,
    clean s = true -> start_quirk s = false ->
    name <> [] -> letters name = true ->
    s = head ++ pre ++ Tree.env_end name ++ post ->
    toks_of s = hd_toks ++ body_toks -> texts hd_toks = head ->
    first_occ (Tree.env_end name) pre (Tree.env_end name ++ post) ->
    head ++ pre = u ++ es -> ends_escape u = false -> all_esc es = true ->
    Nat.even (length es) = true ->
    inside_b s TComment (length (head ++ pre)) = false ->
    exists pre_toks t1 t2 t3 t4 t5 rest,
      body_toks = pre_toks ++ t1 :: t2 :: t3 :: t4 :: t5 :: rest /\
      texts pre_toks = pre /\ texts rest = post /\
      boundary_b s (length (head ++ pre)) = true /\
      (tcat t1 = TEscape /\ ttext t1 = [92]%N) /\
      (tcat t2 = TCommandName /\ ttext t2 = [101; 110; 100]%N) /\
      (tcat t3 = TGroupBegin /\ ttext t3 = [123]%N) /\
      (tcat t4 = TText /\ ttext t4 = name) /\
      (tcat t5 = TGroupEnd /\ ttext t5 = [125]%N) /\
      Reader.skip_scan (Tree.env_end name) [] body_toks =
        (pre, t1 :: t2 :: t3 :: t4 :: t5 :: rest) /\
      Reader.texts (firstn 5 (t1 :: t2 :: t3 :: t4 :: t5 :: rest)) = Tree.env_end name /\
      exists t0, hd_error body_toks = Some t0 /\ tpos t0 = Z.of_nat (length head) /\
        forall args pos,
          Reader.read_skip_env name args pos body_toks =
          Reader.Ok (Tree.ENamed name args [Tree.ERaw pre (tpos t0)] pos, rest).
Proof. exact first_end_occurrence. Qed.
Print Assumptions C11_first_end_occurrence.

(* the provisos as the property words them, on the string alone: "the body does not
   end with a backslash" (head ++ pre does not end with an escape) and "no % precedes
   the closing \end on its line" (head ++ pre = u0 ++ l, u0 empty or ending with an
   end-of-line character, no comment character in l).  end_stop is the conclusion of
   C11_first_end_occurrence, verbatim. *)
Theorem C11_string_provisos :
  forall s head pre name post hd_toks body_toks u0 l,
    clean s = true -> start_quirk s = false ->
    name <> [] -> letters name = true ->
    s = head ++ pre ++ Tree.env_end name ++ post ->
    toks_of s = hd_toks ++ body_toks -> texts hd_toks = head ->
    first_occ (Tree.env_end name) pre (Tree.env_end name ++ post) ->
    ends_escape (head ++ pre) = false ->
    head ++ pre = u0 ++ l ->
    (u0 = [] \/ exists u1 d, u0 = u1 ++ [d] /\ is_c CEndOfLine d = true) ->
    no_pct l = true ->
    end_stop s head pre name post body_toks.
Proof. exact end_string_provisos. Qed.
Print Assumptions C11_string_provisos.

Theorem C11_first_occ_b_ok :
  forall target pre rest, first_occ_b target pre rest = true -> first_occ target pre rest.
Proof. exact first_occ_b_ok. Qed.
Print Assumptions C11_first_occ_b_ok.

(* the five-token condition ReaderCons.hyp_skip, everywhere: for verbatim-like names
   that are non-empty and made of letters (name_ok_b n := letters n && n <> []; all
   built-in names qualify, by computation), wherever at a token boundary the remaining
   text starts with "\end{name}", the next five tokens are exactly "\end{name}".
     hyp_skip SK toks := forall pre rest name, toks = pre ++ rest -> mem_str name SK = true ->
        starts_with (texts (firstn (length (env_end name)) rest)) (env_end name) = true ->
        texts (firstn 5 rest) = env_end name
   So the known finding KF-skip-name-not-five-tokens needs a name with a non-letter. *)
Theorem C11_hyp_skip_letters :
  forall s SK,
    clean s = true -> start_quirk s = false ->
    forallb name_ok_b SK = true ->
    ReaderCons.hyp_skip SK (toks_of s).
Proof. exact hyp_skip_letters. Qed.
Print Assumptions C11_hyp_skip_letters.

Theorem C11_hyp_skip_builtin :
  forall s user,
    clean s = true -> start_quirk s = false -> forallb name_ok_b user = true ->
    ReaderCons.hyp_skip (Tables.skip_env_names ++ user) (toks_of s).
Proof. exact hyp_skip_builtin. Qed.
Print Assumptions C11_hyp_skip_builtin.

(* with a non-letter in the name it fails: "\begin{a[b}x\end{a[b}y" *)
Theorem C11_hyp_skip_nonletter_refuted :
  exists s name,
    clean s = true /\ start_quirk s = false /\ name <> [] /\ letters name = false /\
    exists pre rest, toks_of s = pre ++ rest /\
      starts_with (Reader.texts (firstn (length (Tree.env_end name)) rest)) (Tree.env_end name) = true /\
      Reader.texts (firstn 5 rest) <> Tree.env_end name.
Proof. exact hyp_skip_nonletter_refuted. Qed.
Print Assumptions C11_hyp_skip_nonletter_refuted.

(* ------------------------------------------------ the provisos are needed *)

(* (a) the body ends with a backslash (odd run): "\begin{verbatim}a\\end{verbatim}".
   The "\end" is not at a token boundary ("\\" is one EscapedComment token) and the
   environment is never closed *)
Theorem C11_backslash_refuted :
  exists s head pre name post u es,
    clean s = true /\ start_quirk s = false /\ name <> [] /\ letters name = true /\
    s = head ++ pre ++ Tree.env_end name ++ post /\
    texts (firstn 5 (toks_of s)) = head /\
    first_occ_b (Tree.env_end name) pre (Tree.env_end name ++ post) = true /\
    head ++ pre = u ++ es /\ ends_escape u = false /\ all_esc es = true /\
    Nat.even (length es) = false /\
    inside_b s TComment (length (head ++ pre)) = false /\
    boundary_b s (length (head ++ pre)) = false /\
    Reader.read_skip_env name [] 0%Z (skipn 5 (toks_of s)) = Reader.Err Reader.EOFError.
Proof. exact end_backslash_refuted. Qed.
Print Assumptions C11_backslash_refuted.

(* (b) a comment character precedes "\end" on its line:
   "\begin{verbatim}a% \end{verbatim}" *)
Theorem C11_comment_refuted :
  exists s head pre name post u es,
    clean s = true /\ start_quirk s = false /\ name <> [] /\ letters name = true /\
    s = head ++ pre ++ Tree.env_end name ++ post /\
    texts (firstn 5 (toks_of s)) = head /\
    first_occ_b (Tree.env_end name) pre (Tree.env_end name ++ post) = true /\
    head ++ pre = u ++ es /\ ends_escape u = false /\ all_esc es = true /\
    Nat.even (length es) = true /\
    inside_b s TComment (length (head ++ pre)) = true /\
    boundary_b s (length (head ++ pre)) = false /\
    Reader.read_skip_env name [] 0%Z (skipn 5 (toks_of s)) = Reader.Err Reader.EOFError.
Proof. exact end_comment_refuted. Qed.
Print Assumptions C11_comment_refuted.

(* (c) the name must be non-empty: "\end{}x" is four tokens, so the five-token
   condition fails there *)
Theorem C11_empty_name_refuted :
  exists s post,
    clean s = true /\ start_quirk s = false /\ letters [] = true /\
    s = Tree.env_end [] ++ post /\
    boundary_b s 0 = true /\
    Reader.texts (firstn 5 (toks_of s)) <> Tree.env_end [].
Proof. exact end_empty_name_refuted. Qed.
Print Assumptions C11_empty_name_refuted.

(* ----------------------------------------------------------- non-vacuity *)

(* \begin{verbatim}$x{\\\end{verbatim}y : the body "$x{\\" ends with an EVEN run of
   backslashes, which is fine *)
Example C11_first_end_occurrence_hyps :
  clean ex_verb = true /\ start_quirk ex_verb = false /\ letters s_verbatim = true /\
  mem_str s_verbatim Tables.skip_env_names = true /\
  ex_verb = (ex_head ++ [36; 120; 123; 92; 92] ++ Tree.env_end s_verbatim ++ [121])%N /\
  texts (firstn 5 (toks_of ex_verb)) = ex_head /\
  first_occ_b (Tree.env_end s_verbatim) [36; 120; 123; 92; 92]%N
              (Tree.env_end s_verbatim ++ [121]%N) = true /\
  (ex_head ++ [36; 120; 123; 92; 92] = (ex_head ++ [36; 120; 123]) ++ [92; 92])%N /\
  ends_escape (ex_head ++ [36; 120; 123])%N = false /\ all_esc [92; 92]%N = true /\
  Nat.even (length [92; 92]%N) = true /\
  inside_b ex_verb TComment (length (ex_head ++ [36; 120; 123; 92; 92])%N) = false.
Proof. vm_compute. repeat split. Qed.

Example C11_first_end_occurrence_ex :
  end_stop ex_verb ex_head [36; 120; 123; 92; 92]%N s_verbatim [121]%N (skipn 5 (toks_of ex_verb)).
Proof. exact first_end_occurrence_ex. Qed.

Example C11_first_end_occurrence_computed :
  Reader.read_skip_env s_verbatim [] 0%Z (skipn 5 (toks_of ex_verb)) =
  Reader.Ok (Tree.ENamed s_verbatim [] [Tree.ERaw [36; 120; 123; 92; 92]%N 16%Z] 0%Z,
             [mkt [121]%N 35%Z TText]).
Proof. vm_compute. reflexivity. Qed.

(* \begin{verbatim}x%y<LF>${\end{verbatim} : the comment is on an EARLIER line *)
Example C11_string_provisos_ex :
  end_stop ex_verb_line ex_head [120; 37; 121; 10; 36; 123]%N s_verbatim []
           (skipn 5 (toks_of ex_verb_line)).
Proof. exact end_string_provisos_ex. Qed.

Example C11_end_five_tokens_ex :
  map (fun t => (ttext t, tcat t)) (toks_of (Tree.env_end s_verbatim ++ [121]%N)) =
  [([92]%N, TEscape); ([101; 110; 100]%N, TCommandName); ([123]%N, TGroupBegin);
   (s_verbatim, TText); ([125]%N, TGroupEnd); ([121]%N, TText)].
Proof. vm_compute. reflexivity. Qed.

(* the hypotheses of C11_hyp_skip_letters / C11_hyp_skip_builtin *)
Example C11_hyp_skip_letters_ex :
  clean ex_verb = true /\ start_quirk ex_verb = false /\
  forallb name_ok_b Tables.skip_env_names = true.
Proof. exact hyp_skip_letters_ex. Qed.
