(* C01, clause 2: "The text of every node in the tree is likewise exactly the
   slice of the source it was parsed from."
   Statements only; proofs in Proofs/NodeProofs.v (Step 1: every node is the
   result of a reader call on a suffix of the token list; Step 2: the per-call
   conservation theorem CP of Proofs/ReaderCons.v applied to that call, and
   the tokenizer partition theorem of Proofs/TokProofs.v).

   Vocabulary as in Props/C13nodes.v: `sub x t` - x is t or occurs in t at any
   depth, through bodies and argument lists; `item_in x t` / `arg_in x t` - x
   is a content item / an argument of some node of t; `epos x` - the position
   the node records.

   Proved, for EVERY node at any depth (no `_partial`), under exactly the
   conditions of the whole-document round trip C01_roundtrip_partial
   (Props/C01.v): strict mode, hygiene `Hyp`/`hypb` (Props/C08.v), no
   bare-token argument anywhere (`nobare`), no whitespace between a
   command/argument and the following argument group (`no_arg_spacer`), no
   NUL/DEL.  Under these conditions there is no exceptional node: the raw
   body of a verbatim-like environment is covered, plain strings and
   position -1 groups are excluded by `nobare`.
   The side conditions are needed: see C01_node_slices_needs_no_arg_spacer. *)
From Coq Require Import List NArith ZArith Bool.
From TexModel Require Import Base Tables Chars Tokenizer Tree Reader.
From TexProofs Require Import TokProofs ReaderLen ReaderCons ConsTop StructProofs ConsBridge NodeProofs.
Import ListNotations.

(* token level: every node is the concatenation of a run `used` of consecutive
   tokens of the list and records the position of the first token of the run
   (of the token the run starts at, when the run is empty: an empty verbatim
   body) *)
Theorem C01_node_tokens :
  forall toks user t,
    Hyp (all_skip user) toks -> parse_tokens toks true user = Ok t ->
    nobare t = true -> no_arg_spacer toks = true ->
    forall x, item_in x t \/ arg_in x t ->
      exists pre used post c, toks = pre ++ used ++ post /\ head (used ++ post) = Some c /\
        epos x = Some (tpos c) /\ estr x = texts used.
Proof. exact node_tokens. Qed.
Print Assumptions C01_node_tokens.

(* tokens are consecutive slices of a NUL/DEL-free source: a run of
   consecutive tokens is the slice at the recorded position of its first *)
Theorem C01_token_runs_are_slices :
  forall (s : str) toks e pre used post c,
    tokens_of_string s = (toks, e) -> Forall (fun c => ign c = false) (categorize s) ->
    toks = pre ++ used ++ post -> head (used ++ post) = Some c ->
    texts used = slice s (tpos c) (length (texts used)).
Proof. exact tokens_run_slice. Qed.
Print Assumptions C01_token_runs_are_slices.

(* string level *)
Theorem C01_node_slices_hyp :
  forall (s : str) user t toks,
    tokens_of_string s = (toks, TEnd) -> parse s true user = Ok t ->
    Hyp (all_skip user) toks -> nobare t = true -> no_arg_spacer toks = true ->
    Forall (fun c => ign c = false) (categorize s) ->
    forall x, item_in x t \/ arg_in x t ->
      exists p, epos x = Some p /\ estr x = slice s p (length (estr x)).
Proof. exact node_slices_hyp. Qed.
Print Assumptions C01_node_slices_hyp.

(* the same with the decidable hygiene check, for every sub-expression: the
   root is the whole source, every other node is the slice of the source that
   starts at its recorded position *)
Theorem C01_node_slices :
  forall (s : str) user t,
    parse s true user = Ok t ->
    hypb (all_skip user) (fst (tokens_of_string s)) = true ->
    nobare t = true ->
    no_arg_spacer (fst (tokens_of_string s)) = true ->
    Forall (fun c => ign c = false) (categorize s) ->
    forall x, sub x t ->
      (x = t /\ estr x = s) \/
      (exists p, epos x = Some p /\ estr x = slice s p (length (estr x))).
Proof. exact node_slices. Qed.
Print Assumptions C01_node_slices.

(* `nodes t` enumerates every sub-expression (used by the examples) *)
Theorem C01_nodes_complete : forall x t, sub x t -> In x (nodes t).
Proof. exact nodes_complete. Qed.
Print Assumptions C01_nodes_complete.

(* nobare and no_arg_spacer are inherited by sub-expressions / sub-lists *)
Theorem C01_nobare_sub : forall x t, sub x t -> nobare t = true -> nobare x = true.
Proof. exact nobare_sub. Qed.
Print Assumptions C01_nobare_sub.

Theorem C01_no_arg_spacer_mid :
  forall a b c, no_arg_spacer (a ++ b ++ c) = true -> no_arg_spacer b = true.
Proof. exact no_arg_spacer_mid. Qed.
Print Assumptions C01_no_arg_spacer_mid.

(* non-vacuity:
   \begin{itemize}\item a\begin{center}\k[o]{x}$y$\end{center}%c
   \item\(z\)\end{itemize}
   satisfies every hypothesis; its 16 nodes below the root (a command with an
   optional and a mandatory argument inside an environment inside an \item,
   two math regions, a comment) are each the slice of the source at the
   recorded position *)
Example C01_nodes_example :
  let s := [92; 98; 101; 103; 105; 110; 123; 105; 116; 101; 109; 105; 122; 101; 125; 92; 105;
            116; 101; 109; 32; 97; 92; 98; 101; 103; 105; 110; 123; 99; 101; 110; 116; 101; 114;
            125; 92; 107; 91; 111; 93; 123; 120; 125; 36; 121; 36; 92; 101; 110; 100; 123; 99;
            101; 110; 116; 101; 114; 125; 37; 99; 10; 92; 105; 116; 101; 109; 92; 40; 122; 92;
            41; 92; 101; 110; 100; 123; 105; 116; 101; 109; 105; 122; 101; 125]%N in
  exists t, parse s true [] = Ok t /\
    hypb (all_skip []) (fst (tokens_of_string s)) = true /\
    nobare t = true /\ no_arg_spacer (fst (tokens_of_string s)) = true /\
    forallb (fun c => negb (ign c)) (categorize s) = true /\
    length (tl (nodes t)) = 16 /\
    forallb (slice_ok s) (tl (nodes t)) = true.
Proof. exact node_slices_example. Qed.

(* a verbatim body: \begin{verbatim}$\end{verbatim} *)
Example C01_raw_body_example :
  let s := [92; 98; 101; 103; 105; 110; 123; 118; 101; 114; 98; 97; 116; 105; 109; 125; 36; 92;
            101; 110; 100; 123; 118; 101; 114; 98; 97; 116; 105; 109; 125]%N in
  exists t, parse s true [] = Ok t /\
    hypb (all_skip []) (fst (tokens_of_string s)) = true /\ nobare t = true /\
    no_arg_spacer (fst (tokens_of_string s)) = true /\
    In (ERaw [36]%N 16%Z) (nodes t) /\ forallb (slice_ok s) (tl (nodes t)) = true.
Proof. exact raw_body_example. Qed.

(* "each argument group immediately follows" is needed for the per-node
   clause too: \a {x} satisfies every other hypothesis, and the text of the
   command node, \a{x}, is not the slice `\a {x` of the source *)
Theorem C01_node_slices_needs_no_arg_spacer :
  let s := [92; 97; 32; 123; 120; 125]%N in
  exists t x, parse s true [] = Ok t /\ hypb (all_skip []) (fst (tokens_of_string s)) = true /\
    nobare t = true /\ forallb (fun c => negb (ign c)) (categorize s) = true /\
    no_arg_spacer (fst (tokens_of_string s)) = false /\
    In x (tl (nodes t)) /\ epos x = Some 0%Z /\
    estr x = [92; 97; 123; 120; 125]%N /\
    slice s 0 (length (estr x)) = [92; 97; 32; 123; 120]%N.
Proof. exact node_slices_needs_no_arg_spacer. Qed.
Print Assumptions C01_node_slices_needs_no_arg_spacer.
