(* Property C18: a node's argument list (TexSoup.data.TexArgs) behaves like a Python
   list of argument groups; strings are coerced or rejected; str is the concatenation.
   Model: TexModel.Args (m_step, m_run, m_new = the constructor);
   reference list machine: TexModel.Args (ref_step, ref_run); proofs: TexProofs.ArgsProofs. *)
From Coq Require Import List ZArith Bool Permutation.
From TexModel Require Import Args.
From TexProofs Require Import ArgsProofs.
Import ListNotations.
Local Open Scope Z_scope.

(* C18: for every initial list of groups and every sequence of operations (append,
   extend, insert at any index, remove, pop with or without index, reverse, clear,
   indexing, slicing, membership; arguments: groups, coercible strings, whitespace,
   malformed strings), after every operation the list, len, str and the outcome are
   those of the reference list machine. *)
Theorem C18_refines :
  forall (init : list group) (ops : list op),
    map obs_model (m_run (fst (m_new (map AG init))) ops) = map obs_ref (ref_run init ops).
Proof. exact refines. Qed.
Print Assumptions C18_refines.

(* the same with the constructor given any mixture of groups, strings and whitespace
   (the constructor is extend on an empty list; the reference starts from what
   extend makes of the same arguments) *)
Theorem C18_refines_args :
  forall (init : list arg) (ops : list op),
    map obs_model (m_run (fst (m_new init)) ops) =
    map obs_ref (ref_run (fst (ref_extend [] init)) ops).
Proof. exact refines_args. Qed.
Print Assumptions C18_refines_args.

(* str(args) is the concatenation of the rendered groups in list order, in every
   state, and the owning command prints '\' name followed by exactly that *)
Theorem C18_str_is_concat :
  forall (st : state) (name : pstr),
    m_str st = concat (map render (fst st)) /\
    cmd_str name st = 92 :: name ++ concat (map render (fst st)).
Proof. exact str_is_concat. Qed.
Print Assumptions C18_str_is_concat.

(* A rejected argument (TypeError) leaves list and shadow list unchanged.  Full
   statement, FALSE for extend (C18_reject_refuted): extend keeps the arguments that
   precede the malformed one (C18_extend_reject says exactly what it keeps). *)
Definition C18_reject_unchanged : Prop :=
  forall (st : state) (o : op), snd (m_step st o) = ETypeError -> fst (m_step st o) = st.

Theorem C18_reject_unchanged_partial :
  forall (st : state) (o : op),
    is_extend o = false -> snd (m_step st o) = ETypeError -> fst (m_step st o) = st.
Proof. exact reject_partial. Qed.
Print Assumptions C18_reject_unchanged_partial.

Theorem C18_reject_refuted :
  exists (st : state) (o : op), snd (m_step st o) = ETypeError /\ fst (m_step st o) <> st.
Proof. exact reject_refuted. Qed.
Print Assumptions C18_reject_refuted.

Theorem C18_reject_unchanged_is_false : ~ C18_reject_unchanged.
Proof. exact reject_statement_false. Qed.
Print Assumptions C18_reject_unchanged_is_false.

Theorem C18_extend_reject :
  forall (l : list arg) (st st' : state),
    m_extend st l = (st', ETypeError) ->
    exists pre bad post, l = pre ++ bad :: post /\ coerce bad = None /\
                         m_extend st pre = (st', ONone).
Proof. exact extend_reject. Qed.
Print Assumptions C18_extend_reject.

(* The shadow list `.all`: in every state reached from the constructor, its
   non-whitespace elements are a permutation of the list and its strings are
   whitespace.  (Consequently self.all.remove / self.all.index never raise on their
   own: the outcomes in C18_refines are those of the list.)  Not more: the
   order can differ, see drift_constructor / drift_pop / drift_whitespace. *)
Theorem C18_shadow_invariant :
  forall (init : list arg) (ops : list op) (st : state) (o : out),
    In (st, o) (m_new init :: m_run (fst (m_new init)) ops) ->
    Permutation (groups_of (snd st)) (fst st) /\ Forall ws_item (snd st).
Proof. exact all_invariant. Qed.
Print Assumptions C18_shadow_invariant.

(* ... and the order agrees too as long as no state of the run has two textually
   equal groups in the list *)
Theorem C18_shadow_synced_without_duplicates :
  forall (init : list arg) (ops : list op),
    Forall (fun r : state * out => NoDup (fst (fst r))) (m_new init :: m_run (fst (m_new init)) ops) ->
    Forall (fun r : state * out => groups_of (snd (fst r)) = fst (fst r))
           (m_new init :: m_run (fst (m_new init)) ops).
Proof. exact synced_without_duplicates. Qed.
Print Assumptions C18_shadow_synced_without_duplicates.
