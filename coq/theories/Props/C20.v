(* C20 -- The look-ahead buffer is a faithful cursor over its sequence.

   Model: TexModel.Buffer (step, run_ops, init_state: the code as it is, with the
   lazily materialised queue and Python's negative indexing into it).
   Reference machine, guard and auxiliary definitions: TexProofs.BufferProofs
   (ref_step / run_ref: a plain list with an integer index, written with
   nth_error / firstn / skipn; guard / guards_ok: moves stay within 0..len,
   peeks / ranges / slices / b[k] do not address before index 0; next, endswith,
   startswith, forward_until, num_forward_until, position are unconditional).
   Non-vacuity: BufferProofs.ex_guards, ex_run, ex_inv_reached, ex_past_end. *)
From Coq Require Import List ZArith Bool.
From TexModel Require Import Buffer.
From TexProofs Require Import BufferProofs.
Import ListNotations.
Open Scope Z_scope.

(* Items returned and cursor position equal those of a list with an index,
   after any guarded interleaving of all thirteen operations. *)
Theorem C20_refines : forall (l : list Z) (ops : list op),
  guards_ok l 0 ops = true ->
  run_ops (init_state l) ops = run_ref l 0 ops.
Proof. exact C20_refines_proof. Qed.
Print Assumptions C20_refines.

(* Peeking, slicing and the tests never move the cursor: for ALL arguments (in
   or out of contract), in every state with a non-negative cursor. *)
Theorem C20_lookups_keep_cursor : forall s o,
  0 <= cursor s -> (mat s <= length (items s))%nat ->
  match o with
  | HasNext _ | Peek _ | PeekR _ _ | Slice _ _ | Getitem _ | Startswith _ | Endswith _
  | Position => True
  | _ => False
  end ->
  cursor (fst (step s o)) = cursor s /\ items (fst (step s o)) = items s.
Proof. exact lookups_keep_cursor_proof. Qed.
Print Assumptions C20_lookups_keep_cursor.

(* ... and along guarded runs num_forward_until restores it too. *)
Theorem C20_non_moving_keep_cursor : forall l ops o,
  guards_ok l 0 (ops ++ [o]) = true -> non_moving o = true ->
  cursor (fst (step (state_after (init_state l) ops) o)) =
  cursor (state_after (init_state l) ops).
Proof. exact non_moving_keep_cursor_proof. Qed.
Print Assumptions C20_non_moving_keep_cursor.

(* Reading or peeking past the end reports exhaustion instead of failing. *)
Theorem C20_run_no_other_failure : forall l ops,
  guards_ok l 0 ops = true -> all_benign (run_ops (init_state l) ops) ops.
Proof. exact run_no_other_failure_proof. Qed.
Print Assumptions C20_run_no_other_failure.

Theorem C20_no_other_failure : forall s o,
  Inv s -> guard (zlen (items s)) (cursor s) o = true ->
  match snd (step s o) with
  | OExc e => (o = Next /\ e = StopIteration /\ cursor s = zlen (items s)) \/
              (exists k, o = Getitem k /\ e = IndexError /\ zlen (items s) <= k)
  | _ => True
  end.
Proof. exact no_other_failure_proof. Qed.
Print Assumptions C20_no_other_failure.

Theorem C20_next_at_end : forall s, Inv s -> cursor s = zlen (items s) ->
  snd (step s Next) = OExc StopIteration /\ cursor (fst (step s Next)) = cursor s.
Proof. exact next_at_end_proof. Qed.
Print Assumptions C20_next_at_end.

Theorem C20_peek_past_end : forall s j, Inv s -> zlen (items s) <= cursor s + j ->
  snd (step s (Peek j)) = ONone /\ cursor (fst (step s (Peek j))) = cursor s.
Proof. exact peek_past_end_proof. Qed.
Print Assumptions C20_peek_past_end.

Theorem C20_range_past_end_shorter : forall s a b, Inv s ->
  0 <= cursor s + a -> 0 <= cursor s + b ->
  exists l, snd (step s (PeekR a b)) = OItems l /\
            l = sub (items s) (cursor s + a) (cursor s + b) /\
            (length l <= Z.to_nat (cursor s + b) - Z.to_nat (cursor s + a))%nat.
Proof. exact range_past_end_shorter_proof. Qed.
Print Assumptions C20_range_past_end_shorter.

(* every state reached by a guarded run satisfies Inv (so the four theorems
   above apply to all reachable states) *)
Theorem C20_reachable_inv : forall ops s, Inv s ->
  guards_ok (items s) (cursor s) ops = true ->
  Inv (state_after s ops) /\ items (state_after s ops) = items s.
Proof. exact Inv_after. Qed.
Print Assumptions C20_reachable_inv.
