(* C19glue  The tokenizer DRIVER and categorize of the model are the translated
   source -- with C19gen (the eleven rules) the tokenizer is translated end to
   end.

   Model/GlueGen.v is regenerated on every run from the Python abstract syntax
   of categorize (TexSoup/category.py) and of next_token / tokenize
   (TexSoup/tokens.py) by harness/gen_glue.py (fail-closed).  `gen_env` runs
   these programs with the semantics of Model/GlueDSL.v over the TRANSLATED
   rule bodies and registration order of Model/TokGen.v (TokGen.gen_program,
   TokGen.gen_rule_order).  Results (GlueDSL.gout): GDone r = finished inside
   the modelled fragment and within the loop fuel with result r; GRaise e = the
   Python exception e; GUnsup / GFuel otherwise.

     categorize_glue env s        list(categorize(s))
     next_token_glue env b prev   next_token(text, prev) with the Buffer `text`
                                  in state b = (characters left, text.position,
                                  the two look-behind characters of Tokenizer.v):
                                  the token or None, and the state afterwards
     tokenize_glue env cs         list(tokenize(<fresh Buffer over cs>))
     tok_result (toks, e)         the hand model's result in that type:
                                  TEnd -> GDone toks, TEndErr -> GRaise
                                  AttributeError, TEndHang/TEndFuel -> GFuel
     cx_of b prev                 the rule context mkctx (b_idx b) prev (b_pp b)
                                  (b_pc b) Tables.punctuation_commands
     cons_ok b                    the characters left carry consecutive indices
                                  starting at text.position (always the case
                                  below categorize s)
   Statements only; proofs are in Proofs/GlueGenProofs.v. *)
From Coq Require Import List NArith ZArith Bool.
From TexModel Require Import Base Tables Chars Tokenizer GlueDSL GlueGen.
From TexProofs Require Import TokProofs GlueGenProofs.
Import ListNotations.

(* ---- categorize: every character gets exactly one token, in order, with its
   own index and the category of the first table (dict order) containing it,
   Other when there is none *)
Theorem C19glue_categorize :
  forall s : str, categorize_glue gen_env s = GDone (categorize s).
Proof. exact categorize_glue_ok. Qed.
Print Assumptions C19glue_categorize.

(* ---- next_token.  At the end of the input: None, nothing moves *)
Theorem C19glue_next_token_end :
  forall b prev, b_rest b = [] -> next_token_glue gen_env b prev = GDone (None, b).
Proof. exact next_token_glue_end. Qed.
Print Assumptions C19glue_next_token_end.

(* otherwise the loop over `tokenizers` is Tokenizer.run_rules: the first rule
   in registration order that returns a token decides; when a rule consumed
   ignored characters instead, the round is started again at the new position
   with the same prev; a round always does one or the other *)
Theorem C19glue_next_token_step :
  forall b prev, cons_ok b -> b_rest b <> [] ->
    match run_rules Tables.rule_order (cx_of b prev) (b_rest b) with
    | RTok t rest' => next_token_glue gen_env b prev = GDone (Some t, advance b rest')
    | RSkip rest' => next_token_glue gen_env b prev = next_token_glue gen_env (advance b rest') prev
    | RNone | RErr => False
    end.
Proof. exact next_token_glue_step. Qed.
Print Assumptions C19glue_next_token_step.

(* ---- tokenize: the translated driver over the translated rules is the
   hand-written tokenizer, on every buffer with consecutive indices ... *)
Theorem C19glue_tokenize_consecutive :
  forall cs, consecutive 0 cs -> tokenize_glue gen_env cs = tok_result (tokenize cs).
Proof. exact tokenize_glue_cons. Qed.
Print Assumptions C19glue_tokenize_consecutive.

(* ... hence on every input string ... *)
Theorem C19glue_tokenize :
  forall s : str, tokenize_glue gen_env (categorize s) = tok_result (tokenize (categorize s)).
Proof. exact tokenize_glue_ok. Qed.
Print Assumptions C19glue_tokenize.

(* ... where it always ends normally *)
Theorem C19glue_tokenize_done :
  forall s : str,
    tokenize_glue gen_env (categorize s) = GDone (fst (tokens_of_string s))
    /\ snd (tokens_of_string s) = TEnd.
Proof. exact tokenize_glue_done. Qed.
Print Assumptions C19glue_tokenize_done.

(* ... and not on arbitrary buffers: the source (and so the translated code)
   records text.position, the hand-written rules the index the first character
   carries (replayed on the implementation: the translated code is right) *)
Theorem C19glue_tokenize_unconditional_refuted :
  exists cs, tokenize_glue gen_env cs <> tok_result (tokenize cs).
Proof. exact tokenize_glue_unconditional_refuted. Qed.
Print Assumptions C19glue_tokenize_unconditional_refuted.

(* non-vacuity: NUL a -- the ignore rule skips, the round restarts, the string
   rule answers; "\x00a \left( $$%c" DEL gives six tokens; four categories *)
Example C19glue_example_next_token :
  let b := fresh_text (categorize [0; 97]%N) in
  cons_ok b /\ b_rest b <> [] /\
  run_rules Tables.rule_order (cx_of b None) (b_rest b) = RSkip [mkc 97 1 CLetter] /\
  next_token_glue gen_env b None
  = GDone (Some (mkt [97%N] 1 TText), mkb [] 2 (Some (mkc 97 1 CLetter)) (Some (mkc 97 1 CLetter))).
Proof. exact next_token_glue_example. Qed.

Example C19glue_example_tokenize :
  tokenize_glue gen_env (categorize [0; 97; 32; 92; 108; 101; 102; 116; 40; 32; 36; 36; 37; 99; 127]%N)
  = GDone [mkt [97; 32]%N 1 TText; mkt [92]%N 3 TEscape;
           mkt [108; 101; 102; 116; 40]%N 4 TPunctuationCommandName; mkt [32]%N 9 TMergedSpacer;
           mkt [36; 36]%N 10 TDisplayMathSwitch; mkt [37; 99; 127]%N 12 TComment].
Proof. exact tokenize_glue_example. Qed.

Example C19glue_example_categorize :
  categorize_glue gen_env [92; 97; 0; 8364]%N
  = GDone [mkc 92 0 CEscape; mkc 97 1 CLetter; mkc 0 2 CIgnored; mkc 8364 3 COther].
Proof. exact categorize_glue_example. Qed.

Example C19glue_example_consecutive : consecutive 0 (categorize [92; 97]%N).
Proof. vm_compute. auto. Qed.
