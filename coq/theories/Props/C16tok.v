(* C16tok  TOKINV: the tokenizer's inverse on well-shaped token sequences
   (DESIGN.md section 5), the tokenizer half of C02 / C16.
   Statements only; proofs and the definitions of
     shape, followc, pre_tok, follow, follows_ok, start_quirk, first_ok,
     repos, texts, clean, offsets_ok, last_ok, open_tok, DropSp
   are in Proofs/TokInverse.v.

   shape t        the text of t has the lexical form of its category and
                  contains no NUL/DEL (Tables.ignore_cats) character
   follow t nxt   maximal munch: what may come after t (followc, on the whole
                  remaining text) and how the next token must be classified
                  given whether t ends with an escape (pre_tok)
   first_ok toks  the first token is not a (Punctuation)CommandName and the
                  text does not trigger the index-0 quirk of peek(-1)      *)
From Coq Require Import List NArith ZArith Bool.
From TexModel Require Import Base Tables Chars Tokenizer.
From TexProofs Require Import TokProofs TokFacts TokInverse.
Import ListNotations.

(* one round: on the text of t followed by `rest`, the rules emit exactly t *)
Theorem C16tok_round :
  forall esc t rest p prev pp pc,
    shape t = true -> followc t rest = true -> pre_tok esc t = true ->
    ctx_ok esc pp pc (ttext t ++ rest) ->
    run_rules Tables.rule_order (mkctx p prev pp pc Tables.punctuation_commands)
              (categorize_from p (ttext t ++ rest)) =
    RTok (mkt (ttext t) p (tcat t))
         (categorize_from (p + Z.of_nat (length (ttext t)))%Z rest).
Proof. exact round_emit. Qed.
Print Assumptions C16tok_round.

(* TOKINV *)
Theorem C16tok_tokinv :
  forall toks,
    Forall (fun t => shape t = true) toks -> follows_ok toks = true -> first_ok toks = true ->
    tokens_of_string (texts toks) = (repos 0 toks, TEnd).
Proof. exact tokinv. Qed.
Print Assumptions C16tok_tokinv.

Theorem C16tok_tokinv_exact :
  forall toks,
    Forall (fun t => shape t = true) toks -> follows_ok toks = true -> first_ok toks = true ->
    offsets_ok 0 toks ->
    tokens_of_string (texts toks) = (toks, TEnd).
Proof. exact tokinv_exact. Qed.
Print Assumptions C16tok_tokinv_exact.

(* the index-0 quirk is real: when start_quirk holds, the first token is a
   CommandName ("a\" -> CommandName "a"), which first_ok excludes *)
Theorem C16tok_start_quirk_first_token :
  forall s, start_quirk s = true ->
    exists c0 r e, hd_error s = Some c0 /\
      tokens_of_string s = (mkt [c0] 0%Z TCommandName :: r, e).
Proof. exact start_quirk_first_token. Qed.
Print Assumptions C16tok_start_quirk_first_token.

(* every clean string has a next token that is shaped and satisfies followc *)
Theorem C16tok_next_token_exists :
  forall esc s, s <> [] -> clean s = true ->
    exists x k rest, s = x ++ rest /\ shape (mkt x 0%Z k) = true /\
      followc (mkt x 0%Z k) rest = true /\ pre_tok esc (mkt x 0%Z k) = true.
Proof. exact next_token_exists. Qed.
Print Assumptions C16tok_next_token_exists.

(* the converse: what the tokenizer produces is shaped *)
Theorem C16tok_tokens_shaped :
  forall s, clean s = true -> start_quirk s = false ->
    exists toks, tokens_of_string s = (toks, TEnd) /\ texts toks = s /\
      shaped toks /\ follows_ok toks = true /\ first_ok toks = true /\ offsets_ok 0 toks.
Proof. exact tokens_shaped. Qed.
Print Assumptions C16tok_tokens_shaped.

Theorem C16tok_tokens_shaped_refuted :
  exists s, clean s = true /\ forallb shape (fst (tokens_of_string s)) = true /\
            first_ok (fst (tokens_of_string s)) = false.
Proof. exact tokens_shaped_refuted. Qed.
Print Assumptions C16tok_tokens_shaped_refuted.

Theorem C16tok_retokenize_id :
  forall s, clean s = true ->
    tokens_of_string (texts (fst (tokens_of_string s))) = tokens_of_string s.
Proof. exact retokenize_id. Qed.
Print Assumptions C16tok_retokenize_id.

(* deleting an argument spacer from the text deletes exactly that token *)
Theorem C16tok_drop_spacer_retokenize :
  forall a sp o b,
    shaped (a ++ sp :: o :: b) -> follows_ok (a ++ sp :: o :: b) = true ->
    first_ok (a ++ sp :: o :: b) = true ->
    tcat sp = TMergedSpacer -> open_tok o -> last_ok a (texts (o :: b)) = true ->
    start_quirk (texts (a ++ o :: b)) = false ->
    shaped (a ++ o :: b) /\ follows_ok (a ++ o :: b) = true /\ first_ok (a ++ o :: b) = true /\
    tokens_of_string (texts (a ++ o :: b)) = (repos 0 (a ++ o :: b), TEnd).
Proof. exact drop_spacer_retokenize. Qed.
Print Assumptions C16tok_drop_spacer_retokenize.

Theorem C16tok_drop_spacer_retokenize_output :
  forall s e a sp o b,
    clean s = true -> start_quirk s = false ->
    tokens_of_string s = (a ++ sp :: o :: b, e) ->
    tcat sp = TMergedSpacer -> open_tok o -> last_ok a (texts (o :: b)) = true ->
    start_quirk (texts (a ++ o :: b)) = false ->
    tokens_of_string (texts (a ++ o :: b)) = (repos 0 (a ++ o :: b), TEnd).
Proof. exact drop_spacer_retokenize_output. Qed.
Print Assumptions C16tok_drop_spacer_retokenize_output.

Theorem C16tok_drop_spacers_retokenize :
  forall l l',
    DropSp l l' -> shaped l -> follows_ok l = true -> first_ok l = true ->
    start_quirk (texts l') = false ->
    shaped l' /\ follows_ok l' = true /\ first_ok l' = true /\
    tokens_of_string (texts l') = (repos 0 l', TEnd).
Proof. exact drop_spacers_retokenize. Qed.
Print Assumptions C16tok_drop_spacers_retokenize.

(* a command that is not the letter part of a sizing command satisfies last_ok *)
Theorem C16tok_cmd_not_sizing_ok :
  forall l rest,
    shape l = true -> tcat l = TCommandName -> nc_not ls_c (hd_error rest) = true ->
    mem_str (ttext l) sizing_prefixes = false ->
    last_tok_ok l rest = true.
Proof. exact cmd_not_sizing_ok. Qed.
Print Assumptions C16tok_cmd_not_sizing_ok.

(* the three side conditions of drop_spacer_retokenize are needed *)
Theorem C16tok_drop_spacer_sizing_refuted :
  exists s a sp o b,
    clean s = true /\ start_quirk s = false /\
    tokens_of_string s = (a ++ sp :: o :: b, TEnd) /\
    tcat sp = TMergedSpacer /\ tcat o = TGroupBegin /\
    start_quirk (texts (a ++ o :: b)) = false /\
    map ttext (fst (tokens_of_string (texts (a ++ o :: b)))) <> map ttext (a ++ o :: b).
Proof. exact drop_spacer_sizing_refuted. Qed.
Print Assumptions C16tok_drop_spacer_sizing_refuted.

Theorem C16tok_drop_spacer_comment_refuted :
  exists s a sp o b,
    clean s = true /\ start_quirk s = false /\
    tokens_of_string s = (a ++ sp :: o :: b, TEnd) /\
    tcat sp = TMergedSpacer /\ tcat o = TGroupBegin /\
    start_quirk (texts (a ++ o :: b)) = false /\
    map ttext (fst (tokens_of_string (texts (a ++ o :: b)))) <> map ttext (a ++ o :: b).
Proof. exact drop_spacer_comment_refuted. Qed.
Print Assumptions C16tok_drop_spacer_comment_refuted.

Theorem C16tok_drop_spacer_quirk_refuted :
  exists s a sp o b,
    clean s = true /\ start_quirk s = false /\
    tokens_of_string s = (a ++ sp :: o :: b, TEnd) /\
    tcat sp = TMergedSpacer /\ tcat o = TGroupBegin /\
    last_ok a (texts (o :: b)) = true /\
    map tcat (fst (tokens_of_string (texts (a ++ o :: b)))) <> map tcat (a ++ o :: b).
Proof. exact drop_spacer_quirk_refuted. Qed.
Print Assumptions C16tok_drop_spacer_quirk_refuted.

(* rule 5 is shadowed by rule 1: no LineBreak token, on any input *)
Theorem C16tok_no_linebreak_token :
  forall s, Forall (fun t => tcat t <> TLineBreak) (fst (tokens_of_string s)).
Proof. exact no_linebreak_token. Qed.
Print Assumptions C16tok_no_linebreak_token.

(* after a lone Escape token only a letter can come (NUL/DEL-free input), and
   the next token is then a command name *)
Theorem C16tok_escape_follow_is_letter :
  forall c, clean_c c = true ->
    nc_not esc2_c (Some c) && nc_not asym_c (Some c) = is_c CLetter c.
Proof. exact escape_follow_is_letter. Qed.
Print Assumptions C16tok_escape_follow_is_letter.

Theorem C16tok_escape_followed_by_command :
  forall t n r,
    shape t = true -> shape n = true -> tcat t = TEscape -> follow t (n :: r) = true ->
    tcat n = TCommandName \/ tcat n = TPunctuationCommandName.
Proof. exact escape_followed_by_command. Qed.
Print Assumptions C16tok_escape_followed_by_command.

(* Stage 4: inserted closers (tolerant mode): inserting a shaped sequence that
   starts with "}", "]" or an escape ("\end{name}") between two tokens or at
   the end inserts exactly these tokens *)
Theorem C16tok_insert_retokenize :
  forall a ins b d x0,
    shaped (a ++ b) -> follows_ok (a ++ b) = true -> first_ok (a ++ b) = true ->
    shaped ins -> follows_ok (ins ++ b) = true ->
    texts ins = d :: x0 -> ins_c d = true -> (forall e, pre_ok e ins = true) ->
    ins_last_ok a (texts (ins ++ b)) = true ->
    start_quirk (texts (a ++ ins ++ b)) = false ->
    shaped (a ++ ins ++ b) /\ follows_ok (a ++ ins ++ b) = true /\
    first_ok (a ++ ins ++ b) = true /\
    tokens_of_string (texts (a ++ ins ++ b)) = (repos 0 (a ++ ins ++ b), TEnd).
Proof. exact insert_retokenize. Qed.
Print Assumptions C16tok_insert_retokenize.

Theorem C16tok_insert_closer_retokenize :
  forall a c b,
    shaped (a ++ b) -> follows_ok (a ++ b) = true -> first_ok (a ++ b) = true ->
    shape c = true -> tcat c = TGroupEnd \/ tcat c = TBracketEnd ->
    pre_ok false b = true ->
    ins_last_ok a (texts (c :: b)) = true ->
    start_quirk (texts (a ++ c :: b)) = false ->
    tokens_of_string (texts (a ++ c :: b)) = (repos 0 (a ++ c :: b), TEnd).
Proof. exact insert_closer_retokenize. Qed.
Print Assumptions C16tok_insert_closer_retokenize.

(* "{\left" + "}": without ins_last_ok the closer fuses into "left}" *)
Theorem C16tok_insert_closer_refuted :
  exists a c,
    shaped a /\ follows_ok a = true /\ first_ok a = true /\ shape c = true /\
    tcat c = TGroupEnd /\ start_quirk (texts (a ++ [c])) = false /\
    map ttext (fst (tokens_of_string (texts (a ++ [c])))) <> map ttext (a ++ [c]).
Proof. exact insert_closer_refuted. Qed.
Print Assumptions C16tok_insert_closer_refuted.

(* non-vacuity: the 150-character document of Proofs/TokInverse.v *)
Example C16tok_example_doc :
  let toks := fst (tokens_of_string example_doc) in
  length example_doc = 150 /\ length toks = 65 /\
  forallb shape toks = true /\ follows_ok toks = true /\ first_ok toks = true /\
  texts toks = example_doc /\
  tokens_of_string (texts toks) = (repos 0 toks, TEnd).
Proof.
  cbv zeta. split; [reflexivity|]. split; [vm_compute; reflexivity|].
  destruct example_doc_shaped as (A & B & C & D).
  split; [exact A|]. split; [exact B|]. split; [exact C|]. split; [exact D|].
  exact example_doc_tokinv.
Qed.
