(* C16  Serialised output is a fixed point of the parser - the general case
   (argument spacers dropped, so output <> input).  Statements only; proofs in
   Proofs/FixedPoint.v.  The special case "nothing dropped" is Props/C16.v.

   Vocabulary
     Kept toks kept     (ConsBridge.v) kept = toks minus MergedSpacer tokens each
                        standing directly before a `{` / `[` token.
     expr_pos_sim t t'  the same tree up to every recorded position: same
                        constructors, names, group/math kinds, argument and
                        content lists; text leaves agree on text and category;
                        raw bodies and plain strings are equal.
     TokInverse.repos   the same tokens with consecutive offsets.
     KeptJ p2 p1 toks kept   Kept, where moreover every dropped spacer stands in
                        ARGUMENT POSITION: the token before it closes a group, or
                        the token before that is an Escape (p2 p1 = the two tokens
                        before toks).  So no spacer after a Comment is ever dropped
                        and no side condition about comments is needed.
     sizing_ok toks     the property's own side condition: no CommandName token
                        that is the letter part of a sizing command (\left \right
                        \big ...) is followed by a MergedSpacer and `{` / `[`.
     TokInverse.clean   no NUL/DEL;  TokInverse.start_quirk: the index-0 quirk of
                        the tokenizer (input "a\..." with an escape at index 14).
     hypb, nobare       as in C08 (clean names, simple \begin/\end name groups,
                        five-token \end of verbatim environments; no bare-token
                        mandatory argument).

     frag toks          the look-ahead peeks of read_item / read_env (a whole
                        command is parsed ahead and discarded) are shallow:
                        every \item is followed by no group, or by one simple
                        label `[` Text `]` which is followed by no group; every
                        \end is followed by no group, or by one simple name group
                        `{` Text `}` which is followed by no group (an optional
                        spacer allowed in each place).

   What is proved
     C16_fixed_point     for documents in `frag`: re-parsing the serialised text
                         SUCCEEDS, yields the same tree up to positions, and
                         serialises to the identical text.
     C16_reparse_outcome for all documents: re-parsing yields the same tree up
                         to positions and the identical text, OR raises EOFError /
                         TypeError / AssertionError.
   What is not proved: that outside `frag` the second parse cannot raise.  The
   second run provably follows the first one branch by branch (C16_drop_run: any
   successful run on the kept tokens returns the same value); the only points
   where it could fail are deep look-ahead peeks (`\item[\a{b}]`, `\end{x}{...}`),
   which in the second run range over tokens whose spacers were dropped by a
   different run. *)
From Coq Require Import List NArith ZArith Bool.
From TexModel Require Import Base Tables Chars Tokenizer Tree Reader.
From TexProofs Require Import ReaderLen ReaderCons ConsBridge FixedPoint.
From TexProofs Require TokInverse.
Import ListNotations.

(* Stage 1 (token level).  The kept tokens serialise to the output, and every
   successful parse of the kept tokens returns the identical tree *)
Theorem C16_drop_run :
  forall (toks : list token) (user : list str) (t : expr),
    Hyp (all_skip user) toks -> parse_tokens toks true user = Ok t -> nobare t = true ->
    exists kept, Kept toks kept /\ KeptJ None None toks kept /\ estr t = texts kept /\
      (forall t', parse_tokens kept true user = Ok t' -> t' = t) /\
      (frag toks = true -> parse_tokens kept true user = Ok t).
Proof. exact parse_tokens_drop_run. Qed.
Print Assumptions C16_drop_run.

(* Stage 2.  The reader never looks at positions: token lists that agree on
   text and category parse to trees that agree up to positions, or fail alike *)
Theorem C16_position_insensitive :
  forall (l1 l2 : list token) (strict : bool) (user : list str),
    Forall2 tok_pos_sim l1 l2 ->
    match parse_tokens l1 strict user, parse_tokens l2 strict user with
    | Ok t1, Ok t2 => expr_pos_sim t1 t2
    | Err e1, Err e2 => e1 = e2
    | _, _ => False
    end.
Proof. exact parse_tokens_pos_sim. Qed.
Print Assumptions C16_position_insensitive.

Theorem C16_sim_same_text : forall e1 e2, expr_pos_sim e1 e2 -> estr e1 = estr e2.
Proof. exact expr_pos_sim_estr. Qed.
Print Assumptions C16_sim_same_text.

Theorem C16_repos_sim : forall toks p, Forall2 tok_pos_sim (TokInverse.repos p toks) toks.
Proof. exact repos_pos_sim. Qed.
Print Assumptions C16_repos_sim.

(* Stage 3.  The tokens of the output are exactly the kept tokens *)
Theorem C16_retokenize :
  forall (s : str) (user : list str) (t : expr),
    parse s true user = Ok t ->
    TokInverse.clean s = true -> TokInverse.start_quirk s = false ->
    TokInverse.start_quirk (estr t) = false ->
    hypb (all_skip user) (fst (tokens_of_string s)) = true -> nobare t = true ->
    sizing_ok (fst (tokens_of_string s)) = true ->
    exists kept, Kept (fst (tokens_of_string s)) kept /\ estr t = texts kept /\
      tokens_of_string (estr t) = (TokInverse.repos 0 kept, TEnd) /\
      (forall t', parse_tokens kept true user = Ok t' -> t' = t) /\
      (frag (fst (tokens_of_string s)) = true -> parse_tokens kept true user = Ok t).
Proof. exact FixedPoint.C16_retokenize. Qed.
Print Assumptions C16_retokenize.

(* C16 in full on the fragment with shallow peeks *)
Theorem C16_fixed_point :
  forall (s : str) (user : list str) (t : expr),
    parse s true user = Ok t ->
    TokInverse.clean s = true -> TokInverse.start_quirk s = false ->
    TokInverse.start_quirk (estr t) = false ->
    hypb (all_skip user) (fst (tokens_of_string s)) = true -> nobare t = true ->
    sizing_ok (fst (tokens_of_string s)) = true ->
    frag (fst (tokens_of_string s)) = true ->
    exists t', parse (estr t) true user = Ok t' /\ expr_pos_sim t t' /\ estr t' = estr t.
Proof. exact FixedPoint.C16_fixed_point. Qed.
Print Assumptions C16_fixed_point.

(* the general fixed-point statement, up to the success of the second parse *)
Theorem C16_reparse_outcome :
  forall (s : str) (user : list str) (t : expr),
    parse s true user = Ok t ->
    TokInverse.clean s = true -> TokInverse.start_quirk s = false ->
    TokInverse.start_quirk (estr t) = false ->
    hypb (all_skip user) (fst (tokens_of_string s)) = true -> nobare t = true ->
    sizing_ok (fst (tokens_of_string s)) = true ->
    match parse (estr t) true user with
    | Ok t' => expr_pos_sim t t' /\ estr t' = estr t
    | Err e => e = EOFError \/ e = TypeError \/ e = AssertionError
    end.
Proof. exact FixedPoint.C16_reparse_outcome. Qed.
Print Assumptions C16_reparse_outcome.

Theorem C16_fixed_point_partial :
  forall (s : str) (user : list str) (t t' : expr),
    parse s true user = Ok t ->
    TokInverse.clean s = true -> TokInverse.start_quirk s = false ->
    TokInverse.start_quirk (estr t) = false ->
    hypb (all_skip user) (fst (tokens_of_string s)) = true -> nobare t = true ->
    sizing_ok (fst (tokens_of_string s)) = true ->
    parse (estr t) true user = Ok t' ->
    expr_pos_sim t t' /\ estr t' = estr t.
Proof. exact FixedPoint.C16_fixed_point_partial. Qed.
Print Assumptions C16_fixed_point_partial.

(* non-vacuity: a 200-character document with nine argument spacers (two of
   them line breaks), an itemize and a center environment, inline and display
   math, a comment; every hypothesis computed, conclusion by the theorem *)
Theorem C16_example_200 :
  length exB = 200%nat /\ length (estr treeB) = 191%nat /\
  parse exB true [] = Ok treeB /\ parse (estr treeB) true [] = Ok treeB' /\
  expr_pos_sim treeB treeB' /\ estr treeB' = estr treeB.
Proof.
  split; [apply exB_size|]. split; [apply exB_size|]. split; [exact exB_parses|].
  split; [exact exB_reparses | exact exB_fixed_point].
Qed.
Print Assumptions C16_example_200.

(* non-vacuity of C16_fixed_point: a 248-character document with nested
   itemize / enumerate, ten argument spacers, math, a comment; the success of
   the second parse is CONCLUDED, not computed.  (FixedPoint.exB_fixed_point_full:
   the same for a 200-character document with an `\item[b]`; exE: a group on
   the line after a comment.) *)
Theorem C16_example_items :
  length exD = 248%nat /\ length (estr treeD) = 238%nat /\ parse exD true [] = Ok treeD /\
  frag (fst (tokens_of_string exD)) = true /\
  exists t', parse (estr treeD) true [] = Ok t' /\ expr_pos_sim treeD t' /\ estr t' = estr treeD.
Proof.
  split; [apply exD_size|]. split; [apply exD_size|]. split; [exact exD_parses|].
  split; [exact exD_frag | exact exD_fixed_point].
Qed.
Print Assumptions C16_example_items.

(* the side conditions are needed (witnesses replayed on the real code):
   '\left {x}' -> '\left{x}' parses to a command named 'left{' *)
Theorem C16_sizing_needed :
  exists s t t',
    parse s true [] = Ok t /\ TokInverse.clean s = true /\ TokInverse.start_quirk s = false /\
    TokInverse.start_quirk (estr t) = false /\
    hypb (all_skip []) (fst (tokens_of_string s)) = true /\ nobare t = true /\
    sizing_ok (fst (tokens_of_string s)) = false /\
    parse (estr t) true [] = Ok t' /\ ~ expr_pos_sim t t' /\ estr t' = estr t.
Proof. exact FixedPoint.C16_sizing_needed. Qed.
Print Assumptions C16_sizing_needed.

(* 'a\b {ccccccccc}\x': the output triggers the tokenizer's index-0 quirk *)
Theorem C16_quirk_needed :
  exists s t t',
    parse s true [] = Ok t /\ TokInverse.clean s = true /\ TokInverse.start_quirk s = false /\
    TokInverse.start_quirk (estr t) = true /\
    hypb (all_skip []) (fst (tokens_of_string s)) = true /\ nobare t = true /\
    sizing_ok (fst (tokens_of_string s)) = true /\
    parse (estr t) true [] = Ok t' /\ ~ expr_pos_sim t t' /\ estr t' = estr t.
Proof. exact FixedPoint.C16_quirk_needed. Qed.
Print Assumptions C16_quirk_needed.
