(* The methods of class TexArgs generated from the Python source
   (Model/ArgGen.v, written by harness/gen_args.py on every run) denote the
   hand-written operations of Model/Args.v.

   TexGroup.parse is translated too (gen_parse_ok: it is Args.parse_group), and
   __coerce calls that translated classmethod.
   For each translated method M, ALL states st = (list, self.all) -- no
   invariant is needed -- and all arguments:
       call (S^k n) gen_a_cls M args st = done (hand_M st args)
   i.e. the interpreter of ArgDSL.v, run on the translated body, finishes
   inside the modelled fragment within the call depth (ODone) with the result
   AND the new state of the hand-written operation.  `run_*` restate this for
   run_meth (call depth 8); gen_contains_ok: the translated __contains__ returns
   Args.m_contains; gen_str_ok: the translated __str__ returns Args.m_str (both
   leave the state unchanged); gen_step_ok for every operation of Args.m_step
   except membership, gen_step_all_ok for every operation; gen_session_ok /
   gen_session_all_ok for TexArgs(init) followed by ANY sequence of operations;
   gen_session_refines(_all) transfers C18_refines_args.  __repr__ is not translated.

   The proofs compute with the generated terms, so a change of a method body
   that changes the generated term makes the lemma named after the method
   fail. *)
From Coq Require Import List ZArith Bool Lia Arith.
From TexModel Require Import Args ArgDSL ArgGen.
From TexProofs Require Import ArgsProofs.
Import ListNotations.
Local Open Scope Z_scope.

Local Arguments call : simpl never.
Local Arguments Z.add : simpl never.
Local Arguments Z.sub : simpl never.
Local Arguments Z.max : simpl never.
Local Arguments Z.min : simpl never.
Local Arguments Z.of_nat : simpl never.
Local Arguments Z.to_nat : simpl never.
Local Arguments Z.ltb : simpl never.
Local Arguments Z.leb : simpl never.
Local Arguments Z.eqb : simpl never.
Local Arguments py_insert {A} i x l : simpl never.
Local Arguments py_remove {A} p l : simpl never.
Local Arguments py_index {A} p l : simpl never.
Local Arguments py_pop {A} i l : simpl never.
Local Arguments py_getitem {A} i l : simpl never.
Local Arguments py_slice {A} lo hi l : simpl never.
Local Arguments parse_group : simpl never.
Local Arguments is_space : simpl never.
Local Arguments item_eqb : simpl never.
Local Arguments zlen {A} l : simpl never.

Definition done (r : state * out) : outcome := ODone (fst r) (of_out (snd r)).

Lemma call_S n c m vs d :
  call (S n) c m vs d =
  match bind_params (m_params (c m)) vs with
  | Some en => finish (exec_block (call n c) (m_body (c m)) en d)
  | None => OUnsup
  end.
Proof. reflexivity. Qed.

Ltac ev :=
  cbn [blk exec_block exec_stmt eval eval_args args_of lookup nth_error lift_v of_outcome of_out
       finish fst snd bind_params option_map m_params m_body set_var int2 bound_of item_of
       value_of_item value_of_arg list_op negb
       gen_a_cls gen_a_init gen_a_coerce gen_a_append gen_a_extend gen_a_insert gen_a_remove
       gen_a_pop gen_a_reverse gen_a_clear gen_a_getitem gen_a_parse gen_a_contains gen_a_str].

Ltac enter := rewrite call_S; ev.

(* ------------------------------------------------------------ TexGroup.parse *)

Definition parse_rv (s : pstr) : rv :=
  match parse_group s with
  | Some g => RVal (VGroup g)
  | None => RExc TypeError
  end.

Lemma zlen_single (x : Z) : zlen [x] = 1.
Proof. reflexivity. Qed.

Lemma gen_parse_ok n st s :
  call (S n) gen_a_cls M_parse [VStr s] st = ODone st (parse_rv s).
Proof.
  enter. cbn [map for_loop]. ev. unfold parse_rv, parse_group, parse_kind.
  rewrite ?zlen_single. cbn [Z.opp].
  destruct (starts_with s [open_of true]); [destruct (ends_with s [close_of true])|];
    cbn [andb]; ev; try reflexivity;
    (rewrite ?zlen_single; cbn [Z.opp];
     destruct (starts_with s [open_of false]); [destruct (ends_with s [close_of false])|];
     cbn [andb]; ev; reflexivity).
Qed.

(* ----------------------------------------------------- __coerce, __getitem__ *)

Definition coerce_rv (a : arg) : rv :=
  match coerce a with
  | Some it => RVal (value_of_item it)
  | None => RExc TypeError
  end.

Lemma gen_coerce_ok n st a :
  call (S (S n)) gen_a_cls M_coerce [value_of_arg a] st = ODone st (coerce_rv a).
Proof.
  enter. unfold coerce_rv, coerce. destruct a as [g|s]; ev; [reflexivity|].
  destruct (is_space s); ev; [reflexivity|].
  rewrite gen_parse_ok. unfold parse_rv.
  destruct (parse_group s) as [g|]; reflexivity.
Qed.

Lemma gen_getitem_int_ok n st i :
  call (S n) gen_a_cls M_getitem [VInt i] st
  = done (m_step st (OpGet i)).
Proof.
  enter. destruct st as [lst all]. ev. cbn [m_step fst]. unfold done.
  destruct (py_getitem i lst) as [g|]; reflexivity.
Qed.

(* ------------------------------------------------------------------ insert *)

Lemma gen_insert_ok n st i a :
  call (S (S (S n))) gen_a_cls M_insert [VInt i; value_of_arg a] st = done (m_insert st i a).
Proof.
  enter. rewrite gen_coerce_ok. unfold coerce_rv, m_insert.
  destruct (coerce a) as [it|]; [|reflexivity].
  destruct st as [lst all]. ev.
  set (i' := if i <? 0 then Z.max 0 (zlen lst + i) else Z.min i (zlen lst)).
  assert (Hi : (if i <? 0 then EV (VInt (Z.max 0 (zlen lst + i))) (lst, all)
                else EV (VInt (Z.min i (zlen lst))) (lst, all)) = EV (VInt i') (lst, all))
    by (unfold i'; destruct (i <? 0); reflexivity).
  rewrite Hi. clear Hi. ev.
  assert (Hshadow : forall lst1,
    finish (exec_block (call (S (S n)) gen_a_cls)
      (BCons (SIf (ECmp CLe (ELen ESelf) (EInt 1))
                (BCons (SExpr (ELop RAll LAppend (ACons (EVar 1) ANil))) BNil)
                (BCons (SIf (ECmp CEq (EVar 0) (EInt 0))
                   (BCons (SExpr (ELop RAll LInsert (ACons (EInt 0) (ACons (EVar 1) ANil)))) BNil)
                   (BCons (SAssign 2 (ECallMeth M_getitem (ACons (ESub (EVar 0) (EInt 1)) ANil)))
                      (BCons (SAssign 3 (ELop RAll LIndex (ACons (EVar 2) ANil)))
                         (BCons (SExpr (ELop RAll LInsert
                                   (ACons (EAdd (EVar 3) (EInt 1)) (ACons (EVar 1) ANil)))) BNil))))
                   BNil)) BNil)
      [Some (VInt i'); Some (value_of_item it)] (lst1, all))
    = done (shadow_insert lst1 all i' it)).
  { intros lst1. ev. unfold shadow_insert.
    destruct (zlen lst1 <=? 1); ev.
    - destruct it; reflexivity.
    - destruct (i' =? 0); ev.
      + destruct it; reflexivity.
      + rewrite gen_getitem_int_ok. cbn [m_step fst].
        destruct (py_getitem (i' - 1) lst1) as [before|]; unfold done at 1; ev; [|reflexivity].
        destruct (py_index (fun x => item_eqb x (IG before)) all) as [j|]; ev; [|reflexivity].
        destruct it; reflexivity. }
  destruct it as [g|s]; ev; apply Hshadow.
Qed.

Lemma m_insert_shape st i a :
  match snd (m_insert st i a) with
  | ONone | ETypeError | EValueError | EIndexError => True
  | _ => False
  end.
Proof.
  unfold m_insert. destruct (coerce a) as [it|]; [|exact I].
  destruct st as [lst all]. cbv zeta. unfold shadow_insert.
  match goal with |- context [if ?c then _ else _] => destruct c end; [exact I|].
  match goal with |- context [if ?c then _ else _] => destruct c end; [exact I|].
  match goal with |- context [py_getitem ?x ?l] => destruct (py_getitem x l) as [before|] end; [|exact I].
  match goal with |- context [py_index ?p ?l] => destruct (py_index p l) end; exact I.
Qed.

Lemma gen_append_ok n st a :
  call (S (S (S (S n)))) gen_a_cls M_append [value_of_arg a] st = done (m_append st a).
Proof.
  enter. rewrite gen_insert_ok. unfold m_append, done.
  pose proof (m_insert_shape st (zlen (fst st)) a) as Hsh.
  destruct (m_insert st (zlen (fst st)) a) as [st1 o]. cbn [snd] in Hsh.
  destruct o; try contradiction; reflexivity.
Qed.

(* ------------------------------------------------------------------ extend *)

Definition ext_body := blk [SExpr (ECallMeth M_append (args_of [EVar 1]))].

Lemma ext_body_step n x a rest st :
  exec_block (call (S (S (S (S n)))) gen_a_cls) ext_body (Some x :: Some (value_of_arg a) :: rest) st
  = match m_append st a with
    | (st1, ONone) => XNormal (Some x :: Some (value_of_arg a) :: rest) st1
    | (st1, o) => match of_out o with RExc e => XExc e st1 | RVal _ => XUnsup end
    end.
Proof.
  unfold ext_body. ev. rewrite gen_append_ok. unfold done, m_append.
  pose proof (m_insert_shape st (zlen (fst st)) a) as Hsh.
  destruct (m_insert st (zlen (fst st)) a) as [st1 o]. cbn [snd] in Hsh.
  destruct o; try contradiction; reflexivity.
Qed.

Lemma extend_loop n x : forall l rest st,
  finish (for_loop (exec_block (call (S (S (S (S n)))) gen_a_cls) ext_body) 1 (map value_of_arg l)
                   (Some x :: rest) st)
  = done (m_extend st l).
Proof.
  induction l as [|a l IH]; intros rest st; [reflexivity|].
  cbn [map for_loop m_extend].
  assert (Hset : exists rest', set_var (Some x :: rest) 1 (value_of_arg a)
                               = Some x :: Some (value_of_arg a) :: rest')
    by (destruct rest as [|r rest]; eexists; reflexivity).
  destruct Hset as [rest' ->]. rewrite ext_body_step.
  pose proof (m_insert_shape st (zlen (fst st)) a) as Hsh. fold (m_append st a) in Hsh.
  destruct (m_append st a) as [st1 o]. cbn [snd] in Hsh.
  destruct o; try contradiction; try reflexivity. apply IH.
Qed.

Lemma gen_extend_ok n st l :
  call (S (S (S (S (S n))))) gen_a_cls M_extend [VArgs l] st = done (m_extend st l).
Proof.
  rewrite call_S.
  change (finish (match for_loop (exec_block (call (S (S (S (S n)))) gen_a_cls) ext_body) 1
                                 (map value_of_arg l) [Some (VArgs l)] st with
                  | XNormal en' d' => XNormal en' d'
                  | x => x
                  end) = done (m_extend st l)).
  rewrite <- (extend_loop n (VArgs l) l [] st).
  destruct (for_loop (exec_block (call (S (S (S (S n)))) gen_a_cls) ext_body) 1 (map value_of_arg l)
                     [Some (VArgs l)] st);
    reflexivity.
Qed.

(* --------------------------------------------------------------- __init__ *)

Lemma m_extend_shape : forall l st,
  match snd (m_extend st l) with
  | ONone | ETypeError | EValueError | EIndexError => True
  | _ => False
  end.
Proof.
  induction l as [|a l IH]; intros st; [exact I|].
  cbn [m_extend]. pose proof (m_insert_shape st (zlen (fst st)) a) as Hsh.
  fold (m_append st a) in Hsh. destruct (m_append st a) as [st1 o]. cbn [snd] in Hsh.
  destruct o; try contradiction; try exact I. apply IH.
Qed.

Lemma gen_init_ok n l :
  call (S (S (S (S (S (S n)))))) gen_a_cls M_init [VArgs l] empty_state = done (m_new l).
Proof.
  enter. unfold m_new, empty_state. ev. rewrite gen_extend_ok. unfold done.
  pose proof (m_extend_shape l ([], [])) as Hsh.
  destruct (m_extend ([], []) l) as [st1 o]. cbn [snd] in Hsh.
  destruct o; try contradiction; reflexivity.
Qed.

Lemma gen_init_default n :
  call (S (S (S (S (S (S n)))))) gen_a_cls M_init [] empty_state = done (m_new []).
Proof. rewrite <- (gen_init_ok n []). reflexivity. Qed.

(* ------------------------------------------- remove, pop, reverse, clear *)

Lemma gen_remove_ok n st a :
  call (S (S (S n))) gen_a_cls M_remove [value_of_arg a] st = done (m_remove st a).
Proof.
  enter. rewrite gen_coerce_ok. unfold coerce_rv, m_remove.
  destruct (coerce a) as [it|]; [|reflexivity].
  destruct st as [lst all]. ev.
  assert (Hit : item_of (value_of_item it) = Some it) by (destruct it; reflexivity).
  rewrite Hit.
  destruct (py_remove (fun x => item_eqb x it) all) as [all1|]; ev; [|reflexivity].
  rewrite Hit.
  destruct (py_remove (fun g => item_eqb (IG g) it) lst) as [lst1|]; reflexivity.
Qed.

Lemma gen_pop_ok n st i :
  call (S n) gen_a_cls M_pop [VInt i] st = done (m_pop st (Some i)).
Proof.
  enter. destruct st as [lst all]. ev. unfold m_pop.
  destruct (py_pop i lst) as [[g lst1]|]; ev; [|reflexivity].
  destruct (py_index (fun x => item_eqb x (IG g)) all) as [j|]; ev; [|reflexivity].
  destruct (py_pop (Z.of_nat j) all) as [[it all1]|]; reflexivity.
Qed.

Lemma gen_pop_default n st :
  call (S n) gen_a_cls M_pop [] st = done (m_pop st None).
Proof.
  transitivity (call (S n) gen_a_cls M_pop [VInt (-1)] st); [reflexivity|].
  rewrite gen_pop_ok. reflexivity.
Qed.

Lemma gen_reverse_ok n st :
  call (S n) gen_a_cls M_reverse [] st = done (m_step st OpReverse).
Proof. destruct st as [lst all]. reflexivity. Qed.

Lemma gen_clear_ok n st :
  call (S n) gen_a_cls M_clear [] st = done (m_step st OpClear).
Proof. destruct st as [lst all]. reflexivity. Qed.

(* ------------------------------------------------------- __getitem__(slice) *)

Lemma gen_getitem_slice_ok n st lo hi :
  call (S (S (S (S (S (S (S n))))))) gen_a_cls M_getitem [VSlice lo hi] st
  = done (m_step st (OpSlice lo hi)).
Proof.
  enter. destruct st as [lst all]. ev. rewrite gen_init_ok. cbn [m_step fst]. unfold done.
  pose proof (m_extend_shape (map AG (py_slice lo hi lst)) empty_state) as Hsh.
  fold (m_new (map AG (py_slice lo hi lst))) in Hsh.
  destruct (m_new (map AG (py_slice lo hi lst))) as [st' o]. cbn [fst snd] in *.
  destruct o; try contradiction; reflexivity.
Qed.

(* ------------------------------------------------- __contains__, __str__ *)

Lemma map_opt_map {A B C} (f : B -> option C) (g : A -> B) (h : A -> C) :
  (forall a, f (g a) = Some (h a)) -> forall l, map_opt f (map g l) = Some (map h l).
Proof.
  intros H. induction l as [|a l IH]; [reflexivity|].
  cbn [map map_opt]. rewrite H, IH. reflexivity.
Qed.

Lemma existsb_id_map {A} (f : A -> bool) l : existsb (fun b => b) (map f l) = existsb f l.
Proof. induction l as [|a l IH]; [reflexivity|]. cbn [map existsb]. rewrite IH. reflexivity. Qed.

Lemma join_with_nil : forall l a, fold_left (fun acc s => acc ++ s) l a = a ++ join_with [] l.
Proof.
  induction l as [|p t IH]; intros a; [cbn; rewrite app_nil_r; reflexivity|].
  cbn [fold_left]. rewrite IH. destruct t as [|q t'].
  - cbn. rewrite app_nil_r. reflexivity.
  - cbn [join_with app]. rewrite app_assoc. reflexivity.
Qed.

Lemma gen_contains_ok n st a :
  call (S n) gen_a_cls M_contains [value_of_arg a] st = ODone st (RVal (VBool (m_contains st a))).
Proof.
  enter. destruct st as [lst all]. destruct a as [g|s]; ev.
  - reflexivity.
  - cbn [comp_elems fst].
    (* `item == arg.string` or `arg.string == item`: the equality is symmetric *)
    rewrite (map_opt_map _ VGroup (fun g => VBool (pstr_eqb s (snd g))))
      by (intros g; first [reflexivity
                          | cbn [peval lookup nth_error item_of]; unfold item_eqb; cbn [render_item];
                            rewrite pstr_eqb_sym; reflexivity]).
    cbn [option_map]. ev.
    rewrite (map_opt_map bool_of _ (fun g : group => pstr_eqb s (snd g))) by (intros g; reflexivity).
    cbn [option_map]. ev. rewrite existsb_id_map. reflexivity.
Qed.

Lemma gen_str_ok n st :
  call (S n) gen_a_cls M_str [] st = ODone st (RVal (VStr (m_str st))).
Proof.
  enter. destruct st as [lst all]. cbn [comp_elems fst].
  rewrite (map_opt_map _ VGroup (fun g => VStr (render g))) by (intros g; reflexivity).
  cbn [option_map]. ev.
  rewrite (map_opt_map str_of _ render) by (intros g; reflexivity).
  cbn [option_map]. ev. unfold m_str, py_join. cbn [fst].
  rewrite join_with_nil. reflexivity.
Qed.

(* ====================================================================== *)
(* run_meth, all operations, sequences                                     *)
(* ====================================================================== *)

Lemma run_parse st s : run_meth gen_a_cls M_parse [VStr s] st = ODone st (parse_rv s).
Proof. apply (gen_parse_ok 7). Qed.
Lemma run_coerce st a : run_meth gen_a_cls M_coerce [value_of_arg a] st = ODone st (coerce_rv a).
Proof. apply (gen_coerce_ok 6). Qed.
Lemma run_insert st i a :
  run_meth gen_a_cls M_insert [VInt i; value_of_arg a] st = done (m_insert st i a).
Proof. apply (gen_insert_ok 5). Qed.
Lemma run_append st a : run_meth gen_a_cls M_append [value_of_arg a] st = done (m_append st a).
Proof. apply (gen_append_ok 4). Qed.
Lemma run_extend st l : run_meth gen_a_cls M_extend [VArgs l] st = done (m_extend st l).
Proof. apply (gen_extend_ok 3). Qed.
Lemma run_init l : run_meth gen_a_cls M_init [VArgs l] empty_state = done (m_new l).
Proof. apply (gen_init_ok 2). Qed.
Lemma run_init_default : run_meth gen_a_cls M_init [] empty_state = done (m_new []).
Proof. apply (gen_init_default 2). Qed.
Lemma run_remove st a : run_meth gen_a_cls M_remove [value_of_arg a] st = done (m_remove st a).
Proof. apply (gen_remove_ok 5). Qed.
Lemma run_pop st i : run_meth gen_a_cls M_pop [VInt i] st = done (m_pop st (Some i)).
Proof. apply (gen_pop_ok 7). Qed.
Lemma run_pop_default st : run_meth gen_a_cls M_pop [] st = done (m_pop st None).
Proof. apply (gen_pop_default 7). Qed.
Lemma run_reverse st : run_meth gen_a_cls M_reverse [] st = done (m_step st OpReverse).
Proof. apply (gen_reverse_ok 7). Qed.
Lemma run_clear st : run_meth gen_a_cls M_clear [] st = done (m_step st OpClear).
Proof. apply (gen_clear_ok 7). Qed.
Lemma run_getitem_int st i : run_meth gen_a_cls M_getitem [VInt i] st = done (m_step st (OpGet i)).
Proof. apply (gen_getitem_int_ok 7). Qed.
Lemma run_getitem_slice st lo hi :
  run_meth gen_a_cls M_getitem [VSlice lo hi] st = done (m_step st (OpSlice lo hi)).
Proof. apply (gen_getitem_slice_ok 1). Qed.

Lemma run_contains st a :
  run_meth gen_a_cls M_contains [value_of_arg a] st = ODone st (RVal (VBool (m_contains st a))).
Proof. apply (gen_contains_ok 7). Qed.
Lemma run_str st : run_meth gen_a_cls M_str [] st = ODone st (RVal (VStr (m_str st))).
Proof. apply (gen_str_ok 7). Qed.

Definition translated (o : op) : bool :=
  match o with OpContains _ => false | _ => true end.

Lemma gen_step_ok st o : translated o = true ->
  gen_step gen_a_cls st o = Some (done (m_step st o)).
Proof.
  intros H. destruct o as [a|l|i a|a|[i|]| | |i|lo hi|a]; cbn [gen_step m_step]; try discriminate; f_equal.
  - apply run_append.
  - apply run_extend.
  - apply run_insert.
  - apply run_remove.
  - apply run_pop.
  - apply run_pop_default.
  - apply run_reverse.
  - apply run_clear.
  - apply run_getitem_int.
  - apply run_getitem_slice.
Qed.

Lemma gen_step_all_ok st o : gen_step gen_a_cls st o = Some (done (m_step st o)).
Proof.
  destruct o as [a|l|i a|a|[i|]| | |i|lo hi|a]; try (apply gen_step_ok; reflexivity).
  cbn [gen_step m_step]. rewrite run_contains. reflexivity.
Qed.

Lemma to_of_out o : to_out (of_out o) = Some o.
Proof. destruct o as [| [g|s] | | | | |]; reflexivity. Qed.

Lemma gen_run_ok : forall ops st, forallb translated ops = true ->
  gen_run gen_a_cls st ops = Some (m_run st ops).
Proof.
  induction ops as [|o t IH]; intros st H; [reflexivity|].
  cbn [forallb] in H. apply andb_prop in H. destruct H as [Ho Ht].
  cbn [gen_run m_run]. rewrite (gen_step_ok st o Ho). unfold done.
  destruct (m_step st o) as [st' x]. cbn [fst snd].
  rewrite to_of_out, (IH st' Ht). reflexivity.
Qed.

(* TexArgs(init) followed by ops; the constructor may itself raise (a
   malformed string in init): the session is defined when it does not *)
Theorem gen_session_ok init ops : snd (m_new init) = ONone -> forallb translated ops = true ->
  gen_session gen_a_cls init ops = Some (m_run (fst (m_new init)) ops).
Proof.
  intros Hn Ht. unfold gen_session. rewrite run_init. unfold done. rewrite Hn.
  cbn [of_out]. apply gen_run_ok. exact Ht.
Qed.

Theorem gen_session_refines init ops : snd (m_new init) = ONone -> forallb translated ops = true ->
  option_map (map obs_model) (gen_session gen_a_cls init ops)
  = Some (map obs_ref (ref_run (fst (ref_extend [] init)) ops)).
Proof.
  intros Hn Ht. rewrite (gen_session_ok init ops Hn Ht). cbn [option_map].
  rewrite refines_args. reflexivity.
Qed.

Lemma gen_run_all_ok : forall ops st, gen_run gen_a_cls st ops = Some (m_run st ops).
Proof.
  induction ops as [|o t IH]; intros st; [reflexivity|].
  cbn [gen_run m_run]. rewrite (gen_step_all_ok st o). unfold done.
  destruct (m_step st o) as [st' x]. cbn [fst snd].
  rewrite to_of_out, (IH st'). reflexivity.
Qed.

(* ... membership included *)
Theorem gen_session_all_ok init ops : snd (m_new init) = ONone ->
  gen_session gen_a_cls init ops = Some (m_run (fst (m_new init)) ops).
Proof.
  intros Hn. unfold gen_session. rewrite run_init. unfold done. rewrite Hn.
  cbn [of_out]. apply gen_run_all_ok.
Qed.

Theorem gen_session_refines_all init ops : snd (m_new init) = ONone ->
  option_map (map obs_model) (gen_session gen_a_cls init ops)
  = Some (map obs_ref (ref_run (fst (ref_extend [] init)) ops)).
Proof.
  intros Hn. rewrite (gen_session_all_ok init ops Hn). cbn [option_map].
  rewrite refines_args. reflexivity.
Qed.

(* ------------------------------------------------------------ non-vacuity *)
Definition ex_gA : group := (false, [97]).
Definition ex_gB : group := (true, [98]).
Definition ex_init : list arg := [AS [32]; AG ex_gA; AS [91; 98; 93]].
Definition ex_ops : list op :=
  [OpInsert 1 (AS [123; 97; 125]); OpAppend (AS [123; 97]); OpPop None; OpSlice (Some 0) (Some 2);
   OpRemove (AG ex_gA); OpReverse; OpInsert (-7) (AS [10]); OpGet 5; OpClear].
Example ex_hyps : snd (m_new ex_init) = ONone /\ forallb translated ex_ops = true.
Proof. split; reflexivity. Qed.
Example ex_session :
  gen_session gen_a_cls ex_init ex_ops = Some (m_run (fst (m_new ex_init)) ex_ops).
Proof. vm_compute. reflexivity. Qed.
Example ex_session_value :
  option_map (map (fun r => (fst (fst r), snd r))) (gen_session gen_a_cls ex_init [OpAppend (AS [123; 97]); OpPop None])
  = Some [([ex_gA; ex_gB], ETypeError); ([ex_gA], OVal (IG ex_gB))].
Proof. vm_compute. reflexivity. Qed.
Example ex_contains :
  run_meth gen_a_cls M_contains [VStr [97]] ([ex_gA; ex_gB], [IG ex_gA; IG ex_gB]) =
    ODone ([ex_gA; ex_gB], [IG ex_gA; IG ex_gB]) (RVal (VBool true)) /\
  run_meth gen_a_cls M_contains [VStr [123; 97; 125]] ([ex_gA; ex_gB], []) =
    ODone ([ex_gA; ex_gB], []) (RVal (VBool false)) /\
  run_meth gen_a_cls M_contains [VGroup (true, [97])] ([ex_gA; ex_gB], []) =
    ODone ([ex_gA; ex_gB], []) (RVal (VBool false)) /\
  run_meth gen_a_cls M_contains [VGroup (true, [98])] ([ex_gA; ex_gB], []) =
    ODone ([ex_gA; ex_gB], []) (RVal (VBool true)).
Proof. vm_compute. repeat split; reflexivity. Qed.
Example ex_str :
  run_meth gen_a_cls M_str [] ([ex_gA; ex_gB], [IG ex_gA; IW [32]; IG ex_gB]) =
    ODone ([ex_gA; ex_gB], [IG ex_gA; IW [32]; IG ex_gB]) (RVal (VStr [123; 97; 125; 91; 98; 93])).
Proof. vm_compute. reflexivity. Qed.
Example ex_session_contains :
  option_map (map snd) (gen_session gen_a_cls ex_init [OpContains (AS [98]); OpPop None; OpContains (AS [98])])
  = Some [OBool true; OVal (IG ex_gB); OBool false].
Proof. vm_compute. reflexivity. Qed.
