(* C10, reader half: the reader is parametric in the text of Comment tokens.

   Two token lists that agree on every token's category and position, and on
   the text of every token that is not a Comment, are read to trees of
   identical shape (relation expr_sim) or to the same error - by every reader
   function, at every fuel, in every mode, strictness and skip list - provided
   the side condition ok_side holds.  The side condition names exactly the
   places where the reader looks at token TEXT:
     (1) the token after an Escape is the command name        -> not a Comment;
     (2) a bare-token argument becomes an EStr                 -> any string is
         related to any string (shape only);
     (3) read_skip_env joins token texts and tests startswith('\end{name}')
         -> every Comment token starts with '%', and no name in the skip list
         contains '%';
     (4) the environment name is the string of the first argument of
         \begin / \end -> if a group opens right after that name (one spacer
         allowed in between) it holds only leaf tokens, none of them a
         Comment, up to its first closer (name_flat).  Sufficient, not
         necessary: a name group with nested commands/groups/math but no
         comment is excluded although harmless.
   Without (4) the statement is false: see C10_unrestricted_refuted. *)
From Coq Require Import List NArith ZArith Bool Lia.
From TexModel Require Import Base Tables Chars Tokenizer Tree Reader.
From TexProofs Require Import ReaderLen.
Import ListNotations.

(* ------------------------------------------------------------ relations *)

Definition tok_sim (t1 t2 : token) : Prop :=
  tcat t1 = tcat t2 /\ tpos t1 = tpos t2 /\ (tcat t1 <> TComment -> ttext t1 = ttext t2).

Inductive expr_sim : expr -> expr -> Prop :=
| ES_Text t1 t2 : tok_sim t1 t2 -> expr_sim (EText t1) (EText t2)
| ES_Raw s1 s2 p : expr_sim (ERaw s1 p) (ERaw s2 p)
| ES_Str s1 s2 : expr_sim (EStr s1) (EStr s2)
| ES_Cmd n a1 a2 b1 b2 p :
    Forall2 expr_sim a1 a2 -> Forall2 expr_sim b1 b2 -> expr_sim (ECmd n a1 b1 p) (ECmd n a2 b2 p)
| ES_Named n a1 a2 b1 b2 p :
    Forall2 expr_sim a1 a2 -> Forall2 expr_sim b1 b2 ->
    expr_sim (ENamed n a1 b1 p) (ENamed n a2 b2 p)
| ES_Math k b1 b2 p : Forall2 expr_sim b1 b2 -> expr_sim (EMath k b1 p) (EMath k b2 p)
| ES_Group k b1 b2 p : Forall2 expr_sim b1 b2 -> expr_sim (EGroup k b1 p) (EGroup k b2 p)
| ES_Root b1 b2 : Forall2 expr_sim b1 b2 -> expr_sim (ERoot b1) (ERoot b2).

(* results that carry the unread suffix *)
Definition res_sim {A} (R : A -> A -> Prop) (r1 r2 : res (A * list token)) : Prop :=
  match r1, r2 with
  | Ok (v1, s1), Ok (v2, s2) => R v1 v2 /\ Forall2 tok_sim s1 s2
  | Err e1, Err e2 => e1 = e2
  | _, _ => False
  end.

(* results without suffix (read_tex_loop, parse_tokens) *)
Definition res_sim0 {A} (R : A -> A -> Prop) (r1 r2 : res A) : Prop :=
  match r1, r2 with
  | Ok v1, Ok v2 => R v1 v2
  | Err e1, Err e2 => e1 = e2
  | _, _ => False
  end.

(* --------------------------------------------------------- side condition *)

(* the comment character, read off the category table below *)
Definition comment_char : N := 37%N.

Lemma comment_char_is_comment : categorize_char comment_char = CComment.
Proof. vm_compute. reflexivity. Qed.

(* a Comment token begins with the comment character (every Comment token the
   tokenizer makes is  ch c0 :: body  with c0 of category Comment) *)
Definition comment_wf (t : token) : bool :=
  if is_tc TComment t
  then match ttext t with c :: _ => N.eqb c comment_char | [] => false end
  else true.

(* tokens read_expr turns into one EText leaf, Comment excluded *)
Definition is_leaf (t : token) : bool :=
  negb (is_tc TComment t) && negb (is_tc TEscape t) && negb (is_tc TGroupBegin t) &&
  match math_kind_of_begin (tcat t) with None => true | Some _ => false end.

(* up to the first closing token of kind k: leaves only *)
Fixpoint flat (k : groupkind) (toks : list token) : bool :=
  match toks with
  | [] => true
  | t :: r => if is_group_end k t then true else is_leaf t && flat k r
  end.

Definition flat_open (c : token) (toks : list token) : bool :=
  match group_kind_of_begin (tcat c) with Some k => flat k toks | None => true end.

(* what follows the name of \begin / \end: after an optional spacer, IF the
   next token opens a group THEN that group is flat *)
Definition name_flat (toks : list token) : bool :=
  match snd (read_spacer toks) with
  | c :: r => flat_open c r
  | [] => true
  end.

(* what follows an Escape token *)
Definition cmd_ok (l : list token) : bool :=
  match l with
  | n :: r => negb (is_tc TComment n) &&
              (if str_eqb (ttext n) s_begin || str_eqb (ttext n) s_end then name_flat r else true)
  | [] => true
  end.

Fixpoint ok_struct (toks : list token) : bool :=
  match toks with
  | [] => true
  | e :: r => (if is_tc TEscape e then cmd_ok r else true) && ok_struct r
  end.

Definition ok_side (toks : list token) : bool :=
  ok_struct toks && forallb comment_wf toks.

Definition no_pct (s : str) : bool := forallb (fun c => negb (N.eqb c comment_char)) s.
Definition skip_ok (skip : list str) : bool := forallb no_pct skip.

Arguments is_leaf : simpl never.
Arguments name_flat : simpl never.
Arguments flat_open : simpl never.
Arguments cmd_ok : simpl never.
Arguments comment_wf : simpl never.
Arguments ok_side : simpl never.
Arguments no_pct : simpl never.
Arguments skip_ok : simpl never.

(* a good pair of token lists *)
Definition gp (l1 l2 : list token) : Prop :=
  Forall2 tok_sim l1 l2 /\ ok_side l1 = true /\ ok_side l2 = true.

(* ------------------------------------------------------- basic lemmas *)

Lemma tok_sim_refl t : tok_sim t t.
Proof. repeat split. Qed.

Lemma is_tc_sim k t1 t2 : tok_sim t1 t2 -> is_tc k t1 = is_tc k t2.
Proof. intros (H & _). unfold is_tc. rewrite H. reflexivity. Qed.

Lemma is_group_end_sim k t1 t2 : tok_sim t1 t2 -> is_group_end k t1 = is_group_end k t2.
Proof. intro H. unfold is_group_end. destruct (group_tok_end k); [apply is_tc_sim; exact H | reflexivity]. Qed.

Lemma is_math_end_sim k t1 t2 : tok_sim t1 t2 -> is_math_end k t1 = is_math_end k t2.
Proof. intro H. unfold is_math_end. destruct (math_tok_end k); [apply is_tc_sim; exact H | reflexivity]. Qed.

Lemma is_leaf_sim t1 t2 : tok_sim t1 t2 -> is_leaf t1 = is_leaf t2.
Proof.
  intro H. unfold is_leaf. rewrite !(is_tc_sim _ _ _ H). destruct H as (H & _). rewrite H. reflexivity.
Qed.

Lemma text_of_noncomment t1 t2 :
  tok_sim t1 t2 -> is_tc TComment t1 = false -> ttext t1 = ttext t2.
Proof.
  intros (_ & _ & H) Hc. apply H. intro E. unfold is_tc in Hc. rewrite E in Hc. discriminate.
Qed.

Lemma leaf_not_comment t : is_leaf t = true -> is_tc TComment t = false.
Proof.
  unfold is_leaf. intro H. repeat (apply andb_true_iff in H; destruct H as [H ?]).
  apply negb_true_iff in H. exact H.
Qed.

Lemma ok_side_tail t l : ok_side (t :: l) = true -> ok_side l = true.
Proof.
  unfold ok_side. simpl. intro H.
  apply andb_true_iff in H. destruct H as [H1 H2].
  apply andb_true_iff in H1. destruct H1 as [_ H1].
  apply andb_true_iff in H2. destruct H2 as [_ H2].
  rewrite H1, H2. reflexivity.
Qed.

Lemma ok_side_skipn n l : ok_side l = true -> ok_side (skipn n l) = true.
Proof.
  revert l; induction n as [|n IH]; intros l H; [exact H|].
  destruct l as [|t l]; [exact H|]. change (skipn (S n) (t :: l)) with (skipn n l).
  apply IH. eapply ok_side_tail; exact H.
Qed.

Lemma ok_side_escape t l : ok_side (t :: l) = true -> is_tc TEscape t = true -> cmd_ok l = true.
Proof.
  unfold ok_side. simpl. intros H He. rewrite He in H.
  apply andb_true_iff in H. destruct H as [H _].
  apply andb_true_iff in H. destruct H as [H _]. exact H.
Qed.

Lemma ok_side_wf t l : ok_side (t :: l) = true -> comment_wf t = true.
Proof.
  unfold ok_side. simpl. intro H.
  apply andb_true_iff in H. destruct H as [_ H].
  apply andb_true_iff in H. destruct H as [H _]. exact H.
Qed.

Lemma gp_nil : gp [] [].
Proof. split; [constructor | split; reflexivity]. Qed.

Lemma gp_inv l1 l2 : gp l1 l2 ->
  (l1 = [] /\ l2 = []) \/
  (exists t1 r1 t2 r2, l1 = t1 :: r1 /\ l2 = t2 :: r2 /\ tok_sim t1 t2 /\ gp r1 r2).
Proof.
  intros (H & O1 & O2). destruct H as [|t1 t2 r1 r2 Ht Hr]; [left; auto|].
  right. exists t1, r1, t2, r2.
  split; [reflexivity|]. split; [reflexivity|]. split; [exact Ht|].
  split; [exact Hr|]. split; eapply ok_side_tail; eassumption.
Qed.

Lemma gp_skipn n l1 l2 : gp l1 l2 -> gp (skipn n l1) (skipn n l2).
Proof.
  intros (H & O1 & O2). split; [|split; apply ok_side_skipn; assumption].
  clear O1 O2. revert l1 l2 H; induction n as [|n IH]; intros l1 l2 H; [exact H|].
  destruct H; [constructor|]. change (Forall2 tok_sim (skipn n l) (skipn n l')). apply IH. assumption.
Qed.

Lemma gp_length l1 l2 : gp l1 l2 -> length l1 = length l2.
Proof. intros (H & _). induction H; simpl; congruence. Qed.

Lemma gp_sim l1 l2 : gp l1 l2 -> Forall2 tok_sim l1 l2.
Proof. intros (H & _). exact H. Qed.

Lemma gp_spacer l1 l2 : gp l1 l2 ->
  fst (read_spacer l1) = fst (read_spacer l2) /\ gp (snd (read_spacer l1)) (snd (read_spacer l2)).
Proof.
  intro H. destruct (gp_inv _ _ H) as [[-> ->]|(t1 & r1 & t2 & r2 & -> & -> & Ht & Hr)].
  - unfold read_spacer. simpl. split; [reflexivity | exact H].
  - unfold read_spacer. rewrite (is_tc_sim _ _ _ Ht).
    destruct (is_tc TMergedSpacer t2); simpl; split; auto.
Qed.

(* Forall2 over accumulators *)
Lemma F2_snoc {A} (R : A -> A -> Prop) l1 l2 x1 x2 :
  Forall2 R l1 l2 -> R x1 x2 -> Forall2 R (l1 ++ [x1]) (l2 ++ [x2]).
Proof. intros H Hx. apply Forall2_app; [exact H | constructor; [exact Hx | constructor]]. Qed.

(* ------------------------------------------------- read_skip_env (3) *)

Lemma ok_side_wf_all l : ok_side l = true -> forallb comment_wf l = true.
Proof. unfold ok_side. intro H. apply andb_true_iff in H. tauto. Qed.

(* pointwise: related, and both well-formed as Comments *)
Definition wtok (t1 t2 : token) : Prop :=
  tok_sim t1 t2 /\ comment_wf t1 = true /\ comment_wf t2 = true.

Lemma gp_wsim l1 l2 : gp l1 l2 -> Forall2 wtok l1 l2.
Proof.
  intros (H & O1 & O2). apply ok_side_wf_all in O1. apply ok_side_wf_all in O2.
  induction H as [|t1 t2 r1 r2 Ht Hr IH]; [constructor|].
  simpl in O1, O2. apply andb_true_iff in O1. apply andb_true_iff in O2.
  destruct O1 as [W1 O1]. destruct O2 as [W2 O2].
  constructor; [split; [exact Ht | split; assumption] | apply IH; assumption].
Qed.

Lemma wsim_firstn n l1 l2 : Forall2 wtok l1 l2 -> Forall2 wtok (firstn n l1) (firstn n l2).
Proof.
  revert l1 l2; induction n as [|n IH]; intros l1 l2 H; [constructor|].
  destruct H; simpl; constructor; auto.
Qed.

Lemma no_pct_cons y p : no_pct (y :: p) = true -> N.eqb comment_char y = false /\ no_pct p = true.
Proof.
  unfold no_pct. cbn [forallb]. intro H. apply andb_true_iff in H. destruct H as [H1 H2].
  split; [|exact H2]. apply negb_true_iff in H1. apply N.eqb_neq in H1. apply N.eqb_neq. congruence.
Qed.

Lemma no_pct_app a b : no_pct a = true -> no_pct b = true -> no_pct (a ++ b) = true.
Proof. unfold no_pct. intros Ha Hb. rewrite forallb_app, Ha, Hb. reflexivity. Qed.

Lemma sw_app_eq a s1 s2 :
  (forall q, no_pct q = true -> starts_with s1 q = starts_with s2 q) ->
  forall p, no_pct p = true -> starts_with (a ++ s1) p = starts_with (a ++ s2) p.
Proof.
  intro H. induction a as [|x a IH]; intros p Hp; [apply H; exact Hp|].
  destruct p as [|y p]; [reflexivity|]. simpl.
  apply no_pct_cons in Hp. destruct Hp as [_ Hp]. rewrite (IH p Hp). reflexivity.
Qed.

Lemma texts_cons t l : texts (t :: l) = ttext t ++ texts l.
Proof. reflexivity. Qed.

Lemma comment_wf_text t : is_tc TComment t = true -> comment_wf t = true ->
  exists s, ttext t = comment_char :: s.
Proof.
  unfold comment_wf. intros -> H. destruct (ttext t) as [|c s]; [discriminate|].
  apply N.eqb_eq in H. subst. eauto.
Qed.

Lemma sw_texts l1 l2 : Forall2 wtok l1 l2 ->
  forall p, no_pct p = true -> starts_with (texts l1) p = starts_with (texts l2) p.
Proof.
  induction 1 as [|t1 t2 r1 r2 (Ht & W1 & W2) Hr IH]; intros p Hp; [reflexivity|].
  rewrite !texts_cons. destruct (is_tc TComment t1) eqn:Ec.
  - pose proof Ec as Ec2. rewrite (is_tc_sim _ _ _ Ht) in Ec2.
    destruct (comment_wf_text _ Ec W1) as (s1 & ->). destruct (comment_wf_text _ Ec2 W2) as (s2 & ->).
    destruct p as [|y p]; [reflexivity|]. apply no_pct_cons in Hp. destruct Hp as [Hy _].
    cbn [starts_with app]. rewrite Hy. reflexivity.
  - rewrite (text_of_noncomment _ _ Ht Ec). apply sw_app_eq; assumption.
Qed.

Lemma sw_firstn n l1 l2 p : gp l1 l2 -> no_pct p = true ->
  starts_with (texts (firstn n l1)) p = starts_with (texts (firstn n l2)) p.
Proof. intros H Hp. apply sw_texts; [apply wsim_firstn, gp_wsim; exact H | exact Hp]. Qed.

Lemma skip_scan_cons target acc t rest :
  skip_scan target acc (t :: rest) =
  if starts_with (texts (firstn (length target) (t :: rest))) target then (acc, t :: rest)
  else skip_scan target (acc ++ ttext t) rest.
Proof. reflexivity. Qed.

Lemma skip_scan_sim target l1 : forall l2 acc1 acc2, gp l1 l2 -> no_pct target = true ->
  gp (snd (skip_scan target acc1 l1)) (snd (skip_scan target acc2 l2)).
Proof.
  induction l1 as [|t1 r1 IH]; intros l2 acc1 acc2 H Hp;
    destruct (gp_inv _ _ H) as [[E1 E2]|(t1' & r1' & t2 & r2 & E1 & E2 & Ht & Hr)];
    try discriminate; subst.
  - simpl. exact gp_nil.
  - inversion E1; subst. rewrite !skip_scan_cons.
    rewrite (sw_firstn (length target) _ _ target H Hp).
    destruct (starts_with _ _); [exact H | apply IH; assumption].
Qed.

Lemma no_pct_env_end name : no_pct name = true -> no_pct (env_end name) = true.
Proof.
  intro H. unfold env_end. apply no_pct_app; [reflexivity|]. apply no_pct_app; [exact H | reflexivity].
Qed.

Lemma mem_str_in s l : mem_str s l = true -> In s l.
Proof.
  unfold mem_str. intro H. apply existsb_exists in H. destruct H as (x & Hin & Hx).
  apply str_eqb_eq in Hx. subst. exact Hin.
Qed.

Lemma skip_ok_mem s skip : skip_ok skip = true -> mem_str s skip = true -> no_pct s = true.
Proof.
  unfold skip_ok. intros H Hm. apply mem_str_in in Hm.
  rewrite forallb_forall in H. apply H. exact Hm.
Qed.

(* ----------------------------------------- result relation with invariants *)

Definition rrel {A} (R : A -> A -> list token -> Prop) (r1 r2 : res (A * list token)) : Prop :=
  match r1, r2 with
  | Ok (v1, s1), Ok (v2, s2) => R v1 v2 s1 /\ gp s1 s2
  | Err e1, Err e2 => e1 = e2
  | _, _ => False
  end.

Lemma rrel_bind {A B} (R : A -> A -> list token -> Prop) (S : B -> B -> list token -> Prop)
      r1 r2 (k1 k2 : A * list token -> res (B * list token)) :
  rrel R r1 r2 ->
  (forall v1 s1 v2 s2, R v1 v2 s1 -> gp s1 s2 -> rrel S (k1 (v1, s1)) (k2 (v2, s2))) ->
  rrel S (bind r1 k1) (bind r2 k2).
Proof.
  destruct r1 as [[v1 s1]|e1], r2 as [[v2 s2]|e2]; simpl; try tauto.
  intros [HR Hg] Hk. apply Hk; assumption.
Qed.

Lemma rrel_weaken {A} (R R' : A -> A -> list token -> Prop) r1 r2 :
  rrel R r1 r2 -> (forall v1 v2 s, R v1 v2 s -> R' v1 v2 s) -> rrel R' r1 r2.
Proof.
  destruct r1 as [[v1 s1]|e1], r2 as [[v2 s2]|e2]; simpl; try tauto.
  intros [HR Hg] Hk. split; [apply Hk; exact HR | exact Hg].
Qed.

Definition fa (args : list expr) : option str :=
  match args with a :: _ => Some (arg_string a) | [] => None end.

(* invariant of the argument readers: as long as no argument has been read the
   remaining input still begins with the (flat) name group; afterwards the
   first argument has the same string on both sides *)
Definition pre_fa (a1 a2 : list expr) (toks1 : list token) : Prop :=
  match a1 with [] => name_flat toks1 = true | _ :: _ => fa a1 = fa a2 end.

Lemma pre_fa_fa a1 a2 s : Forall2 expr_sim a1 a2 -> pre_fa a1 a2 s -> fa a1 = fa a2.
Proof. intros H. destruct H; simpl; auto. Qed.

Lemma pre_fa_snoc a1 a2 g1 g2 toks1 s :
  Forall2 expr_sim a1 a2 -> pre_fa a1 a2 toks1 ->
  (a1 = [] -> name_flat toks1 = true -> arg_string g1 = arg_string g2) ->
  pre_fa (a1 ++ [g1]) (a2 ++ [g2]) s.
Proof.
  intros H Hp Hg. destruct H; simpl in *.
  - rewrite (Hg eq_refl Hp). reflexivity.
  - exact Hp.
Qed.

Definition Rexpr (toks1 : list token) (e1 e2 : expr) (s1 : list token) : Prop :=
  expr_sim e1 e2 /\
  (forall t r, toks1 = t :: r -> is_leaf t = true -> estr e1 = estr e2 /\ s1 = r).
Definition Rexpr0 (e1 e2 : expr) (_ : list token) : Prop := expr_sim e1 e2.
Definition Rlist (l1 l2 : list expr) (_ : list token) : Prop := Forall2 expr_sim l1 l2.
Definition Rcmd (nreq : Z) (v1 v2 : str * list expr) (_ : list token) : Prop :=
  fst v1 = fst v2 /\ Forall2 expr_sim (snd v1) (snd v2) /\
  ((nreq <= 0)%Z -> str_eqb (fst v1) s_begin || str_eqb (fst v1) s_end = true ->
   fa (snd v1) = fa (snd v2)).
Definition Rargs (nreq : Z) (toks1 : list token) (a1 a2 : list expr) (_ : list token) : Prop :=
  Forall2 expr_sim a1 a2 /\ ((nreq <= 0)%Z -> name_flat toks1 = true -> fa a1 = fa a2).
(* read_arg_required: a bare token becomes an argument only when nreq > 0 *)
Definition Rreq (nreq : Z) (acc1 acc2 : list expr) (toks1 : list token) (v1 v2 : list expr * Z)
           (s1 : list token) : Prop :=
  Forall2 expr_sim (fst v1) (fst v2) /\ snd v1 = snd v2 /\ (snd v1 <= nreq)%Z /\
  ((acc1 = [] -> (nreq <= 0)%Z) -> pre_fa acc1 acc2 toks1 -> pre_fa (fst v1) (fst v2) s1).
Definition Ropt (acc1 acc2 : list expr) (toks1 : list token) (v1 v2 : list expr * Z)
           (s1 : list token) : Prop :=
  Forall2 expr_sim (fst v1) (fst v2) /\ snd v1 = snd v2 /\
  (pre_fa acc1 acc2 toks1 -> pre_fa (fst v1) (fst v2) s1).
Definition Rarg (c1 : token) (toks1 : list token) (e1 e2 : expr) (_ : list token) : Prop :=
  expr_sim e1 e2 /\ (flat_open c1 toks1 = true -> arg_string e1 = arg_string e2).
Definition Rargloop (k : groupkind) (acc1 acc2 : list expr) (toks1 : list token)
           (e1 e2 : expr) (_ : list token) : Prop :=
  expr_sim e1 e2 /\
  (flat k toks1 = true -> estr_list acc1 = estr_list acc2 -> arg_string e1 = arg_string e2).

Lemma read_skip_env_sim name args1 args2 pos l1 l2 :
  no_pct name = true -> Forall2 expr_sim args1 args2 -> gp l1 l2 ->
  rrel Rexpr0 (read_skip_env name args1 pos l1) (read_skip_env name args2 pos l2).
Proof.
  intros Hn Ha H. unfold read_skip_env.
  pose proof (no_pct_env_end _ Hn) as Ht.
  pose proof (skip_scan_sim (env_end name) l1 l2 [] [] H Ht) as Hs.
  destruct (skip_scan (env_end name) [] l1) as [b1 rs1].
  destruct (skip_scan (env_end name) [] l2) as [b2 rs2]. simpl in Hs.
  destruct (gp_inv _ _ H) as [[-> ->]|(t1 & r1 & t2 & r2 & -> & -> & Ht0 & Hr)]; [reflexivity|].
  destruct (gp_inv _ _ Hs) as [[-> ->]|(u1 & q1 & u2 & q2 & -> & -> & Hu & Hq)]; [reflexivity|].
  rewrite (sw_firstn (length (env_end name)) _ _ _ Hs Ht).
  destruct (starts_with _ _); [|reflexivity].
  simpl. split; [|apply gp_skipn; exact Hs].
  unfold Rexpr0. destruct Ht0 as (_ & Hp & _). rewrite Hp.
  constructor; [exact Ha|]. constructor; [constructor | constructor].
Qed.

(* ------------------------------------------------ the mutual induction *)

Definition P_expr f := forall skip strict m l1 l2,
  skip_ok skip = true -> gp l1 l2 ->
  rrel (Rexpr l1) (read_expr f skip strict m l1) (read_expr f skip strict m l2).
Definition P_item f := forall acc1 acc2 l1 l2,
  Forall2 expr_sim acc1 acc2 -> gp l1 l2 ->
  rrel Rlist (read_item_loop f acc1 l1) (read_item_loop f acc2 l2).
Definition P_math f := forall k pos strict acc1 acc2 l1 l2,
  Forall2 expr_sim acc1 acc2 -> gp l1 l2 ->
  rrel Rexpr0 (read_math_loop f k pos strict acc1 l1) (read_math_loop f k pos strict acc2 l2).
Definition P_env f := forall name args1 args2 pos skip strict m acc1 acc2 l1 l2,
  skip_ok skip = true -> Forall2 expr_sim args1 args2 -> Forall2 expr_sim acc1 acc2 -> gp l1 l2 ->
  rrel Rexpr0 (read_env_loop f name args1 pos skip strict m acc1 l1)
              (read_env_loop f name args2 pos skip strict m acc2 l2).
Definition P_command f := forall nreq nopt sk strict m l1 l2,
  gp l1 l2 -> cmd_ok (skipn sk l1) = true ->
  rrel (Rcmd nreq) (read_command f nreq nopt sk strict m l1) (read_command f nreq nopt sk strict m l2).
Definition P_args f := forall nreq nopt strict m l1 l2,
  gp l1 l2 ->
  rrel (Rargs nreq l1) (read_args f nreq nopt strict m l1) (read_args f nreq nopt strict m l2).
Definition P_opt f := forall acc1 acc2 nopt strict m l1 l2,
  Forall2 expr_sim acc1 acc2 -> gp l1 l2 ->
  rrel (Ropt acc1 acc2 l1) (read_arg_optional f acc1 nopt strict m l1)
                           (read_arg_optional f acc2 nopt strict m l2).
Definition P_req f := forall acc1 acc2 nreq strict m l1 l2,
  Forall2 expr_sim acc1 acc2 -> gp l1 l2 ->
  rrel (Rreq nreq acc1 acc2 l1) (read_arg_required f acc1 nreq strict m l1)
                           (read_arg_required f acc2 nreq strict m l2).
Definition P_arg f := forall c1 c2 strict m l1 l2,
  tok_sim c1 c2 -> gp l1 l2 ->
  rrel (Rarg c1 l1) (read_arg f c1 strict m l1) (read_arg f c2 strict m l2).
Definition P_argloop f := forall k pos strict m acc1 acc2 l1 l2,
  Forall2 expr_sim acc1 acc2 -> gp l1 l2 ->
  rrel (Rargloop k acc1 acc2 l1) (read_arg_loop f k pos strict m acc1 l1)
                                 (read_arg_loop f k pos strict m acc2 l2).

Definition P_all f :=
  P_expr f /\ P_item f /\ P_math f /\ P_env f /\ P_command f /\ P_args f /\
  P_opt f /\ P_req f /\ P_arg f /\ P_argloop f.

Lemma read_expr_leaf f skip strict m t src :
  is_leaf t = true -> read_expr (S f) skip strict m (t :: src) = Ok (EText t, src).
Proof.
  unfold is_leaf. intro H.
  apply andb_true_iff in H. destruct H as [H Hm].
  apply andb_true_iff in H. destruct H as [H Hg].
  apply andb_true_iff in H. destruct H as [_ He].
  apply negb_true_iff in He. apply negb_true_iff in Hg.
  simpl. destruct (math_kind_of_begin (tcat t)); [discriminate|]. rewrite He, Hg. reflexivity.
Qed.

Lemma estr_list_snoc l e : estr_list (l ++ [e]) = estr_list l ++ estr e.
Proof. unfold estr_list. rewrite map_app, concat_app. simpl. rewrite app_nil_r. reflexivity. Qed.

Lemma begin_end_signature n :
  str_eqb n s_begin || str_eqb n s_end = true -> signature_of n = ((-1)%Z, (-1)%Z).
Proof.
  intro H. apply orb_true_iff in H. destruct H as [H|H]; apply str_eqb_eq in H; subst;
    vm_compute; reflexivity.
Qed.

Lemma P_all_holds : forall f, P_all f.
Proof.
  induction f as [|f IH].
  { unfold P_all, P_expr, P_item, P_math, P_env, P_command, P_args, P_opt, P_req, P_arg, P_argloop.
    repeat match goal with |- _ /\ _ => split end; intros; simpl; reflexivity. }
  destruct IH as (IHe & IHi & IHm & IHv & IHc & IHa & IHo & IHr & IHg & IHl).
  unfold P_all.
  repeat match goal with |- _ /\ _ => split end;
    [unfold P_expr | unfold P_item | unfold P_math | unfold P_env | unfold P_command | unfold P_args
     | unfold P_opt | unfold P_req | unfold P_arg | unfold P_argloop].
  10: {
    intros k pos strict m acc1 acc2 l1 l2 Hacc Hgp. simpl.
    destruct (gp_inv _ _ Hgp) as [[-> ->]|(t1 & r1 & t2 & r2 & -> & -> & Ht & Hr)].
    - destruct strict; simpl; [reflexivity|]. split; [|exact gp_nil].
      split; [constructor; exact Hacc | intros _ He; exact He].
    - rewrite (is_group_end_sim k _ _ Ht). destruct (is_group_end k t2) eqn:Ee.
      + simpl. split; [|exact Hr]. split; [constructor; exact Hacc | intros _ He; exact He].
      + eapply rrel_bind; [apply IHe; [reflexivity | exact Hgp]|].
        intros v1 s1 v2 s2 [Hv Hleaf] Hg. cbn beta iota.
        eapply rrel_weaken; [apply IHl; [apply F2_snoc; eassumption | exact Hg]|].
        intros e1 e2 s [He Hs]. split; [exact He|]. intros Hfl Hacc'.
        simpl in Hfl. rewrite (is_group_end_sim k _ _ Ht), Ee in Hfl.
        apply andb_true_iff in Hfl. destruct Hfl as [Hl1 Hfl].
        destruct (Hleaf t1 r1 eq_refl Hl1) as [Hes ->].
        apply Hs; [exact Hfl|]. rewrite !estr_list_snoc, Hacc', Hes. reflexivity. }
  9: {
    intros c1 c2 strict m l1 l2 Hc Hgp. simpl.
    destruct Hc as (Hcat & Hpos & Htx). rewrite Hcat, Hpos.
    destruct (group_kind_of_begin (tcat c2)) as [k|] eqn:Ek; [|reflexivity].
    eapply rrel_weaken; [apply IHl; [constructor | exact Hgp]|].
    intros e1 e2 s [He Hs]. split; [exact He|]. intro Hfl. apply Hs; [|reflexivity].
    unfold flat_open in Hfl. rewrite Hcat, Ek in Hfl. exact Hfl. }
  8: {
    intros acc1 acc2 nreq strict m l1 l2 Hacc Hgp. simpl.
    assert (Hsame : rrel (Rreq nreq acc1 acc2 l1) (Ok ((acc1, nreq), l1)) (Ok ((acc2, nreq), l2))).
    { simpl. split; [|exact Hgp]. split; [exact Hacc|]. split; [reflexivity|]. split; [cbn [fst snd]; lia | auto]. }
    destruct (nreq =? 0)%Z; [apply Hsame|].
    destruct (gp_inv _ _ Hgp) as [[-> ->]|(t1 & r1 & t2 & r2 & -> & -> & Ht & Hr)]; [apply Hsame|].
    destruct (gp_spacer _ _ Hgp) as [_ Hsp].
    destruct (read_spacer (t1 :: r1)) as [b1 s1] eqn:E1.
    destruct (read_spacer (t2 :: r2)) as [b2 s2] eqn:E2.
    simpl in Hsp.
    destruct (gp_inv _ _ Hsp) as [[-> ->]|(c1 & q1 & c2 & q2 & -> & -> & Hc & Hq)]; [apply Hsame|].
    assert (Hcons : forall x : expr, acc1 ++ [x] = [] -> (nreq - 1 <= 0)%Z).
    { intros x Habs. destruct acc1; discriminate Habs. }
    rewrite (is_tc_sim TGroupBegin _ _ Hc). destruct (is_tc TGroupBegin c2) eqn:Eg.
    - eapply rrel_bind; [apply IHg; [exact Hc | exact Hq]|].
      intros g1 u1 g2 u2 [Hg Hflat] Hu. cbn beta iota.
      eapply rrel_weaken; [apply IHr; [apply F2_snoc; eassumption | exact Hu]|].
      intros [a1 n1] [a2 n2] s (Ha & Hn & Hle & Hpre). unfold Rreq. cbn [fst snd] in *.
      split; [exact Ha|]. split; [exact Hn|]. split; [lia|].
      intros Hguard Hp. apply Hpre; [apply Hcons|].
      apply pre_fa_snoc with (toks1 := t1 :: r1); [exact Hacc | exact Hp|].
      intros _ Hnf. apply Hflat. unfold name_flat in Hnf. rewrite E1 in Hnf. exact Hnf.
    - destruct (0 <? nreq)%Z eqn:E0; [|apply Hsame]. apply Z.ltb_lt in E0.
      rewrite (is_tc_sim TEscape _ _ Hc). destruct (is_tc TEscape c2) eqn:Ee.
      + eapply rrel_bind; [apply IHc; [exact Hq | ]|].
        { change (skipn 0 q1) with q1. eapply ok_side_escape; [apply Hsp |].
          rewrite (is_tc_sim TEscape _ _ Hc). exact Ee. }
        intros [n1 a1] u1 [n2 a2] u2 (Hn & _ & _) Hu. cbn [fst snd] in Hn. subst n2. cbn beta iota.
        destruct Hc as (_ & Hpos & _). rewrite Hpos.
        eapply rrel_weaken;
          [apply IHr; [apply F2_snoc; [exact Hacc | constructor; constructor] | exact Hu]|].
        intros [a1' n1'] [a2' n2'] s (Ha & Hn & Hle & Hpre). unfold Rreq. cbn [fst snd] in *.
        split; [exact Ha|]. split; [exact Hn|]. split; [lia|].
        intros Hguard Hp. apply Hpre; [apply Hcons|].
        apply pre_fa_snoc with (toks1 := t1 :: r1); [exact Hacc | exact Hp|].
        intros; reflexivity.
      + eapply rrel_weaken;
          [apply IHr; [apply F2_snoc; [exact Hacc | constructor; constructor; constructor] | exact Hq]|].
        intros [a1' n1'] [a2' n2'] s (Ha & Hn & Hle & Hpre). unfold Rreq. cbn [fst snd] in *.
        split; [exact Ha|]. split; [exact Hn|]. split; [lia|].
        intros Hguard Hp. apply Hpre; [apply Hcons|].
        apply pre_fa_snoc with (toks1 := t1 :: r1); [exact Hacc | exact Hp|].
        intros Hnil _. specialize (Hguard Hnil). lia. }
  7: {
    intros acc1 acc2 nopt strict m l1 l2 Hacc Hgp. simpl.
    assert (Hsame : forall n, rrel (Ropt acc1 acc2 l1) (Ok ((acc1, n), l1)) (Ok ((acc2, n), l2))).
    { intro n. simpl. split; [|exact Hgp]. split; [exact Hacc|]. split; [reflexivity|]. auto. }
    destruct (nopt =? 0)%Z; [apply Hsame|].
    destruct (gp_spacer _ _ Hgp) as [_ Hsp].
    destruct (read_spacer l1) as [b1 s1] eqn:E1.
    destruct (read_spacer l2) as [b2 s2] eqn:E2.
    simpl in Hsp.
    destruct (gp_inv _ _ Hsp) as [[-> ->]|(c1 & q1 & c2 & q2 & -> & -> & Hc & Hq)]; [apply Hsame|].
    rewrite (is_tc_sim TBracketBegin _ _ Hc). destruct (is_tc TBracketBegin c2) eqn:Eg; [|apply Hsame].
    eapply rrel_bind; [apply IHg; [exact Hc | exact Hq]|].
    intros g1 u1 g2 u2 [Hg Hflat] Hu. cbn beta iota.
    eapply rrel_weaken; [apply IHo; [apply F2_snoc; eassumption | exact Hu]|].
    intros [a1 n1] [a2 n2] s (Ha & Hn & Hpre). split; [exact Ha|]. split; [exact Hn|].
    intro Hp. apply Hpre. apply pre_fa_snoc with (toks1 := l1); [exact Hacc | exact Hp|].
    intros _ Hnf. apply Hflat. unfold name_flat in Hnf. rewrite E1 in Hnf. exact Hnf. }
  6: {
    intros nreq nopt strict m l1 l2 Hgp. simpl.
    destruct ((nreq =? 0)%Z && (nopt =? 0)%Z).
    { simpl. split; [|exact Hgp]. split; [constructor | reflexivity]. }
    eapply rrel_bind; [apply IHo; [constructor | exact Hgp]|].
    intros [a1 n1] s1 [a2 n2] s2 (Ha1 & Hn1 & Hp1) Hg1. cbn [fst snd] in Ha1, Hn1, Hp1. subst n2.
    cbn beta iota.
    eapply rrel_bind; [apply IHr; [exact Ha1 | exact Hg1]|].
    intros [b1 m1] u1 [b2 m2] u2 (Ha2 & Hn2 & Hle2 & Hp2) Hg2. cbn [fst snd] in Ha2, Hn2, Hle2, Hp2.
    subst m2. cbn beta iota.
    eapply rrel_bind with (R := Ropt b1 b2 u1).
    { destruct (gp_inv _ _ Hg2) as [[-> ->]|(t1 & r1 & t2 & r2 & -> & -> & Ht & Hr)].
      - simpl. split; [|exact gp_nil]. split; [exact Ha2|]. split; [reflexivity | auto].
      - rewrite (is_tc_sim TBracketBegin _ _ Ht). destruct (is_tc TBracketBegin t2).
        + apply IHo; assumption.
        + simpl. split; [|exact Hg2]. split; [exact Ha2|]. split; [reflexivity | auto]. }
    intros [c1 k1] v1 [c2 k2] v2 (Ha3 & Hn3 & Hp3) Hg3. cbn [fst snd] in Ha3, Hn3, Hp3. subst k2.
    cbn beta iota.
    eapply rrel_bind with (R := Rreq m1 c1 c2 v1).
    { destruct (gp_inv _ _ Hg3) as [[-> ->]|(t1 & r1 & t2 & r2 & -> & -> & Ht & Hr)].
      - simpl. split; [|exact gp_nil]. split; [exact Ha3|]. split; [reflexivity|]. split; [cbn [fst snd]; lia | auto].
      - rewrite (is_tc_sim TGroupBegin _ _ Ht). destruct (is_tc TGroupBegin t2).
        + apply IHr; assumption.
        + simpl. split; [|exact Hg3]. split; [exact Ha3|]. split; [reflexivity|]. split; [cbn [fst snd]; lia | auto]. }
    intros [d1 j1] w1 [d2 j2] w2 (Ha4 & Hn4 & Hle4 & Hp4) Hg4. cbn [fst snd] in Ha4, Hn4, Hle4, Hp4.
    cbn beta iota. simpl. split; [|exact Hg4]. split; [exact Ha4|].
    intros Hnr Hnf. eapply pre_fa_fa; [exact Ha4|].
    apply Hp4; [intros _; lia|]. apply Hp3, Hp2; [intros _; exact Hnr|]. apply Hp1. exact Hnf. }
  5: {
    intros nreq nopt sk strict m l1 l2 Hgp Hcmd. simpl.
    rewrite (gp_length _ _ Hgp). destruct (length l2 <? sk)%nat; [reflexivity|].
    pose proof (gp_skipn sk _ _ Hgp) as Hsk.
    destruct (gp_inv _ _ Hsk) as [[E1 E2]|(n1 & r1 & n2 & r2 & E1 & E2 & Hn & Hr)]; rewrite E1, E2.
    { simpl. split; [|exact gp_nil]. split; [reflexivity|]. split; [constructor | reflexivity]. }
    rewrite E1 in Hcmd. unfold cmd_ok in Hcmd. apply andb_true_iff in Hcmd.
    destruct Hcmd as [Hnc Hfl]. apply negb_true_iff in Hnc.
    rewrite <- (text_of_noncomment _ _ Hn Hnc).
    assert (Hnr : forall nr no,
      (if (nreq <? 0)%Z && (nopt <? 0)%Z then signature_of (ttext n1) else (nreq, nopt)) = (nr, no) ->
      (nreq <= 0)%Z -> str_eqb (ttext n1) s_begin || str_eqb (ttext n1) s_end = true -> (nr <= 0)%Z).
    { intros nr no E Hle Hbe. destruct ((nreq <? 0)%Z && (nopt <? 0)%Z).
      - rewrite (begin_end_signature _ Hbe) in E. inversion E. lia.
      - inversion E; subst. exact Hle. }
    destruct (if (nreq <? 0)%Z && (nopt <? 0)%Z then signature_of (ttext n1) else (nreq, nopt))
      as [nr no].
    specialize (Hnr nr no eq_refl).
    eapply rrel_bind; [apply IHa; exact Hr|].
    intros a1 s1 a2 s2 [Ha Hfa] Hs. cbn beta iota. simpl.
    split; [|exact Hs]. split; [reflexivity|]. split; [exact Ha|].
    cbn [fst snd]. intros Hle Hbe. rewrite Hbe in Hfl. apply Hfa; [apply Hnr; assumption | exact Hfl]. }
  4: {
    intros name args1 args2 pos skip strict m acc1 acc2 l1 l2 Hsk Hargs Hacc Hgp. simpl.
    assert (Hstop : forall q1 q2, gp q1 q2 ->
      rrel Rexpr0 (if strict then Err EOFError else Ok (ENamed name args1 acc1 pos, q1))
                  (if strict then Err EOFError else Ok (ENamed name args2 acc2 pos, q2))).
    { intros q1 q2 Hq. destruct strict; simpl; [reflexivity|]. split; [|exact Hq].
      constructor; assumption. }
    destruct (gp_inv _ _ Hgp) as [[-> ->]|(t1 & r1 & t2 & r2 & -> & -> & Ht & Hr)].
    { apply Hstop. exact gp_nil. }
    assert (Hstep : rrel Rexpr0
      (bind (read_expr f skip strict m (t1 :: r1)) (fun '(e, src1) =>
         read_env_loop f name args1 pos skip strict m (acc1 ++ [e]) src1))
      (bind (read_expr f skip strict m (t2 :: r2)) (fun '(e, src1) =>
         read_env_loop f name args2 pos skip strict m (acc2 ++ [e]) src1))).
    { eapply rrel_bind; [apply IHe; assumption|].
      intros e1 s1 e2 s2 [He _] Hs. cbn beta iota. apply IHv; try assumption.
      apply F2_snoc; assumption. }
    rewrite (is_tc_sim TEscape _ _ Ht). destruct (is_tc TEscape t2) eqn:Ee; [|exact Hstep].
    eapply rrel_bind; [apply IHc; [exact Hgp|]|].
    { change (skipn 1 (t1 :: r1)) with r1. eapply ok_side_escape; [apply Hgp|].
      rewrite (is_tc_sim TEscape _ _ Ht). exact Ee. }
    intros [n1 a1] s1 [n2 a2] s2 (Hn & Ha & Hfa) _. cbn [fst snd] in Hn, Ha, Hfa. subst n2.
    cbn beta iota.
    destruct (str_eqb n1 s_end) eqn:Een; [|exact Hstep].
    assert (Hfa' : fa a1 = fa a2) by (apply Hfa; [lia | apply orb_true_r]).
    clear Hfa. rename Hfa' into Hfa.
    destruct Ha as [|x1 x2 y1 y2 Hx Hy]; [apply Hstop; exact Hgp|].
    simpl in Hfa. injection Hfa as Hfa. rewrite Hfa.
    destruct (negb (str_eqb (arg_string x2) name)); [apply Hstop; exact Hgp|].
    pose proof (gp_spacer _ _ (gp_skipn 2 _ _ Hgp)) as [_ Hsp].
    destruct (read_spacer (skipn 2 (t1 :: r1))) as [b1 u1].
    destruct (read_spacer (skipn 2 (t2 :: r2))) as [b2 u2]. simpl in Hsp.
    destruct (gp_inv _ _ Hsp) as [[-> ->]|(c1 & q1 & c2 & q2 & -> & -> & Hc & Hq)]; [reflexivity|].
    eapply rrel_bind; [apply IHg; [exact Hc | exact Hq]|].
    intros g1 w1 g2 w2 _ Hw. cbn beta iota. simpl. split; [|exact Hw]. constructor; assumption. }
  3: {
    intros k pos strict acc1 acc2 l1 l2 Hacc Hgp. simpl.
    destruct (gp_inv _ _ Hgp) as [[-> ->]|(t1 & r1 & t2 & r2 & -> & -> & Ht & Hr)]; [reflexivity|].
    rewrite (is_math_end_sim k _ _ Ht). destruct (is_math_end k t2).
    - simpl. split; [|exact Hr]. constructor. exact Hacc.
    - eapply rrel_bind; [apply IHe; [reflexivity | exact Hgp]|].
      intros e1 s1 e2 s2 [He _] Hs. cbn beta iota. apply IHm; [|exact Hs].
      apply F2_snoc; assumption. }
  2: {
    intros acc1 acc2 l1 l2 Hacc Hgp. simpl.
    destruct (gp_inv _ _ Hgp) as [[-> ->]|(t1 & r1 & t2 & r2 & -> & -> & Ht & Hr)].
    { simpl. split; [exact Hacc | exact gp_nil]. }
    assert (Hstop : rrel Rlist (Ok (acc1, t1 :: r1)) (Ok (acc2, t2 :: r2))).
    { simpl. split; [exact Hacc | exact Hgp]. }
    assert (Hstep : rrel Rlist
      (bind (read_expr f [] true MNonMath (t1 :: r1)) (fun '(e, src1) =>
         read_item_loop f (acc1 ++ [e]) src1))
      (bind (read_expr f [] true MNonMath (t2 :: r2)) (fun '(e, src1) =>
         read_item_loop f (acc2 ++ [e]) src1))).
    { eapply rrel_bind; [apply IHe; [reflexivity | exact Hgp]|].
      intros e1 s1 e2 s2 [He _] Hs. cbn beta iota. apply IHi; [|exact Hs].
      apply F2_snoc; assumption. }
    rewrite (is_tc_sim TEscape _ _ Ht). destruct (is_tc TEscape t2) eqn:Ee.
    - eapply rrel_bind; [apply IHc; [exact Hgp|]|].
      { change (skipn 1 (t1 :: r1)) with r1. eapply ok_side_escape; [apply Hgp|].
        rewrite (is_tc_sim TEscape _ _ Ht). exact Ee. }
      intros [n1 a1] s1 [n2 a2] s2 (Hn & _ & _) _. simpl in Hn. subst n2. cbn beta iota.
      destruct (str_eqb n1 s_end || str_eqb n1 s_item); [exact Hstop | exact Hstep].
    - rewrite (is_tc_sim TGroupEnd _ _ Ht). destruct (is_tc TGroupEnd t2); [exact Hstop | exact Hstep]. }
  intros skip strict m l1 l2 Hsk Hgp.
  destruct (gp_inv _ _ Hgp) as [[-> ->]|(c1 & r1 & c2 & r2 & -> & -> & Hc & Hr)]; [simpl; reflexivity|].
  destruct (is_leaf c1) eqn:Lf.
  { pose proof Lf as Lf2. rewrite (is_leaf_sim _ _ Hc) in Lf2.
    rewrite (read_expr_leaf _ _ _ _ _ _ Lf), (read_expr_leaf _ _ _ _ _ _ Lf2). simpl.
    split; [|exact Hr]. split; [constructor; exact Hc|].
    intros t r Heq _. inversion Heq; subst. split; [|reflexivity]. simpl.
    apply text_of_noncomment; [exact Hc | apply leaf_not_comment; exact Lf]. }
  apply rrel_weaken with (R := Rexpr0).
  2: { intros e1 e2 s He. split; [exact He|]. intros t r Heq Hl. inversion Heq; subst. congruence. }
  simpl. pose proof Hc as (Hcat & Hpos & _). rewrite Hcat, Hpos.
  destruct (math_kind_of_begin (tcat c2)) as [k|].
  { apply IHm; [constructor | exact Hr]. }
  rewrite (is_tc_sim TEscape _ _ Hc). destruct (is_tc TEscape c2) eqn:Ee.
  2: { rewrite (is_tc_sim TGroupBegin _ _ Hc). destruct (is_tc TGroupBegin c2).
       - eapply rrel_weaken; [apply IHg; [exact Hc | exact Hr]|]. intros e1 e2 s [He _]; exact He.
       - simpl. split; [|exact Hr]. constructor. exact Hc. }
  eapply rrel_bind; [apply IHc; [exact Hr|]|].
  { change (skipn 0 r1) with r1. eapply ok_side_escape; [apply Hgp|].
    rewrite (is_tc_sim TEscape _ _ Hc). exact Ee. }
  intros [n1 a1] s1 [n2 a2] s2 (Hn & Ha & Hfa) Hs. cbn [fst snd] in Hn, Ha, Hfa. subst n2.
  cbn beta iota.
  destruct (str_eqb n1 s_item).
  { destruct (mode_is_math m); [reflexivity|].
    eapply rrel_bind; [apply IHi; [constructor | exact Hs]|].
    intros b1 u1 b2 u2 Hb Hu. cbn beta iota. simpl. split; [|exact Hu]. constructor; assumption. }
  destruct (str_eqb n1 s_begin && negb (mode_is_special m)) eqn:Eb.
  2: { simpl. split; [|exact Hs]. constructor; [exact Ha | constructor]. }
  apply andb_true_iff in Eb. destruct Eb as [Eb _].
  assert (Hfa' : fa a1 = fa a2) by (apply Hfa; [lia | rewrite Eb; reflexivity]).
  clear Hfa. rename Hfa' into Hfa.
  destruct Ha as [|x1 x2 y1 y2 Hx Hy]; [reflexivity|].
  simpl in Hfa. injection Hfa as Hfa. rewrite Hfa.
  destruct (mem_str (strip (arg_string x2)) skip) eqn:Em.
  - apply read_skip_env_sim; [eapply skip_ok_mem; eassumption | exact Hy | exact Hs].
  - apply IHv; try assumption. constructor.
Qed.

(* ------------------------------------------------ public (res_sim) forms *)

Lemma rrel_res_sim {A} (R : A -> A -> list token -> Prop) (R' : A -> A -> Prop) r1 r2 :
  rrel R r1 r2 -> (forall v1 v2 s, R v1 v2 s -> R' v1 v2) -> res_sim R' r1 r2.
Proof.
  destruct r1 as [[v1 s1]|e1], r2 as [[v2 s2]|e2]; simpl; try tauto.
  intros [HR Hg] Hk. split; [eapply Hk; exact HR | apply gp_sim; exact Hg].
Qed.

Definition name_args_sim (v1 v2 : str * list expr) : Prop :=
  fst v1 = fst v2 /\ Forall2 expr_sim (snd v1) (snd v2).
Definition args_n_sim (v1 v2 : list expr * Z) : Prop :=
  Forall2 expr_sim (fst v1) (fst v2) /\ snd v1 = snd v2.

(* the structural part of ok_side depends only on what tok_sim preserves *)
Lemma spacer_sim l1 l2 : Forall2 tok_sim l1 l2 ->
  Forall2 tok_sim (snd (read_spacer l1)) (snd (read_spacer l2)).
Proof.
  intro H. destruct H as [|t1 t2 r1 r2 Ht Hr]; [constructor|].
  unfold read_spacer. rewrite (is_tc_sim _ _ _ Ht).
  destruct (is_tc TMergedSpacer t2); simpl; [exact Hr | constructor; assumption].
Qed.

Lemma flat_sim k l1 l2 : Forall2 tok_sim l1 l2 -> flat k l1 = flat k l2.
Proof.
  induction 1 as [|t1 t2 r1 r2 Ht Hr IH]; [reflexivity|]. simpl.
  rewrite (is_group_end_sim k _ _ Ht), (is_leaf_sim _ _ Ht), IH. reflexivity.
Qed.

Lemma name_flat_sim l1 l2 : Forall2 tok_sim l1 l2 -> name_flat l1 = name_flat l2.
Proof.
  intro H. apply spacer_sim in H. unfold name_flat.
  destruct H as [|c1 c2 r1 r2 Hc Hr]; [reflexivity|].
  unfold flat_open. destruct Hc as (Hcat & _). rewrite Hcat.
  destruct (group_kind_of_begin (tcat c2)); [rewrite (flat_sim _ _ _ Hr)|]; reflexivity.
Qed.

Lemma cmd_ok_sim l1 l2 : Forall2 tok_sim l1 l2 -> cmd_ok l1 = cmd_ok l2.
Proof.
  intro H. destruct H as [|n1 n2 r1 r2 Hn Hr]; [reflexivity|]. unfold cmd_ok.
  rewrite <- (is_tc_sim TComment _ _ Hn). destruct (is_tc TComment n1) eqn:Ec; [reflexivity|].
  rewrite (text_of_noncomment _ _ Hn Ec), (name_flat_sim _ _ Hr). reflexivity.
Qed.

Lemma ok_struct_sim l1 l2 : Forall2 tok_sim l1 l2 -> ok_struct l1 = ok_struct l2.
Proof.
  induction 1 as [|t1 t2 r1 r2 Ht Hr IH]; [reflexivity|]. simpl.
  rewrite (is_tc_sim _ _ _ Ht), (cmd_ok_sim _ _ Hr), IH. reflexivity.
Qed.

Lemma gp_of l1 l2 :
  Forall2 tok_sim l1 l2 -> ok_side l1 = true -> forallb comment_wf l2 = true -> gp l1 l2.
Proof.
  intros H O1 W2. split; [exact H|]. split; [exact O1|].
  unfold ok_side in *. rewrite <- (ok_struct_sim _ _ H), W2.
  apply andb_true_iff in O1. destruct O1 as [-> _]. reflexivity.
Qed.

(* every reader function, every fuel *)
Theorem reader_parametric_all f :
  (forall skip strict m l1 l2, skip_ok skip = true -> gp l1 l2 ->
     res_sim expr_sim (read_expr f skip strict m l1) (read_expr f skip strict m l2)) /\
  (forall acc1 acc2 l1 l2, Forall2 expr_sim acc1 acc2 -> gp l1 l2 ->
     res_sim (Forall2 expr_sim) (read_item_loop f acc1 l1) (read_item_loop f acc2 l2)) /\
  (forall k pos strict acc1 acc2 l1 l2, Forall2 expr_sim acc1 acc2 -> gp l1 l2 ->
     res_sim expr_sim (read_math_loop f k pos strict acc1 l1) (read_math_loop f k pos strict acc2 l2)) /\
  (forall name args1 args2 pos skip strict m acc1 acc2 l1 l2,
     skip_ok skip = true -> Forall2 expr_sim args1 args2 -> Forall2 expr_sim acc1 acc2 -> gp l1 l2 ->
     res_sim expr_sim (read_env_loop f name args1 pos skip strict m acc1 l1)
                      (read_env_loop f name args2 pos skip strict m acc2 l2)) /\
  (forall nreq nopt sk strict m l1 l2, gp l1 l2 -> cmd_ok (skipn sk l1) = true ->
     res_sim name_args_sim (read_command f nreq nopt sk strict m l1)
                           (read_command f nreq nopt sk strict m l2)) /\
  (forall nreq nopt strict m l1 l2, gp l1 l2 ->
     res_sim (Forall2 expr_sim) (read_args f nreq nopt strict m l1) (read_args f nreq nopt strict m l2)) /\
  (forall acc1 acc2 nopt strict m l1 l2, Forall2 expr_sim acc1 acc2 -> gp l1 l2 ->
     res_sim args_n_sim (read_arg_optional f acc1 nopt strict m l1)
                        (read_arg_optional f acc2 nopt strict m l2)) /\
  (forall acc1 acc2 nreq strict m l1 l2, Forall2 expr_sim acc1 acc2 -> gp l1 l2 ->
     res_sim args_n_sim (read_arg_required f acc1 nreq strict m l1)
                        (read_arg_required f acc2 nreq strict m l2)) /\
  (forall c1 c2 strict m l1 l2, tok_sim c1 c2 -> gp l1 l2 ->
     res_sim expr_sim (read_arg f c1 strict m l1) (read_arg f c2 strict m l2)) /\
  (forall k pos strict m acc1 acc2 l1 l2, Forall2 expr_sim acc1 acc2 -> gp l1 l2 ->
     res_sim expr_sim (read_arg_loop f k pos strict m acc1 l1) (read_arg_loop f k pos strict m acc2 l2)).
Proof.
  destruct (P_all_holds f) as (He & Hi & Hm & Hv & Hc & Ha & Ho & Hr & Hg & Hl).
  repeat match goal with |- _ /\ _ => split end; intros.
  - eapply rrel_res_sim; [apply He; assumption|]. intros v1 v2 s [HH _]; exact HH.
  - eapply rrel_res_sim; [apply Hi; assumption|]. intros v1 v2 s HH; exact HH.
  - eapply rrel_res_sim; [apply Hm; assumption|]. intros v1 v2 s HH; exact HH.
  - eapply rrel_res_sim; [apply Hv; assumption|]. intros v1 v2 s HH; exact HH.
  - eapply rrel_res_sim; [apply Hc; assumption|]. intros v1 v2 s (HH1 & HH2 & _); split; assumption.
  - eapply rrel_res_sim; [apply Ha; assumption|]. intros v1 v2 s [HH _]; exact HH.
  - eapply rrel_res_sim; [apply Ho; assumption|]. intros v1 v2 s (HH1 & HH2 & _); split; assumption.
  - eapply rrel_res_sim; [apply Hr; assumption|]. intros v1 v2 s (HH1 & HH2 & _); split; assumption.
  - eapply rrel_res_sim; [apply Hg; assumption|]. intros v1 v2 s [HH _]; exact HH.
  - eapply rrel_res_sim; [apply Hl; assumption|]. intros v1 v2 s [HH _]; exact HH.
Qed.

(* the headline form: read_expr *)
Theorem reader_parametric f skip strict m toks1 toks2 :
  Forall2 tok_sim toks1 toks2 ->
  ok_side toks1 = true -> forallb comment_wf toks2 = true -> skip_ok skip = true ->
  res_sim expr_sim (read_expr f skip strict m toks1) (read_expr f skip strict m toks2).
Proof.
  intros H O1 W2 Hs. apply (proj1 (reader_parametric_all f)); [exact Hs | apply gp_of; assumption].
Qed.

Lemma read_tex_loop_par efuel skip strict fuel : forall acc1 acc2 l1 l2,
  skip_ok skip = true -> Forall2 expr_sim acc1 acc2 -> gp l1 l2 ->
  res_sim0 (Forall2 expr_sim) (read_tex_loop fuel efuel skip strict acc1 l1)
                              (read_tex_loop fuel efuel skip strict acc2 l2).
Proof.
  induction fuel as [|fu IH]; intros acc1 acc2 l1 l2 Hs Hacc Hgp; [reflexivity|]. simpl.
  destruct (gp_inv _ _ Hgp) as [[-> ->]|(t1 & r1 & t2 & r2 & -> & -> & Ht & Hr)]; [exact Hacc|].
  pose proof (proj1 (P_all_holds efuel) skip strict MNonMath _ _ Hs Hgp) as H.
  destruct (read_expr efuel skip strict MNonMath (t1 :: r1)) as [[e1 s1]|x1];
    destruct (read_expr efuel skip strict MNonMath (t2 :: r2)) as [[e2 s2]|x2];
    simpl in H |- *; try contradiction; [|exact H].
  destruct H as [[He _] Hg]. apply IH; [exact Hs | apply F2_snoc; assumption | exact Hg].
Qed.

Lemma skip_env_names_ok : skip_ok Tables.skip_env_names = true.
Proof. vm_compute. reflexivity. Qed.

Lemma skip_ok_app a b : skip_ok (a ++ b) = skip_ok a && skip_ok b.
Proof. unfold skip_ok. apply forallb_app. Qed.

Theorem parse_tokens_par toks1 toks2 strict user_skip :
  Forall2 tok_sim toks1 toks2 ->
  ok_side toks1 = true -> forallb comment_wf toks2 = true -> skip_ok user_skip = true ->
  res_sim0 expr_sim (parse_tokens toks1 strict user_skip) (parse_tokens toks2 strict user_skip).
Proof.
  intros H O1 W2 Hs. pose proof (gp_of _ _ H O1 W2) as Hgp.
  unfold parse_tokens, fuel_for. rewrite (gp_length _ _ Hgp).
  assert (Hsk : skip_ok (Tables.skip_env_names ++ user_skip) = true).
  { rewrite skip_ok_app, skip_env_names_ok, Hs. reflexivity. }
  pose proof (read_tex_loop_par (4 * length toks2 + 8) _ strict (S (length toks2)) [] [] _ _ Hsk
                (Forall2_nil _) Hgp) as HR.
  destruct (read_tex_loop _ _ _ _ _ toks1) as [b1|x1];
    destruct (read_tex_loop _ _ _ _ _ toks2) as [b2|x2]; simpl in HR |- *; try contradiction.
  - constructor. exact HR.
  - exact HR.
Qed.

(* ------------------------------------ a Comment token is an inert leaf *)

Lemma comment_cats :
  math_kind_of_begin TComment = None /\ group_kind_of_begin TComment = None /\
  (forall k, group_tok_end k <> Some TComment) /\ (forall k, math_tok_end k <> Some TComment).
Proof.
  split; [vm_compute; reflexivity|]. split; [vm_compute; reflexivity|].
  split; intro k; destruct k; vm_compute; discriminate.
Qed.

Lemma is_tc_of_cat k t c : tcat t = c -> is_tc k t = tc_beq c k.
Proof. intros <-. reflexivity. Qed.

Theorem comment_cannot_close t :
  tcat t = TComment ->
  (forall k, is_group_end k t = false) /\ (forall k, is_math_end k t = false) /\
  is_tc TEscape t = false /\ is_tc TGroupEnd t = false /\
  is_tc TGroupBegin t = false /\ is_tc TBracketBegin t = false /\ is_tc TMergedSpacer t = false /\
  math_kind_of_begin (tcat t) = None /\ group_kind_of_begin (tcat t) = None.
Proof.
  intro H. destruct comment_cats as (Hm & Hg & Hge & Hme).
  split; [|split].
  - intro k. unfold is_group_end. specialize (Hge k). destruct (group_tok_end k) as [e|]; [|reflexivity].
    rewrite (is_tc_of_cat _ _ _ H). destruct e; try reflexivity. congruence.
  - intro k. unfold is_math_end. specialize (Hme k). destruct (math_tok_end k) as [e|]; [|reflexivity].
    rewrite (is_tc_of_cat _ _ _ H). destruct e; try reflexivity. congruence.
  - rewrite !(is_tc_of_cat _ _ _ H), H. repeat split; try reflexivity; assumption.
Qed.

Theorem comment_is_leaf f skip strict m t rest :
  tcat t = TComment -> read_expr (S f) skip strict m (t :: rest) = Ok (EText t, rest).
Proof.
  intro H. destruct (comment_cannot_close t H) as (_ & _ & He & _ & Hg & _ & _ & Hm & _).
  simpl. rewrite Hm, He, Hg. reflexivity.
Qed.

(* in each of the four loops a Comment token is appended as one leaf and the
   loop goes on: it closes nothing *)
Theorem comment_inert_arg_loop f k pos strict m acc t rest :
  tcat t = TComment ->
  read_arg_loop (S (S f)) k pos strict m acc (t :: rest) =
  read_arg_loop (S f) k pos strict m (acc ++ [EText t]) rest.
Proof.
  intro H. destruct (comment_cannot_close t H) as (Hge & _).
  remember (S f) as g eqn:Eg. simpl. rewrite Hge. subst g.
  rewrite (comment_is_leaf _ _ _ _ _ _ H). reflexivity.
Qed.

Theorem comment_inert_math_loop f k pos strict acc t rest :
  tcat t = TComment ->
  read_math_loop (S (S f)) k pos strict acc (t :: rest) =
  read_math_loop (S f) k pos strict (acc ++ [EText t]) rest.
Proof.
  intro H. destruct (comment_cannot_close t H) as (_ & Hme & _).
  remember (S f) as g eqn:Eg. simpl. rewrite Hme. subst g.
  rewrite (comment_is_leaf _ _ _ _ _ _ H). reflexivity.
Qed.

Theorem comment_inert_env_loop f name args pos skip strict m acc t rest :
  tcat t = TComment ->
  read_env_loop (S (S f)) name args pos skip strict m acc (t :: rest) =
  read_env_loop (S f) name args pos skip strict m (acc ++ [EText t]) rest.
Proof.
  intro H. destruct (comment_cannot_close t H) as (_ & _ & He & _).
  remember (S f) as g eqn:Eg. simpl. rewrite He. subst g.
  rewrite (comment_is_leaf _ _ _ _ _ _ H). reflexivity.
Qed.

Theorem comment_inert_item_loop f acc t rest :
  tcat t = TComment ->
  read_item_loop (S (S f)) acc (t :: rest) = read_item_loop (S f) (acc ++ [EText t]) rest.
Proof.
  intro H. destruct (comment_cannot_close t H) as (_ & _ & He & Hg & _).
  remember (S f) as g eqn:Eg. simpl. rewrite He, Hg. subst g.
  rewrite (comment_is_leaf _ _ _ _ _ _ H). reflexivity.
Qed.

(* --------------------------------------------- boolean checks for examples *)

Definition tok_simb (t1 t2 : token) : bool :=
  tc_beq (tcat t1) (tcat t2) && Z.eqb (tpos t1) (tpos t2) &&
  (is_tc TComment t1 || str_eqb (ttext t1) (ttext t2)).

Lemma tok_simb_ok t1 t2 : tok_simb t1 t2 = true -> tok_sim t1 t2.
Proof.
  unfold tok_simb. intro H. apply andb_true_iff in H. destruct H as [H Ht].
  apply andb_true_iff in H. destruct H as [Hc Hp].
  apply tc_eqb_eq in Hc. apply Z.eqb_eq in Hp. split; [exact Hc|]. split; [exact Hp|].
  intro Hn. apply orb_true_iff in Ht. destruct Ht as [Ht|Ht].
  - unfold is_tc in Ht. apply tc_eqb_eq in Ht. contradiction.
  - apply str_eqb_eq. exact Ht.
Qed.

Fixpoint toks_simb (l1 l2 : list token) : bool :=
  match l1, l2 with
  | [], [] => true
  | a :: l, b :: l' => tok_simb a b && toks_simb l l'
  | _, _ => false
  end.

Lemma toks_simb_ok l1 l2 : toks_simb l1 l2 = true -> Forall2 tok_sim l1 l2.
Proof.
  revert l2; induction l1 as [|a l IH]; destruct l2 as [|b l']; simpl; intro H;
    try discriminate; [constructor|].
  apply andb_true_iff in H. destruct H as [H1 H2].
  constructor; [apply tok_simb_ok; exact H1 | apply IH; exact H2].
Qed.

(* ------------------------------------------------ examples and witnesses *)

Lemma expr_sim_root_inv b1 b2 : expr_sim (ERoot b1) (ERoot b2) -> Forall2 expr_sim b1 b2.
Proof. intro H. inversion H; subst. assumption. Qed.

Lemma expr_sim_cmd_name n1 a1 b1 p1 n2 a2 b2 p2 :
  expr_sim (ECmd n1 a1 b1 p1) (ECmd n2 a2 b2 p2) -> n1 = n2.
Proof. intro H. inversion H; subst. reflexivity. Qed.

Lemma F2_length {A} (R : A -> A -> Prop) l1 l2 : Forall2 R l1 l2 -> length l1 = length l2.
Proof. induction 1; simpl; congruence. Qed.

(* \a{x %}{$⏎ y}   and   \a{x %zzz⏎ y} *)
Definition exA : str := [92;97;123;120;32;37;125;123;36;10;32;121;125]%N.
Definition exB : str := [92;97;123;120;32;37;122;122;122;10;32;121;125]%N.
(* \begin{itemize}%c⏎\item a%x⏎\end{itemize}   and the same with %d, %y *)
Definition exC : str :=
  [92;98;101;103;105;110;123;105;116;101;109;105;122;101;125;37;99;10;
   92;105;116;101;109;32;97;37;120;10;
   92;101;110;100;123;105;116;101;109;105;122;101;125]%N.
Definition exD : str :=
  [92;98;101;103;105;110;123;105;116;101;109;105;122;101;125;37;100;10;
   92;105;116;101;109;32;97;37;121;10;
   92;101;110;100;123;105;116;101;109;105;122;101;125]%N.
(* \begin{verbatim}a%x⏎\end{verbatim}b   and the same with %y *)
Definition exE : str :=
  [92;98;101;103;105;110;123;118;101;114;98;97;116;105;109;125;97;37;120;10;
   92;101;110;100;123;118;101;114;98;97;116;105;109;125;98]%N.
Definition exF : str :=
  [92;98;101;103;105;110;123;118;101;114;98;97;116;105;109;125;97;37;121;10;
   92;101;110;100;123;118;101;114;98;97;116;105;109;125;98]%N.

Definition example_ok (s1 s2 : str) (strict : bool) : Prop :=
  let l1 := fst (tokens_of_string s1) in
  let l2 := fst (tokens_of_string s2) in
  Forall2 tok_sim l1 l2 /\ ok_side l1 = true /\ forallb comment_wf l2 = true /\
  exists t1 t2, parse_tokens l1 strict [] = Ok t1 /\ parse_tokens l2 strict [] = Ok t2 /\
                t1 <> t2 /\ expr_sim t1 t2.

Lemma example_ok_from s1 s2 strict t1 t2 :
  toks_simb (fst (tokens_of_string s1)) (fst (tokens_of_string s2)) = true ->
  ok_side (fst (tokens_of_string s1)) = true ->
  forallb comment_wf (fst (tokens_of_string s2)) = true ->
  parse_tokens (fst (tokens_of_string s1)) strict [] = Ok t1 ->
  parse_tokens (fst (tokens_of_string s2)) strict [] = Ok t2 ->
  t1 <> t2 -> example_ok s1 s2 strict.
Proof.
  intros H1 H2 H3 E1 E2 Hne. apply toks_simb_ok in H1. unfold example_ok.
  split; [exact H1|]. split; [exact H2|]. split; [exact H3|].
  exists t1, t2. split; [exact E1|]. split; [exact E2|]. split; [exact Hne|].
  pose proof (parse_tokens_par _ _ strict [] H1 H2 H3 eq_refl) as HP.
  rewrite E1, E2 in HP. exact HP.
Qed.

Ltac example_tac :=
  eapply example_ok_from;
  [vm_compute; reflexivity | vm_compute; reflexivity | vm_compute; reflexivity
   | vm_compute; reflexivity | vm_compute; reflexivity | let E := fresh in intro E; discriminate E].

Example ex_group : example_ok exA exB true.
Proof. example_tac. Qed.
Example ex_item_env : example_ok exC exD true.
Proof. example_tac. Qed.
Example ex_verbatim : example_ok exE exF true.
Proof. example_tac. Qed.
Example ex_group_tolerant : example_ok exA exB false.
Proof. example_tac. Qed.

(* Without condition (4) the statement is false.  ok_side_weak is ok_side
   minus the name-group clause. *)
Definition cmd_ok_weak (l : list token) : bool :=
  match l with n :: _ => negb (is_tc TComment n) | [] => true end.
Fixpoint ok_struct_weak (toks : list token) : bool :=
  match toks with
  | [] => true
  | e :: r => (if is_tc TEscape e then cmd_ok_weak r else true) && ok_struct_weak r
  end.
Definition ok_side_weak (toks : list token) : bool :=
  ok_struct_weak toks && forallb comment_wf toks.

(* \begin{a%x⏎b}c\end{a%x⏎b}   and   \begin{a%y⏎b}c\end{a%x⏎b} *)
Definition refW1 : str :=
  [92;98;101;103;105;110;123;97;37;120;10;98;125;99;92;101;110;100;123;97;37;120;10;98;125]%N.
Definition refW2 : str :=
  [92;98;101;103;105;110;123;97;37;121;10;98;125;99;92;101;110;100;123;97;37;120;10;98;125]%N.

Theorem unrestricted_refuted :
  exists s1 s2 : str,
    let l1 := fst (tokens_of_string s1) in
    let l2 := fst (tokens_of_string s2) in
    Forall2 tok_sim l1 l2 /\ ok_side_weak l1 = true /\ ok_side_weak l2 = true /\
    (exists t, parse_tokens l1 true [] = Ok t) /\ parse_tokens l2 true [] = Err EOFError /\
    ~ res_sim0 expr_sim (parse_tokens l1 true []) (parse_tokens l2 true []) /\
    ~ res_sim0 expr_sim (parse_tokens l1 false []) (parse_tokens l2 false []).
Proof.
  exists refW1, refW2. intros l1 l2.
  split; [apply toks_simb_ok; vm_compute; reflexivity|].
  split; [vm_compute; reflexivity|]. split; [vm_compute; reflexivity|].
  split; [eexists; vm_compute; reflexivity|]. split; [vm_compute; reflexivity|].
  split.
  - vm_compute. intro H; exact H.
  - intro H. vm_compute in H. apply expr_sim_root_inv, F2_length in H. discriminate H.
Qed.

(* the other clauses of the side condition are needed too (token-level
   witnesses; the first two are not tokenizer outputs) *)

(* (1) a Comment token directly after an Escape becomes the command name *)
Theorem escape_comment_needed :
  let l1 := [mkt [92%N] 0 TEscape; mkt [37; 97]%N 1 TComment] in
  let l2 := [mkt [92%N] 0 TEscape; mkt [37; 98]%N 1 TComment] in
  Forall2 tok_sim l1 l2 /\ forallb comment_wf l1 = true /\ forallb comment_wf l2 = true /\
  ~ res_sim0 expr_sim (parse_tokens l1 true []) (parse_tokens l2 true []).
Proof.
  intros l1 l2. split; [apply toks_simb_ok; vm_compute; reflexivity|].
  split; [vm_compute; reflexivity|]. split; [vm_compute; reflexivity|].
  intro H. vm_compute in H. apply expr_sim_root_inv in H. inversion H as [|x y l l' Hx Hl]; subst.
  apply expr_sim_cmd_name in Hx. discriminate Hx.
Qed.

(* (3a) a skip name containing '%': the match of \end{a%b} depends on a payload *)
Theorem skip_names_needed :
  let pre := [mkt [92%N] 0 TEscape; mkt s_begin 1 TCommandName; mkt [123%N] 6 TGroupBegin;
              mkt [97; 37; 98]%N 7 TText; mkt [125%N] 10 TGroupEnd;
              mkt [92; 101; 110; 100; 123; 97]%N 11 TText] in
  let l1 := pre ++ [mkt [37; 98; 125]%N 17 TComment] in
  let l2 := pre ++ [mkt [37; 99; 125]%N 17 TComment] in
  Forall2 tok_sim l1 l2 /\ ok_side l1 = true /\ ok_side l2 = true /\
  ~ res_sim0 expr_sim (parse_tokens l1 true [[97; 37; 98]%N]) (parse_tokens l2 true [[97; 37; 98]%N]).
Proof.
  intros pre l1 l2. split; [apply toks_simb_ok; vm_compute; reflexivity|].
  split; [vm_compute; reflexivity|]. split; [vm_compute; reflexivity|].
  vm_compute. intro H; exact H.
Qed.

(* (3b) a Comment token that does not begin with '%' *)
Theorem comment_wf_needed :
  let pre := [mkt [92%N] 0 TEscape; mkt s_begin 1 TCommandName; mkt [123%N] 6 TGroupBegin;
              mkt [118%N] 7 TText; mkt [125%N] 8 TGroupEnd] in
  let l1 := pre ++ [mkt [37; 101; 110; 100; 123; 118; 125]%N 9 TComment] in
  let l2 := pre ++ [mkt [92; 101; 110; 100; 123; 118; 125]%N 9 TComment] in
  Forall2 tok_sim l1 l2 /\ ok_side l1 = true /\ ok_struct l2 = true /\
  ~ res_sim0 expr_sim (parse_tokens l1 true [[118%N]]) (parse_tokens l2 true [[118%N]]).
Proof.
  intros pre l1 l2. split; [apply toks_simb_ok; vm_compute; reflexivity|].
  split; [vm_compute; reflexivity|]. split; [vm_compute; reflexivity|].
  vm_compute. intro H; exact H.
Qed.
