(* C10, reader half: the reader is parametric in the text of Comment tokens.

   Two token lists that agree on every token's category and position, and on
   the text of every token that is not a Comment, are read to trees of
   identical shape (relation expr_sim) or to the same error - by every reader
   function, at every fuel, in every mode, strictness and skip list - provided
   the side condition ok_side holds.  The side condition names exactly the
   places where the reader looks at token TEXT:
     (1) the token after an Escape is the command name        -> not a Comment;
     (2) a bare-token argument becomes an EStr                 -> any string is
         related to any string (shape only);
     (3) read_skip_env joins token texts and tests startswith('\end{name}')
         -> every Comment token starts with '%', and no name in the skip list
         contains '%';
     (4) the environment name is the string of the first argument of
         \begin / \end -> that argument is a "flat" group without Comment
         token (name_flat).
   Without (4) the statement is false: see C10_unrestricted_refuted. *)
From Coq Require Import List NArith ZArith Bool Lia.
From TexModel Require Import Base Tables Chars Tokenizer Tree Reader.
From TexProofs Require Import ReaderLen.
Import ListNotations.

(* ------------------------------------------------------------ relations *)

Definition tok_sim (t1 t2 : token) : Prop :=
  tcat t1 = tcat t2 /\ tpos t1 = tpos t2 /\ (tcat t1 <> TComment -> ttext t1 = ttext t2).

Inductive expr_sim : expr -> expr -> Prop :=
| ES_Text t1 t2 : tok_sim t1 t2 -> expr_sim (EText t1) (EText t2)
| ES_Raw s1 s2 p : expr_sim (ERaw s1 p) (ERaw s2 p)
| ES_Str s1 s2 : expr_sim (EStr s1) (EStr s2)
| ES_Cmd n a1 a2 b1 b2 p :
    Forall2 expr_sim a1 a2 -> Forall2 expr_sim b1 b2 -> expr_sim (ECmd n a1 b1 p) (ECmd n a2 b2 p)
| ES_Named n a1 a2 b1 b2 p :
    Forall2 expr_sim a1 a2 -> Forall2 expr_sim b1 b2 ->
    expr_sim (ENamed n a1 b1 p) (ENamed n a2 b2 p)
| ES_Math k b1 b2 p : Forall2 expr_sim b1 b2 -> expr_sim (EMath k b1 p) (EMath k b2 p)
| ES_Group k b1 b2 p : Forall2 expr_sim b1 b2 -> expr_sim (EGroup k b1 p) (EGroup k b2 p)
| ES_Root b1 b2 : Forall2 expr_sim b1 b2 -> expr_sim (ERoot b1) (ERoot b2).

(* results that carry the unread suffix *)
Definition res_sim {A} (R : A -> A -> Prop) (r1 r2 : res (A * list token)) : Prop :=
  match r1, r2 with
  | Ok (v1, s1), Ok (v2, s2) => R v1 v2 /\ Forall2 tok_sim s1 s2
  | Err e1, Err e2 => e1 = e2
  | _, _ => False
  end.

(* results without suffix (read_tex_loop, parse_tokens) *)
Definition res_sim0 {A} (R : A -> A -> Prop) (r1 r2 : res A) : Prop :=
  match r1, r2 with
  | Ok v1, Ok v2 => R v1 v2
  | Err e1, Err e2 => e1 = e2
  | _, _ => False
  end.

(* --------------------------------------------------------- side condition *)

(* the comment character, read off the category table below *)
Definition comment_char : N := 37%N.

Lemma comment_char_is_comment : categorize_char comment_char = CComment.
Proof. vm_compute. reflexivity. Qed.

(* a Comment token begins with the comment character (every Comment token the
   tokenizer makes is  ch c0 :: body  with c0 of category Comment) *)
Definition comment_wf (t : token) : bool :=
  if is_tc TComment t
  then match ttext t with c :: _ => N.eqb c comment_char | [] => false end
  else true.

(* tokens read_expr turns into one EText leaf, Comment excluded *)
Definition is_leaf (t : token) : bool :=
  negb (is_tc TComment t) && negb (is_tc TEscape t) && negb (is_tc TGroupBegin t) &&
  match math_kind_of_begin (tcat t) with None => true | Some _ => false end.

(* up to the first closing token of kind k: leaves only *)
Fixpoint flat (k : groupkind) (toks : list token) : bool :=
  match toks with
  | [] => true
  | t :: r => if is_group_end k t then true else is_leaf t && flat k r
  end.

Definition flat_open (c : token) (toks : list token) : bool :=
  match group_kind_of_begin (tcat c) with Some k => flat k toks | None => true end.

(* what follows the name of \begin / \end: [spacer] then a flat group, or a
   token that is not a Comment *)
Definition name_flat (toks : list token) : bool :=
  match snd (read_spacer toks) with
  | c :: r => if is_tc TGroupBegin c || is_tc TBracketBegin c then flat_open c r
              else negb (is_tc TComment c)
  | [] => true
  end.

(* what follows an Escape token *)
Definition cmd_ok (l : list token) : bool :=
  match l with
  | n :: r => negb (is_tc TComment n) &&
              (if str_eqb (ttext n) s_begin || str_eqb (ttext n) s_end then name_flat r else true)
  | [] => true
  end.

Fixpoint ok_struct (toks : list token) : bool :=
  match toks with
  | [] => true
  | e :: r => (if is_tc TEscape e then cmd_ok r else true) && ok_struct r
  end.

Definition ok_side (toks : list token) : bool :=
  ok_struct toks && forallb comment_wf toks.

Definition no_pct (s : str) : bool := forallb (fun c => negb (N.eqb c comment_char)) s.
Definition skip_ok (skip : list str) : bool := forallb no_pct skip.

Arguments is_leaf : simpl never.
Arguments name_flat : simpl never.
Arguments flat_open : simpl never.
Arguments cmd_ok : simpl never.
Arguments comment_wf : simpl never.
Arguments ok_side : simpl never.
Arguments no_pct : simpl never.
Arguments skip_ok : simpl never.

(* a good pair of token lists *)
Definition gp (l1 l2 : list token) : Prop :=
  Forall2 tok_sim l1 l2 /\ ok_side l1 = true /\ ok_side l2 = true.

(* ------------------------------------------------------- basic lemmas *)

Lemma tok_sim_refl t : tok_sim t t.
Proof. repeat split. Qed.

Lemma is_tc_sim k t1 t2 : tok_sim t1 t2 -> is_tc k t1 = is_tc k t2.
Proof. intros (H & _). unfold is_tc. rewrite H. reflexivity. Qed.

Lemma is_group_end_sim k t1 t2 : tok_sim t1 t2 -> is_group_end k t1 = is_group_end k t2.
Proof. intro H. unfold is_group_end. destruct (group_tok_end k); [apply is_tc_sim; exact H | reflexivity]. Qed.

Lemma is_math_end_sim k t1 t2 : tok_sim t1 t2 -> is_math_end k t1 = is_math_end k t2.
Proof. intro H. unfold is_math_end. destruct (math_tok_end k); [apply is_tc_sim; exact H | reflexivity]. Qed.

Lemma is_leaf_sim t1 t2 : tok_sim t1 t2 -> is_leaf t1 = is_leaf t2.
Proof.
  intro H. unfold is_leaf. rewrite !(is_tc_sim _ _ _ H). destruct H as (H & _). rewrite H. reflexivity.
Qed.

Lemma text_of_noncomment t1 t2 :
  tok_sim t1 t2 -> is_tc TComment t1 = false -> ttext t1 = ttext t2.
Proof.
  intros (_ & _ & H) Hc. apply H. intro E. unfold is_tc in Hc. rewrite E in Hc. discriminate.
Qed.

Lemma leaf_not_comment t : is_leaf t = true -> is_tc TComment t = false.
Proof.
  unfold is_leaf. intro H. repeat (apply andb_true_iff in H; destruct H as [H ?]).
  apply negb_true_iff in H. exact H.
Qed.

Lemma ok_side_tail t l : ok_side (t :: l) = true -> ok_side l = true.
Proof.
  unfold ok_side. simpl. intro H.
  apply andb_true_iff in H. destruct H as [H1 H2].
  apply andb_true_iff in H1. destruct H1 as [_ H1].
  apply andb_true_iff in H2. destruct H2 as [_ H2].
  rewrite H1, H2. reflexivity.
Qed.

Lemma ok_side_skipn n l : ok_side l = true -> ok_side (skipn n l) = true.
Proof.
  revert l; induction n as [|n IH]; intros l H; [exact H|].
  destruct l as [|t l]; [exact H|]. change (skipn (S n) (t :: l)) with (skipn n l).
  apply IH. eapply ok_side_tail; exact H.
Qed.

Lemma ok_side_escape t l : ok_side (t :: l) = true -> is_tc TEscape t = true -> cmd_ok l = true.
Proof.
  unfold ok_side. simpl. intros H He. rewrite He in H.
  apply andb_true_iff in H. destruct H as [H _].
  apply andb_true_iff in H. destruct H as [H _]. exact H.
Qed.

Lemma ok_side_wf t l : ok_side (t :: l) = true -> comment_wf t = true.
Proof.
  unfold ok_side. simpl. intro H.
  apply andb_true_iff in H. destruct H as [_ H].
  apply andb_true_iff in H. destruct H as [H _]. exact H.
Qed.

Lemma gp_nil : gp [] [].
Proof. split; [constructor | split; reflexivity]. Qed.

Lemma gp_inv l1 l2 : gp l1 l2 ->
  (l1 = [] /\ l2 = []) \/
  (exists t1 r1 t2 r2, l1 = t1 :: r1 /\ l2 = t2 :: r2 /\ tok_sim t1 t2 /\ gp r1 r2).
Proof.
  intros (H & O1 & O2). destruct H as [|t1 t2 r1 r2 Ht Hr]; [left; auto|].
  right. exists t1, r1, t2, r2.
  split; [reflexivity|]. split; [reflexivity|]. split; [exact Ht|].
  split; [exact Hr|]. split; eapply ok_side_tail; eassumption.
Qed.

Lemma gp_skipn n l1 l2 : gp l1 l2 -> gp (skipn n l1) (skipn n l2).
Proof.
  intros (H & O1 & O2). split; [|split; apply ok_side_skipn; assumption].
  clear O1 O2. revert l1 l2 H; induction n as [|n IH]; intros l1 l2 H; [exact H|].
  destruct H; [constructor|]. change (Forall2 tok_sim (skipn n l) (skipn n l')). apply IH. assumption.
Qed.

Lemma gp_length l1 l2 : gp l1 l2 -> length l1 = length l2.
Proof. intros (H & _). induction H; simpl; congruence. Qed.

Lemma gp_sim l1 l2 : gp l1 l2 -> Forall2 tok_sim l1 l2.
Proof. intros (H & _). exact H. Qed.

Lemma gp_spacer l1 l2 : gp l1 l2 ->
  fst (read_spacer l1) = fst (read_spacer l2) /\ gp (snd (read_spacer l1)) (snd (read_spacer l2)).
Proof.
  intro H. destruct (gp_inv _ _ H) as [[-> ->]|(t1 & r1 & t2 & r2 & -> & -> & Ht & Hr)].
  - unfold read_spacer. simpl. split; [reflexivity | exact H].
  - unfold read_spacer. rewrite (is_tc_sim _ _ _ Ht).
    destruct (is_tc TMergedSpacer t2); simpl; split; auto.
Qed.

(* Forall2 over accumulators *)
Lemma F2_snoc {A} (R : A -> A -> Prop) l1 l2 x1 x2 :
  Forall2 R l1 l2 -> R x1 x2 -> Forall2 R (l1 ++ [x1]) (l2 ++ [x2]).
Proof. intros H Hx. apply Forall2_app; [exact H | constructor; [exact Hx | constructor]]. Qed.

(* ------------------------------------------------- read_skip_env (3) *)

Lemma ok_side_wf_all l : ok_side l = true -> forallb comment_wf l = true.
Proof. unfold ok_side. intro H. apply andb_true_iff in H. tauto. Qed.

(* pointwise: related, and both well-formed as Comments *)
Definition wtok (t1 t2 : token) : Prop :=
  tok_sim t1 t2 /\ comment_wf t1 = true /\ comment_wf t2 = true.

Lemma gp_wsim l1 l2 : gp l1 l2 -> Forall2 wtok l1 l2.
Proof.
  intros (H & O1 & O2). apply ok_side_wf_all in O1. apply ok_side_wf_all in O2.
  induction H as [|t1 t2 r1 r2 Ht Hr IH]; [constructor|].
  simpl in O1, O2. apply andb_true_iff in O1. apply andb_true_iff in O2.
  destruct O1 as [W1 O1]. destruct O2 as [W2 O2].
  constructor; [split; [exact Ht | split; assumption] | apply IH; assumption].
Qed.

Lemma wsim_firstn n l1 l2 : Forall2 wtok l1 l2 -> Forall2 wtok (firstn n l1) (firstn n l2).
Proof.
  revert l1 l2; induction n as [|n IH]; intros l1 l2 H; [constructor|].
  destruct H; simpl; constructor; auto.
Qed.

Lemma no_pct_cons y p : no_pct (y :: p) = true -> N.eqb comment_char y = false /\ no_pct p = true.
Proof.
  unfold no_pct. cbn [forallb]. intro H. apply andb_true_iff in H. destruct H as [H1 H2].
  split; [|exact H2]. apply negb_true_iff in H1. apply N.eqb_neq in H1. apply N.eqb_neq. congruence.
Qed.

Lemma no_pct_app a b : no_pct a = true -> no_pct b = true -> no_pct (a ++ b) = true.
Proof. unfold no_pct. intros Ha Hb. rewrite forallb_app, Ha, Hb. reflexivity. Qed.

Lemma sw_app_eq a s1 s2 :
  (forall q, no_pct q = true -> starts_with s1 q = starts_with s2 q) ->
  forall p, no_pct p = true -> starts_with (a ++ s1) p = starts_with (a ++ s2) p.
Proof.
  intro H. induction a as [|x a IH]; intros p Hp; [apply H; exact Hp|].
  destruct p as [|y p]; [reflexivity|]. simpl.
  apply no_pct_cons in Hp. destruct Hp as [_ Hp]. rewrite (IH p Hp). reflexivity.
Qed.

Lemma texts_cons t l : texts (t :: l) = ttext t ++ texts l.
Proof. reflexivity. Qed.

Lemma comment_wf_text t : is_tc TComment t = true -> comment_wf t = true ->
  exists s, ttext t = comment_char :: s.
Proof.
  unfold comment_wf. intros -> H. destruct (ttext t) as [|c s]; [discriminate|].
  apply N.eqb_eq in H. subst. eauto.
Qed.

Lemma sw_texts l1 l2 : Forall2 wtok l1 l2 ->
  forall p, no_pct p = true -> starts_with (texts l1) p = starts_with (texts l2) p.
Proof.
  induction 1 as [|t1 t2 r1 r2 (Ht & W1 & W2) Hr IH]; intros p Hp; [reflexivity|].
  rewrite !texts_cons. destruct (is_tc TComment t1) eqn:Ec.
  - pose proof Ec as Ec2. rewrite (is_tc_sim _ _ _ Ht) in Ec2.
    destruct (comment_wf_text _ Ec W1) as (s1 & ->). destruct (comment_wf_text _ Ec2 W2) as (s2 & ->).
    destruct p as [|y p]; [reflexivity|]. apply no_pct_cons in Hp. destruct Hp as [Hy _].
    cbn [starts_with app]. rewrite Hy. reflexivity.
  - rewrite (text_of_noncomment _ _ Ht Ec). apply sw_app_eq; assumption.
Qed.

Lemma sw_firstn n l1 l2 p : gp l1 l2 -> no_pct p = true ->
  starts_with (texts (firstn n l1)) p = starts_with (texts (firstn n l2)) p.
Proof. intros H Hp. apply sw_texts; [apply wsim_firstn, gp_wsim; exact H | exact Hp]. Qed.

Lemma skip_scan_cons target acc t rest :
  skip_scan target acc (t :: rest) =
  if starts_with (texts (firstn (length target) (t :: rest))) target then (acc, t :: rest)
  else skip_scan target (acc ++ ttext t) rest.
Proof. reflexivity. Qed.

Lemma skip_scan_sim target l1 : forall l2 acc1 acc2, gp l1 l2 -> no_pct target = true ->
  gp (snd (skip_scan target acc1 l1)) (snd (skip_scan target acc2 l2)).
Proof.
  induction l1 as [|t1 r1 IH]; intros l2 acc1 acc2 H Hp;
    destruct (gp_inv _ _ H) as [[E1 E2]|(t1' & r1' & t2 & r2 & E1 & E2 & Ht & Hr)];
    try discriminate; subst.
  - simpl. exact gp_nil.
  - inversion E1; subst. rewrite !skip_scan_cons.
    rewrite (sw_firstn (length target) _ _ target H Hp).
    destruct (starts_with _ _); [exact H | apply IH; assumption].
Qed.

Lemma no_pct_env_end name : no_pct name = true -> no_pct (env_end name) = true.
Proof.
  intro H. unfold env_end. apply no_pct_app; [reflexivity|]. apply no_pct_app; [exact H | reflexivity].
Qed.

Lemma mem_str_in s l : mem_str s l = true -> In s l.
Proof.
  unfold mem_str. intro H. apply existsb_exists in H. destruct H as (x & Hin & Hx).
  apply str_eqb_eq in Hx. subst. exact Hin.
Qed.

Lemma skip_ok_mem s skip : skip_ok skip = true -> mem_str s skip = true -> no_pct s = true.
Proof.
  unfold skip_ok. intros H Hm. apply mem_str_in in Hm.
  rewrite forallb_forall in H. apply H. exact Hm.
Qed.

(* ----------------------------------------- result relation with invariants *)

Definition rrel {A} (R : A -> A -> list token -> Prop) (r1 r2 : res (A * list token)) : Prop :=
  match r1, r2 with
  | Ok (v1, s1), Ok (v2, s2) => R v1 v2 s1 /\ gp s1 s2
  | Err e1, Err e2 => e1 = e2
  | _, _ => False
  end.

Lemma rrel_bind {A B} (R : A -> A -> list token -> Prop) (S : B -> B -> list token -> Prop)
      r1 r2 (k1 k2 : A * list token -> res (B * list token)) :
  rrel R r1 r2 ->
  (forall v1 s1 v2 s2, R v1 v2 s1 -> gp s1 s2 -> rrel S (k1 (v1, s1)) (k2 (v2, s2))) ->
  rrel S (bind r1 k1) (bind r2 k2).
Proof.
  destruct r1 as [[v1 s1]|e1], r2 as [[v2 s2]|e2]; simpl; try tauto.
  intros [HR Hg] Hk. apply Hk; assumption.
Qed.

Lemma rrel_weaken {A} (R R' : A -> A -> list token -> Prop) r1 r2 :
  rrel R r1 r2 -> (forall v1 v2 s, R v1 v2 s -> R' v1 v2 s) -> rrel R' r1 r2.
Proof.
  destruct r1 as [[v1 s1]|e1], r2 as [[v2 s2]|e2]; simpl; try tauto.
  intros [HR Hg] Hk. split; [apply Hk; exact HR | exact Hg].
Qed.

Definition fa (args : list expr) : option str :=
  match args with a :: _ => Some (arg_string a) | [] => None end.

(* invariant of the argument readers: as long as no argument has been read the
   remaining input still begins with the (flat) name group; afterwards the
   first argument has the same string on both sides *)
Definition pre_fa (a1 a2 : list expr) (toks1 : list token) : Prop :=
  match a1 with [] => name_flat toks1 = true | _ :: _ => fa a1 = fa a2 end.

Lemma pre_fa_fa a1 a2 s : Forall2 expr_sim a1 a2 -> pre_fa a1 a2 s -> fa a1 = fa a2.
Proof. intros H. destruct H; simpl; auto. Qed.

Lemma pre_fa_snoc a1 a2 g1 g2 toks1 s :
  Forall2 expr_sim a1 a2 -> pre_fa a1 a2 toks1 ->
  (a1 = [] -> name_flat toks1 = true -> arg_string g1 = arg_string g2) ->
  pre_fa (a1 ++ [g1]) (a2 ++ [g2]) s.
Proof.
  intros H Hp Hg. destruct H; simpl in *.
  - rewrite (Hg eq_refl Hp). reflexivity.
  - exact Hp.
Qed.

Definition Rexpr (toks1 : list token) (e1 e2 : expr) (s1 : list token) : Prop :=
  expr_sim e1 e2 /\
  (forall t r, toks1 = t :: r -> is_leaf t = true -> estr e1 = estr e2 /\ s1 = r).
Definition Rexpr0 (e1 e2 : expr) (_ : list token) : Prop := expr_sim e1 e2.
Definition Rlist (l1 l2 : list expr) (_ : list token) : Prop := Forall2 expr_sim l1 l2.
Definition Rcmd (v1 v2 : str * list expr) (_ : list token) : Prop :=
  fst v1 = fst v2 /\ Forall2 expr_sim (snd v1) (snd v2) /\
  (str_eqb (fst v1) s_begin || str_eqb (fst v1) s_end = true -> fa (snd v1) = fa (snd v2)).
Definition Rargs (toks1 : list token) (a1 a2 : list expr) (_ : list token) : Prop :=
  Forall2 expr_sim a1 a2 /\ (name_flat toks1 = true -> fa a1 = fa a2).
Definition Ropt (acc1 acc2 : list expr) (toks1 : list token) (v1 v2 : list expr * Z)
           (s1 : list token) : Prop :=
  Forall2 expr_sim (fst v1) (fst v2) /\ snd v1 = snd v2 /\
  (pre_fa acc1 acc2 toks1 -> pre_fa (fst v1) (fst v2) s1).
Definition Rarg (c1 : token) (toks1 : list token) (e1 e2 : expr) (_ : list token) : Prop :=
  expr_sim e1 e2 /\ (flat_open c1 toks1 = true -> arg_string e1 = arg_string e2).
Definition Rargloop (k : groupkind) (acc1 acc2 : list expr) (toks1 : list token)
           (e1 e2 : expr) (_ : list token) : Prop :=
  expr_sim e1 e2 /\
  (flat k toks1 = true -> estr_list acc1 = estr_list acc2 -> arg_string e1 = arg_string e2).

Lemma read_skip_env_sim name args1 args2 pos l1 l2 :
  no_pct name = true -> Forall2 expr_sim args1 args2 -> gp l1 l2 ->
  rrel Rexpr0 (read_skip_env name args1 pos l1) (read_skip_env name args2 pos l2).
Proof.
  intros Hn Ha H. unfold read_skip_env.
  pose proof (no_pct_env_end _ Hn) as Ht.
  pose proof (skip_scan_sim (env_end name) l1 l2 [] [] H Ht) as Hs.
  destruct (skip_scan (env_end name) [] l1) as [b1 rs1].
  destruct (skip_scan (env_end name) [] l2) as [b2 rs2]. simpl in Hs.
  destruct (gp_inv _ _ H) as [[-> ->]|(t1 & r1 & t2 & r2 & -> & -> & Ht0 & Hr)]; [reflexivity|].
  destruct (gp_inv _ _ Hs) as [[-> ->]|(u1 & q1 & u2 & q2 & -> & -> & Hu & Hq)]; [reflexivity|].
  rewrite (sw_firstn (length (env_end name)) _ _ _ Hs Ht).
  destruct (starts_with _ _); [|reflexivity].
  simpl. split; [|apply gp_skipn; exact Hs].
  unfold Rexpr0. destruct Ht0 as (_ & Hp & _). rewrite Hp.
  constructor; [exact Ha|]. constructor; [constructor | constructor].
Qed.
