(* The token rules generated from the Python source (Model/TokGen.v, written by
   harness/gen_tokrules.py on every run) denote the hand-written rules of
   Model/Tokenizer.v.

   For each of the eleven rules:   run_full gen_<rule> (ctx_of R_<rule> cx) rest
                                   = ODone (run_rule R_<rule> cx rest)
   i.e. the interpreter of TokDSL.v, run on the translated body, returns what
   the hand-written rule returns -- and never runs out of loop fuel and never
   leaves the modelled fragment (ODone).  Three rules build their token with
   Token('', text.position) and so record the BUFFER index, where the
   hand-written rule records the index carried by the first CHARACTER; they
   agree when the first remaining character carries the buffer index
   (`head_pos`), which holds all along `tokenize (categorize s)`.  The
   punctuation rule needs the table of sizing commands to have no empty entry
   (checked for the table read from the source).

   The proofs compute with the generated terms, so they are re-checked against
   whatever the translator produced; a change of a rule body that changes the
   behaviour of the generated term makes the corresponding lemma fail.  The
   translator brings a body into a normal form first (literal module
   constants and helper functions inlined, early `return None` guards turned
   into nesting, constant locals propagated), so many behaviour-preserving
   rewrites give the identical term; where they do not (a recorded
   `start = text.position`, Buffer.num_forward_until, ...) the scripts below
   are written so that they go through for either form: the loop-free rules are
   decided by computation on the first two characters, the others run the
   straight-line parts by `norm` and only fix the loops. *)
From Coq Require Import List NArith ZArith Bool Lia.
From TexModel Require Import Base Tables Chars Tokenizer TokDSL TokGen.
From TexProofs Require Import TokProofs.
Import ListNotations.

Local Arguments while_loop : simpl never.
Local Arguments for_points : simpl never.
Local Arguments take_while : simpl never.
Local Arguments eval cx e st /.
Local Arguments Z.add : simpl never.
Local Arguments Z.sub : simpl never.
Local Arguments Z.of_nat : simpl never.
Local Arguments Z.to_nat : simpl never.
Local Arguments Z.ltb : simpl never.

(* the first remaining character carries the buffer index *)
Definition head_pos (idx : Z) (rest : list cchar) : Prop :=
  match rest with [] => True | c :: _ => cpos c = idx end.

(* ------------------------------------------------------------------- loops *)

(* A loop whose test is "there is a character and it satisfies p" and whose
   body consumes exactly that character runs like take_while p. *)
Section Loops.
Variables (ev : state -> eres) (body : state -> xres) (p : cchar -> bool)
          (g : option tokv -> cchar -> option tokv) (I : option tokv -> Prop).
Hypothesis Hev : forall st, ev st = VB (match s_rest st with [] => false | c :: _ => p c end).
Hypothesis Hbody : forall st c r, s_rest st = c :: r -> I (s_res st) ->
  body st = XNormal (mks r (c :: s_back st) (g (s_res st) c) (s_map st) (s_key st) (s_point st)
                         (s_start st) (s_tmp st) (s_int st))
  /\ I (g (s_res st) c).

Lemma while_take l : forall st fuel, s_rest st = l -> I (s_res st) -> (length l < fuel)%nat ->
  while_loop ev body fuel st =
  XNormal (mks (snd (take_while p l)) (rev (fst (take_while p l)) ++ s_back st)
               (fold_left g (fst (take_while p l)) (s_res st))
               (s_map st) (s_key st) (s_point st) (s_start st) (s_tmp st) (s_int st)).
Proof.
  induction l as [|c l IH]; intros st fuel Hl HI Hf.
  - destruct fuel as [|f]; [simpl in Hf; lia|].
    unfold while_loop. rewrite Hev, Hl. destruct st; simpl in *; subst. reflexivity.
  - destruct fuel as [|f]; [simpl in Hf; lia|].
    unfold while_loop; fold while_loop. rewrite Hev, Hl.
    unfold take_while; fold take_while.
    destruct (p c) eqn:Hp.
    + destruct (Hbody st c l Hl HI) as [Hb HI']. rewrite Hb.
      rewrite (IH _ f); [| reflexivity | exact HI' | simpl in Hf; lia].
      destruct (take_while p l) as [a b].
      cbn [fst snd s_rest s_back s_res s_map s_key s_point s_start s_tmp s_int fold_left rev].
      rewrite <- app_assoc. reflexivity.
    + destruct st; simpl in *; subst. reflexivity.
Qed.
End Loops.

Definition app_g (o : option tokv) (c : cchar) : option tokv :=
  match o with
  | Some v => Some (tok_add v (mkv [ch c] (cpos c) (KCC (ccat c))))
  | None => None
  end.

Lemma fold_app_g a : forall v,
  fold_left app_g a (Some v) = Some (mkv (v_text v ++ chars_of a) (v_pos v) (v_cat v)).
Proof.
  induction a as [|c a IH]; intro v; simpl.
  - rewrite app_nil_r. destruct v; reflexivity.
  - rewrite IH. unfold tok_add. simpl. rewrite <- app_assoc. reflexivity.
Qed.

Lemma fold_keep (a : list cchar) : forall o : option tokv, fold_left (fun o _ => o) a o = o.
Proof. induction a as [|c a IH]; intro o; simpl; auto. Qed.

Definition after_loop (p : cchar -> bool) (st : state) (res : option tokv) : state :=
  mks (snd (take_while p (s_rest st))) (rev (fst (take_while p (s_rest st))) ++ s_back st)
      res (s_map st) (s_key st) (s_point st) (s_start st) (s_tmp st) (s_int st).

Definition grown (p : cchar -> bool) (st : state) (v : tokv) : option tokv :=
  Some (mkv (v_text v ++ chars_of (fst (take_while p (s_rest st)))) (v_pos v) (v_cat v)).

(* while <test>: result += text.forward(1) *)
Lemma while_append_forward cx cond p :
  (forall st, eval cx cond st = VB (match s_rest st with [] => false | c :: _ => p c end)) ->
  forall st v fuel, s_res st = Some v -> (length (s_rest st) < fuel)%nat ->
  while_loop (eval cx cond) (exec_block cx (BCons (SAppendForward 1) BNil)) fuel st =
  XNormal (after_loop p st (grown p st v)).
Proof.
  intros Hev st v fuel Hv Hf.
  rewrite (while_take _ _ p app_g (fun o => o <> None) Hev) with (l := s_rest st).
  - rewrite Hv, fold_app_g. reflexivity.
  - intros st' c r Hr HI. destruct (s_res st') as [v'|] eqn:Hv'; [|congruence].
    split; [|discriminate].
    cbn. unfold with_res, forward. rewrite Hv', Hr. cbn. reflexivity.
  - reflexivity.
  - congruence.
  - lia.
Qed.

(* while <test>: result += next(text) *)
Lemma while_append_next cx cond p :
  (forall st, eval cx cond st = VB (match s_rest st with [] => false | c :: _ => p c end)) ->
  forall st v fuel, s_res st = Some v -> (length (s_rest st) < fuel)%nat ->
  while_loop (eval cx cond) (exec_block cx (BCons SAppendNext BNil)) fuel st =
  XNormal (after_loop p st (grown p st v)).
Proof.
  intros Hev st v fuel Hv Hf.
  rewrite (while_take _ _ p app_g (fun o => o <> None) Hev) with (l := s_rest st).
  - rewrite Hv, fold_app_g. reflexivity.
  - intros st' c r Hr HI. destruct (s_res st') as [v'|] eqn:Hv'; [|congruence].
    split; [|discriminate].
    cbn. unfold with_res. rewrite Hv', Hr. reflexivity.
  - reflexivity.
  - congruence.
  - lia.
Qed.

(* while <test>: text.forward(1) *)
Lemma while_skip_forward cx cond p :
  (forall st, eval cx cond st = VB (match s_rest st with [] => false | c :: _ => p c end)) ->
  forall st fuel, (length (s_rest st) < fuel)%nat ->
  while_loop (eval cx cond) (exec_block cx (BCons (SSkipForward 1) BNil)) fuel st =
  XNormal (after_loop p st (s_res st)).
Proof.
  intros Hev st fuel Hf.
  rewrite (while_take _ _ p (fun o _ => o) (fun _ => True) Hev) with (l := s_rest st).
  - rewrite fold_keep. reflexivity.
  - intros st' c r Hr _. split; [|exact Logic.I].
    cbn. unfold forward. rewrite Hr. cbn. reflexivity.
  - reflexivity.
  - exact Logic.I.
  - lia.
Qed.

(* ----------------------------------------------------------------- tactics *)

(* run the straight-line part; loops stay folded (while_loop is never
   simplified and `eval cx cond` is only unfolded when applied to a state) *)
Ltac norm :=
  cbn;
  cbv [set_res set_point set_start set_tmp rollback_to tok_add position ctx_of init_state
       with_res none_result after_loop grown];
  cbn.

(* the test of a loop, on an arbitrary state *)
Ltac ev_tac :=
  let st := fresh "st" in
  let c := fresh "c" in
  intro st; destruct st as [[|c ?] ? ? ? ? ? ? ? ?];
  [ reflexivity
  | cbn; unfold is_cat; try reflexivity;
    destruct (cc_beq (ccat c) CLetter); reflexivity ].

Ltac loop_with lem P :=
  match goal with
  | |- context [while_loop (eval ?cx ?c) ?b ?f ?st] =>
    erewrite (lem cx c P ltac:(ev_tac) st); [| try reflexivity; cbn; lia ..]
  end.

(* the body of the loop may consume its character with `result +=
   text.forward(1)`, `result += next(text)` or a bare `text.forward(1)`:
   whichever lemma fits the generated body is used *)
Ltac loop_af P :=
  first [ loop_with while_append_forward P | loop_with while_append_next P ].
Ltac loop_an P :=
  first [ loop_with while_append_next P | loop_with while_append_forward P ].
Ltac loop_sf P := loop_with while_skip_forward P.

(* ------------------------------------------------------- loop-free rules *)

Lemma gen_escaped_symbols_ok cx rest :
  run_full gen_escaped_symbols (ctx_of R_escaped_symbols cx) rest
  = ODone (run_rule R_escaped_symbols cx rest).
Proof.
  destruct rest as [|[x0 p0 k0] rest1]; [reflexivity|].
  destruct rest1 as [|[x1 p1 k1] rest2]; destruct k0; try reflexivity;
    destruct k1; reflexivity.
Qed.

Lemma gen_math_sym_switch_ok cx rest :
  run_full gen_math_sym_switch (ctx_of R_math_sym_switch cx) rest
  = ODone (run_rule R_math_sym_switch cx rest).
Proof.
  destruct rest as [|[x0 p0 k0] rest1]; [reflexivity|].
  destruct rest1 as [|[x1 p1 k1] rest2]; destruct k0; try reflexivity;
    destruct k1; reflexivity.
Qed.

Lemma gen_math_asym_switch_ok cx rest :
  run_full gen_math_asym_switch (ctx_of R_math_asym_switch cx) rest
  = ODone (run_rule R_math_asym_switch cx rest).
Proof.
  destruct rest as [|[x0 p0 k0] rest1]; [reflexivity|].
  destruct rest1 as [|[x1 p1 k1] rest2]; [reflexivity|].
  destruct k0; try reflexivity; destruct k1; reflexivity.
Qed.

Lemma gen_line_break_ok cx rest :
  run_full gen_line_break (ctx_of R_line_break cx) rest
  = ODone (run_rule R_line_break cx rest).
Proof.
  destruct rest as [|[x0 p0 k0] rest1]; [reflexivity|].
  destruct rest1 as [|[x1 p1 k1] rest2]; destruct k0; try reflexivity;
    destruct k1; reflexivity.
Qed.

Lemma gen_symbols_ok cx rest :
  run_full gen_symbols (ctx_of R_symbols cx) rest
  = ODone (run_rule R_symbols cx rest).
Proof.
  destruct rest as [|[x0 p0 k0] rest1]; [reflexivity|].
  destruct k0; reflexivity.
Qed.

(* ----------------------------------------------------------------- comment *)

Local Arguments Tables.tc_value : simpl never.
Local Arguments Tables.cc_value : simpl never.
Local Arguments N.eqb : simpl never.

Ltac comment_loop :=
  loop_af (fun c => negb (is_cat CEndOfLine c)); norm;
  rewrite Z.add_0_r;
  match goal with
  | |- context [take_while ?p ?l] => destruct (take_while p l) as [? ?]
  end;
  reflexivity.

Lemma gen_comment_ok cx rest :
  head_pos (cx_idx cx) rest ->
  run_full gen_comment (ctx_of R_comment cx) rest = ODone (run_rule R_comment cx rest).
Proof.
  intros Hp. destruct cx as [idx prev pp pc pts].
  destruct rest as [|[x0 p0 k0] rest1]; [reflexivity|]. cbn in Hp. subst p0.
  destruct k0; try reflexivity.
  destruct prev as [[tt tp tk]|].
  - (* prev.category != CC.Comment, an integer comparison of a TC with a CC member *)
    destruct (N.eqb (Tables.tc_value tk) (Tables.cc_value CComment)) eqn:E.
    + unfold run_full. norm. rewrite E. norm.
      unfold rule_comment, comment_allowed. cbn [tcat]. rewrite E. reflexivity.
    + unfold run_full. norm. rewrite E. norm.
      unfold rule_comment, comment_allowed. cbn [tcat]. rewrite E.
      comment_loop.
  - unfold run_full. norm. comment_loop.
Qed.

(* ------------------------------------------------------------------ ignore *)

Lemma rev_app_nil_case {A} (a : list A) (B : Type) (x y : B) :
  match rev a ++ [] with [] => x | _ :: _ => y end = match a with [] => x | _ :: _ => y end.
Proof.
  destruct a as [|c a]; [reflexivity|].
  destruct (rev (c :: a) ++ []) eqn:E; [|reflexivity].
  apply app_eq_nil in E. destruct E as [E _]. cbn [rev] in E.
  apply app_eq_nil in E. destruct E as [_ E]. discriminate E.
Qed.

Lemma gen_ignore_ok cx rest :
  run_full gen_ignore (ctx_of R_ignore cx) rest = ODone (run_rule R_ignore cx rest).
Proof.
  destruct cx as [idx prev pp pc pts].
  unfold run_full. norm. loop_sf (fun c => mem_cc (ccat c) Tables.ignore_cats). norm.
  unfold rule_ignore.
  destruct (take_while (fun c => mem_cc (ccat c) Tables.ignore_cats) rest) as [a b].
  cbn [fst snd]. rewrite rev_app_nil_case. destruct a; reflexivity.
Qed.

(* ------------------------------------------------------------ command name *)

Lemma gen_command_name_ok cx rest :
  run_full gen_command_name (ctx_of R_command_name cx) rest
  = ODone (run_rule R_command_name cx rest).
Proof.
  destruct cx as [idx prev pp pc pts].
  destruct pc as [[xp ppos kp]|]; [|reflexivity].
  destruct kp; try reflexivity.
  destruct rest as [|[x0 p0 k0] rest1]; [reflexivity|].
  destruct k0; try reflexivity.
  unfold run_full. norm.
  loop_af (fun c => is_cat CLetter c || N.eqb (ch c) star). norm.
  unfold rule_command_name.
  destruct (take_while (fun c => is_cat CLetter c || N.eqb (ch c) star) rest1) as [a b].
  reflexivity.
Qed.

(* ------------------------------------------------------------------ string *)

Lemma mk_tok_head idx cs r k :
  head_pos idx (cs ++ r) -> mk_tok cs idx k = mkt (chars_of cs) idx k.
Proof.
  intro H. unfold mk_tok. destruct cs as [|c cs]; [reflexivity|].
  cbn in H. rewrite H. reflexivity.
Qed.

Lemma gen_string_ok cx rest :
  head_pos (cx_idx cx) rest ->
  run_full gen_string (ctx_of R_string cx) rest = ODone (run_rule R_string cx rest).
Proof.
  intros Hp. destruct cx as [idx prev pp pc pts]. cbn [cx_idx] in Hp.
  unfold run_full. norm.
  loop_an (fun c => negb (mem_cc (ccat c) Tables.string_stop_cats)). norm.
  unfold rule_string. rewrite Z.add_0_r.
  destruct (take_while (fun c => negb (mem_cc (ccat c) Tables.string_stop_cats)) rest)
    as [a b] eqn:E.
  cbn [fst snd]. apply take_while_app in E. subst rest.
  rewrite (mk_tok_head idx a b TText Hp). reflexivity.
Qed.

(* ----------------------------------------------------------------- spacers *)

Lemma take_while_nil p : take_while p [] = ([], []).
Proof. reflexivity. Qed.

Lemma xres_eta x :
  match x with
  | XNormal s => XNormal s | XReturn r s => XReturn r s
  | XAttr => XAttr | XUnsup => XUnsup | XFuel => XFuel
  end = x.
Proof. destruct x; reflexivity. Qed.

(* `if result: return result`, then the end of the def *)
Lemma spacers_fin idx consumed text back r3 m k pt sta tm ni :
  text = chars_of consumed -> back = rev consumed -> head_pos idx (consumed ++ r3) ->
  finish (if nonempty text
          then XReturn (Some (mkv text idx (KTC TMergedSpacer)))
                       (mks r3 back (Some (mkv text idx (KTC TMergedSpacer))) m k pt sta tm ni)
          else XNormal (mks r3 back (Some (mkv text idx (KTC TMergedSpacer))) m k pt sta tm ni))
  = ODone (match consumed with
           | [] => RNone
           | _ :: _ => RTok (mk_tok consumed idx TMergedSpacer) r3
           end).
Proof.
  intros -> -> Hp. destruct consumed as [|c cs]; [reflexivity|].
  cbn in Hp. cbn. unfold mk_tok. rewrite Hp. reflexivity.
Qed.

(* text.backward(text.position - result.position) when result.position is the
   index at which the rule was called: all the way back *)
Lemma rollback_guard idx n :
  ((idx + Z.of_nat n - idx <? 0) || (Z.of_nat n <? idx + Z.of_nat n - idx))%Z = false.
Proof.
  replace (idx + Z.of_nat n - idx)%Z with (Z.of_nat n) by lia.
  rewrite Z.ltb_irrefl, orb_false_r. apply Z.ltb_ge. lia.
Qed.

Lemma rollback_amount idx n : Z.to_nat (idx + Z.of_nat n - idx) = n.
Proof. replace (idx + Z.of_nat n - idx)%Z with (Z.of_nat n) by lia. apply Nat2Z.id. Qed.

Ltac list_eq :=
  unfold chars_of; rewrite ?rev_app_distr, ?map_app; cbn [map ch rev];
  rewrite ?app_nil_r; repeat rewrite <- app_assoc; cbn [app]; rewrite ?app_nil_r; reflexivity.

Ltac head_pos_tac Hp :=
  repeat rewrite <- app_assoc; cbn [app]; rewrite ?app_nil_r in *; exact Hp.

(* from the second `while` to the end *)
Ltac spacers_tail Hp :=
  norm; loop_af (is_cat CSpacer); norm;
  match goal with
  | |- context [take_while (is_cat CSpacer) ?l] =>
    let s2 := fresh "s2" in
    let r3 := fresh "r3" in
    let E2 := fresh "E2" in
    destruct (take_while (is_cat CSpacer) l) as [s2 r3] eqn:E2; cbn [fst snd];
    apply take_while_app in E2; rewrite E2 in Hp;
    destruct r3 as [|[? ? k3] ?];
    [ norm; rewrite xres_eta; apply spacers_fin; [ list_eq | list_eq | head_pos_tac Hp ]
    | norm; unfold Tables.spacer_rollback_cats;
      destruct (mem_cc k3 [CLetter; COther]) eqn:?;
      [ norm; rewrite rollback_guard, rollback_amount, skipn_all, firstn_all; reflexivity
      | norm; rewrite xres_eta; apply spacers_fin; [ list_eq | list_eq | head_pos_tac Hp ] ] ]
  end.

Lemma gen_spacers_ok cx rest :
  head_pos (cx_idx cx) rest ->
  run_full gen_spacers (ctx_of R_spacers cx) rest = ODone (run_rule R_spacers cx rest).
Proof.
  intros Hp. destruct cx as [idx prev pp pc pts]. cbn [cx_idx] in Hp.
  unfold run_full. norm. loop_af (is_cat CSpacer). norm.
  change (Z.of_nat 0) with 0%Z. rewrite !Z.add_0_r.
  unfold rule_spacers.
  destruct (take_while (is_cat CSpacer) rest) as [s1 r1] eqn:E1. cbn [fst snd].
  apply take_while_app in E1. subst rest.
  destruct r1 as [|[xe pe ke] r1'].
  - norm. loop_af (is_cat CSpacer). norm. rewrite !take_while_nil. norm.
    rewrite xres_eta. apply spacers_fin; [ list_eq | list_eq | head_pos_tac Hp ].
  - norm. unfold is_cat at 1. cbn [ccat]. destruct (cc_beq ke CEndOfLine) eqn:Ek.
    + spacers_tail Hp.
    + spacers_tail Hp.
Qed.

(* ------------------------------------------------------------- punctuation *)

Lemma split_n_firstn n : forall rest, (n <= length rest)%nat ->
  split_n n rest = Some (firstn n rest, skipn n rest).
Proof.
  induction n as [|n IH]; intros rest H; [reflexivity|].
  destruct rest as [|c rest]; [simpl in H; lia|].
  cbn [split_n firstn skipn]. rewrite IH; [reflexivity | simpl in H; lia].
Qed.

(* the body of `for point in PUNCTUATION_COMMANDS`, taken out of the generated term *)
Definition punct_body : block :=
  match gen_punctuation_command_name with
  | BCons (SIf _ (BCons (SForPoints b) _) _) _ => b
  | _ => BNil
  end.

Definition no_empty_point (points : list str) : Prop := Forall (fun p => p <> []) points.

Lemma punct_for cx pts : no_empty_point pts -> forall rest res m k pt sta tm ni,
  finish (for_points (exec_block cx punct_body) pts (mks rest [] res m k pt sta tm ni)) =
  ODone (match find_point pts (chars_of rest) with
         | Some p =>
           match firstn (length p) rest with
           | c0 :: _ => RTok (mkt p (cpos c0) TPunctuationCommandName) (skipn (length p) rest)
           | [] => RNone
           end
         | None => RNone
         end).
Proof.
  induction 1 as [|a pts Ha _ IH]; intros rest res m k pt sta tm ni; [reflexivity|].
  unfold for_points; fold for_points. cbn [find_point].
  cbv [punct_body gen_punctuation_command_name blk]. norm. unfold chars_of in *.
  destruct (str_eqb (firstn (length a) (map ch rest)) a) eqn:E.
  - apply str_eqb_eq in E.
    assert (Hlen : (length a <= length rest)%nat).
    { rewrite <- E at 1. rewrite firstn_length, map_length. lia. }
    unfold forward. cbn [s_rest]. rewrite (split_n_firstn _ _ Hlen).
    rewrite firstn_map in E.
    destruct (firstn (length a) rest) as [|c0 f] eqn:F.
    + exfalso. apply Ha. rewrite <- E. reflexivity.
    + norm. cbn [map] in E. rewrite E. reflexivity.
  - norm. apply IH.
Qed.

Lemma gen_punctuation_command_name_ok cx rest :
  no_empty_point (cx_points cx) ->
  run_full gen_punctuation_command_name (ctx_of R_punctuation_command_name cx) rest
  = ODone (run_rule R_punctuation_command_name cx rest).
Proof.
  intros Hne. destruct cx as [idx prev pp pc pts]. cbn [cx_points] in Hne.
  destruct pp as [[xp ppos kp]|]; [|reflexivity].
  destruct kp; try reflexivity.
  unfold run_full. norm. rewrite !xres_eta.
  rewrite (punct_for (mkd idx prev (Some (mkc xp ppos CEscape)) pts) pts Hne). reflexivity.
Qed.

Lemma table_no_empty_point : no_empty_point Tables.punctuation_commands.
Proof.
  apply Forall_forall. intros p Hin.
  assert (H : forallb (fun p => nonempty p) Tables.punctuation_commands = true)
    by (vm_compute; reflexivity).
  rewrite forallb_forall in H. specialize (H p Hin). destruct p; [discriminate H | discriminate].
Qed.

(* --------------------------------------------------------------- all rules *)

Lemma gen_rule_order_ok : gen_rule_order = Tables.rule_order.
Proof. reflexivity. Qed.

Theorem gen_rule_ok r cx rest :
  head_pos (cx_idx cx) rest -> no_empty_point (cx_points cx) ->
  run_full (gen_program r) (ctx_of r cx) rest = ODone (run_rule r cx rest).
Proof.
  intros Hp Hne. destruct r; cbn [gen_program].
  - apply gen_escaped_symbols_ok.
  - apply gen_comment_ok, Hp.
  - apply gen_math_sym_switch_ok.
  - apply gen_math_asym_switch_ok.
  - apply gen_line_break_ok.
  - apply gen_ignore_ok.
  - apply gen_spacers_ok, Hp.
  - apply gen_symbols_ok.
  - apply gen_punctuation_command_name_ok, Hne.
  - apply gen_command_name_ok.
  - apply gen_string_ok, Hp.
Qed.

Corollary gen_rule_stmts_ok r cx rest :
  head_pos (cx_idx cx) rest -> no_empty_point (cx_points cx) ->
  run_stmts (gen_program r) (ctx_of r cx) rest = run_rule r cx rest.
Proof. intros Hp Hne. unfold run_stmts. rewrite gen_rule_ok by assumption. reflexivity. Qed.

(* the hypotheses are satisfiable, on inputs where the rules do something *)
Example gen_rule_ok_example :
  let cx := mkctx 0 None None None Tables.punctuation_commands in
  let rest := categorize [37; 97; 10]%N in     (* "%a\n" *)
  head_pos (cx_idx cx) rest /\ no_empty_point (cx_points cx) /\
  run_full gen_comment (ctx_of R_comment cx) rest
  = ODone (RTok (mkt [37; 97]%N 0 TComment) [mkc 10 2 CEndOfLine]).
Proof. split; [reflexivity|]. split; [exact table_no_empty_point | vm_compute; reflexivity]. Qed.

Example gen_spacers_example :
  let cx := mkctx 0 None None None Tables.punctuation_commands in
  let rest := categorize [32; 10; 32; 123]%N in     (* " \n {" *)
  head_pos (cx_idx cx) rest /\
  run_full gen_spacers (ctx_of R_spacers cx) rest
  = ODone (RTok (mkt [32; 10; 32]%N 0 TMergedSpacer) [mkc 123 3 CGroupBegin]).
Proof. split; [reflexivity | vm_compute; reflexivity]. Qed.

Example gen_string_example :
  let cx := mkctx 0 None None None Tables.punctuation_commands in
  let rest := categorize [97; 98; 36]%N in     (* "ab$" *)
  head_pos (cx_idx cx) rest /\
  run_full gen_string (ctx_of R_string cx) rest
  = ODone (RTok (mkt [97; 98]%N 0 TText) [mkc 36 2 CMathSwitch]).
Proof. split; [reflexivity | vm_compute; reflexivity]. Qed.

Example gen_punctuation_example :
  let esc := mkc 92 0 CEscape in
  let cx := mkctx 1 None (Some esc) (Some esc) Tables.punctuation_commands in
  let rest := categorize_from 1 [108; 101; 102; 116; 40; 120]%N in     (* "left(x" after "\" *)
  no_empty_point (cx_points cx) /\
  run_full gen_punctuation_command_name (ctx_of R_punctuation_command_name cx) rest
  = ODone (RTok (mkt [108; 101; 102; 116; 40]%N 1 TPunctuationCommandName)
                [mkc 120 6 CLetter]).
Proof. split; [exact table_no_empty_point | vm_compute; reflexivity]. Qed.

(* Without head_pos the three rules that start from Token('', text.position)
   differ from the hand-written ones: the Python code (and so the generated
   program) records the buffer index, the hand-written rule the index carried
   by the first character.  Witness: one character whose own index is 0 in a
   buffer positioned at 5. *)
Theorem gen_comment_unconditional_refuted :
  exists cx rest,
    run_full gen_comment (ctx_of R_comment cx) rest <> ODone (run_rule R_comment cx rest).
Proof.
  exists (mkctx 5 None None None []), [mkc 37 0 CComment]. vm_compute. discriminate.
Qed.

Theorem gen_spacers_unconditional_refuted :
  exists cx rest,
    run_full gen_spacers (ctx_of R_spacers cx) rest <> ODone (run_rule R_spacers cx rest).
Proof.
  exists (mkctx 5 None None None []), [mkc 32 0 CSpacer]. vm_compute. discriminate.
Qed.

Theorem gen_string_unconditional_refuted :
  exists cx rest,
    run_full gen_string (ctx_of R_string cx) rest <> ODone (run_rule R_string cx rest).
Proof.
  exists (mkctx 5 None None None []), [mkc 97 0 CLetter]. vm_compute. discriminate.
Qed.

(* An empty entry in the table of sizing commands is outside both models:
   Python returns the shared Token.Empty (forward(0)); the DSL stops with
   OUnsup, the hand-written rule answers RNone. *)
Theorem gen_punctuation_unconditional_refuted :
  exists cx rest,
    run_full gen_punctuation_command_name (ctx_of R_punctuation_command_name cx) rest
    <> ODone (run_rule R_punctuation_command_name cx rest).
Proof.
  exists (mkctx 1 None (Some (mkc 92 0 CEscape)) None [[]]), [mkc 97 1 CLetter].
  vm_compute. discriminate.
Qed.

(* ------------------------------------------------------------------ driver *)

Lemma consecutive_head idx rest : consecutive idx rest -> head_pos idx rest.
Proof. destruct rest as [|c r]; [trivial|]. intros [H _]. exact H. Qed.

Lemma run_rules_g_ok rules cx rest :
  head_pos (cx_idx cx) rest -> no_empty_point (cx_points cx) ->
  run_rules_g gen_program rules cx rest = run_rules rules cx rest.
Proof.
  intros Hp Hne. induction rules as [|r rs IH]; [reflexivity|].
  cbn [run_rules_g run_rules]. rewrite gen_rule_stmts_ok by assumption.
  rewrite IH. reflexivity.
Qed.

Theorem tokenize_loop_g_ok fuel points : no_empty_point points ->
  forall idx pp pc prev rest, consecutive idx rest ->
  tokenize_loop_g gen_program gen_rule_order fuel points idx pp pc prev rest
  = tokenize_loop fuel points idx pp pc prev rest.
Proof.
  intros Hne. rewrite gen_rule_order_ok.
  induction fuel as [|f IH]; intros idx pp pc prev rest Hc; [reflexivity|].
  destruct rest as [|c0 rest1]; [reflexivity|].
  cbn [tokenize_loop_g tokenize_loop].
  rewrite run_rules_g_ok; [| apply consecutive_head, Hc | exact Hne].
  pose proof (run_rules_progress (mkctx idx prev pp pc points) c0 rest1) as P.
  cbv zeta in P.
  destruct (run_rules Tables.rule_order (mkctx idx prev pp pc points) (c0 :: rest1))
    as [|t rest'|rest'|] eqn:E; try reflexivity.
  - destruct P as (body & _ & Hsplit & _). rewrite Hsplit in *.
    rewrite length_app_minus. apply consecutive_app in Hc. destruct Hc as [_ Hc2].
    rewrite IH by exact Hc2. reflexivity.
  - destruct P as (sk & _ & Hsplit & _). rewrite Hsplit in *.
    rewrite length_app_minus. apply consecutive_app in Hc. destruct Hc as [_ Hc2].
    rewrite IH by exact Hc2. reflexivity.
Qed.

(* the model's tokenizer is the interpretation of the translated source *)
Theorem tokenize_g_ok (s : str) :
  tokenize_g gen_program gen_rule_order (categorize s) = tokenize (categorize s).
Proof.
  unfold tokenize_g, tokenize, tokenize_with, categorize.
  apply tokenize_loop_g_ok; [exact table_no_empty_point | apply categorize_from_consecutive].
Qed.
