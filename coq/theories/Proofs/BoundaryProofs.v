(* BOUNDARY: where the token boundaries of a source string are, read off the
   lexical shapes of TokInverse.v (shape / followc / follows_ok), and the two
   string-level consequences
     C10  an unescaped % starts a Comment token that runs to the end of its
          line; a % after an odd run of backslashes is the token "\%";
     C11  the first occurrence of "\end{name}" (name made of letters) that is
          neither in a comment nor after an odd run of backslashes starts at
          a token boundary and is exactly five tokens, so read_skip_env stops
          exactly there.

   Stage 1  cut / inside (token level), boundary_b / inside_b (string level,
            by recorded offsets), cut_cases, inner_special, esc_pairs
            (backslash runs), special_start_cases, special_at_cut;
            backslash_run, run_start_boundary, escape_not_boundary_cases,
            escape_at_boundary.
   Stage 2  comment_even / comment_odd, comment_string, first_pct_on_line;
            2b: lex_marks_spec (a three-class scan finds the Comment tokens),
            comment_starts_by_class.
   Stage 3  end_five_tokens, end_at_cut, first_end_occurrence,
            end_string_provisos, hyp_skip_letters (ReaderCons.hyp_skip for
            names made of letters), and the refutations showing that each
            proviso is needed.
   Props/C10str.v and Props/C11str.v restate the theorems (C10_... / C11_...).

   Every fact about a generated table is obtained by computation. *)
From Coq Require Import List NArith ZArith Bool Lia Arith.
From TexModel Require Import Base Tables Chars Tokenizer.
From TexModel Require Tree Reader.
From TexProofs Require Import TokProofs TokFacts TokInverse.
From TexProofs Require SkipEnvProofs ReaderCons.
Import ListNotations.

Local Notation points := Tables.punctuation_commands.

(* ====================================================================== *)
(* Stage 1: token boundaries                                               *)
(* ====================================================================== *)

Definition toks_of (s : str) : list token := fst (tokens_of_string s).

(* string level, by the offsets the tokens record: i is the start offset of a
   token, or the end of the string *)
Definition boundary_b (s : str) (i : nat) : bool :=
  existsb (fun t => Z.eqb (tpos t) (Z.of_nat i)) (toks_of s) || Nat.eqb i (length s).

(* offset i is strictly inside (not at the start of) a token of category k *)
Definition inside_b (s : str) (k : tc) (i : nat) : bool :=
  existsb (fun t => tc_beq (tcat t) k && Z.ltb (tpos t) (Z.of_nat i) &&
                    Z.ltb (Z.of_nat i) (tpos t + Z.of_nat (length (ttext t)))%Z) (toks_of s).

(* token level: the string u ++ v is cut between two tokens / inside a token *)
Definition cut (toks : list token) (u v : str) : Prop :=
  exists a b, toks = a ++ b /\ texts a = u /\ texts b = v.

Definition inside (toks : list token) (k : tc) (u v : str) : Prop :=
  exists a t b x y, toks = a ++ t :: b /\ tcat t = k /\ ttext t = x ++ y /\
    x <> [] /\ y <> [] /\ u = texts a ++ x /\ v = y ++ texts b.

(* the last character of u is an escape (false for the empty string) *)
Definition ends_escape (u : str) : bool := is_c CEscape (last u 0%N).

Definition all_esc (es : str) : bool := forallb (is_c CEscape) es.

(* ---------------------------------------------------------------- lists *)

Lemma shaped_nonempty toks : shaped toks -> Forall (fun t => ttext t <> []) toks.
Proof.
  intro H. induction H as [|t r Ht _ IH]; constructor; [|exact IH].
  apply shape_nonempty. exact Ht.
Qed.

(* every offset is either between two tokens or strictly inside one *)
Lemma cut_cases toks : Forall (fun t => ttext t <> []) toks -> forall u v,
  texts toks = u ++ v ->
  cut toks u v \/ exists k, inside toks k u v.
Proof.
  intro F. induction F as [|t r Ht _ IH]; intros u v E.
  - cbn in E. symmetry in E. apply app_eq_nil in E. destruct E as [-> ->].
    left. exists [], []. repeat split.
  - rewrite texts_cons in E. apply app_eq_app in E. destruct E as (l & [[E1 E2]|[E1 E2]]).
    + (* ttext t = u ++ l, v = l ++ texts r *)
      destruct u as [|u0 u'].
      * left. exists [], (t :: r). cbn [app] in *. subst l. repeat split.
        rewrite texts_cons. subst v. reflexivity.
      * destruct l as [|l0 l'].
        -- left. exists [t], r. rewrite app_nil_r in E1. cbn [app] in E2. subst v.
           repeat split. rewrite texts_cons. cbn [texts map concat]. rewrite app_nil_r. exact E1.
        -- right. exists (tcat t). exists [], t, r, (u0 :: u'), (l0 :: l').
           repeat split; try assumption; discriminate.
    + (* u = ttext t ++ l, texts r = l ++ v *)
      destruct (IH l v E2) as [(a & b & Ha & Hu & Hv)|(k & a & t' & b & x & y & H1 & H2 & H3 & H4 & H5 & H6 & H7)].
      * left. exists (t :: a), b. subst r. repeat split; [|exact Hv].
        rewrite texts_cons, Hu. symmetry. exact E1.
      * right. exists k, (t :: a), t', b, x, y. subst r. repeat split; try assumption.
        rewrite texts_cons, <- app_assoc, <- H6. exact E1.
Qed.

Lemma follows_ok_app a b : follows_ok (a ++ b) = true -> follows_ok b = true.
Proof.
  induction a as [|t a IH]; intro H; [exact H|].
  cbn [app follows_ok] in H. apply andb_true_iff in H. apply IH. tauto.
Qed.

Lemma follows_ok_mid a t b : follows_ok (a ++ t :: b) = true ->
  followc t (texts b) = true /\ pre_ok (ends_esc t) b = true /\ follows_ok b = true.
Proof.
  intro H. apply follows_ok_app in H. cbn [follows_ok] in H. apply andb_true_iff in H.
  destruct H as [H1 H2]. unfold follow in H1. apply andb_true_iff in H1. tauto.
Qed.

Lemma ends_escape_snoc u c : ends_escape (u ++ [c]) = is_c CEscape c.
Proof. unfold ends_escape. rewrite last_last. reflexivity. Qed.

Lemma ends_escape_nil : ends_escape [] = false.
Proof. vm_compute. reflexivity. Qed.

Lemma ends_escape_app u w : w <> [] -> ends_escape (u ++ w) = ends_escape w.
Proof.
  intro H. destruct (exists_last H) as (w' & c & ->).
  rewrite app_assoc, !ends_escape_snoc. reflexivity.
Qed.

(* ------------------------------------------- what a token may start with *)

Definition first_kind_ok (k : tc) (c : N) : bool :=
  match k with
  | TText => text_c c
  | TMergedSpacer => is_c CSpacer c || is_c CEndOfLine c
  | TComment => is_c CComment c
  | TEscapedComment => is_c CEscape c
  | TEscape | TGroupBegin | TGroupEnd | TBracketBegin | TBracketEnd =>
    match lookup_sym Tables.symbols_map (catc c) with Some k' => tc_beq k' k | None => false end
  | TMathSwitch | TDisplayMathSwitch => is_c CMathSwitch c
  | TMathGroupBegin | TMathGroupEnd | TDisplayMathGroupBegin | TDisplayMathGroupEnd =>
    is_c CEscape c
  | TCommandName | TPunctuationCommandName => is_c CLetter c
  | TLineBreak | TParenBegin | TParenEnd | TSizeCommand | TSpacer => false
  end.

Lemma shape_cat_of t : shape t = true -> shape_cat (tcat t) (ttext t) = true.
Proof. unfold shape. intro H. apply andb_true_iff in H. tauto. Qed.

Lemma shape_clean t : shape t = true -> forallb clean_c (ttext t) = true.
Proof. unfold shape. intro H. apply andb_true_iff in H. tauto. Qed.

Lemma asym_first_escape a b k : lookup_asym Tables.asym_map a b = Some k -> a = CEscape.
Proof.
  intro H. destruct (cc_eq_dec a CEscape) as [E|E]; [exact E|].
  rewrite (asym_key_escape a b E) in H. discriminate H.
Qed.

Lemma shape_first t c m : shape t = true -> ttext t = c :: m -> first_kind_ok (tcat t) c = true.
Proof.
  intros Hs Ht. apply shape_cat_of in Hs. rewrite Ht in Hs.
  destruct (tcat t); cbn [shape_cat first_kind_ok] in *; try discriminate Hs.
  - (* TEscape *) destruct m; [exact Hs | discriminate Hs].
  - destruct m; [exact Hs | discriminate Hs].
  - destruct m; [exact Hs | discriminate Hs].
  - (* TComment *) apply andb_true_iff in Hs. tauto.
  - (* TMergedSpacer *)
    destruct (is_c CSpacer c) eqn:E1; [reflexivity|].
    destruct (is_c CEndOfLine c) eqn:E2; [reflexivity|]. exfalso.
    unfold after_spacers in Hs. cbn [drop_blanks] in Hs. rewrite E1 in Hs.
    cbn [drop_eol] in Hs. rewrite E2 in Hs. cbn [drop_blanks] in Hs. rewrite E1 in Hs.
    discriminate Hs.
  - (* TEscapedComment *) destruct m as [|c1 [|? ?]]; try discriminate Hs.
    apply andb_true_iff in Hs. tauto.
  - (* TMathSwitch *) destruct m; [exact Hs | discriminate Hs].
  - destruct m as [|c1 [|? ?]]; try discriminate Hs. apply andb_true_iff in Hs. tauto.
  - destruct m as [|c1 [|? ?]]; try discriminate Hs.
    destruct (lookup_asym Tables.asym_map (catc c) (catc c1)) eqn:E; [|discriminate Hs].
    apply asym_first_escape in E. apply is_c_true. exact E.
  - destruct m as [|c1 [|? ?]]; try discriminate Hs.
    destruct (lookup_asym Tables.asym_map (catc c) (catc c1)) eqn:E; [|discriminate Hs].
    apply asym_first_escape in E. apply is_c_true. exact E.
  - destruct m as [|c1 [|? ?]]; try discriminate Hs.
    destruct (lookup_asym Tables.asym_map (catc c) (catc c1)) eqn:E; [|discriminate Hs].
    apply asym_first_escape in E. apply is_c_true. exact E.
  - destruct m as [|c1 [|? ?]]; try discriminate Hs.
    destruct (lookup_asym Tables.asym_map (catc c) (catc c1)) eqn:E; [|discriminate Hs].
    apply asym_first_escape in E. apply is_c_true. exact E.
  - (* TCommandName *) apply andb_true_iff in Hs. tauto.
  - (* TText *) cbn [forallb] in Hs. apply andb_true_iff in Hs. destruct Hs as [Hs _].
    apply andb_true_iff in Hs. tauto.
  - destruct m; [exact Hs | discriminate Hs].
  - destruct m; [exact Hs | discriminate Hs].
  - (* TPunctuationCommandName *)
    apply mem_str_In in Hs. apply points_start_letter in Hs.
    destruct Hs as (c' & p' & E & Hc). inversion E; subst. apply is_c_true. exact Hc.
Qed.

(* the kinds of token that can start with an escape / a comment character *)
Lemma first_escape_kinds t c m : shape t = true -> ttext t = c :: m -> is_c CEscape c = true ->
  (tcat t = TEscape /\ m = []) \/
  (tcat t = TEscapedComment /\ exists c1, m = [c1] /\ esc2_c c1 = true) \/
  (exists c1, m = [c1] /\ asym_c c1 = true).
Proof.
  intros Hs Ht Hc. pose proof (shape_first t c m Hs Ht) as F.
  apply shape_cat_of in Hs. rewrite Ht in Hs. apply is_c_true in Hc.
  destruct (tcat t) eqn:Ek; cbn [first_kind_ok] in F; unfold is_c, text_c in F; try rewrite Hc in F;
    try (vm_compute in F; discriminate F); cbn [shape_cat] in Hs.
  - left. destruct m; [auto | discriminate Hs].
  - right; left. destruct m as [|c1 [|? ?]]; try discriminate Hs.
    apply andb_true_iff in Hs. destruct Hs as [_ Hs]. split; [reflexivity|]. exists c1. auto.
  - right; right. destruct m as [|c1 [|? ?]]; try discriminate Hs. exists c1. split; [reflexivity|].
    unfold asym_c. rewrite Hc in Hs. destruct (lookup_asym _ _ _); [reflexivity | discriminate Hs].
  - right; right. destruct m as [|c1 [|? ?]]; try discriminate Hs. exists c1. split; [reflexivity|].
    unfold asym_c. rewrite Hc in Hs. destruct (lookup_asym _ _ _); [reflexivity | discriminate Hs].
  - right; right. destruct m as [|c1 [|? ?]]; try discriminate Hs. exists c1. split; [reflexivity|].
    unfold asym_c. rewrite Hc in Hs. destruct (lookup_asym _ _ _); [reflexivity | discriminate Hs].
  - right; right. destruct m as [|c1 [|? ?]]; try discriminate Hs. exists c1. split; [reflexivity|].
    unfold asym_c. rewrite Hc in Hs. destruct (lookup_asym _ _ _); [reflexivity | discriminate Hs].
Qed.

Lemma first_comment_kind t c m : shape t = true -> ttext t = c :: m -> is_c CComment c = true ->
  tcat t = TComment /\ forallb noeol_c m = true.
Proof.
  intros Hs Ht Hc. pose proof (shape_first t c m Hs Ht) as F.
  apply shape_cat_of in Hs. rewrite Ht in Hs. pose proof Hc as Hc'. apply is_c_true in Hc.
  destruct (tcat t) eqn:Ek; cbn [first_kind_ok] in F; unfold is_c, text_c in F; try rewrite Hc in F;
    try (vm_compute in F; discriminate F); cbn [shape_cat] in Hs.
  split; [reflexivity|]. rewrite Hc' in Hs. exact Hs.
Qed.

(* --------------------- escapes and comment characters inside a token *)

Definition sp_c (c : N) : bool := is_c CEscape c || is_c CComment c.

Lemma sp_facts c : sp_c c = true ->
  text_c c = false /\ ls_c c = false /\ is_c CSpacer c = false /\ is_c CEndOfLine c = false /\
  is_c CMathSwitch c = false /\ (forall a, lookup_asym Tables.asym_map a (catc c) = None) /\
  noeol_c c = true /\ esc2_c c = true.
Proof.
  unfold sp_c, text_c, ls_c, noeol_c, esc2_c, is_c. intro H.
  assert (Hs : N.eqb c star = false).
  { destruct (N.eqb c star) eqn:E; [|reflexivity]. apply N.eqb_eq in E. subst c.
    vm_compute in H. discriminate H. }
  rewrite Hs.
  destruct (catc c); vm_compute in H; try discriminate H;
    (repeat split; try reflexivity; intro a; destruct a; reflexivity).
Qed.

Lemma blank_chars s : s <> [] -> after_spacers s = [] ->
  forallb (fun c => is_c CSpacer c || is_c CEndOfLine c) s = true.
Proof.
  intros _ H. destruct (after_spacers_decomp s) as (b1 & e & b2 & Hs & H1 & H2 & _ & He).
  rewrite H, app_nil_r in Hs. rewrite Hs, !forallb_app.
  assert (B : forall b, forallb (is_c CSpacer) b = true ->
                        forallb (fun c => is_c CSpacer c || is_c CEndOfLine c) b = true).
  { intros b Hb. rewrite forallb_forall in *. intros c Hc. rewrite (Hb c Hc). reflexivity. }
  rewrite (B b1 H1), (B b2 H2). destruct He as [(-> & _ & _)|(c & -> & Hc)]; [reflexivity|].
  cbn [forallb]. rewrite Hc, orb_true_r. reflexivity.
Qed.

(* an escape or a comment character that is not the first character of its
   token lies in a Comment, in a sizing command + delimiter, or is the second
   character of an EscapedComment *)
Lemma inner_special t x c y :
  shape t = true -> ttext t = x ++ c :: y -> x <> [] -> sp_c c = true ->
  tcat t = TComment \/ tcat t = TPunctuationCommandName \/
  (tcat t = TEscapedComment /\ y = [] /\ exists c0, x = [c0] /\ is_c CEscape c0 = true).
Proof.
  intros Hs Ht Hx Hc. apply shape_cat_of in Hs. rewrite Ht in Hs.
  destruct (sp_facts c Hc) as (F1 & F2 & F3 & F4 & F5 & F6 & _).
  destruct x as [|x0 x']; [congruence|]. cbn [app] in Hs.
  assert (Hin : In c (x' ++ c :: y)) by (apply in_elt).
  destruct (tc_eq_dec (tcat t) TEscapedComment) as [Ee|Ne].
  { right; right. rewrite Ee in Hs. cbn [shape_cat] in Hs.
    destruct x' as [|x1 x'']; cbn [app] in Hs; [|destruct x''; discriminate Hs].
    destruct y; [|discriminate Hs]. apply andb_true_iff in Hs. destruct Hs as [Hs _].
    split; [exact Ee|]. split; [reflexivity|]. exists x0. auto. }
  destruct (tcat t) eqn:Ek; cbn [shape_cat] in Hs; try discriminate Hs; try congruence;
    try (left; reflexivity); try (right; left; reflexivity); exfalso.
  - destruct x'; discriminate Hs.
  - destruct x'; discriminate Hs.
  - destruct x'; discriminate Hs.
  - (* TMergedSpacer *)
    destruct (after_spacers (x0 :: x' ++ c :: y)) eqn:Ea; [|discriminate Hs].
    apply blank_chars in Ea; [|discriminate]. rewrite forallb_forall in Ea.
    specialize (Ea c (or_intror Hin)). rewrite F3, F4 in Ea. discriminate Ea.
  - destruct x'; discriminate Hs.
  - destruct x' as [|x1 x'']; cbn [app] in Hs; [|destruct x''; discriminate Hs].
    destruct y; [|discriminate Hs]. rewrite F5, andb_false_r in Hs. discriminate Hs.
  - destruct x' as [|x1 x'']; cbn [app] in Hs; [|destruct x''; discriminate Hs].
    destruct y; [|discriminate Hs]. rewrite F6 in Hs. discriminate Hs.
  - destruct x' as [|x1 x'']; cbn [app] in Hs; [|destruct x''; discriminate Hs].
    destruct y; [|discriminate Hs]. rewrite F6 in Hs. discriminate Hs.
  - destruct x' as [|x1 x'']; cbn [app] in Hs; [|destruct x''; discriminate Hs].
    destruct y; [|discriminate Hs]. rewrite F6 in Hs. discriminate Hs.
  - destruct x' as [|x1 x'']; cbn [app] in Hs; [|destruct x''; discriminate Hs].
    destruct y; [|discriminate Hs]. rewrite F6 in Hs. discriminate Hs.
  - (* TCommandName *)
    apply andb_true_iff in Hs. destruct Hs as [_ Hs]. rewrite forallb_forall in Hs.
    rewrite (Hs c Hin) in F2. discriminate F2.
  - (* TText *)
    apply andb_true_iff in Hs. destruct Hs as [Hs _]. cbn [forallb] in Hs.
    apply andb_true_iff in Hs. destruct Hs as [_ Hs]. rewrite forallb_forall in Hs.
    rewrite (Hs c Hin) in F1. discriminate F1.
  - destruct x'; discriminate Hs.
  - destruct x'; discriminate Hs.
Qed.

(* ---------------------------- table facts about the sizing commands *)

(* the character after an escape inside a sizing command + delimiter *)
Definition punct_next_ok (d : N) : bool := negb (sp_c d) && negb (N.eqb d 101).

Fixpoint esc_next_ok (q : str) : bool :=
  match q with
  | c :: q' =>
    (if is_c CEscape c then match q' with d :: _ => punct_next_ok d | [] => false end else true)
    && esc_next_ok q'
  | [] => true
  end.

Lemma points_esc_next_ok : forallb esc_next_ok points = true.
Proof. vm_compute. reflexivity. Qed.

Lemma esc_next_ok_spec x e y : esc_next_ok (x ++ e :: y) = true -> is_c CEscape e = true ->
  exists d y', y = d :: y' /\ punct_next_ok d = true.
Proof.
  induction x as [|x0 x IH]; cbn [app esc_next_ok]; intros H He.
  - rewrite He in H. apply andb_true_iff in H. destruct H as [H _].
    destruct y as [|d y']; [discriminate H|]. exists d, y'. auto.
  - apply andb_true_iff in H. destruct H as [_ H]. apply IH; assumption.
Qed.

Definition no_comment_b (q : str) : bool := forallb (fun c => negb (is_c CComment c)) q.

Lemma points_no_comment_b : forallb no_comment_b points = true.
Proof. vm_compute. reflexivity. Qed.

Lemma punct_escape_next toks u e w :
  shaped toks -> inside toks TPunctuationCommandName u (e :: w) -> is_c CEscape e = true ->
  exists d w', w = d :: w' /\ punct_next_ok d = true.
Proof.
  intros Hsh (a & t & b & x & y & Ht & Hk & Hx & Hxn & Hyn & Hu & Hv) He.
  destruct y as [|y0 y']; [congruence|]. cbn [app] in Hv. injection Hv as E1 E2. subst y0.
  rewrite Ht in Hsh. apply shaped_app in Hsh. destruct Hsh as [_ Hsh]. inversion Hsh as [|? ? Hst _]; subst.
  apply shape_cat_of in Hst. rewrite Hk, Hx in Hst. cbn [shape_cat] in Hst. apply mem_str_In in Hst.
  pose proof points_esc_next_ok as B. rewrite forallb_forall in B. specialize (B _ Hst).
  destruct (esc_next_ok_spec x e y' B He) as (d & y'' & -> & Hd).
  exists d, (y'' ++ texts b). split; [reflexivity | exact Hd].
Qed.

Lemma punct_no_comment toks u c w :
  shaped toks -> inside toks TPunctuationCommandName u (c :: w) -> is_c CComment c = false.
Proof.
  intros Hsh (a & t & b & x & y & Ht & Hk & Hx & Hxn & Hyn & Hu & Hv).
  destruct y as [|y0 y']; [congruence|]. cbn [app] in Hv. injection Hv as E1 E2. subst y0.
  rewrite Ht in Hsh. apply shaped_app in Hsh. destruct Hsh as [_ Hsh]. inversion Hsh as [|? ? Hst _]; subst.
  apply shape_cat_of in Hst. rewrite Hk, Hx in Hst. cbn [shape_cat] in Hst. apply mem_str_In in Hst.
  pose proof points_no_comment_b as B. rewrite forallb_forall in B. specialize (B _ Hst).
  unfold no_comment_b in B. rewrite forallb_forall in B.
  specialize (B c (in_elt c x y')). apply negb_true_iff in B. exact B.
Qed.

(* ------------------------------------------------- runs of backslashes *)

Lemma all_esc_sp es : all_esc es = true -> forallb sp_c es = true.
Proof.
  unfold all_esc. rewrite !forallb_forall. intros H c Hc. unfold sp_c. rewrite (H c Hc). reflexivity.
Qed.

Lemma esc_sp c : is_c CEscape c = true -> sp_c c = true.
Proof. unfold sp_c. intros ->. reflexivity. Qed.

Lemma comment_sp c : is_c CComment c = true -> sp_c c = true.
Proof. unfold sp_c. intros ->. apply orb_true_r. Qed.

Lemma sp_noeol l : forallb sp_c l = true -> forallb noeol_c l = true.
Proof.
  rewrite !forallb_forall. intros H d Hd.
  destruct (sp_facts d (H d Hd)) as (_ & _ & _ & _ & _ & _ & G7 & _). exact G7.
Qed.

(* backslash_run, the pairs: 2j escapes starting at a token boundary are j
   EscapedComment tokens of two characters, whatever follows *)
Lemma esc_pairs j : forall r es rest,
  shaped r -> follows_ok r = true ->
  texts r = es ++ rest -> all_esc es = true -> length es = 2 * j ->
  exists ps r', r = ps ++ r' /\ texts ps = es /\ texts r' = rest /\ length ps = j /\
    Forall (fun t => tcat t = TEscapedComment /\ length (ttext t) = 2) ps.
Proof.
  induction j as [|j IH]; intros r es rest Hsh Hfo Ht Hes Hlen.
  - destruct es; [|discriminate Hlen]. exists [], r. repeat split; [exact Ht | constructor].
  - destruct es as [|c0 [|c1 es']]; try (cbn in Hlen; lia).
    unfold all_esc in Hes. cbn [forallb] in Hes. apply andb_true_iff in Hes. destruct Hes as [H0 Hes].
    apply andb_true_iff in Hes. destruct Hes as [H1 Hes].
    destruct r as [|t r1]; [discriminate Ht|].
    inversion Hsh as [|? ? Hst Hsr]; subst.
    cbn [follows_ok] in Hfo. apply andb_true_iff in Hfo. destruct Hfo as [Hf Hfo].
    unfold follow in Hf. apply andb_true_iff in Hf. destruct Hf as [Hfc _].
    pose proof (shape_nonempty t Hst) as Hne.
    destruct (ttext t) as [|c m] eqn:Et; [congruence|].
    rewrite texts_cons, Et in Ht. cbn [app] in Ht. injection Ht as E0 Ht. subst c.
    destruct (sp_facts c1 (esc_sp c1 H1)) as (_ & _ & _ & _ & _ & F6 & _ & F8).
    destruct (first_escape_kinds t c0 m Hst Et H0) as [[Hk ->]|[[Hk (c1' & -> & _)]|(c1' & -> & Ha)]].
    + (* a lone Escape cannot be followed by an escape *)
      exfalso. cbn [app] in Ht. unfold followc in Hfc. rewrite Hk, Ht in Hfc.
      cbn [hd_error nc_not] in Hfc. rewrite F8 in Hfc. discriminate Hfc.
    + cbn [app] in Ht. injection Ht as E1 Ht. subst c1'.
      destruct (IH r1 es' rest Hsr Hfo Ht Hes) as (ps & r' & R1 & R2 & R3 & R4 & R5).
      { cbn [length] in Hlen. lia. }
      exists (t :: ps), r'. subst r1. repeat split.
      * rewrite texts_cons, Et, R2. reflexivity.
      * exact R3.
      * cbn [length]. rewrite R4. reflexivity.
      * constructor; [|exact R5]. rewrite Et. auto.
    + exfalso. cbn [app] in Ht. injection Ht as E1 Ht. subst c1'.
      unfold asym_c in Ha. rewrite F6 in Ha. discriminate Ha.
Qed.

Lemma cut_extend_pairs toks u es rest j :
  shaped toks -> follows_ok toks = true -> cut toks u (es ++ rest) ->
  all_esc es = true -> length es = 2 * j -> cut toks (u ++ es) rest.
Proof.
  intros Hsh Hfo (a & b & Ht & Hu & Hv) Hes Hlen. subst toks.
  apply shaped_app in Hsh. destruct Hsh as [_ Hsb]. apply follows_ok_app in Hfo.
  destruct (esc_pairs j b es rest Hsb Hfo Hv Hes Hlen) as (ps & r' & R1 & R2 & R3 & _).
  exists (a ++ ps), r'. subst b. rewrite app_assoc. repeat split; [|exact R3].
  rewrite texts_app, Hu, R2. reflexivity.
Qed.

(* an escape / comment character not preceded by an escape: at a boundary,
   or inside a Comment, or inside a sizing command + delimiter *)
Lemma special_start_cases toks u c w :
  shaped toks -> texts toks = u ++ c :: w -> sp_c c = true -> ends_escape u = false ->
  cut toks u (c :: w) \/ inside toks TComment u (c :: w) \/
  inside toks TPunctuationCommandName u (c :: w).
Proof.
  intros Hsh Ht Hc Hu.
  destruct (cut_cases toks (shaped_nonempty toks Hsh) u (c :: w) Ht) as [H|(k & H)]; [left; exact H|].
  right. pose proof H as (a & t & b & x & y & E & Hk & Hx & Hxn & Hyn & Eu & Ev).
  destruct y as [|y0 y']; [congruence|]. cbn [app] in Ev. injection Ev as E1 E2. subst y0.
  assert (Hst : shape t = true).
  { rewrite E in Hsh. apply shaped_app in Hsh. destruct Hsh as [_ Hsh]. inversion Hsh; assumption. }
  destruct (inner_special t x c y' Hst Hx Hxn Hc) as [K|[K|(K & _ & c0 & -> & H0)]].
  - left. rewrite <- K, Hk. exact H.
  - right. rewrite <- K, Hk. exact H.
  - exfalso. rewrite Eu, ends_escape_snoc, H0 in Hu. discriminate Hu.
Qed.

(* a Comment token runs to the end of its line *)
Lemma comment_extends toks u m c w :
  follows_ok toks = true ->
  inside toks TComment u (m ++ c :: w) -> forallb noeol_c (m ++ [c]) = true ->
  inside toks TComment (u ++ m) (c :: w).
Proof.
  intros Hfo (a & t & b & x & y & E & Hk & Hx & Hxn & Hyn & Eu & Ev) Hm.
  assert (Ev' : (m ++ [c]) ++ w = y ++ texts b) by (rewrite <- app_assoc; exact Ev).
  assert (Done : forall l, y = (m ++ [c]) ++ l -> w = l ++ texts b ->
                 inside toks TComment (u ++ m) (c :: w)).
  { intros l Hy Hw. exists a, t, b, (x ++ m), (c :: l). repeat split; try assumption.
    - rewrite Hx, Hy, <- !app_assoc. reflexivity.
    - destruct x; [congruence | discriminate].
    - discriminate.
    - rewrite Eu, app_assoc. reflexivity.
    - rewrite Hw. reflexivity. }
  apply app_eq_app in Ev'. destruct Ev' as (l & [[E1 E2]|[E1 E2]]).
  - destruct l as [|l0 l'].
    + apply (Done []); [rewrite app_nil_r; rewrite app_nil_r in E1; symmetry; exact E1 | symmetry; exact E2].
    + exfalso. subst toks. destruct (follows_ok_mid a t b Hfo) as (Hfc & _ & _).
      unfold followc in Hfc. rewrite Hk, E2 in Hfc. cbn [app hd_error nc_not] in Hfc.
      rewrite E1, forallb_app in Hm. apply andb_true_iff in Hm. destruct Hm as [_ Hm].
      cbn [forallb] in Hm. apply andb_true_iff in Hm. destruct Hm as [Hm _].
      rewrite Hm in Hfc. discriminate Hfc.
  - apply (Done l); assumption.
Qed.

(* the main boundary lemma: an escape or comment character after an even,
   maximal run of escapes is at a token boundary unless it lies inside a
   Comment or inside a sizing command + delimiter *)
Lemma special_at_cut toks u es c w j :
  shaped toks -> follows_ok toks = true ->
  texts toks = u ++ es ++ c :: w -> ends_escape u = false ->
  all_esc es = true -> length es = 2 * j -> sp_c c = true ->
  ~ inside toks TComment (u ++ es) (c :: w) ->
  ~ inside toks TPunctuationCommandName (u ++ es) (c :: w) ->
  cut toks (u ++ es) (c :: w).
Proof.
  intros Hsh Hfo Ht Hu Hes Hlen Hc NC NP.
  destruct es as [|e0 es'].
  - rewrite app_nil_r in *. cbn [app] in Ht.
    destruct (special_start_cases toks u c w Hsh Ht Hc Hu) as [H|[H|H]];
      [exact H | contradiction | contradiction].
  - pose proof Hes as Hes'. unfold all_esc in Hes'. cbn [forallb] in Hes'.
    apply andb_true_iff in Hes'. destruct Hes' as [H0 Hes'].
    cbn [app] in Ht.
    destruct (special_start_cases toks u e0 (es' ++ c :: w) Hsh Ht (esc_sp e0 H0) Hu) as [H|[H|H]].
    + apply (cut_extend_pairs toks u (e0 :: es') (c :: w) j Hsh Hfo H Hes Hlen).
    + exfalso. apply NC. apply (comment_extends toks u (e0 :: es') c w Hfo H).
      apply sp_noeol. rewrite forallb_app, (all_esc_sp _ Hes). cbn [forallb]. rewrite Hc. reflexivity.
    + exfalso. destruct (punct_escape_next toks u e0 (es' ++ c :: w) Hsh H H0) as (d & w' & E & Hd).
      unfold punct_next_ok in Hd. apply andb_true_iff in Hd. destruct Hd as [Hd _].
      apply negb_true_iff in Hd.
      destruct es' as [|e1 es'']; cbn [app] in E; injection E as E1 _; subst d.
      * rewrite Hc in Hd. discriminate Hd.
      * cbn [forallb] in Hes'. apply andb_true_iff in Hes'. destruct Hes' as [H1 _].
        rewrite (esc_sp e1 H1) in Hd. discriminate Hd.
Qed.

(* ----------------------------------- from token level to recorded offsets *)

Lemma offsets_ok_app a : forall p b, offsets_ok p (a ++ b) ->
  offsets_ok (p + Z.of_nat (length (texts a)))%Z b.
Proof.
  induction a as [|t a IH]; intros p b H.
  - cbn [texts map concat length]. rewrite Z.add_0_r. exact H.
  - cbn [app offsets_ok] in H. destruct H as [_ H]. apply IH in H.
    rewrite texts_cons, app_length, Nat2Z.inj_add, Z.add_assoc. exact H.
Qed.

(* the facts TokInverse.tokens_shaped gives about the tokens of a string *)
Record tokd (s : str) (toks : list token) : Prop := mk_tokd {
  td_toks : toks_of s = toks;
  td_texts : texts toks = s;
  td_shaped : shaped toks;
  td_follows : follows_ok toks = true;
  td_first : first_ok toks = true;
  td_offsets : offsets_ok 0 toks }.

Lemma tokd_exists s : clean s = true -> start_quirk s = false -> exists toks, tokd s toks.
Proof.
  intros Hcl Hq. destruct (tokens_shaped s Hcl Hq) as (toks & E & T1 & T2 & T3 & T4 & T5).
  exists toks. constructor; try assumption. unfold toks_of. rewrite E. reflexivity.
Qed.

Lemma cut_boundary_b s toks u v : tokd s toks -> cut toks u v -> boundary_b s (length u) = true.
Proof.
  intros D (a & b & E & Hu & Hv). unfold boundary_b. rewrite (td_toks s toks D).
  destruct b as [|t b'].
  - rewrite app_nil_r in E. subst a. rewrite (td_texts s toks D) in Hu. subst u.
    rewrite Nat.eqb_refl. apply orb_true_r.
  - apply orb_true_iff. left. apply existsb_exists. exists t. split.
    + rewrite E. apply in_elt.
    + pose proof (td_offsets s toks D) as O. rewrite E in O. apply offsets_ok_app in O.
      cbn [offsets_ok] in O. destruct O as [O _]. rewrite O, Hu. apply Z.eqb_refl.
Qed.

Lemma inside_inside_b s toks k u v : tokd s toks -> inside toks k u v -> inside_b s k (length u) = true.
Proof.
  intros D (a & t & b & x & y & E & Hk & Hx & Hxn & Hyn & Hu & Hv).
  unfold inside_b. rewrite (td_toks s toks D). apply existsb_exists. exists t. split.
  - rewrite E. apply in_elt.
  - pose proof (td_offsets s toks D) as O. rewrite E in O. apply offsets_ok_app in O.
    cbn [offsets_ok] in O. destruct O as [O _]. rewrite O, Hk, Hx, Hu, !app_length.
    destruct x; [congruence|]. destruct y; [congruence|]. cbn [length].
    apply andb_true_iff. split; [apply andb_true_iff; split|].
    + apply tc_eqb_eq. reflexivity.
    + apply Z.ltb_lt. lia.
    + apply Z.ltb_lt. lia.
Qed.

Lemma not_inside_b s toks k u v : tokd s toks -> inside_b s k (length u) = false -> ~ inside toks k u v.
Proof. intros D H I. rewrite (inside_inside_b s toks k u v D I) in H. discriminate H. Qed.

Lemma boundary_b_cut s toks i : tokd s toks -> boundary_b s i = true ->
  cut toks (firstn i s) (skipn i s).
Proof.
  intros D H. unfold boundary_b in H. rewrite (td_toks s toks D) in H. apply orb_true_iff in H.
  destruct H as [H|H].
  - apply existsb_exists in H. destruct H as (t & Hin & Hp). apply Z.eqb_eq in Hp.
    apply in_split in Hin. destruct Hin as (a & b & E).
    pose proof (td_offsets s toks D) as O. rewrite E in O. apply offsets_ok_app in O.
    cbn [offsets_ok] in O. destruct O as [O _]. rewrite O in Hp. cbn in Hp.
    apply Nat2Z.inj in Hp. subst i.
    exists a, (t :: b). split; [exact E|].
    rewrite <- (td_texts s toks D), E, texts_app.
    split; [symmetry; apply firstn_app_exact | symmetry; apply skipn_app_exact].
  - apply Nat.eqb_eq in H. subst i. exists toks, []. rewrite app_nil_r.
    rewrite firstn_all, skipn_all. repeat split. exact (td_texts s toks D).
Qed.

Lemma boundary_b_cut_split s toks u v : tokd s toks -> s = u ++ v ->
  boundary_b s (length u) = true -> cut toks u v.
Proof.
  intros D E H. pose proof (boundary_b_cut s toks (length u) D H) as C.
  rewrite E, firstn_app_exact, skipn_app_exact in C. exact C.
Qed.

Lemma even_half n : Nat.even n = true -> exists j, n = 2 * j.
Proof. intro H. apply Nat.even_spec in H. destruct H as (j & ->). exists j. reflexivity. Qed.

(* ------------------------------------------------ Stage 1, string level *)

(* backslash_run: a run of 2j escapes starting at a token boundary is j
   two-character EscapedComment tokens; if another character follows, the next
   token starts with it (so a run of odd length 2j+1 is j such tokens followed by
   a token that starts with the last escape) *)
Theorem backslash_run s u es w j :
  clean s = true -> start_quirk s = false ->
  s = u ++ es ++ w -> boundary_b s (length u) = true ->
  all_esc es = true -> length es = 2 * j ->
  exists a ps r,
    toks_of s = a ++ ps ++ r /\ texts a = u /\ texts ps = es /\ texts r = w /\ length ps = j /\
    Forall (fun t => tcat t = TEscapedComment /\ length (ttext t) = 2) ps /\
    boundary_b s (length (u ++ es)) = true /\
    (forall e w', w = e :: w' -> exists t r' m, r = t :: r' /\ ttext t = e :: m).
Proof.
  intros Hcl Hq Es Hb Hes Hlen. destruct (tokd_exists s Hcl Hq) as (toks & D).
  destruct (boundary_b_cut_split s toks u (es ++ w) D Es Hb) as (a & b & E & Hu & Hv).
  pose proof (td_shaped s toks D) as Hsh. pose proof (td_follows s toks D) as Hfo.
  rewrite E in Hsh, Hfo. apply shaped_app in Hsh. destruct Hsh as [_ Hsb]. apply follows_ok_app in Hfo.
  destruct (esc_pairs j b es w Hsb Hfo Hv Hes Hlen) as (ps & r & R1 & R2 & R3 & R4 & R5).
  exists a, ps, r. rewrite (td_toks s toks D), E, R1.
  split; [reflexivity|]. split; [exact Hu|]. split; [exact R2|]. split; [exact R3|].
  split; [exact R4|]. split; [exact R5|]. split.
  - apply (cut_boundary_b s toks (u ++ es) w D). exists (a ++ ps), r.
    rewrite E, R1, app_assoc, texts_app, Hu, R2. repeat split. exact R3.
  - intros e w' Ew. destruct r as [|t r']; [rewrite Ew in R3; discriminate R3|].
    subst b. apply shaped_app in Hsb. destruct Hsb as [_ Hsr]. apply Forall_inv in Hsr.
    pose proof (shape_nonempty t Hsr) as Hne. rewrite texts_cons, Ew in R3.
    destruct (ttext t) as [|c m] eqn:Et; [congruence|]. cbn [app] in R3. injection R3 as E1 _.
    exists t, r', m. subst c. rewrite Et. split; reflexivity.
Qed.

(* every maximal run of escapes starts at a token boundary, unless it starts
   inside a Comment or inside a sizing command + delimiter *)
Theorem run_start_boundary s u e w :
  clean s = true -> start_quirk s = false ->
  s = u ++ e :: w -> is_c CEscape e = true -> ends_escape u = false ->
  inside_b s TComment (length u) = false ->
  inside_b s TPunctuationCommandName (length u) = false ->
  boundary_b s (length u) = true.
Proof.
  intros Hcl Hq Es He Hu NC NP. destruct (tokd_exists s Hcl Hq) as (toks & D).
  pose proof (td_texts s toks D) as Ht. rewrite Es in Ht.
  destruct (special_start_cases toks u e w (td_shaped s toks D) Ht (esc_sp e He) Hu) as [H|[H|H]].
  - apply (cut_boundary_b s toks u (e :: w) D H).
  - rewrite (inside_inside_b s toks _ u (e :: w) D H) in NC. discriminate NC.
  - rewrite (inside_inside_b s toks _ u (e :: w) D H) in NP. discriminate NP.
Qed.

(* an escape that is NOT at a token boundary is inside a Comment, inside a
   sizing command + delimiter, or the second character of an EscapedComment
   token (which starts, at the escape just before it, at a boundary) *)
Theorem escape_not_boundary_cases s u e w :
  clean s = true -> start_quirk s = false ->
  s = u ++ e :: w -> is_c CEscape e = true -> boundary_b s (length u) = false ->
  inside_b s TComment (length u) = true \/
  inside_b s TPunctuationCommandName (length u) = true \/
  exists u' c0 a t b,
    u = u' ++ [c0] /\ is_c CEscape c0 = true /\ toks_of s = a ++ t :: b /\ texts a = u' /\
    tcat t = TEscapedComment /\ ttext t = [c0; e] /\ boundary_b s (length u') = true.
Proof.
  intros Hcl Hq Es He Hb. destruct (tokd_exists s Hcl Hq) as (toks & D).
  pose proof (td_texts s toks D) as Ht. rewrite Es in Ht. pose proof (td_shaped s toks D) as Hsh.
  destruct (cut_cases toks (shaped_nonempty toks Hsh) u (e :: w) Ht) as [H|(k & H)].
  { rewrite (cut_boundary_b s toks u (e :: w) D H) in Hb. discriminate Hb. }
  pose proof H as (a & t & b & x & y & E & Hk & Hx & Hxn & Hyn & Eu & Ev).
  destruct y as [|y0 y']; [congruence|]. cbn [app] in Ev. injection Ev as E1 E2. subst y0.
  assert (Hst : shape t = true).
  { rewrite E in Hsh. apply shaped_app in Hsh. destruct Hsh as [_ Hsh]. inversion Hsh; assumption. }
  destruct (inner_special t x e y' Hst Hx Hxn (esc_sp e He)) as [K|[K|(K & -> & c0 & -> & H0)]].
  - left. rewrite <- K, Hk. apply (inside_inside_b s toks _ u (e :: w) D H).
  - right; left. rewrite <- K, Hk. apply (inside_inside_b s toks _ u (e :: w) D H).
  - right; right. exists (texts a), c0, a, t, b. rewrite (td_toks s toks D).
    repeat split; try assumption.
    apply (cut_boundary_b s toks (texts a) (texts (t :: b)) D). exists a, (t :: b). auto.
Qed.

(* escape_at_boundary: an escape preceded by a maximal run of escapes of even
   length (possibly 0) is at a token boundary, unless it lies inside a Comment
   or inside a sizing command + delimiter *)
Theorem escape_at_boundary s u es e w :
  clean s = true -> start_quirk s = false ->
  s = u ++ es ++ e :: w -> ends_escape u = false ->
  all_esc es = true -> Nat.even (length es) = true -> is_c CEscape e = true ->
  inside_b s TComment (length (u ++ es)) = false ->
  inside_b s TPunctuationCommandName (length (u ++ es)) = false ->
  boundary_b s (length (u ++ es)) = true.
Proof.
  intros Hcl Hq Es Hu Hes Hev He NC NP. destruct (tokd_exists s Hcl Hq) as (toks & D).
  destruct (even_half _ Hev) as (j & Hlen).
  pose proof (td_texts s toks D) as Ht. rewrite Es in Ht.
  apply (cut_boundary_b s toks (u ++ es) (e :: w) D).
  apply (special_at_cut toks u es e w j (td_shaped s toks D) (td_follows s toks D) Ht Hu Hes Hlen
           (esc_sp e He)).
  - apply (not_inside_b s toks _ _ _ D NC).
  - apply (not_inside_b s toks _ _ _ D NP).
Qed.

(* ----------------------------------------------- Stage 1: non-vacuity *)

(* "a\\\b": u = "a", es = "\\", e = "\", w = "b" *)
Definition ex_run : str := [97; 92; 92; 92; 98]%N.

Example escape_at_boundary_ex :
  clean ex_run = true /\ start_quirk ex_run = false /\
  ex_run = ([97] ++ [92; 92] ++ 92 :: [98])%N /\ ends_escape [97]%N = false /\
  all_esc [92; 92]%N = true /\ Nat.even (length [92; 92]%N) = true /\ is_c CEscape 92%N = true /\
  inside_b ex_run TComment 3 = false /\ inside_b ex_run TPunctuationCommandName 3 = false /\
  boundary_b ex_run 3 = true /\
  map (fun t => (ttext t, tpos t, tcat t)) (toks_of ex_run) =
  [([97]%N, 0%Z, TText); ([92; 92]%N, 1%Z, TEscapedComment); ([92]%N, 3%Z, TEscape);
   ([98]%N, 4%Z, TCommandName)].
Proof. vm_compute. repeat split. Qed.

Example backslash_run_ex :
  boundary_b ex_run 1 = true /\ ex_run = ([97] ++ [92; 92] ++ [92; 98])%N /\
  length [92; 92]%N = 2 * 1.
Proof. vm_compute. repeat split. Qed.

(* the two exclusions are needed: "\left\{x" has its second escape (offset 5,
   after a run of 0 escapes) inside the sizing command + delimiter "left\{";
   "%\x" has its escape inside the comment *)
Definition ex_left_brace : str := [92; 108; 101; 102; 116; 92; 123; 120]%N.
Definition ex_pct_esc : str := [37; 92; 120]%N.

Example escape_in_punct_not_boundary :
  clean ex_left_brace = true /\ start_quirk ex_left_brace = false /\
  ex_left_brace = ([92; 108; 101; 102; 116] ++ [] ++ 92 :: [123; 120])%N /\
  ends_escape [92; 108; 101; 102; 116]%N = false /\
  inside_b ex_left_brace TComment 5 = false /\
  inside_b ex_left_brace TPunctuationCommandName 5 = true /\
  boundary_b ex_left_brace 5 = false /\
  map (fun t => (ttext t, tpos t, tcat t)) (toks_of ex_left_brace) =
  [([92]%N, 0%Z, TEscape); ([108; 101; 102; 116; 92; 123]%N, 1%Z, TPunctuationCommandName);
   ([120]%N, 7%Z, TText)].
Proof. vm_compute. repeat split. Qed.

Example escape_in_comment_not_boundary :
  clean ex_pct_esc = true /\ start_quirk ex_pct_esc = false /\
  inside_b ex_pct_esc TComment 1 = true /\ boundary_b ex_pct_esc 1 = false.
Proof. vm_compute. repeat split. Qed.

(* "a\\b": the second escape (offset 2, after an odd run) is not at a boundary:
   it is the second character of the EscapedComment token "\\" *)
Example escape_not_boundary_ex :
  let s := [97; 92; 92; 98]%N in
  clean s = true /\ start_quirk s = false /\ s = ([97; 92] ++ 92 :: [98])%N /\
  boundary_b s 2 = false /\ inside_b s TComment 2 = false /\
  inside_b s TPunctuationCommandName 2 = false /\ boundary_b s 1 = true.
Proof. vm_compute. repeat split. Qed.

(* ====================================================================== *)
(* Stage 2: C10 at string level                                            *)
(* ====================================================================== *)

Lemma cut_head toks u c w : shaped toks -> cut toks u (c :: w) ->
  exists a t b m, toks = a ++ t :: b /\ texts a = u /\ ttext t = c :: m /\ w = m ++ texts b /\
                  shape t = true.
Proof.
  intros Hsh (a & b0 & E & Hu & Hv). destruct b0 as [|t b]; [discriminate Hv|].
  rewrite E in Hsh. apply shaped_app in Hsh. destruct Hsh as [_ Hsh]. apply Forall_inv in Hsh.
  pose proof (shape_nonempty t Hsh) as Hne. rewrite texts_cons in Hv.
  destruct (ttext t) as [|c' m] eqn:Et; [congruence|]. cbn [app] in Hv. injection Hv as E1 E2.
  subst c'. exists a, t, b, m. rewrite Et. repeat split; auto.
Qed.

(* even run: the comment character starts a Comment token that ends at the
   next end-of-line character or at the end of the input *)
Lemma comment_even toks u es c w j :
  shaped toks -> follows_ok toks = true ->
  texts toks = u ++ es ++ c :: w -> ends_escape u = false ->
  all_esc es = true -> length es = 2 * j -> is_c CComment c = true ->
  ~ inside toks TComment (u ++ es) (c :: w) ->
  exists a t b body, toks = a ++ t :: b /\ texts a = u ++ es /\ tcat t = TComment /\
    ttext t = c :: body /\ forallb noeol_c body = true /\ w = body ++ texts b /\
    nc_not noeol_c (hd_error (texts b)) = true.
Proof.
  intros Hsh Hfo Ht Hu Hes Hlen Hc NC.
  assert (NP : ~ inside toks TPunctuationCommandName (u ++ es) (c :: w)).
  { intro I. rewrite (punct_no_comment toks _ c w Hsh I) in Hc. discriminate Hc. }
  pose proof (special_at_cut toks u es c w j Hsh Hfo Ht Hu Hes Hlen (comment_sp c Hc) NC NP) as C.
  destruct (cut_head toks _ c w Hsh C) as (a & t & b & m & E & Ha & Et & Ew & Hst).
  destruct (first_comment_kind t c m Hst Et Hc) as [Hk Hm].
  exists a, t, b, m. repeat split; try assumption.
  rewrite E in Hfo. destruct (follows_ok_mid a t b Hfo) as (Hfc & _ & _).
  unfold followc in Hfc. rewrite Hk in Hfc. exact Hfc.
Qed.

(* odd run: the last escape and the comment character are one EscapedComment token *)
Lemma comment_odd toks u es e c w j :
  shaped toks -> follows_ok toks = true ->
  texts toks = u ++ es ++ e :: c :: w -> ends_escape u = false ->
  all_esc es = true -> length es = 2 * j -> is_c CEscape e = true -> is_c CComment c = true ->
  ~ inside toks TComment (u ++ es ++ [e]) (c :: w) ->
  exists a t b, toks = a ++ t :: b /\ texts a = u ++ es /\ tcat t = TEscapedComment /\
    ttext t = [e; c] /\ texts b = w.
Proof.
  intros Hsh Hfo Ht Hu Hes Hlen He Hc NC.
  destruct (sp_facts c (comment_sp c Hc)) as (_ & _ & _ & _ & _ & F6 & F7 & F8).
  assert (NC' : ~ inside toks TComment (u ++ es) (e :: c :: w)).
  { intro I. apply NC. rewrite app_assoc.
    apply (comment_extends toks (u ++ es) [e] c w Hfo I).
    apply sp_noeol. cbn [app forallb]. rewrite (esc_sp e He), (comment_sp c Hc). reflexivity. }
  assert (NP : ~ inside toks TPunctuationCommandName (u ++ es) (e :: c :: w)).
  { intro I. destruct (punct_escape_next toks _ e (c :: w) Hsh I He) as (d & w' & E & Hd).
    injection E as E1 _. subst d. unfold punct_next_ok in Hd.
    rewrite (comment_sp c Hc) in Hd. discriminate Hd. }
  pose proof (special_at_cut toks u es e (c :: w) j Hsh Hfo Ht Hu Hes Hlen (esc_sp e He) NC' NP) as C.
  destruct (cut_head toks _ e (c :: w) Hsh C) as (a & t & b & m & E & Ha & Et & Ew & Hst).
  exists a, t, b.
  destruct (first_escape_kinds t e m Hst Et He) as [[Hk ->]|[[Hk (c1 & -> & _)]|(c1 & -> & Hasym)]].
  - exfalso. rewrite E in Hfo. destruct (follows_ok_mid a t b Hfo) as (Hfc & _ & _).
    unfold followc in Hfc. rewrite Hk in Hfc. cbn [app] in Ew. rewrite <- Ew in Hfc.
    cbn [hd_error nc_not] in Hfc. rewrite F8 in Hfc. discriminate Hfc.
  - cbn [app] in Ew. injection Ew as E1 E2. subst c1. repeat split; auto.
  - exfalso. cbn [app] in Ew. injection Ew as E1 E2. subst c1.
    unfold asym_c in Hasym. rewrite F6 in Hasym. discriminate Hasym.
Qed.

Lemma odd_half n : Nat.even n = false -> exists j, n = 2 * j + 1.
Proof.
  intro H. assert (O : Nat.odd n = true) by (unfold Nat.odd; rewrite H; reflexivity).
  apply Nat.odd_spec in O. destruct O as (j & ->). exists j. reflexivity.
Qed.

Lemma all_esc_snoc es e : all_esc (es ++ [e]) = true -> all_esc es = true /\ is_c CEscape e = true.
Proof.
  unfold all_esc. rewrite forallb_app. cbn [forallb]. intro H. apply andb_true_iff in H.
  destruct H as [H1 H2]. apply andb_true_iff in H2. tauto.
Qed.

Lemma tokd_pos s toks a t b : tokd s toks -> toks = a ++ t :: b ->
  tpos t = Z.of_nat (length (texts a)).
Proof.
  intros D E. pose proof (td_offsets s toks D) as O. rewrite E in O. apply offsets_ok_app in O.
  cbn [offsets_ok] in O. destruct O as [O _]. rewrite O. reflexivity.
Qed.

(* C10 on strings.  s = u ++ es ++ c :: w where c is a comment character, es
   the maximal run of escapes before it (u does not end with an escape), and
   the character is not strictly inside a Comment token (one that started
   earlier on the same line).
   - |es| even: a Comment token starts at c; its text is c followed by `body`,
     which contains no end-of-line character, and what follows it is empty or
     starts with an end-of-line character.
   - |es| odd: the last escape and c form the two-character EscapedComment
     token "\%"; the characters after it are tokenised as ordinary input. *)
Theorem comment_string s u es c w :
  clean s = true -> start_quirk s = false ->
  s = u ++ es ++ c :: w -> ends_escape u = false -> all_esc es = true ->
  is_c CComment c = true ->
  inside_b s TComment (length (u ++ es)) = false ->
  if Nat.even (length es) then
    exists a t b body,
      toks_of s = a ++ t :: b /\ texts a = u ++ es /\
      tcat t = TComment /\ tpos t = Z.of_nat (length (u ++ es)) /\ ttext t = c :: body /\
      forallb noeol_c body = true /\ w = body ++ texts b /\
      nc_not noeol_c (hd_error (texts b)) = true
  else
    exists es' e a t b,
      es = es' ++ [e] /\ toks_of s = a ++ t :: b /\ texts a = u ++ es' /\
      tcat t = TEscapedComment /\ tpos t = Z.of_nat (length (u ++ es')) /\ ttext t = [e; c] /\
      texts b = w.
Proof.
  intros Hcl Hq Es Hu Hes Hc NC. destruct (tokd_exists s Hcl Hq) as (toks & D).
  pose proof (td_texts s toks D) as Ht. rewrite Es in Ht.
  pose proof (td_shaped s toks D) as Hsh. pose proof (td_follows s toks D) as Hfo.
  destruct (Nat.even (length es)) eqn:Ev.
  - destruct (even_half _ Ev) as (j & Hlen).
    destruct (comment_even toks u es c w j Hsh Hfo Ht Hu Hes Hlen Hc
                (not_inside_b s toks _ _ _ D NC)) as (a & t & b & body & E & R1 & R2 & R3 & R4 & R5 & R6).
    exists a, t, b, body. rewrite (td_toks s toks D).
    split; [exact E|]. split; [exact R1|]. split; [exact R2|].
    split; [rewrite (tokd_pos s toks a t b D E), R1; reflexivity|]. auto.
  - destruct (odd_half _ Ev) as (j & Hlen).
    assert (Hne : es <> []) by (intro E0; rewrite E0 in Hlen; cbn in Hlen; lia).
    destruct (exists_last Hne) as (es' & e & Ees). subst es.
    destruct (all_esc_snoc es' e Hes) as [Hes' He].
    rewrite app_length in Hlen. cbn [length] in Hlen.
    rewrite <- app_assoc in Ht. cbn [app] in Ht.
    assert (NC' : ~ inside toks TComment (u ++ es' ++ [e]) (c :: w)).
    { apply (not_inside_b s toks _ _ _ D). exact NC. }
    destruct (comment_odd toks u es' e c w j Hsh Hfo Ht Hu Hes' ltac:(lia) He Hc NC')
      as (a & t & b & E & R1 & R2 & R3 & R4).
    exists es', e, a, t, b. rewrite (td_toks s toks D).
    split; [reflexivity|]. split; [exact E|]. split; [exact R1|]. split; [exact R2|].
    split; [rewrite (tokd_pos s toks a t b D E), R1; reflexivity|]. auto.
Qed.

(* a string-level sufficient condition for "not inside a Comment token": no
   comment character earlier on the same line *)
Definition no_pct (l : str) : bool := forallb (fun c => negb (is_c CComment c)) l.

Lemma line_no_pct_not_inside toks u0 l v :
  shaped toks -> (u0 = [] \/ exists u1 c, u0 = u1 ++ [c] /\ is_c CEndOfLine c = true) ->
  no_pct l = true -> ~ inside toks TComment (u0 ++ l) v.
Proof.
  intros Hsh Hu0 Hl (a & t & b & x & y & E & Hk & Hx & Hxn & Hyn & Eu & Ev).
  assert (Hst : shape t = true).
  { rewrite E in Hsh. apply shaped_app in Hsh. destruct Hsh as [_ Hsh]. apply Forall_inv in Hsh. exact Hsh. }
  apply shape_cat_of in Hst. rewrite Hk, Hx in Hst. cbn [shape_cat] in Hst.
  destruct x as [|x0 x']; [congruence|]. cbn [app] in Hst.
  apply andb_true_iff in Hst. destruct Hst as [H0 Hx'].
  rewrite forallb_app in Hx'. apply andb_true_iff in Hx'. destruct Hx' as [Hx' _].
  (* x0 :: x' is a suffix of u0 ++ l made of a comment character and no end of line *)
  assert (Hall : forallb noeol_c (x0 :: x') = true).
  { cbn [forallb]. rewrite Hx', andb_true_r.
    destruct (sp_facts x0 (comment_sp x0 H0)) as (_ & _ & _ & _ & _ & _ & F7 & _). exact F7. }
  symmetry in Eu. apply app_eq_app in Eu. destruct Eu as (q & [[E1 E2]|[E1 E2]]).
  - (* texts a = u0 ++ q, l = q ++ x0 :: x' *)
    unfold no_pct in Hl. rewrite E2, forallb_app in Hl. apply andb_true_iff in Hl.
    destruct Hl as [_ Hl]. cbn [forallb] in Hl. rewrite H0 in Hl. discriminate Hl.
  - (* u0 = texts a ++ q, x0 :: x' = q ++ l *)
    destruct Hu0 as [->|(u1 & c & -> & Hc)].
    + symmetry in E1. apply app_eq_nil in E1. destruct E1 as [_ ->]. cbn [app] in E2.
      unfold no_pct in Hl. rewrite <- E2 in Hl. cbn [forallb] in Hl. rewrite H0 in Hl. discriminate Hl.
    + destruct q as [|q0 q'] using rev_ind.
      * cbn [app] in E2. unfold no_pct in Hl. rewrite <- E2 in Hl. cbn [forallb] in Hl.
        rewrite H0 in Hl. discriminate Hl.
      * rewrite app_assoc in E1. apply app_inj_tail in E1. destruct E1 as [_ <-].
        rewrite E2, !forallb_app in Hall. apply andb_true_iff in Hall. destruct Hall as [Hall _].
        apply andb_true_iff in Hall. destruct Hall as [_ Hall]. cbn [forallb] in Hall.
        unfold noeol_c in Hall. rewrite Hc in Hall. discriminate Hall.
Qed.

Lemma all_esc_no_pct es : all_esc es = true -> no_pct es = true.
Proof.
  unfold all_esc, no_pct. rewrite !forallb_forall. intros H c Hc. specialize (H c Hc).
  apply is_c_true in H. apply negb_true_iff. apply is_c_false. rewrite H. discriminate.
Qed.

Lemma inside_b_inside s toks k u v : tokd s toks -> s = u ++ v ->
  inside_b s k (length u) = true -> inside toks k u v.
Proof.
  intros D Es H. unfold inside_b in H. rewrite (td_toks s toks D) in H.
  apply existsb_exists in H. destruct H as (t & Hin & H).
  apply andb_true_iff in H. destruct H as [H H3]. apply andb_true_iff in H. destruct H as [H1 H2].
  apply tc_eqb_eq in H1. apply Z.ltb_lt in H2. apply Z.ltb_lt in H3.
  apply in_split in Hin. destruct Hin as (a & b & E).
  rewrite (tokd_pos s toks a t b D E) in H2, H3.
  pose proof (td_texts s toks D) as Ht. rewrite E, texts_app, texts_cons, Es in Ht.
  apply app_eq_app in Ht. destruct Ht as (l & [[E1 E2]|[E1 E2]]).
  { exfalso. rewrite E1, app_length in H2. lia. }
  apply app_eq_app in E2. destruct E2 as (l2 & [[E3 E4]|[E3 E4]]).
  - exists a, t, b, l, l2. repeat split; try assumption.
    + intro E0. subst l. rewrite E1, app_nil_r in H2. lia.
    + intro E0. subst l2. rewrite app_nil_r in E3. rewrite E1, E3, app_length in H3. lia.
  - exfalso. rewrite E1, E3, !app_length in H3. lia.
Qed.

(* purely on the string: the FIRST comment character of a line (l = the line
   so far, after the last end-of-line character or from the start of the input) *)
Corollary first_pct_on_line s u0 l es c w :
  clean s = true -> start_quirk s = false ->
  s = (u0 ++ l) ++ es ++ c :: w ->
  (u0 = [] \/ exists u1 d, u0 = u1 ++ [d] /\ is_c CEndOfLine d = true) ->
  no_pct l = true -> ends_escape (u0 ++ l) = false -> all_esc es = true ->
  is_c CComment c = true ->
  if Nat.even (length es) then
    exists a t b body,
      toks_of s = a ++ t :: b /\ texts a = (u0 ++ l) ++ es /\
      tcat t = TComment /\ tpos t = Z.of_nat (length ((u0 ++ l) ++ es)) /\ ttext t = c :: body /\
      forallb noeol_c body = true /\ w = body ++ texts b /\
      nc_not noeol_c (hd_error (texts b)) = true
  else
    exists es' e a t b,
      es = es' ++ [e] /\ toks_of s = a ++ t :: b /\ texts a = (u0 ++ l) ++ es' /\
      tcat t = TEscapedComment /\ tpos t = Z.of_nat (length ((u0 ++ l) ++ es')) /\
      ttext t = [e; c] /\ texts b = w.
Proof.
  intros Hcl Hq Es Hu0 Hl Hu Hes Hc.
  assert (NC : inside_b s TComment (length ((u0 ++ l) ++ es)) = false).
  { destruct (inside_b s TComment (length ((u0 ++ l) ++ es))) eqn:I; [exfalso|reflexivity].
    destruct (tokd_exists s Hcl Hq) as (toks & D).
    rewrite app_assoc in Es.
    pose proof (inside_b_inside s toks _ _ _ D Es I) as J.
    rewrite <- app_assoc in J.
    apply (line_no_pct_not_inside toks u0 (l ++ es) (c :: w) (td_shaped s toks D) Hu0); [|exact J].
    unfold no_pct. rewrite forallb_app. fold (no_pct l). fold (no_pct es).
    rewrite Hl, (all_esc_no_pct es Hes). reflexivity. }
  exact (comment_string s (u0 ++ l) es c w Hcl Hq Es Hu Hes Hc NC).
Qed.

(* ----------------------------------------------- Stage 2: non-vacuity *)

(* "ab\\%x}y<LF>z"  (two escapes, then a comment to the end of the line) and
   "ab\\\%x}y<LF>z"  (three escapes: "\\" "\%" then ordinary text) *)
Definition ex_c_even : str := [97; 98; 92; 92; 37; 120; 125; 121; 10; 122]%N.
Definition ex_c_odd : str := [97; 98; 92; 92; 92; 37; 120; 125; 121; 10; 122]%N.

Example comment_string_even_ex :
  clean ex_c_even = true /\ start_quirk ex_c_even = false /\
  ex_c_even = ([97; 98] ++ [92; 92] ++ 37 :: [120; 125; 121; 10; 122])%N /\
  ends_escape [97; 98]%N = false /\ all_esc [92; 92]%N = true /\ is_c CComment 37%N = true /\
  inside_b ex_c_even TComment (length ([97; 98] ++ [92; 92])%N) = false /\
  Nat.even (length [92; 92]%N) = true /\
  map (fun t => (ttext t, tpos t, tcat t)) (toks_of ex_c_even) =
  [([97; 98]%N, 0%Z, TText); ([92; 92]%N, 2%Z, TEscapedComment);
   ([37; 120; 125; 121]%N, 4%Z, TComment); ([10; 122]%N, 8%Z, TText)].
Proof. vm_compute. repeat split. Qed.

Example comment_string_odd_ex :
  clean ex_c_odd = true /\ start_quirk ex_c_odd = false /\
  ex_c_odd = ([97; 98] ++ [92; 92; 92] ++ 37 :: [120; 125; 121; 10; 122])%N /\
  ends_escape [97; 98]%N = false /\ all_esc [92; 92; 92]%N = true /\
  inside_b ex_c_odd TComment (length ([97; 98] ++ [92; 92; 92])%N) = false /\
  Nat.even (length [92; 92; 92]%N) = false /\
  map (fun t => (ttext t, tpos t, tcat t)) (toks_of ex_c_odd) =
  [([97; 98]%N, 0%Z, TText); ([92; 92]%N, 2%Z, TEscapedComment);
   ([92; 37]%N, 4%Z, TEscapedComment); ([120]%N, 6%Z, TText); ([125]%N, 7%Z, TGroupEnd);
   ([121; 10; 122]%N, 8%Z, TText)].
Proof. vm_compute. repeat split. Qed.

(* the hypothesis "not inside a Comment token" is needed: in "%a%b" the second
   comment character (even run of 0 escapes) starts no token *)
Theorem second_pct_refuted :
  exists s u es c w,
    clean s = true /\ start_quirk s = false /\ s = u ++ es ++ c :: w /\
    ends_escape u = false /\ all_esc es = true /\ is_c CComment c = true /\
    Nat.even (length es) = true /\ inside_b s TComment (length (u ++ es)) = true /\
    boundary_b s (length (u ++ es)) = false.
Proof. exists [37; 97; 37; 98]%N, [37; 97]%N, [], 37%N, [98]%N. vm_compute. repeat split. Qed.

(* first comment character on the second line of "x%y<LF>a\\%b" *)
Example first_pct_on_line_ex :
  let s := [120; 37; 121; 10; 97; 92; 92; 37; 98]%N in
  clean s = true /\ start_quirk s = false /\
  s = (([120; 37; 121; 10] ++ [97]) ++ [92; 92] ++ 37 :: [98])%N /\
  [120; 37; 121; 10]%N = ([120; 37; 121] ++ [10])%N /\ is_c CEndOfLine 10%N = true /\
  no_pct [97]%N = true /\ ends_escape ([120; 37; 121; 10] ++ [97])%N = false /\
  map (fun t => (ttext t, tpos t, tcat t)) (toks_of s) =
  [([120]%N, 0%Z, TText); ([37; 121]%N, 1%Z, TComment); ([10; 97]%N, 3%Z, TText);
   ([92; 92]%N, 5%Z, TEscapedComment); ([37; 98]%N, 7%Z, TComment)].
Proof. vm_compute. repeat split. Qed.

(* ---------------------------------------------------------------------- *)
(* Stage 2b: where Comment tokens start is decided by a scan that knows     *)
(* only three character classes: escape, comment character, end of line     *)
(* ---------------------------------------------------------------------- *)

(* in_c: inside a comment; par: an odd number of escapes has just been read.
   The i-th mark says whether a comment starts at offset i. *)
Fixpoint lex_marks (in_c par : bool) (s : str) : list bool :=
  match s with
  | [] => []
  | c :: s' =>
    if in_c then false :: lex_marks (negb (is_c CEndOfLine c)) false s'
    else if is_c CEscape c then false :: lex_marks false (negb par) s'
    else if is_c CComment c && negb par then true :: lex_marks true false s'
    else false :: lex_marks false false s'
  end.

Fixpoint lex_state (in_c par : bool) (s : str) : bool * bool :=
  match s with
  | [] => (in_c, par)
  | c :: s' =>
    if in_c then lex_state (negb (is_c CEndOfLine c)) false s'
    else if is_c CEscape c then lex_state false (negb par) s'
    else if is_c CComment c && negb par then lex_state true false s'
    else lex_state false false s'
  end.

(* the marks of a token list: true exactly at the first character of each
   Comment token *)
Definition tok_marks1 (t : token) : list bool :=
  match ttext t with
  | [] => []
  | _ :: m => tc_beq (tcat t) TComment :: repeat false (length m)
  end.
Definition tok_marks (toks : list token) : list bool := concat (map tok_marks1 toks).

Lemma lex_marks_app x : forall i p y,
  lex_marks i p (x ++ y) =
  lex_marks i p x ++ lex_marks (fst (lex_state i p x)) (snd (lex_state i p x)) y.
Proof.
  induction x as [|c x IH]; intros i p y; [reflexivity|].
  cbn [app lex_marks lex_state]. destruct i.
  - rewrite IH. reflexivity.
  - destruct (is_c CEscape c); [rewrite IH; reflexivity|].
    destruct (is_c CComment c && negb p); rewrite IH; reflexivity.
Qed.

Lemma plain_scan x : forallb (fun c => negb (sp_c c)) x = true ->
  lex_marks false false x = repeat false (length x) /\ lex_state false false x = (false, false).
Proof.
  induction x as [|c x IH]; intro H; [split; reflexivity|].
  cbn [forallb] in H. apply andb_true_iff in H. destruct H as [Hc H].
  apply negb_true_iff in Hc. unfold sp_c in Hc. apply orb_false_iff in Hc. destruct Hc as [H1 H2].
  destruct (IH H) as [I1 I2]. cbn [lex_marks lex_state length repeat]. rewrite H1, H2. cbn [andb].
  rewrite I1, I2. split; reflexivity.
Qed.

Lemma in_comment_scan x : forall p, forallb noeol_c x = true ->
  lex_marks true p x = repeat false (length x) /\
  lex_state true p x = (true, match x with [] => p | _ => false end).
Proof.
  induction x as [|c x IH]; intros p H; [split; reflexivity|].
  cbn [forallb] in H. apply andb_true_iff in H. destruct H as [Hc H].
  unfold noeol_c in Hc. cbn [lex_marks lex_state length repeat]. rewrite Hc.
  destruct (IH false H) as [I1 I2]. rewrite I1, I2. split; [reflexivity|].
  destruct x; reflexivity.
Qed.

Definition punct_scan_ok (q : str) : bool :=
  forallb negb (lex_marks false false q) &&
  negb (fst (lex_state false false q)) && negb (snd (lex_state false false q)).

Lemma points_scan_ok : forallb punct_scan_ok points = true.
Proof. vm_compute. reflexivity. Qed.

Lemma lex_marks_length x : forall i p, length (lex_marks i p x) = length x.
Proof.
  induction x as [|c x IH]; intros i p; [reflexivity|]. cbn [lex_marks].
  destruct i; [cbn [length]; rewrite IH; reflexivity|].
  destruct (is_c CEscape c); [cbn [length]; rewrite IH; reflexivity|].
  destruct (is_c CComment c && negb p); cbn [length]; rewrite IH; reflexivity.
Qed.

Lemma all_false l : forallb negb l = true -> l = repeat false (length l).
Proof.
  induction l as [|b l IH]; intro H; [reflexivity|]. cbn [forallb] in H.
  apply andb_true_iff in H. destruct H as [Hb H]. destruct b; [discriminate Hb|].
  cbn [length repeat]. rewrite <- IH by exact H. reflexivity.
Qed.

Lemma not_sp_of (P : N -> bool) x :
  (forall c, P c = true -> sp_c c = false) -> forallb P x = true ->
  forallb (fun c => negb (sp_c c)) x = true.
Proof.
  intros HP H. rewrite forallb_forall in *. intros c Hc. rewrite (HP c (H c Hc)). reflexivity.
Qed.

Lemma sp_false_of c : (sp_c c = true -> False) -> sp_c c = false.
Proof. destruct (sp_c c); [intro H; exfalso; apply H; reflexivity | reflexivity]. Qed.

Lemma text_not_sp c : text_c c = true -> sp_c c = false.
Proof. intro H. apply sp_false_of. intro S. destruct (sp_facts c S) as (F & _). congruence. Qed.

Lemma ls_not_sp c : ls_c c = true -> sp_c c = false.
Proof. intro H. apply sp_false_of. intro S. destruct (sp_facts c S) as (_ & F & _). congruence. Qed.

Lemma blank_not_sp c : is_c CSpacer c || is_c CEndOfLine c = true -> sp_c c = false.
Proof.
  intro H. apply sp_false_of. intro S. destruct (sp_facts c S) as (_ & _ & F3 & F4 & _).
  rewrite F3, F4 in H. discriminate H.
Qed.

Lemma cat_not_sp c k : catc c = k -> k <> CEscape -> k <> CComment -> sp_c c = false.
Proof.
  intros H N1 N2. unfold sp_c, is_c. rewrite H.
  destruct k; try reflexivity; congruence.
Qed.

(* scanning one token from the neutral state *)
Lemma tok_scan t : shape t = true ->
  lex_marks false false (ttext t) = tok_marks1 t /\
  lex_state false false (ttext t) = (tc_beq (tcat t) TComment, tc_beq (tcat t) TEscape).
Proof.
  intro Hs. pose proof (shape_cat_of t Hs) as S. unfold tok_marks1.
  assert (Plain : forall k, tcat t = k -> tc_beq k TComment = false -> tc_beq k TEscape = false ->
            forallb (fun c => negb (sp_c c)) (ttext t) = true ->
            lex_marks false false (ttext t) =
              match ttext t with [] => [] | _ :: m => tc_beq k TComment :: repeat false (length m) end /\
            lex_state false false (ttext t) = (tc_beq k TComment, tc_beq k TEscape)).
  { intros k _ K1 K2 H. destruct (plain_scan _ H) as [P1 P2]. rewrite P1, P2, K1, K2.
    destruct (ttext t); split; reflexivity. }
  destruct (tcat t) eqn:Ek; cbn [shape_cat] in S; try discriminate S.
  - (* TEscape *)
    destruct (ttext t) as [|c [|? ?]]; try discriminate S.
    destruct (catc c) eqn:Ec; vm_compute in S; try discriminate S.
    cbn [lex_marks lex_state]. unfold is_c. rewrite Ec. split; reflexivity.
  - (* TGroupBegin *)
    apply (Plain _ eq_refl eq_refl eq_refl).
    destruct (ttext t) as [|c [|? ?]]; try discriminate S. cbn [forallb].
    destruct (catc c) eqn:Ec; vm_compute in S; try discriminate S.
    rewrite (cat_not_sp c _ Ec) by discriminate. reflexivity.
  - apply (Plain _ eq_refl eq_refl eq_refl).
    destruct (ttext t) as [|c [|? ?]]; try discriminate S. cbn [forallb].
    destruct (catc c) eqn:Ec; vm_compute in S; try discriminate S.
    rewrite (cat_not_sp c _ Ec) by discriminate. reflexivity.
  - (* TComment *)
    destruct (ttext t) as [|c body]; [discriminate S|].
    apply andb_true_iff in S. destruct S as [Hc Hb].
    assert (He : is_c CEscape c = false).
    { apply is_c_true in Hc. apply is_c_false. rewrite Hc. discriminate. }
    cbn [lex_marks lex_state]. rewrite He, Hc. cbn [andb negb].
    destruct (in_comment_scan body false Hb) as [I1 I2]. rewrite I1, I2.
    split; [reflexivity|]. destruct body; reflexivity.
  - (* TMergedSpacer *)
    apply (Plain _ eq_refl eq_refl eq_refl).
    destruct (ttext t) as [|c m] eqn:Et; [discriminate S|].
    destruct (after_spacers (c :: m)) eqn:Ea; [|discriminate S].
    apply blank_chars in Ea; [|discriminate].
    apply (not_sp_of _ _ blank_not_sp Ea).
  - (* TEscapedComment *)
    destruct (ttext t) as [|c0 [|c1 [|? ?]]]; try discriminate S.
    apply andb_true_iff in S. destruct S as [H0 _].
    cbn [lex_marks lex_state]. rewrite H0. cbn [negb].
    destruct (is_c CEscape c1); [split; reflexivity|].
    rewrite andb_false_r. split; reflexivity.
  - (* TMathSwitch *)
    apply (Plain _ eq_refl eq_refl eq_refl).
    destruct (ttext t) as [|c [|? ?]]; try discriminate S. cbn [forallb].
    apply is_c_true in S. rewrite (cat_not_sp c _ S) by discriminate. reflexivity.
  - apply (Plain _ eq_refl eq_refl eq_refl).
    destruct (ttext t) as [|c0 [|c1 [|? ?]]]; try discriminate S. cbn [forallb].
    apply andb_true_iff in S. destruct S as [H0 H1]. apply is_c_true in H0. apply is_c_true in H1.
    rewrite (cat_not_sp c0 _ H0), (cat_not_sp c1 _ H1) by discriminate. reflexivity.
  - (* the four asymmetric math delimiters: escape + bracket / parenthesis *)
    destruct (ttext t) as [|c0 [|c1 [|? ?]]]; try discriminate S.
    destruct (lookup_asym Tables.asym_map (catc c0) (catc c1)) eqn:El; [|discriminate S].
    pose proof (asym_first_escape _ _ _ El) as H0. rewrite H0 in El.
    assert (H1 : sp_c c1 = false).
    { apply sp_false_of. intro S1. destruct (sp_facts c1 S1) as (_ & _ & _ & _ & _ & F6 & _).
      rewrite F6 in El. discriminate El. }
    unfold sp_c in H1. apply orb_false_iff in H1. destruct H1 as [H1 H2].
    apply is_c_true in H0. cbn [lex_marks lex_state]. rewrite H0, H1, H2. split; reflexivity.
  - destruct (ttext t) as [|c0 [|c1 [|? ?]]]; try discriminate S.
    destruct (lookup_asym Tables.asym_map (catc c0) (catc c1)) eqn:El; [|discriminate S].
    pose proof (asym_first_escape _ _ _ El) as H0. rewrite H0 in El.
    assert (H1 : sp_c c1 = false).
    { apply sp_false_of. intro S1. destruct (sp_facts c1 S1) as (_ & _ & _ & _ & _ & F6 & _).
      rewrite F6 in El. discriminate El. }
    unfold sp_c in H1. apply orb_false_iff in H1. destruct H1 as [H1 H2].
    apply is_c_true in H0. cbn [lex_marks lex_state]. rewrite H0, H1, H2. split; reflexivity.
  - destruct (ttext t) as [|c0 [|c1 [|? ?]]]; try discriminate S.
    destruct (lookup_asym Tables.asym_map (catc c0) (catc c1)) eqn:El; [|discriminate S].
    pose proof (asym_first_escape _ _ _ El) as H0. rewrite H0 in El.
    assert (H1 : sp_c c1 = false).
    { apply sp_false_of. intro S1. destruct (sp_facts c1 S1) as (_ & _ & _ & _ & _ & F6 & _).
      rewrite F6 in El. discriminate El. }
    unfold sp_c in H1. apply orb_false_iff in H1. destruct H1 as [H1 H2].
    apply is_c_true in H0. cbn [lex_marks lex_state]. rewrite H0, H1, H2. split; reflexivity.
  - destruct (ttext t) as [|c0 [|c1 [|? ?]]]; try discriminate S.
    destruct (lookup_asym Tables.asym_map (catc c0) (catc c1)) eqn:El; [|discriminate S].
    pose proof (asym_first_escape _ _ _ El) as H0. rewrite H0 in El.
    assert (H1 : sp_c c1 = false).
    { apply sp_false_of. intro S1. destruct (sp_facts c1 S1) as (_ & _ & _ & _ & _ & F6 & _).
      rewrite F6 in El. discriminate El. }
    unfold sp_c in H1. apply orb_false_iff in H1. destruct H1 as [H1 H2].
    apply is_c_true in H0. cbn [lex_marks lex_state]. rewrite H0, H1, H2. split; reflexivity.
  - (* TCommandName *)
    apply (Plain _ eq_refl eq_refl eq_refl).
    destruct (ttext t) as [|c m]; [discriminate S|]. apply andb_true_iff in S. destruct S as [H0 Hm].
    cbn [forallb]. apply is_c_true in H0. rewrite (cat_not_sp c _ H0) by discriminate.
    apply (not_sp_of _ _ ls_not_sp Hm).
  - (* TText *)
    apply (Plain _ eq_refl eq_refl eq_refl).
    apply andb_true_iff in S. destruct S as [S _]. apply (not_sp_of _ _ text_not_sp S).
  - (* TBracketBegin *)
    apply (Plain _ eq_refl eq_refl eq_refl).
    destruct (ttext t) as [|c [|? ?]]; try discriminate S. cbn [forallb].
    destruct (catc c) eqn:Ec; vm_compute in S; try discriminate S.
    rewrite (cat_not_sp c _ Ec) by discriminate. reflexivity.
  - apply (Plain _ eq_refl eq_refl eq_refl).
    destruct (ttext t) as [|c [|? ?]]; try discriminate S. cbn [forallb].
    destruct (catc c) eqn:Ec; vm_compute in S; try discriminate S.
    rewrite (cat_not_sp c _ Ec) by discriminate. reflexivity.
  - (* TPunctuationCommandName: by computation on the table *)
    apply mem_str_In in S. pose proof points_scan_ok as B. rewrite forallb_forall in B.
    specialize (B _ S). unfold punct_scan_ok in B.
    apply andb_true_iff in B. destruct B as [B B3]. apply andb_true_iff in B. destruct B as [B1 B2].
    apply negb_true_iff in B2. apply negb_true_iff in B3. apply all_false in B1.
    rewrite lex_marks_length in B1.
    destruct (lex_state false false (ttext t)) as [i p]. cbn [fst snd] in B2, B3. subst i p.
    rewrite B1. destruct (ttext t); split; reflexivity.
Qed.

Definition entry_ok (in_c par : bool) (y : str) : Prop :=
  match y with
  | [] => True
  | c :: _ => (in_c = true -> is_c CEndOfLine c = true) /\ (par = true -> sp_c c = false)
  end.

Lemma lex_entry i p y : entry_ok i p y -> lex_marks i p y = lex_marks false false y.
Proof.
  destruct y as [|c y]; [reflexivity|]. cbn [entry_ok]. intros [H1 H2]. cbn [lex_marks].
  destruct i.
  - specialize (H1 eq_refl). rewrite H1. cbn [negb]. apply is_c_true in H1.
    unfold is_c. rewrite H1. reflexivity.
  - destruct p; [|reflexivity]. specialize (H2 eq_refl). unfold sp_c in H2.
    apply orb_false_iff in H2. destruct H2 as [E1 E2]. rewrite E1, E2. reflexivity.
Qed.

Lemma scan_toks r : shaped r -> follows_ok r = true -> lex_marks false false (texts r) = tok_marks r.
Proof.
  induction r as [|t r IH]; intros Hsh Hfo; [reflexivity|].
  inversion Hsh as [|? ? Hst Hsr]; subst.
  destruct (follows_ok_mid [] t r Hfo) as (Hfc & _ & Hfo').
  rewrite texts_cons, lex_marks_app. destruct (tok_scan t Hst) as [T1 T2].
  rewrite T1, T2. cbn [fst snd]. unfold tok_marks. cbn [map concat]. f_equal.
  rewrite lex_entry; [apply IH; assumption|].
  unfold entry_ok. destruct (texts r) as [|c y] eqn:Er; [exact I|]. split; intro K.
  - apply tc_eqb_eq in K. unfold followc in Hfc. rewrite K in Hfc. cbn [hd_error nc_not] in Hfc.
    unfold noeol_c in Hfc. rewrite negb_involutive in Hfc. exact Hfc.
  - apply tc_eqb_eq in K. unfold followc in Hfc. rewrite K in Hfc. cbn [hd_error nc_not] in Hfc.
    apply andb_true_iff in Hfc. destruct Hfc as [Hfc _]. apply negb_true_iff in Hfc.
    apply sp_false_of. intro S1. destruct (sp_facts c S1) as (_ & _ & _ & _ & _ & _ & _ & F8).
    congruence.
Qed.

(* the Comment tokens of a clean, quirk-free string start exactly where the
   three-class scan says *)
Theorem lex_marks_spec s :
  clean s = true -> start_quirk s = false ->
  tok_marks (toks_of s) = lex_marks false false s.
Proof.
  intros Hcl Hq. destruct (tokd_exists s Hcl Hq) as (toks & D).
  rewrite (td_toks s toks D). rewrite <- (td_texts s toks D). symmetry.
  apply scan_toks; [exact (td_shaped s toks D) | exact (td_follows s toks D)].
Qed.

(* two characters the scan cannot tell apart *)
Definition same_class (c d : N) : Prop :=
  is_c CEscape c = is_c CEscape d /\ is_c CComment c = is_c CComment d /\
  is_c CEndOfLine c = is_c CEndOfLine d.

Lemma lex_marks_class s1 s2 : Forall2 same_class s1 s2 ->
  forall i p, lex_marks i p s1 = lex_marks i p s2.
Proof.
  intro F. induction F as [|c d s1 s2 (E1 & E2 & E3) _ IH]; intros i p; [reflexivity|].
  cbn [lex_marks]. rewrite E1, E2, E3, !IH. reflexivity.
Qed.

(* "whatever else the payload contains": two clean, quirk-free strings that
   agree on which characters are escapes, comment characters and ends of line
   have their Comment tokens at the same offsets *)
Corollary comment_starts_by_class s1 s2 :
  clean s1 = true -> start_quirk s1 = false -> clean s2 = true -> start_quirk s2 = false ->
  Forall2 same_class s1 s2 ->
  tok_marks (toks_of s1) = tok_marks (toks_of s2).
Proof.
  intros C1 Q1 C2 Q2 F. rewrite (lex_marks_spec s1 C1 Q1), (lex_marks_spec s2 C2 Q2).
  apply lex_marks_class. exact F.
Qed.

(* non-vacuity: "x%y<LF>a\\%b" and "$%}<LF>[\\%[" have the same classes, hence
   Comment tokens at the same offsets (1 and 7), although every other
   character differs *)
Example lex_marks_ex :
  let s := [120; 37; 121; 10; 97; 92; 92; 37; 98]%N in
  clean s = true /\ start_quirk s = false /\
  lex_marks false false s = [false; true; false; false; false; false; false; true; false] /\
  tok_marks (toks_of s) = [false; true; false; false; false; false; false; true; false].
Proof. vm_compute. repeat split. Qed.

Example comment_starts_by_class_ex :
  let s1 := [120; 37; 121; 10; 97; 92; 92; 37; 98]%N in
  let s2 := [36; 37; 125; 10; 91; 92; 92; 37; 91]%N in
  clean s1 = true /\ start_quirk s1 = false /\ clean s2 = true /\ start_quirk s2 = false /\
  Forall2 same_class s1 s2 /\
  map (fun t => (tpos t, tcat t)) (toks_of s2) =
  [(0%Z, TMathSwitch); (1%Z, TComment); (3%Z, TMergedSpacer); (4%Z, TBracketBegin);
   (5%Z, TEscapedComment); (7%Z, TComment)].
Proof.
  cbv zeta. split; [vm_compute; reflexivity|]. split; [vm_compute; reflexivity|].
  split; [vm_compute; reflexivity|]. split; [vm_compute; reflexivity|].
  split; [|vm_compute; reflexivity].
  repeat (constructor; [vm_compute; repeat split|]). constructor.
Qed.

(* ====================================================================== *)
(* Stage 3: C11 at string level                                            *)
(* ====================================================================== *)

Definition letters (name : str) : bool := forallb (is_c CLetter) name.

Lemma head_tok r c w : shaped r -> texts r = c :: w ->
  exists t r1 m, r = t :: r1 /\ ttext t = c :: m /\ w = m ++ texts r1 /\ shape t = true /\ shaped r1.
Proof.
  intros Hsh Ht. destruct r as [|t r1]; [discriminate Ht|].
  inversion Hsh as [|? ? Hst Hsr]; subst.
  pose proof (shape_nonempty t Hst) as Hne. rewrite texts_cons in Ht.
  destruct (ttext t) as [|c' m] eqn:Et; [congruence|]. cbn [app] in Ht. injection Ht as E1 E2.
  subst c'. exists t, r1, m. rewrite Et. repeat split; auto.
Qed.

Lemma follows_cons t r : follows_ok (t :: r) = true ->
  followc t (texts r) = true /\ pre_ok (ends_esc t) r = true /\ follows_ok r = true.
Proof. intro H. apply (follows_ok_mid [] t r H). Qed.

(* maximal munch is unique *)
Lemma span_unique (P : N -> bool) : forall x1 y1 x2 y2,
  x1 ++ y1 = x2 ++ y2 -> forallb P x1 = true -> forallb P x2 = true ->
  nc_not P (hd_error y1) = true -> nc_not P (hd_error y2) = true -> x1 = x2 /\ y1 = y2.
Proof.
  induction x1 as [|a x1 IH]; intros y1 x2 y2 E H1 H2 N1 N2.
  - destruct x2 as [|b x2]; [auto|]. exfalso. cbn [app] in E. subst y1.
    cbn [hd_error nc_not] in N1. cbn [forallb] in H2. apply andb_true_iff in H2.
    destruct H2 as [H2 _]. rewrite H2 in N1. discriminate N1.
  - destruct x2 as [|b x2].
    + exfalso. cbn [app] in E. subst y2. cbn [hd_error nc_not] in N2. cbn [forallb] in H1.
      apply andb_true_iff in H1. destruct H1 as [H1 _]. rewrite H1 in N2. discriminate N2.
    + cbn [app] in E. injection E as E0 E. subst b. cbn [forallb] in H1, H2.
      apply andb_true_iff in H1. apply andb_true_iff in H2.
      destruct (IH y1 x2 y2 E (proj2 H1) (proj2 H2) N1 N2) as [-> ->]. auto.
Qed.

(* a token that starts with a letter is a Text, a CommandName or a sizing
   command + delimiter *)
Lemma letter_first_kinds t c m : shape t = true -> ttext t = c :: m -> is_c CLetter c = true ->
  tcat t = TText \/ tcat t = TCommandName \/ tcat t = TPunctuationCommandName.
Proof.
  intros Hs Ht Hc. pose proof (shape_first t c m Hs Ht) as F. apply is_c_true in Hc.
  destruct (tcat t); auto; exfalso; cbn [first_kind_ok] in F; unfold is_c, text_c in F;
    try rewrite Hc in F; vm_compute in F; discriminate F.
Qed.

Lemma letter_text_c c : is_c CLetter c = true -> text_c c = true.
Proof. intro H. apply is_c_true in H. unfold text_c. rewrite H. reflexivity. Qed.

Definition not_e_first_b (q : str) : bool :=
  match q with c :: _ => negb (N.eqb c 101) | [] => true end.

(* no sizing command starts with "e" (so none is a prefix of "end{...") *)
Lemma points_not_e_first : forallb not_e_first_b points = true.
Proof. vm_compute. reflexivity. Qed.

Definition tok_is (t : token) (k : tc) (x : str) : Prop := tcat t = k /\ ttext t = x.

(* (i) at a token boundary, "\end{name}" with a non-empty name made of letters
   is exactly five tokens: Escape, CommandName "end", GroupBegin, Text name,
   GroupEnd *)
Theorem end_five_tokens r name post :
  shaped r -> follows_ok r = true -> name <> [] -> letters name = true ->
  texts r = Tree.env_end name ++ post ->
  exists t1 t2 t3 t4 t5 r',
    r = t1 :: t2 :: t3 :: t4 :: t5 :: r' /\
    tok_is t1 TEscape [92]%N /\ tok_is t2 TCommandName [101; 110; 100]%N /\
    tok_is t3 TGroupBegin [123]%N /\ tok_is t4 TText name /\ tok_is t5 TGroupEnd [125]%N /\
    texts r' = post.
Proof.
  intros Hsh Hfo Hne Hlet Ht.
  change (Tree.env_end name ++ post)
    with (92 :: 101 :: 110 :: 100 :: 123 :: (name ++ [125]) ++ post)%N in Ht.
  (* t1 = "\" *)
  destruct (head_tok r _ _ Hsh Ht) as (t1 & r1 & m1 & -> & Et1 & Ew1 & Hs1 & Hsh1).
  destruct (follows_cons t1 r1 Hfo) as (Hfc1 & Hpre1 & Hfo1).
  assert (K1 : tcat t1 = TEscape /\ m1 = []).
  { destruct (first_escape_kinds t1 92%N m1 Hs1 Et1 eq_refl)
      as [K|[[_ (c1 & -> & H)]|(c1 & -> & H)]]; [exact K| |]; exfalso;
      cbn [app] in Ew1; injection Ew1 as E1 _; subst c1; vm_compute in H; discriminate H. }
  destruct K1 as [K1 ->]. cbn [app] in Ew1. symmetry in Ew1.
  (* t2 = "end" *)
  destruct (head_tok r1 _ _ Hsh1 Ew1) as (t2 & r2 & m2 & -> & Et2 & Ew2 & Hs2 & Hsh2).
  destruct (follows_cons t2 r2 Hfo1) as (Hfc2 & Hpre2 & Hfo2).
  assert (He1 : ends_esc t1 = true) by (unfold ends_esc; rewrite Et1; reflexivity).
  rewrite He1 in Hpre1. cbn [pre_ok] in Hpre1. unfold pre_tok in Hpre1.
  assert (K2 : tcat t2 = TCommandName).
  { destruct (letter_first_kinds t2 101%N m2 Hs2 Et2 eq_refl) as [K|[K|K]]; [| exact K |]; exfalso.
    - rewrite K, Et2 in Hpre1. vm_compute in Hpre1. discriminate Hpre1.
    - apply shape_cat_of in Hs2. rewrite K, Et2 in Hs2. cbn [shape_cat] in Hs2.
      apply mem_str_In in Hs2. pose proof points_not_e_first as B. rewrite forallb_forall in B.
      specialize (B _ Hs2). vm_compute in B. discriminate B. }
  assert (M2 : m2 = [110; 100]%N /\ texts r2 = (123 :: (name ++ [125]) ++ post)%N).
  { pose proof (shape_cat_of t2 Hs2) as S2. rewrite K2, Et2 in S2. cbn [shape_cat] in S2.
    apply andb_true_iff in S2. destruct S2 as [_ S2].
    unfold followc in Hfc2. rewrite K2 in Hfc2. apply andb_true_iff in Hfc2. destruct Hfc2 as [Hfc2 _].
    destruct (span_unique ls_c [110; 100]%N (123 :: (name ++ [125]) ++ post)%N m2 (texts r2))
      as [A B]; auto. }
  destruct M2 as [-> Ew3].
  (* t3 = "{" *)
  destruct (head_tok r2 _ _ Hsh2 Ew3) as (t3 & r3 & m3 & -> & Et3 & Ew4 & Hs3 & Hsh3).
  destruct (follows_cons t3 r3 Hfo2) as (Hfc3 & Hpre3 & Hfo3).
  assert (K3 : tcat t3 = TGroupBegin /\ m3 = []).
  { pose proof (shape_first t3 123%N m3 Hs3 Et3) as F. pose proof (shape_cat_of t3 Hs3) as S3.
    rewrite Et3 in S3.
    destruct (tcat t3); try (vm_compute in F; discriminate F). cbn [shape_cat] in S3.
    destruct m3; [auto | discriminate S3]. }
  destruct K3 as [K3 ->]. cbn [app] in Ew4. symmetry in Ew4.
  (* t4 = name *)
  destruct name as [|n0 name']; [congruence|].
  unfold letters in Hlet. pose proof Hlet as Hlet'. cbn [forallb] in Hlet'.
  apply andb_true_iff in Hlet'. destruct Hlet' as [Hn0 _].
  cbn [app] in Ew4.
  destruct (head_tok r3 _ _ Hsh3 Ew4) as (t4 & r4 & m4 & -> & Et4 & Ew5 & Hs4 & Hsh4).
  destruct (follows_cons t4 r4 Hfo3) as (Hfc4 & Hpre4 & Hfo4).
  assert (He3 : ends_esc t3 = false) by (unfold ends_esc; rewrite Et3; reflexivity).
  rewrite He3 in Hpre3. cbn [pre_ok] in Hpre3. unfold pre_tok in Hpre3.
  assert (K4 : tcat t4 = TText).
  { destruct (letter_first_kinds t4 n0 m4 Hs4 Et4 Hn0) as [K|[K|K]]; [exact K | |];
      rewrite K in Hpre3; discriminate Hpre3. }
  assert (M4 : n0 :: m4 = n0 :: name' /\ texts r4 = (125 :: post)%N).
  { pose proof (shape_cat_of t4 Hs4) as S4. rewrite K4, Et4 in S4. cbn [shape_cat] in S4.
    apply andb_true_iff in S4. destruct S4 as [S4 _].
    unfold followc in Hfc4. rewrite K4 in Hfc4.
    assert (Hn : forallb text_c (n0 :: name') = true).
    { rewrite forallb_forall in *. intros c Hc. apply letter_text_c. apply Hlet. exact Hc. }
    destruct (span_unique text_c (n0 :: name') (125 :: post)%N (n0 :: m4) (texts r4))
      as [A B]; auto.
    cbn [app]. f_equal. rewrite <- Ew5, <- app_assoc. reflexivity. }
  destruct M4 as [M4 Ew6]. injection M4 as ->.
  (* t5 = "}" *)
  destruct (head_tok r4 _ _ Hsh4 Ew6) as (t5 & r5 & m5 & -> & Et5 & Ew7 & Hs5 & Hsh5).
  assert (K5 : tcat t5 = TGroupEnd /\ m5 = []).
  { pose proof (shape_first t5 125%N m5 Hs5 Et5) as F. pose proof (shape_cat_of t5 Hs5) as S5.
    rewrite Et5 in S5.
    destruct (tcat t5); try (vm_compute in F; discriminate F). cbn [shape_cat] in S5.
    destruct m5; [auto | discriminate S5]. }
  destruct K5 as [K5 ->]. cbn [app] in Ew7.
  exists t1, t2, t3, t4, t5, r5. unfold tok_is. repeat split; auto.
Qed.

(* (ii) an occurrence of "\end{..." whose escape follows an even, maximal run
   of escapes and is not inside a Comment starts at a token boundary (it
   cannot be inside a sizing command + delimiter: there an escape is never
   followed by "e") *)
Theorem end_at_cut toks u es name post j :
  shaped toks -> follows_ok toks = true ->
  texts toks = u ++ es ++ Tree.env_end name ++ post -> ends_escape u = false ->
  all_esc es = true -> length es = 2 * j ->
  ~ inside toks TComment (u ++ es) (Tree.env_end name ++ post) ->
  cut toks (u ++ es) (Tree.env_end name ++ post).
Proof.
  intros Hsh Hfo Ht Hu Hes Hlen NC.
  change (Tree.env_end name ++ post)
    with (92 :: 101 :: 110 :: 100 :: 123 :: (name ++ [125]) ++ post)%N in *.
  apply (special_at_cut toks u es _ _ j Hsh Hfo Ht Hu Hes Hlen eq_refl NC).
  intro I. destruct (punct_escape_next toks _ _ _ Hsh I eq_refl) as (d & w' & E & Hd).
  injection E as E1 _. subst d. vm_compute in Hd. discriminate Hd.
Qed.

(* two decompositions of the same token list *)
Lemma split_align a b a' b' :
  shaped (a ++ b) -> a ++ b = a' ++ b' -> length (texts a') <= length (texts a) ->
  exists m, a = a' ++ m /\ b' = m ++ b.
Proof.
  intros Hsh E L. apply app_eq_app in E. destruct E as (l & [[E1 E2]|[E1 E2]]).
  - exists l. auto.
  - assert (l = []).
    { apply texts_nil_shaped.
      - rewrite E2 in Hsh. apply shaped_app in Hsh. destruct Hsh as [_ Hsh].
        apply shaped_app in Hsh. tauto.
      - rewrite E1, texts_app, app_length in L. destruct (texts l); [reflexivity|]. cbn [length] in L. lia. }
    subst l. rewrite app_nil_r in E1. cbn [app] in E2. exists []. rewrite app_nil_r. auto.
Qed.

Lemma starts_with_self t r : starts_with (t ++ r) t = true.
Proof. induction t as [|c t IH]; [destruct r; reflexivity|]. cbn. rewrite N.eqb_refl, IH. reflexivity. Qed.

(* this occurrence of target is the first one in pre ++ rest (rest starts with
   target): no proper suffix of pre, continued by rest, starts with target *)
Definition first_occ (target pre rest : str) : Prop :=
  forall x y, pre = x ++ y -> y <> [] -> starts_with (y ++ rest) target = false.

Lemma texts_conv toks : Reader.texts toks = texts toks.
Proof. reflexivity. Qed.

(* the scan of read_skip_env over the body tokens, token level *)
Lemma skip_scan_first_end pre_toks b name post :
  shaped (pre_toks ++ b) -> texts b = Tree.env_end name ++ post ->
  first_occ (Tree.env_end name) (texts pre_toks) (Tree.env_end name ++ post) ->
  Reader.skip_scan (Tree.env_end name) [] (pre_toks ++ b) = (texts pre_toks, b) /\
  SkipEnvProofs.end_here (Tree.env_end name) b = true /\
  SkipEnvProofs.no_end_inside (Tree.env_end name) pre_toks b.
Proof.
  intros Hsh Hb Hfirst.
  assert (Hend : SkipEnvProofs.end_here (Tree.env_end name) b = true).
  { rewrite SkipEnvProofs.end_here_text.
    - rewrite texts_conv, Hb. apply starts_with_self.
    - apply shaped_nonempty. apply shaped_app in Hsh. tauto. }
  assert (Hno : SkipEnvProofs.no_end_inside (Tree.env_end name) pre_toks b).
  { intros x y E Hy.
    destruct (SkipEnvProofs.end_here (Tree.env_end name) (y ++ b)) eqn:Eh; [exfalso|reflexivity].
    apply SkipEnvProofs.end_here_text_true in Eh. rewrite texts_conv, texts_app, Hb in Eh.
    rewrite (Hfirst (texts x) (texts y)) in Eh; [discriminate Eh| |].
    - rewrite E. apply texts_app.
    - intro E0. apply Hy. apply texts_nil_shaped; [|exact E0].
      rewrite E in Hsh. apply shaped_app in Hsh. destruct Hsh as [Hsh _].
      apply shaped_app in Hsh. tauto. }
  split; [|split; assumption].
  rewrite (SkipEnvProofs.skip_scan_complete (Tree.env_end name) [] pre_toks b Hno (or_intror Hend)).
  reflexivity.
Qed.

(* what C11 concludes about the occurrence of "\end{name}" at offset
   |head ++ pre| when read_skip_env is called with body_toks (the tokens from
   offset |head| on): the body tokens split there; the offset is a token
   boundary; "\end{name}" is the five tokens t1..t5; the scan stops exactly
   there with raw body pre; the five-token condition (ReaderCons.hyp_skip)
   holds at the stop; read_skip_env returns the environment with the single
   raw child pre and continues after the five tokens *)
Definition end_stop (s head pre name post : str) (body_toks : list token) : Prop :=
  exists pre_toks t1 t2 t3 t4 t5 rest,
    body_toks = pre_toks ++ t1 :: t2 :: t3 :: t4 :: t5 :: rest /\
    texts pre_toks = pre /\ texts rest = post /\
    boundary_b s (length (head ++ pre)) = true /\
    tok_is t1 TEscape [92]%N /\ tok_is t2 TCommandName [101; 110; 100]%N /\
    tok_is t3 TGroupBegin [123]%N /\ tok_is t4 TText name /\ tok_is t5 TGroupEnd [125]%N /\
    Reader.skip_scan (Tree.env_end name) [] body_toks = (pre, t1 :: t2 :: t3 :: t4 :: t5 :: rest) /\
    Reader.texts (firstn 5 (t1 :: t2 :: t3 :: t4 :: t5 :: rest)) = Tree.env_end name /\
    exists t0, hd_error body_toks = Some t0 /\ tpos t0 = Z.of_nat (length head) /\
      forall args pos,
        Reader.read_skip_env name args pos body_toks =
        Reader.Ok (Tree.ENamed name args [Tree.ERaw pre (tpos t0)] pos, rest).

(* C11 on strings.  s = head ++ pre ++ "\end{name}" ++ post; the body tokens
   start at the token boundary |head| (toks_of s = hd_toks ++ body_toks with
   texts hd_toks = head: body_toks is what read_skip_env is called with);
   name is non-empty and made of letters; the occurrence is the first one from
   the body start; it is not inside a Comment token; the escapes just before it
   are an even, maximal run (head ++ pre = u ++ es).  Then |head ++ pre| is a
   token boundary, "\end{name}" is exactly five tokens there, the scan stops
   exactly there, and the raw body is pre. *)
Theorem first_end_occurrence s head pre name post hd_toks body_toks u es :
  clean s = true -> start_quirk s = false ->
  name <> [] -> letters name = true ->
  s = head ++ pre ++ Tree.env_end name ++ post ->
  toks_of s = hd_toks ++ body_toks -> texts hd_toks = head ->
  first_occ (Tree.env_end name) pre (Tree.env_end name ++ post) ->
  head ++ pre = u ++ es -> ends_escape u = false -> all_esc es = true ->
  Nat.even (length es) = true ->
  inside_b s TComment (length (head ++ pre)) = false ->
  end_stop s head pre name post body_toks.
Proof.
  intros Hcl Hq Hne Hlet Es Etoks Hhd Hfirst Eu Hu Hes Hev NC. unfold end_stop.
  destruct (tokd_exists s Hcl Hq) as (toks & D).
  pose proof (td_shaped s toks D) as Hsh. pose proof (td_follows s toks D) as Hfo.
  destruct (even_half _ Hev) as (j & Hlen).
  rewrite (td_toks s toks D) in Etoks.
  assert (Es' : s = (head ++ pre) ++ Tree.env_end name ++ post) by (rewrite <- app_assoc; exact Es).
  pose proof (td_texts s toks D) as Ht. rewrite Es', Eu, <- app_assoc in Ht.
  assert (NC' : ~ inside toks TComment (u ++ es) (Tree.env_end name ++ post)).
  { rewrite <- Eu. apply (not_inside_b s toks _ _ _ D NC). }
  pose proof (end_at_cut toks u es name post j Hsh Hfo Ht Hu Hes Hlen NC') as C.
  rewrite <- Eu in C.
  assert (Hb : boundary_b s (length (head ++ pre)) = true) by (apply (cut_boundary_b s toks _ _ D C)).
  destruct C as (a & b & E & Ha & Hbt).
  (* align the two decompositions *)
  assert (Hal : exists m, a = hd_toks ++ m /\ body_toks = m ++ b).
  { apply split_align.
    - rewrite <- E. exact Hsh.
    - rewrite <- E. exact Etoks.
    - rewrite Ha, Hhd, app_length. lia. }
  destruct Hal as (pre_toks & Ea & Eb).
  assert (Hpre : texts pre_toks = pre).
  { rewrite Ea, texts_app, Hhd in Ha. apply app_inv_head in Ha. exact Ha. }
  assert (Hsb : shaped b) by (rewrite E in Hsh; apply shaped_app in Hsh; tauto).
  assert (Hfb : follows_ok b = true) by (rewrite E in Hfo; apply follows_ok_app in Hfo; exact Hfo).
  destruct (end_five_tokens b name post Hsb Hfb Hne Hlet Hbt)
    as (t1 & t2 & t3 & t4 & t5 & rest & Eb5 & T1 & T2 & T3 & T4 & T5 & Hrest).
  assert (Hshb : shaped (pre_toks ++ b)).
  { rewrite <- Eb. rewrite Etoks in Hsh. apply shaped_app in Hsh. tauto. }
  rewrite <- Hpre in Hfirst.
  destruct (skip_scan_first_end pre_toks b name post Hshb Hbt Hfirst) as (Hscan & Hend & Hno).
  rewrite Hpre in Hscan.
  assert (H5 : Reader.texts (firstn 5 b) = Tree.env_end name).
  { rewrite Eb5. cbn [firstn]. rewrite texts_conv. unfold tok_is in *.
    rewrite !texts_cons. destruct T1 as [_ ->]. destruct T2 as [_ ->]. destruct T3 as [_ ->].
    destruct T4 as [_ ->]. destruct T5 as [_ ->]. cbn [texts map concat].
    unfold Tree.env_end, Tree.s_end_open, Tree.s_close. cbn [app]. try rewrite app_nil_r. reflexivity. }
  exists pre_toks, t1, t2, t3, t4, t5, rest. rewrite <- Eb5.
  split; [exact Eb|]. split; [exact Hpre|]. split; [exact Hrest|]. split; [exact Hb|].
  split; [exact T1|]. split; [exact T2|]. split; [exact T3|]. split; [exact T4|]. split; [exact T5|].
  split; [rewrite Eb; exact Hscan|]. split; [exact H5|].
  (* the first body token and read_skip_env *)
  assert (Hbne : body_toks <> []).
  { rewrite Eb, Eb5. destruct pre_toks; discriminate. }
  destruct body_toks as [|t0 body'] eqn:Ebody; [congruence|].
  exists t0. split; [reflexivity|]. split.
  - rewrite (tokd_pos s toks hd_toks t0 body' D Etoks), Hhd. reflexivity.
  - intros args pos. apply SkipEnvProofs.read_skip_env_ok_iff.
    exists t0, pre_toks, b. split; [reflexivity|]. split; [exact Eb|].
    split; [rewrite Eb5; discriminate|]. split; [exact Hend|]. split; [exact Hno|].
    split; [rewrite texts_conv, Hpre; reflexivity|]. rewrite Eb5. reflexivity.
Qed.

(* the provisos as the property words them, on the string alone: the body does
   not end with a backslash (head ++ pre does not end with an escape), and no
   comment character precedes the closing \end on its line (head ++ pre =
   u0 ++ l, u0 empty or ending with an end-of-line character, no comment
   character in l) *)
Corollary end_string_provisos s head pre name post hd_toks body_toks u0 l :
  clean s = true -> start_quirk s = false ->
  name <> [] -> letters name = true ->
  s = head ++ pre ++ Tree.env_end name ++ post ->
  toks_of s = hd_toks ++ body_toks -> texts hd_toks = head ->
  first_occ (Tree.env_end name) pre (Tree.env_end name ++ post) ->
  ends_escape (head ++ pre) = false ->
  head ++ pre = u0 ++ l ->
  (u0 = [] \/ exists u1 d, u0 = u1 ++ [d] /\ is_c CEndOfLine d = true) ->
  no_pct l = true ->
  end_stop s head pre name post body_toks.
Proof.
  intros Hcl Hq Hne Hlet Es Etoks Hhd Hfirst Hu El Hu0 Hl.
  apply (first_end_occurrence s head pre name post hd_toks body_toks (head ++ pre) []);
    try assumption; try reflexivity.
  - rewrite app_nil_r. reflexivity.
  - destruct (inside_b s TComment (length (head ++ pre))) eqn:I; [exfalso|reflexivity].
    destruct (tokd_exists s Hcl Hq) as (toks & D).
    rewrite app_assoc in Es.
    pose proof (inside_b_inside s toks _ _ _ D Es I) as J. rewrite El in J.
    exact (line_no_pct_not_inside toks u0 l _ (td_shaped s toks D) Hu0 Hl J).
Qed.

(* the built-in verbatim-like names are non-empty and made of letters *)
Lemma builtin_names_letters :
  forallb (fun n => letters n && negb (str_eqb n [])) Tables.skip_env_names = true.
Proof. vm_compute. reflexivity. Qed.

Corollary builtin_name_ok name : mem_str name Tables.skip_env_names = true ->
  name <> [] /\ letters name = true.
Proof.
  intro H. apply mem_str_In in H. pose proof builtin_names_letters as B.
  rewrite forallb_forall in B. specialize (B name H). apply andb_true_iff in B.
  destruct B as [B1 B2]. split; [|exact B1]. intro E. subst name. discriminate B2.
Qed.

(* a decidable form of first_occ, for concrete strings *)
Definition first_occ_b (target pre rest : str) : bool :=
  forallb (fun k => negb (starts_with (skipn k pre ++ rest) target)) (seq 0 (length pre)).

Lemma first_occ_b_ok target pre rest : first_occ_b target pre rest = true -> first_occ target pre rest.
Proof.
  unfold first_occ_b, first_occ. intros H x y E Hy. rewrite forallb_forall in H.
  specialize (H (length x)). rewrite E, skipn_app_exact in H. apply negb_true_iff. apply H.
  apply in_seq. rewrite app_length. destruct y; [congruence|]. cbn [length]. lia.
Qed.

(* ----------------------------------------------- Stage 3: non-vacuity *)

Definition s_verbatim : str := [118; 101; 114; 98; 97; 116; 105; 109]%N.
(* \begin{verbatim} *)
Definition ex_head : str :=
  [92; 98; 101; 103; 105; 110; 123; 118; 101; 114; 98; 97; 116; 105; 109; 125]%N.
(* \begin{verbatim}$x{\\\end{verbatim}y : the body "$x{\\" ends with an EVEN run of backslashes *)
Definition ex_verb : str :=
  (ex_head ++ [36; 120; 123; 92; 92] ++ Tree.env_end s_verbatim ++ [121])%N.

Example builtin_verbatim : mem_str s_verbatim Tables.skip_env_names = true.
Proof. vm_compute. reflexivity. Qed.

Example end_five_tokens_ex :
  map (fun t => (ttext t, tcat t)) (toks_of (Tree.env_end s_verbatim ++ [121]%N)) =
  [([92]%N, TEscape); ([101; 110; 100]%N, TCommandName); ([123]%N, TGroupBegin);
   (s_verbatim, TText); ([125]%N, TGroupEnd); ([121]%N, TText)].
Proof. vm_compute. reflexivity. Qed.

(* the hypotheses of first_end_occurrence hold for ex_verb ... *)
Example first_end_occurrence_hyps :
  clean ex_verb = true /\ start_quirk ex_verb = false /\ letters s_verbatim = true /\
  texts (firstn 5 (toks_of ex_verb)) = ex_head /\
  first_occ_b (Tree.env_end s_verbatim) [36; 120; 123; 92; 92]%N (Tree.env_end s_verbatim ++ [121]%N) = true /\
  (ex_head ++ [36; 120; 123; 92; 92] = (ex_head ++ [36; 120; 123]) ++ [92; 92])%N /\
  ends_escape (ex_head ++ [36; 120; 123])%N = false /\ all_esc [92; 92]%N = true /\
  inside_b ex_verb TComment (length (ex_head ++ [36; 120; 123; 92; 92])%N) = false.
Proof. vm_compute. repeat split. Qed.

(* ... so its conclusion does *)
Example first_end_occurrence_ex :
  end_stop ex_verb ex_head [36; 120; 123; 92; 92]%N s_verbatim [121]%N (skipn 5 (toks_of ex_verb)).
Proof.
  apply (first_end_occurrence ex_verb ex_head [36; 120; 123; 92; 92]%N s_verbatim [121]%N
           (firstn 5 (toks_of ex_verb)) _ (ex_head ++ [36; 120; 123])%N [92; 92]%N);
    try (vm_compute; reflexivity).
  - discriminate.
  - apply first_occ_b_ok. vm_compute. reflexivity.
Qed.

(* and directly, by computation: the raw body is "$x{\\" and the parse continues at "y" *)
Example first_end_occurrence_computed :
  Reader.read_skip_env s_verbatim [] 0%Z (skipn 5 (toks_of ex_verb)) =
  Reader.Ok (Tree.ENamed s_verbatim [] [Tree.ERaw [36; 120; 123; 92; 92]%N 16%Z] 0%Z,
             [mkt [121]%N 35%Z TText]).
Proof. vm_compute. reflexivity. Qed.

(* the string-level provisos: "\begin{verbatim}x%y<LF>${\end{verbatim}": the
   comment is on an EARLIER line *)
Definition ex_verb_line : str :=
  (ex_head ++ [120; 37; 121; 10; 36; 123] ++ Tree.env_end s_verbatim ++ [])%N.

Example end_string_provisos_ex :
  end_stop ex_verb_line ex_head [120; 37; 121; 10; 36; 123]%N s_verbatim []
           (skipn 5 (toks_of ex_verb_line)).
Proof.
  apply (end_string_provisos ex_verb_line ex_head [120; 37; 121; 10; 36; 123]%N s_verbatim []
           (firstn 5 (toks_of ex_verb_line)) _ (ex_head ++ [120; 37; 121; 10])%N [36; 123]%N);
    try (vm_compute; reflexivity).
  - discriminate.
  - apply first_occ_b_ok. vm_compute. reflexivity.
  - right. exists (ex_head ++ [120; 37; 121])%N, 10%N. split; vm_compute; reflexivity.
Qed.

(* the provisos are needed.  (a) the body ends with a backslash (odd run):
   "\begin{verbatim}a\\end{verbatim}" -- the "\end" is not at a token boundary
   ("\\" is one EscapedComment token) and the environment is never closed *)
Theorem end_backslash_refuted :
  exists s head pre name post u es,
    clean s = true /\ start_quirk s = false /\ name <> [] /\ letters name = true /\
    s = head ++ pre ++ Tree.env_end name ++ post /\
    texts (firstn 5 (toks_of s)) = head /\
    first_occ_b (Tree.env_end name) pre (Tree.env_end name ++ post) = true /\
    head ++ pre = u ++ es /\ ends_escape u = false /\ all_esc es = true /\
    Nat.even (length es) = false /\
    inside_b s TComment (length (head ++ pre)) = false /\
    boundary_b s (length (head ++ pre)) = false /\
    Reader.read_skip_env name [] 0%Z (skipn 5 (toks_of s)) = Reader.Err Reader.EOFError.
Proof.
  exists (ex_head ++ [97; 92] ++ Tree.env_end s_verbatim ++ [])%N, ex_head, [97; 92]%N, s_verbatim, [],
         (ex_head ++ [97])%N, [92]%N.
  split; [vm_compute; reflexivity|]. split; [vm_compute; reflexivity|]. split; [discriminate|].
  vm_compute. repeat split.
Qed.

(* (b) a comment character precedes "\end" on its line:
   "\begin{verbatim}a% \end{verbatim}" *)
Theorem end_comment_refuted :
  exists s head pre name post u es,
    clean s = true /\ start_quirk s = false /\ name <> [] /\ letters name = true /\
    s = head ++ pre ++ Tree.env_end name ++ post /\
    texts (firstn 5 (toks_of s)) = head /\
    first_occ_b (Tree.env_end name) pre (Tree.env_end name ++ post) = true /\
    head ++ pre = u ++ es /\ ends_escape u = false /\ all_esc es = true /\
    Nat.even (length es) = true /\
    inside_b s TComment (length (head ++ pre)) = true /\
    boundary_b s (length (head ++ pre)) = false /\
    Reader.read_skip_env name [] 0%Z (skipn 5 (toks_of s)) = Reader.Err Reader.EOFError.
Proof.
  exists (ex_head ++ [97; 37; 32] ++ Tree.env_end s_verbatim ++ [])%N, ex_head, [97; 37; 32]%N,
         s_verbatim, [], (ex_head ++ [97; 37; 32])%N, [].
  split; [vm_compute; reflexivity|]. split; [vm_compute; reflexivity|]. split; [discriminate|].
  vm_compute. repeat split.
Qed.

(* (c) the name must be non-empty: "\end{}x" is four tokens, so the five-token
   condition fails *)
Theorem end_empty_name_refuted :
  exists s post,
    clean s = true /\ start_quirk s = false /\ letters [] = true /\
    s = Tree.env_end [] ++ post /\
    boundary_b s 0 = true /\
    Reader.texts (firstn 5 (toks_of s)) <> Tree.env_end [].
Proof.
  exists (Tree.env_end [] ++ [120])%N, [120]%N.
  split; [vm_compute; reflexivity|]. split; [vm_compute; reflexivity|].
  split; [reflexivity|]. split; [reflexivity|]. split; [vm_compute; reflexivity|].
  vm_compute. discriminate.
Qed.

(* ---------------- the five-token condition of ReaderCons.v, everywhere *)

Lemma starts_with_split p : forall s, starts_with s p = true -> exists post, s = p ++ post.
Proof.
  induction p as [|y p IH]; intros s H; [exists s; reflexivity|].
  destruct s as [|x s]; [discriminate H|]. cbn [starts_with] in H.
  apply andb_true_iff in H. destruct H as [H1 H2]. apply N.eqb_eq in H1. subst y.
  destruct (IH s H2) as (post & ->). exists post. reflexivity.
Qed.

Definition name_ok_b (n : str) : bool := letters n && negb (str_eqb n []).

(* for verbatim-like names that are non-empty and made of letters (all built-in
   names, by computation), hyp_skip holds of every tokenizer output on a clean
   quirk-free string: wherever, at a token boundary, the remaining text starts
   with "\end{name}", the next five tokens are exactly "\end{name}".  So the
   known finding KF-skip-name-not-five-tokens needs a name with a non-letter. *)
Theorem hyp_skip_letters s SK :
  clean s = true -> start_quirk s = false ->
  forallb name_ok_b SK = true ->
  ReaderCons.hyp_skip SK (toks_of s).
Proof.
  intros Hcl Hq HSK pre rest name E Hmem Hst.
  destruct (tokd_exists s Hcl Hq) as (toks & D). rewrite (td_toks s toks D) in E.
  pose proof (td_shaped s toks D) as Hsh. pose proof (td_follows s toks D) as Hfo.
  rewrite E in Hsh, Hfo. apply shaped_app in Hsh. destruct Hsh as [_ Hsr].
  apply follows_ok_app in Hfo.
  apply mem_str_In in Hmem. rewrite forallb_forall in HSK. specialize (HSK name Hmem).
  unfold name_ok_b in HSK. apply andb_true_iff in HSK. destruct HSK as [Hlet Hne].
  assert (Hne' : name <> []) by (intro E0; subst name; discriminate Hne).
  apply SkipEnvProofs.end_here_text_true in Hst. rewrite texts_conv in Hst.
  destruct (starts_with_split _ _ Hst) as (post & Hpost).
  destruct (end_five_tokens rest name post Hsr Hfo Hne' Hlet Hpost)
    as (t1 & t2 & t3 & t4 & t5 & r' & -> & T1 & T2 & T3 & T4 & T5 & _).
  cbn [firstn]. rewrite texts_conv. unfold tok_is in *. rewrite !texts_cons.
  destruct T1 as [_ ->]. destruct T2 as [_ ->]. destruct T3 as [_ ->].
  destruct T4 as [_ ->]. destruct T5 as [_ ->]. cbn [texts map concat].
  unfold Tree.env_end, Tree.s_end_open, Tree.s_close. cbn [app]. try rewrite app_nil_r. reflexivity.
Qed.

Lemma builtin_names_ok : forallb name_ok_b Tables.skip_env_names = true.
Proof. vm_compute. reflexivity. Qed.

Corollary hyp_skip_builtin s user :
  clean s = true -> start_quirk s = false -> forallb name_ok_b user = true ->
  ReaderCons.hyp_skip (Tables.skip_env_names ++ user) (toks_of s).
Proof.
  intros Hcl Hq Hu. apply hyp_skip_letters; [exact Hcl | exact Hq |].
  rewrite forallb_app, builtin_names_ok, Hu. reflexivity.
Qed.

(* a name with a non-letter: "\begin{a[b}x\end{a[b}y" -- "\end{a[b}" is seven tokens *)
Theorem hyp_skip_nonletter_refuted :
  exists s name,
    clean s = true /\ start_quirk s = false /\ name <> [] /\ letters name = false /\
    exists pre rest, toks_of s = pre ++ rest /\
      starts_with (Reader.texts (firstn (length (Tree.env_end name)) rest)) (Tree.env_end name) = true /\
      Reader.texts (firstn 5 rest) <> Tree.env_end name.
Proof.
  exists ([92; 98; 101; 103; 105; 110; 123; 97; 91; 98; 125; 120] ++ Tree.env_end [97; 91; 98] ++ [121])%N,
         [97; 91; 98]%N.
  split; [vm_compute; reflexivity|]. split; [vm_compute; reflexivity|]. split; [discriminate|].
  split; [vm_compute; reflexivity|].
  exists (firstn 8 (toks_of ([92; 98; 101; 103; 105; 110; 123; 97; 91; 98; 125; 120] ++ Tree.env_end [97; 91; 98] ++ [121])%N)),
         (skipn 8 (toks_of ([92; 98; 101; 103; 105; 110; 123; 97; 91; 98; 125; 120] ++ Tree.env_end [97; 91; 98] ++ [121])%N)).
  split; [vm_compute; reflexivity|]. split; [vm_compute; reflexivity|]. vm_compute. discriminate.
Qed.

Example hyp_skip_letters_ex :
  clean ex_verb = true /\ start_quirk ex_verb = false /\
  forallb name_ok_b Tables.skip_env_names = true.
Proof. vm_compute. repeat split. Qed.
