(* Shape facts about the reader used by C02 and C13: which node an expression
   becomes is decided by its first token alone, the node records that token's
   position, loops only extend their accumulator, \item stops where it should,
   and special mode makes \begin / \end plain commands. *)
From Coq Require Import List NArith ZArith Bool Lia.
From TexModel Require Import Base Tables Chars Tokenizer Tree Reader.
From TexProofs Require Import ReaderLen.
Import ListNotations.

Definition epos (e : expr) : option Z :=
  match e with
  | EText t => Some (tpos t)
  | ERaw _ p => Some p
  | EStr _ => None
  | ECmd _ _ _ p | ENamed _ _ _ p | EMath _ _ p | EGroup _ _ p => Some p
  | ERoot _ => None
  end.

Lemma math_loop_shape f : forall k pos strict acc toks e rest,
  read_math_loop f k pos strict acc toks = Ok (e, rest) ->
  exists body, e = EMath k (acc ++ body) pos.
Proof.
  induction f as [|f IH]; intros k pos strict acc toks e rest H; [discriminate|].
  simpl in H. peel_all H.
  - exists []. rewrite app_nil_r. reflexivity.
  - match goal with E : read_math_loop _ _ _ _ _ _ = Ok _ |- _ => apply IH in E; destruct E as (b & ->) end.
    rewrite <- app_assoc. eauto.
Qed.

Lemma argloop_shape f : forall k pos strict m acc toks e rest,
  read_arg_loop f k pos strict m acc toks = Ok (e, rest) ->
  exists body, e = EGroup k (acc ++ body) pos.
Proof.
  induction f as [|f IH]; intros k pos strict m acc toks e rest H; [discriminate|].
  simpl in H. peel_all H; try (exists []; rewrite app_nil_r; reflexivity).
  match goal with E : read_arg_loop _ _ _ _ _ _ _ = Ok _ |- _ => apply IH in E; destruct E as (b & ->) end.
  rewrite <- app_assoc. eauto.
Qed.

Lemma arg_shape f c strict m toks e rest :
  read_arg f c strict m toks = Ok (e, rest) ->
  exists k body, group_kind_of_begin (tcat c) = Some k /\ e = EGroup k body (tpos c).
Proof.
  destruct f as [|f]; [discriminate|]. simpl.
  destruct (group_kind_of_begin (tcat c)) as [k|]; [|discriminate].
  intro H. apply argloop_shape in H. destruct H as (b & ->). simpl. eauto.
Qed.

Lemma envloop_shape f : forall name args pos skip strict m acc toks e rest,
  read_env_loop f name args pos skip strict m acc toks = Ok (e, rest) ->
  exists body, e = ENamed name args (acc ++ body) pos.
Proof.
  induction f as [|f IH]; intros name args pos skip strict m acc toks e rest H; [discriminate|].
  simpl in H. peel_all H; try (exists []; rewrite app_nil_r; reflexivity).
  all: match goal with E : read_env_loop _ _ _ _ _ _ _ _ _ = Ok _ |- _ =>
                       apply IH in E; destruct E as (b & ->) end.
  all: rewrite <- app_assoc; eauto.
Qed.

Lemma itemloop_shape f : forall acc toks es rest,
  read_item_loop f acc toks = Ok (es, rest) -> exists new, es = acc ++ new.
Proof.
  induction f as [|f IH]; intros acc toks es rest H; [discriminate|].
  simpl in H. peel_all H; try (exists []; rewrite app_nil_r; reflexivity).
  all: match goal with E : read_item_loop _ _ _ = Ok _ |- _ =>
                       apply IH in E; destruct E as (b & ->) end.
  all: rewrite <- app_assoc; eauto.
Qed.

Lemma skip_env_shape name args pos toks e rest :
  read_skip_env name args pos toks = Ok (e, rest) ->
  exists body p, e = ENamed name args [ERaw body p] pos.
Proof.
  unfold read_skip_env. destruct (skip_scan _ _ _) as [b r].
  destruct toks; [discriminate|]. destruct r; [discriminate|].
  destruct (starts_with _ _); [|discriminate]. intro H; inversion H. eauto.
Qed.

(* the node built from an expression is determined by its first token, and
   records that token's position *)
Theorem read_expr_shape f skip strict m c src e rest :
  read_expr f skip strict m (c :: src) = Ok (e, rest) ->
  match math_kind_of_begin (tcat c) with
  | Some k => exists body, e = EMath k body (tpos c)
  | None =>
    if is_tc TEscape c
    then (exists n a b, e = ECmd n a b (tpos c)) \/ (exists n a b, e = ENamed n a b (tpos c))
    else if is_tc TGroupBegin c
         then exists k body, e = EGroup k body (tpos c)
         else e = EText c /\ rest = src
  end.
Proof.
  destruct f as [|f]; [discriminate|]. cbn [read_expr].
  destruct (math_kind_of_begin (tcat c)) as [k|].
  { intro H. apply math_loop_shape in H. destruct H as (b & ->). simpl. eauto. }
  destruct (is_tc TEscape c).
  2:{ destruct (is_tc TGroupBegin c).
      - intro H. apply arg_shape in H. destruct H as (k & b & _ & ->). eauto.
      - intro H. inversion H. auto. }
  intro H. apply bind_ok in H. destruct H as ([[name args] src1] & _ & H).
  destruct (str_eqb name s_item).
  { destruct (mode_is_math m); [discriminate|].
    apply bind_ok in H. destruct H as ([cs s2] & _ & H). inversion H. left. eauto. }
  destruct (str_eqb name s_begin && negb (mode_is_special m)).
  2:{ inversion H. left. eauto. }
  destruct args as [|a0 args']; [discriminate|].
  destruct (mem_str _ skip).
  - apply skip_env_shape in H. destruct H as (b & p & ->). right. eauto.
  - apply envloop_shape in H. destruct H as (b & ->). right. eauto.
Qed.

Corollary read_expr_position f skip strict m c src e rest :
  read_expr f skip strict m (c :: src) = Ok (e, rest) -> epos e = Some (tpos c).
Proof.
  intro H. apply read_expr_shape in H.
  destruct (math_kind_of_begin (tcat c)).
  - destruct H as (b & ->). reflexivity.
  - destruct (is_tc TEscape c).
    + destruct H as [(n & a & b & ->)|(n & a & b & ->)]; reflexivity.
    + destruct (is_tc TGroupBegin c).
      * destruct H as (k & b & ->). reflexivity.
      * destruct H as [-> _]. reflexivity.
Qed.

(* an \item owns the content up to the next \item, an \end, a closing brace,
   or the end of the input: there, and only by these tests, the loop stops *)
Theorem item_stops_at_end_of_input f acc :
  read_item_loop (S f) acc [] = Ok (acc, []).
Proof. reflexivity. Qed.

Theorem item_stops_at_closing_brace f acc t ts :
  is_tc TEscape t = false -> is_tc TGroupEnd t = true ->
  read_item_loop (S f) acc (t :: ts) = Ok (acc, t :: ts).
Proof. intros H1 H2. simpl. rewrite H1, H2. reflexivity. Qed.

Theorem item_stops_at_item_or_end f acc t ts cname cargs crest :
  is_tc TEscape t = true ->
  read_command f (-1) (-1) 1 true MNonMath (t :: ts) = Ok ((cname, cargs), crest) ->
  str_eqb cname s_end || str_eqb cname s_item = true ->
  read_item_loop (S f) acc (t :: ts) = Ok (acc, t :: ts).
Proof. intros H1 H2 H3. simpl. rewrite H1, H2. simpl. rewrite H3. reflexivity. Qed.

Theorem item_continues_otherwise f acc t ts :
  (is_tc TEscape t = false /\ is_tc TGroupEnd t = false) \/
  (is_tc TEscape t = true /\ exists cname cargs crest,
     read_command f (-1) (-1) 1 true MNonMath (t :: ts) = Ok ((cname, cargs), crest) /\
     str_eqb cname s_end || str_eqb cname s_item = false) ->
  read_item_loop (S f) acc (t :: ts) =
  bind (read_expr f [] true MNonMath (t :: ts))
       (fun '(e, src1) => read_item_loop f (acc ++ [e]) src1).
Proof.
  intros [[H1 H2]|(H1 & cn & ca & cr & H2 & H3)]; simpl; rewrite H1.
  - rewrite H2. reflexivity.
  - rewrite H2. simpl. rewrite H3. reflexivity.
Qed.

(* \newcommand-style definitions: the arguments of a special command are read
   in special mode, and in special mode \begin / \end are plain commands *)
Theorem special_command_enters_special_mode f nreq nopt strict m name src :
  mem_str (ttext name) Tables.special_commands = true ->
  read_command (S f) nreq nopt 0 strict m (name :: src) =
  (let '(nreq', nopt') :=
       if (nreq <? 0)%Z && (nopt <? 0)%Z then signature_of (ttext name) else (nreq, nopt) in
   bind (read_args f nreq' nopt' strict MSpecial src)
        (fun '(args, src1) => Ok ((ttext name, args), src1))).
Proof. intro H. cbn [read_command]. change (skipn 0 (name :: src)) with (name :: src).
       cbv beta iota. rewrite H. reflexivity. Qed.

Theorem special_mode_begin_is_plain f skip strict c src name args src1 :
  math_kind_of_begin (tcat c) = None -> is_tc TEscape c = true ->
  read_command f (-1) (-1) 0 strict MSpecial src = Ok ((name, args), src1) ->
  str_eqb name s_item = false ->
  read_expr (S f) skip strict MSpecial (c :: src) = Ok (ECmd (strip name) args [] (tpos c), src1).
Proof.
  intros Hm Hc Hcmd Hi. cbn [read_expr]. rewrite Hm, Hc, Hcmd. cbn [bind]. rewrite Hi.
  cbn [mode_is_special negb]. rewrite andb_false_r. reflexivity.
Qed.

(* the mode is inherited by nested arguments: a group read as an argument in
   special mode reads its contents in special mode *)
Theorem special_mode_inherited f k pos strict acc t src :
  is_group_end k t = false ->
  read_arg_loop (S f) k pos strict MSpecial acc (t :: src) =
  bind (read_expr f [] strict MSpecial (t :: src))
       (fun '(e, src1) => read_arg_loop f k pos strict MSpecial (acc ++ [e]) src1).
Proof. intro H. simpl. rewrite H. reflexivity. Qed.
