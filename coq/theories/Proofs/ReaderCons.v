(* CP: the reader conserves its input ("print o parse ~ id", DESIGN.md section 5).

   For every reader function:  read_X ... toks = Ok (v, rest)  implies
   toks = used ++ rest  and the serialisation of v is the text of `used` up to
     - MergedSpacer tokens dropped directly before the opening `{`/`[` of an
       attached argument group                                   (both modes),
     - closing delimiters `}` `]` `\end{name}` inserted          (tolerant mode only).
   The theorem is proved under explicit hygiene conditions on the token list,
   each of which excludes one place where the code is NOT conservative
   (DESIGN.md section 8): see `Hyp`. *)
From Coq Require Import List NArith ZArith Bool Lia.
From TexModel Require Import Base Tables Chars Tokenizer Tree Reader.
From TexProofs Require Import ReaderLen ReaderTotal.
Import ListNotations.

(* ------------------------------------------------------------------ Rel *)

Definition opener (t : token) : Prop :=
  is_tc TGroupBegin t = true \/ is_tc TBracketBegin t = true.

Definition closer (c : str) : Prop :=
  c = group_end GBrace \/ c = group_end GBracket \/ exists name, c = env_end name.

Inductive Rel (tol : bool) : list token -> str -> Prop :=
| Rel_nil : Rel tol [] []
| Rel_keep t ts out : Rel tol ts out -> Rel tol (t :: ts) (ttext t ++ out)
| Rel_drop sp t ts out :
    is_tc TMergedSpacer sp = true -> opener t -> Rel tol (t :: ts) out ->
    Rel tol (sp :: t :: ts) out
| Rel_ins c ts out : tol = true -> closer c -> Rel tol ts out -> Rel tol ts (c ++ out).

Lemma Rel_app tol a x b y : Rel tol a x -> Rel tol b y -> Rel tol (a ++ b) (x ++ y).
Proof.
  intros Ha Hb. induction Ha; simpl.
  - exact Hb.
  - rewrite <- app_assoc. apply Rel_keep. exact IHHa.
  - apply Rel_drop; assumption.
  - rewrite <- app_assoc. apply Rel_ins; assumption.
Qed.

Lemma Rel_texts tol ts : Rel tol ts (texts ts).
Proof. induction ts; simpl; [constructor|]. apply Rel_keep. exact IHts. Qed.

Lemma Rel_mono ts out : Rel false ts out -> forall tol, Rel tol ts out.
Proof.
  induction 1; intro tol'.
  - constructor.
  - apply Rel_keep; auto.
  - apply Rel_drop; auto.
  - discriminate.
Qed.

Lemma Rel_one tol t : Rel tol [t] (ttext t).
Proof. rewrite <- (app_nil_r (ttext t)). apply Rel_keep. constructor. Qed.

Lemma Rel_snoc_closer tol ts out c :
  tol = true -> closer c -> Rel tol ts out -> Rel tol ts (out ++ c).
Proof.
  intros Ht Hc H. rewrite <- (app_nil_r ts). apply Rel_app; [exact H|].
  rewrite <- (app_nil_r c). apply Rel_ins; auto. constructor.
Qed.

(* strict mode without droppable spacers: the output is the input *)
Fixpoint no_arg_spacer (ts : list token) : bool :=
  match ts with
  | sp :: ((t :: _) as ts') =>
    negb (is_tc TMergedSpacer sp && (is_tc TGroupBegin t || is_tc TBracketBegin t))
    && no_arg_spacer ts'
  | _ => true
  end.

Lemma Rel_exact ts out : Rel false ts out -> no_arg_spacer ts = true -> out = texts ts.
Proof.
  induction 1; intro Hn.
  - reflexivity.
  - change (texts (t :: ts)) with (ttext t ++ texts ts). f_equal. apply IHRel.
    destruct ts; [reflexivity|].
    simpl in Hn. apply andb_true_iff in Hn. tauto.
  - exfalso. simpl in Hn. apply andb_true_iff in Hn. destruct Hn as [Hn _].
    rewrite H in Hn. destruct H0 as [E|E]; rewrite E in Hn; simpl in Hn;
      try discriminate. rewrite orb_true_r in Hn. discriminate.
  - discriminate.
Qed.

(* ------------------------------------------------------------ hypotheses *)

(* structural tokens carry the text of their delimiter *)
Definition tok_wf (t : token) : Prop :=
  (forall k, group_tok_begin k = Some (tcat t) -> ttext t = group_begin k) /\
  (forall k, group_tok_end k = Some (tcat t) -> ttext t = group_end k) /\
  (forall k, math_tok_begin k = Some (tcat t) -> ttext t = math_begin k) /\
  (forall k, math_tok_end k = Some (tcat t) -> ttext t = math_end k) /\
  (tcat t = TEscape -> ttext t = [backslash]).

Definition is_opener (t : token) : bool := is_tc TGroupBegin t || is_tc TBracketBegin t.

Definition after_spacer (toks : list token) : list token := snd (read_spacer toks).

(* `{` Text `}` with unpadded text: the only shape of a \begin / \end name
   group for which the code re-serialises the name verbatim *)
Definition simple_name_group (toks : list token) : bool :=
  match toks with
  | o :: n :: c :: _ =>
    is_tc TGroupBegin o && is_tc TText n && str_eqb (strip (ttext n)) (ttext n)
    && is_tc TGroupEnd c
  | _ => false
  end.

Definition name_ok (l : list token) : bool :=
  match l with
  | o :: _ => if is_opener o then simple_name_group l else true
  | [] => true
  end.

Definition is_beginend (n : token) : bool :=
  str_eqb (ttext n) s_begin || str_eqb (ttext n) s_end.

(* every command name is unpadded; every \begin / \end is followed by nothing
   that opens a group, or by a simple name group *)
Fixpoint clean_names (toks : list token) : bool :=
  match toks with
  | e :: ((n :: rest) as toks') =>
    (if is_tc TEscape e
     then str_eqb (strip (ttext n)) (ttext n)
          && (if is_beginend n then name_ok (after_spacer rest) else true)
     else true) && clean_names toks'
  | _ => true
  end.

Section WithSkip.
Variable SK : list str.

(* wherever the scan of a verbatim-like environment stops, the closing
   \end{name} is made of exactly the five tokens the code then drops *)
Definition hyp_skip (toks : list token) : Prop :=
  forall pre rest name, toks = pre ++ rest -> mem_str name SK = true ->
    starts_with (texts (firstn (length (env_end name)) rest)) (env_end name) = true ->
    texts (firstn 5 rest) = env_end name.

Record Hyp (toks : list token) : Prop := mkHyp {
  h_wf : Forall tok_wf toks;
  h_names : clean_names toks = true;
  h_skip : hyp_skip toks }.

Lemma clean_names_suffix a b : clean_names (a ++ b) = true -> clean_names b = true.
Proof.
  induction a as [|x a IH]; simpl; auto.
  destruct (a ++ b) eqn:E.
  - destruct a; simpl in E; [subst; reflexivity | discriminate].
  - intro H. apply andb_true_iff in H. apply IH. tauto.
Qed.

Lemma Hyp_suffix a b : Hyp (a ++ b) -> Hyp b.
Proof.
  intros [W N S]. constructor.
  - apply Forall_app in W. tauto.
  - eapply clean_names_suffix; eassumption.
  - intros pre rest name E. apply (S (a ++ pre) rest name). rewrite E, app_assoc. reflexivity.
Qed.

Lemma Hyp_tail t ts : Hyp (t :: ts) -> Hyp ts.
Proof. apply (Hyp_suffix [t] ts). Qed.

Definition sub_skip (skip : list str) : Prop :=
  forall n, mem_str n skip = true -> mem_str n SK = true.

(* ------------------------------------------------------- braced trees *)

Definition is_group (e : expr) : bool := match e with EGroup _ _ _ => true | _ => false end.

(* no bare-token argument anywhere: every argument is a group, no plain str *)
Fixpoint nobare (e : expr) : bool :=
  match e with
  | EText _ | ERaw _ _ => true
  | EStr _ => false
  | ECmd _ a b _ => forallb is_group a && forallb nobare a && forallb nobare b
  | ENamed _ a b _ => forallb is_group a && forallb nobare a && forallb nobare b
  | EMath _ b _ => forallb nobare b
  | EGroup _ b _ => forallb nobare b
  | ERoot b => forallb nobare b
  end.

Definition okargs (l : list expr) : bool := forallb is_group l && forallb nobare l.

End WithSkip.

(* ------------------------------------------------- table facts (computed) *)

Lemma is_tc_eq k t : is_tc k t = true -> tcat t = k.
Proof. unfold is_tc. apply tc_eqb_eq. Qed.

Lemma gk_brace : group_kind_of_begin TGroupBegin = Some GBrace.
Proof. vm_compute. reflexivity. Qed.
Lemma gk_bracket : group_kind_of_begin TBracketBegin = Some GBracket.
Proof. vm_compute. reflexivity. Qed.

Lemma group_kind_begin_tok c k : group_kind_of_begin c = Some k -> group_tok_begin k = Some c.
Proof. destruct c; vm_compute; intro H; inversion H; reflexivity. Qed.

Lemma math_kind_begin_tok c k : math_kind_of_begin c = Some k -> math_tok_begin k = Some c.
Proof. destruct c; vm_compute; intro H; inversion H; reflexivity. Qed.

Lemma is_group_end_tok k t : is_group_end k t = true -> group_tok_end k = Some (tcat t).
Proof.
  unfold is_group_end. destruct (group_tok_end k) as [e|]; [|discriminate].
  intro H. apply is_tc_eq in H. congruence.
Qed.

Lemma is_math_end_tok k t : is_math_end k t = true -> math_tok_end k = Some (tcat t).
Proof.
  unfold is_math_end. destruct (math_tok_end k) as [e|]; [|discriminate].
  intro H. apply is_tc_eq in H. congruence.
Qed.

Lemma opener_of_kind c : group_kind_of_begin (tcat c) <> None -> is_opener c = true.
Proof.
  unfold is_opener, is_tc. destruct (tcat c); vm_compute; intro H; try reflexivity;
    exfalso; apply H; reflexivity.
Qed.

Lemma is_opener_opener c : is_opener c = true -> opener c.
Proof. unfold is_opener, opener. intro H. apply orb_true_iff in H. exact H. Qed.

Lemma brace_end_is : group_tok_end GBrace = Some TGroupEnd.
Proof. vm_compute. reflexivity. Qed.
Lemma brace_begin_is : group_tok_begin GBrace = Some TGroupBegin.
Proof. vm_compute. reflexivity. Qed.

Lemma env_begin_eq name :
  env_begin name = backslash :: s_begin ++ group_begin GBrace ++ name ++ group_end GBrace.
Proof. vm_compute. reflexivity. Qed.
Lemma env_end_eq name :
  env_end name = backslash :: s_end ++ group_begin GBrace ++ name ++ group_end GBrace.
Proof. vm_compute. reflexivity. Qed.

Lemma beginend_plain n :
  is_beginend n = true ->
  signature_of (ttext n) = ((-1)%Z, (-1)%Z) /\ mem_str (ttext n) Tables.special_commands = false.
Proof.
  unfold is_beginend. intro H. apply orb_true_iff in H.
  destruct H as [H|H]; apply str_eqb_eq in H; rewrite H; split; vm_compute; reflexivity.
Qed.

(* ------------------------------------------- reading a simple name group *)

Lemma simple_group_read f c strict m n cl rest g rest' :
  group_kind_of_begin (tcat c) = Some GBrace ->
  is_tc TText n = true -> is_tc TGroupEnd cl = true ->
  read_arg f c strict m (n :: cl :: rest) = Ok (g, rest') ->
  g = EGroup GBrace [EText n] (tpos c) /\ rest' = rest.
Proof.
  intros Hk Hn Hc.
  apply is_tc_eq in Hn. 
  assert (Hne : is_group_end GBrace n = false).
  { unfold is_group_end. rewrite brace_end_is. unfold is_tc. rewrite Hn. reflexivity. }
  assert (Hce : is_group_end GBrace cl = true).
  { unfold is_group_end. rewrite brace_end_is. exact Hc. }
  destruct f as [|f1]; [discriminate|]. cbn [read_arg]. rewrite Hk.
  destruct f1 as [|f2]; [discriminate|]. cbn [read_arg_loop]. rewrite Hne.
  destruct f2 as [|f3]; [discriminate|]. cbn [read_expr].
  unfold is_tc. rewrite Hn.
  replace (math_kind_of_begin TText) with (@None mathkind) by (vm_compute; reflexivity).
  cbn [tc_beq bind app]. cbn [read_arg_loop]. rewrite Hce.
  intro H. inversion H. auto.
Qed.

Lemma opt_extends f : forall args nopt strict m toks args' n' rest,
  read_arg_optional f args nopt strict m toks = Ok ((args', n'), rest) ->
  exists more, args' = args ++ more.
Proof.
  induction f as [|f IH]; intros args nopt strict m toks args' n' rest H; [discriminate|].
  simpl in H. peel_all H; try (exists []; rewrite app_nil_r; reflexivity).
  match goal with E : read_arg_optional _ _ _ _ _ _ = Ok _ |- _ => apply IH in E; destruct E as (more & ->) end.
  rewrite <- app_assoc. eauto.
Qed.

Lemma req_extends f : forall args nreq strict m toks args' n' rest,
  read_arg_required f args nreq strict m toks = Ok ((args', n'), rest) ->
  exists more, args' = args ++ more.
Proof.
  induction f as [|f IH]; intros args nreq strict m toks args' n' rest H; [discriminate|].
  simpl in H. peel_all H; try (exists []; rewrite app_nil_r; reflexivity).
  all: match goal with E : read_arg_required _ _ _ _ _ _ = Ok _ |- _ =>
                       apply IH in E; destruct E as (more & ->) end.
  all: rewrite <- app_assoc; eauto.
Qed.

(* the first argument read after a \begin / \end whose name group is simple *)
Lemma args_simple_name f strict m src o n cl src' args rest :
  after_spacer src = o :: n :: cl :: src' ->
  simple_name_group (o :: n :: cl :: src') = true ->
  read_args f (-1) (-1) strict m src = Ok (args, rest) ->
  exists args', args = EGroup GBrace [EText n] (tpos o) :: args'.
Proof.
  intros Has Hs. unfold simple_name_group in Hs.
  apply andb_true_iff in Hs. destruct Hs as [Hs Hcl].
  apply andb_true_iff in Hs. destruct Hs as [Hs _].
  apply andb_true_iff in Hs. destruct Hs as [Ho Hn].
  unfold after_spacer in Has.
  destruct (read_spacer src) as [b src1] eqn:Esp. simpl in Has. subst src1.
  assert (Hnb : is_tc TBracketBegin o = false).
  { unfold is_tc in *. apply tc_eqb_eq in Ho. rewrite Ho. reflexivity. }
  assert (Hsrc : src <> []).
  { intro E. subst src. unfold read_spacer in Esp. inversion Esp. }
  destruct f as [|f1]; [discriminate|]. cbn [read_args].
  replace ((-1 =? 0)%Z && (-1 =? 0)%Z) with false by reflexivity.
  intro H. apply bind_ok in H. destruct H as ([[args1 nopt1] src1] & H1 & H).
  (* optional pass: a `{` follows, nothing is taken *)
  assert (E1 : args1 = [] /\ src1 = src).
  { destruct f1 as [|f2]; [discriminate|]. cbn [read_arg_optional] in H1.
    replace (-1 =? 0)%Z with false in H1 by reflexivity. rewrite Esp, Hnb in H1.
    inversion H1. auto. }
  destruct E1 as [-> ->].
  apply bind_ok in H. destruct H as ([[args2 nreq1] src2] & H2 & H).
  assert (E2 : exists more, args2 = EGroup GBrace [EText n] (tpos o) :: more).
  { destruct f1 as [|f2]; [discriminate|]. cbn [read_arg_required] in H2.
    replace (-1 =? 0)%Z with false in H2 by reflexivity.
    destruct src as [|s0 ss]; [congruence|]. rewrite Esp, Ho in H2.
    apply bind_ok in H2. destruct H2 as ([g src3] & Hg & H2).
    apply simple_group_read in Hg; auto.
    - destruct Hg as [-> ->]. apply req_extends in H2. destruct H2 as (more & ->).
      simpl. eauto.
    - apply is_tc_eq in Ho. rewrite Ho. exact gk_brace. }
  destruct E2 as (more & ->).
  apply bind_ok in H. destruct H as ([[args3 n3] src3] & H3 & H).
  assert (E3 : exists more3, args3 = EGroup GBrace [EText n] (tpos o) :: more3).
  { destruct src2 as [|t2 ts2]; [inversion H3; eauto|].
    destruct (is_tc TBracketBegin t2); [|inversion H3; eauto].
    apply opt_extends in H3. destruct H3 as (m3 & ->). simpl. eauto. }
  destruct E3 as (more3 & ->).
  apply bind_ok in H. destruct H as ([[args4 n4] src4] & H4 & H).
  inversion H; subst.
  destruct src3 as [|t3 ts3]; [inversion H4; eauto|].
  destruct (is_tc TGroupBegin t3); [|inversion H4; eauto].
  apply req_extends in H4. destruct H4 as (m4 & ->). simpl. eauto.
Qed.

(* ---------------------------------------------------------- the induction *)

Section CP.
Variable SK : list str.
Notation Hyp := (Hyp SK).

Definition cp_expr f := forall skip strict m toks e rest,
  sub_skip SK skip -> Hyp toks -> read_expr f skip strict m toks = Ok (e, rest) ->
  exists used, toks = used ++ rest /\ (nobare e = true -> Rel (negb strict) used (estr e)).
Definition cp_item f := forall acc toks es rest,
  Hyp toks -> read_item_loop f acc toks = Ok (es, rest) ->
  exists used new, toks = used ++ rest /\ es = acc ++ new /\
    (forallb nobare new = true -> Rel false used (estr_list new)).
Definition cp_math f := forall k pos strict acc toks e rest,
  Hyp toks -> read_math_loop f k pos strict acc toks = Ok (e, rest) ->
  exists used new, toks = used ++ rest /\ e = EMath k (acc ++ new) pos /\
    (forallb nobare new = true -> Rel (negb strict) used (estr_list new ++ math_end k)).
Definition cp_env f := forall name args pos skip strict m acc toks e rest,
  sub_skip SK skip -> Hyp toks ->
  read_env_loop f name args pos skip strict m acc toks = Ok (e, rest) ->
  exists used new, toks = used ++ rest /\ e = ENamed name args (acc ++ new) pos /\
    (forallb nobare new = true -> Rel (negb strict) used (estr_list new ++ env_end name)).
Definition cp_command f := forall nreq nopt strict m toks name args rest,
  Hyp toks -> read_command f nreq nopt 0 strict m toks = Ok ((name, args), rest) ->
  (toks = [] /\ name = [] /\ args = [] /\ rest = []) \/
  exists nt used, toks = nt :: used ++ rest /\ name = ttext nt /\
    (okargs args = true -> Rel (negb strict) used (estr_list args)).
Definition cp_args f := forall nreq nopt strict m toks args rest,
  Hyp toks -> read_args f nreq nopt strict m toks = Ok (args, rest) ->
  exists used, toks = used ++ rest /\
    (okargs args = true -> Rel (negb strict) used (estr_list args)).
Definition cp_opt f := forall args nopt strict m toks args' n' rest,
  Hyp toks -> read_arg_optional f args nopt strict m toks = Ok ((args', n'), rest) ->
  exists used new, toks = used ++ rest /\ args' = args ++ new /\
    (okargs new = true -> Rel (negb strict) used (estr_list new)).
Definition cp_req f := forall args nreq strict m toks args' n' rest,
  Hyp toks -> read_arg_required f args nreq strict m toks = Ok ((args', n'), rest) ->
  exists used new, toks = used ++ rest /\ args' = args ++ new /\
    (okargs new = true -> Rel (negb strict) used (estr_list new)).
Definition cp_arg f := forall c strict m toks e rest,
  tok_wf c -> Hyp toks -> read_arg f c strict m toks = Ok (e, rest) ->
  exists used, toks = used ++ rest /\ is_group e = true /\
    (nobare e = true -> Rel (negb strict) (c :: used) (estr e)).
Definition cp_argloop f := forall k pos strict m acc toks e rest,
  Hyp toks -> read_arg_loop f k pos strict m acc toks = Ok (e, rest) ->
  exists used new, toks = used ++ rest /\ e = EGroup k (acc ++ new) pos /\
    (forallb nobare new = true -> Rel (negb strict) used (estr_list new ++ group_end k)).

Definition cp_all f :=
  cp_expr f /\ cp_item f /\ cp_math f /\ cp_env f /\ cp_command f /\ cp_args f /\
  cp_opt f /\ cp_req f /\ cp_arg f /\ cp_argloop f.

Lemma estr_list_app a b : estr_list (a ++ b) = estr_list a ++ estr_list b.
Proof. unfold estr_list. rewrite map_app, concat_app. reflexivity. Qed.

Lemma estr_list_one e : estr_list [e] = estr e.
Proof. unfold estr_list. simpl. apply app_nil_r. Qed.

Lemma forallb_app_l {A} (p : A -> bool) a b : forallb p (a ++ b) = true -> forallb p a = true.
Proof. rewrite forallb_app. intro H. apply andb_true_iff in H. tauto. Qed.
Lemma forallb_app_r {A} (p : A -> bool) a b : forallb p (a ++ b) = true -> forallb p b = true.
Proof. rewrite forallb_app. intro H. apply andb_true_iff in H. tauto. Qed.

Lemma okargs_app a b : okargs (a ++ b) = true -> okargs a = true /\ okargs b = true.
Proof.
  unfold okargs. rewrite !forallb_app. intro H.
  apply andb_true_iff in H. destruct H as [H1 H2].
  apply andb_true_iff in H1. destruct H1 as [H1a H1b].
  apply andb_true_iff in H2. destruct H2 as [H2a H2b].
  rewrite H1a, H1b, H2a, H2b. auto.
Qed.

Lemma Hyp_head_wf t ts : Hyp (t :: ts) -> tok_wf t.
Proof. intros [W _ _]. inversion W; assumption. Qed.

Lemma step_loop tol u1 e1 u2 new tail :
  (nobare e1 = true -> Rel tol u1 (estr e1)) ->
  (forallb nobare new = true -> Rel tol u2 (estr_list new ++ tail)) ->
  forallb nobare (e1 :: new) = true ->
  Rel tol (u1 ++ u2) (estr_list (e1 :: new) ++ tail).
Proof.
  intros R1 R2 Hn. simpl in Hn. apply andb_true_iff in Hn. destruct Hn as [Hn1 Hn2].
  change (estr_list (e1 :: new)) with (estr e1 ++ estr_list new).
  rewrite <- app_assoc. apply Rel_app; auto.
Qed.

Lemma read_spacer_cases toks b src1 :
  read_spacer toks = (b, src1) ->
  toks = src1 \/ exists sp, toks = sp :: src1 /\ is_tc TMergedSpacer sp = true.
Proof.
  unfold read_spacer. destruct toks as [|t r]; [intro H; inversion H; auto|].
  destruct (is_tc TMergedSpacer t) eqn:E; intro H; inversion H; subst; eauto.
Qed.

Lemma okargs_cons g l : okargs (g :: l) = true ->
  is_group g = true /\ nobare g = true /\ okargs l = true.
Proof.
  unfold okargs. simpl. intro H.
  apply andb_true_iff in H. destruct H as [H1 H2].
  apply andb_true_iff in H1. destruct H1 as [H1a H1b].
  apply andb_true_iff in H2. destruct H2 as [H2a H2b].
  rewrite H1b, H2b. auto.
Qed.

(* an attached group, possibly after a dropped spacer, followed by more *)
Lemma attach_rel tol toks b c src2 ug src3 g u2 new2 rest :
  read_spacer toks = (b, c :: src2) -> is_opener c = true ->
  src2 = ug ++ src3 -> src3 = u2 ++ rest ->
  (nobare g = true -> Rel tol (c :: ug) (estr g)) ->
  (okargs new2 = true -> Rel tol u2 (estr_list new2)) ->
  exists used, toks = used ++ rest /\
    (okargs (g :: new2) = true -> Rel tol used (estr_list (g :: new2))).
Proof.
  intros Esp Hop E2 E3 Rg R2.
  assert (Hr : okargs (g :: new2) = true ->
               Rel tol (c :: ug ++ u2) (estr_list (g :: new2))).
  { intro Hok. apply okargs_cons in Hok. destruct Hok as (_ & Hg & H2).
    change (estr_list (g :: new2)) with (estr g ++ estr_list new2).
    change (c :: ug ++ u2) with ((c :: ug) ++ u2). apply Rel_app; auto. }
  apply read_spacer_cases in Esp. destruct Esp as [->|(sp & -> & Hsp)].
  - exists (c :: ug ++ u2). split; [|exact Hr].
    rewrite E2, E3. simpl. rewrite <- app_assoc. reflexivity.
  - exists (sp :: c :: ug ++ u2). split.
    + rewrite E2, E3. simpl. rewrite <- app_assoc. reflexivity.
    + intro Hok. apply Rel_drop; [exact Hsp | apply is_opener_opener; exact Hop | auto].
Qed.

Lemma Hyp_after_spacer toks b c src2 : Hyp toks -> read_spacer toks = (b, c :: src2) ->
  tok_wf c /\ Hyp src2.
Proof.
  intros Hy Esp. apply read_spacer_cases in Esp. destruct Esp as [->|(sp & -> & _)].
  - split; [eapply Hyp_head_wf; exact Hy | eapply Hyp_tail; exact Hy].
  - apply Hyp_tail in Hy. split; [eapply Hyp_head_wf; exact Hy | eapply Hyp_tail; exact Hy].
Qed.

Lemma Hyp_nil : Hyp [].
Proof.
  constructor; [constructor | reflexivity|].
  intros p r n E _ Hs. destruct p; [|discriminate]. destruct r; [|discriminate].
  exfalso. rewrite firstn_nil in Hs. unfold env_end, s_end_open in Hs.
  simpl in Hs. discriminate.
Qed.

(* closing an environment: the peek matched `\end` + a simple name group, and
   exactly escape, `end`, optional spacer, `{`, name, `}` are consumed *)
Lemma finish_end f strict m t l cname a0 cargs crest name b c src3 g rest tol :
  Hyp (t :: l) -> is_tc TEscape t = true ->
  read_command f (-1) (-1) 1 strict m (t :: l) = Ok ((cname, a0 :: cargs), crest) ->
  str_eqb cname s_end = true -> str_eqb (arg_string a0) name = true ->
  read_spacer (skipn 2 (t :: l)) = (b, c :: src3) ->
  read_arg f c strict m src3 = Ok (g, rest) ->
  exists used, t :: l = used ++ rest /\ Rel tol used (env_end name).
Proof.
  intros Hy Ht Hpeek Hend Hname Esp Harg.
  pose proof (end_peek_opens _ _ _ _ _ _ _ _ _ Hpeek Hend) as (c0 & Hc0 & Hk0).
  destruct f as [|f1]; [discriminate|]. cbn [read_command] in Hpeek.
  replace (length (t :: l) <? 1)%nat with false in Hpeek by reflexivity.
  change (skipn 1 (t :: l)) with l in Hpeek.
  destruct l as [|nm src]; [inversion Hpeek|].
  change (skipn 2 (t :: nm :: src)) with src in *.
  destruct (signature_of (ttext nm)) as [nr no] eqn:Esig.
  replace ((-1 <? 0)%Z && (-1 <? 0)%Z) with true in Hpeek by reflexivity.
  apply bind_ok in Hpeek. destruct Hpeek as ([pargs psrc] & Hargs & Hpeek).
  inversion Hpeek; subst cname pargs psrc. clear Hpeek.
  assert (Hbe : is_beginend nm = true) by (unfold is_beginend; rewrite Hend; apply orb_true_r).
  destruct (beginend_plain nm Hbe) as [Hsig Hspec]. rewrite Hsig in Esig. inversion Esig; subst nr no.
  (* hygiene: the name group is `{` Text `}` *)
  pose proof (h_names _ _ Hy) as Hn. cbn [clean_names] in Hn. rewrite Ht, Hbe in Hn.
  apply andb_true_iff in Hn. destruct Hn as [Hn _].
  apply andb_true_iff in Hn. destruct Hn as [_ Hnok].
  unfold head_after_spacer in Hc0. unfold after_spacer in Hnok. rewrite Esp in Hc0, Hnok.
  cbn [snd] in Hc0, Hnok. inversion Hc0; subst c0.
  unfold name_ok in Hnok. rewrite (opener_of_kind c Hk0) in Hnok.
  destruct src3 as [|n [|cl src']]; try discriminate Hnok.
  pose proof Hnok as Hs. unfold simple_name_group in Hs.
  apply andb_true_iff in Hs. destruct Hs as [Hs Hcl].
  apply andb_true_iff in Hs. destruct Hs as [Hs _].
  apply andb_true_iff in Hs. destruct Hs as [Ho Htxt].
  assert (Hkc : group_kind_of_begin (tcat c) = Some GBrace).
  { apply is_tc_eq in Ho. rewrite Ho. exact gk_brace. }
  (* the peek's first argument is that group *)
  destruct (args_simple_name f1 strict _ src c n cl src' _ _
              ltac:(unfold after_spacer; rewrite Esp; reflexivity) Hnok Hargs) as (args' & Ea0).
  inversion Ea0; subst a0 cargs. clear Ea0.
  assert (Has : arg_string (EGroup GBrace [EText n] (tpos c)) = ttext n).
  { unfold arg_string, estr_list. simpl. apply app_nil_r. }
  rewrite Has in Hname. apply str_eqb_eq in Hname. subst name.
  (* the real read consumes exactly `{` name `}` *)
  destruct (simple_group_read _ _ _ _ _ _ _ _ _ Hkc Htxt Hcl Harg) as [_ ->].
  (* texts *)
  pose proof (h_wf _ _ Hy) as W. inversion W as [|? ? Wt W1]; subst.
  inversion W1 as [|? ? Wnm W2]; subst. clear W W1.
  assert (Wsrc : Forall tok_wf (c :: n :: cl :: src')).
  { apply read_spacer_cases in Esp. destruct Esp as [->|(sp & -> & _)]; [exact W2|].
    inversion W2; assumption. }
  inversion Wsrc as [|? ? Wc W3]; subst. inversion W3 as [|? ? _ W4]; subst.
  inversion W4 as [|? ? Wcl _]; subst.
  assert (Tt : ttext t = [backslash]) by (apply Wt; apply is_tc_eq; exact Ht).
  assert (Tnm : ttext nm = s_end) by (apply str_eqb_eq; exact Hend).
  assert (Tc : ttext c = group_begin GBrace).
  { apply Wc. rewrite brace_begin_is. f_equal. symmetry. apply is_tc_eq. exact Ho. }
  assert (Tcl : ttext cl = group_end GBrace).
  { apply Wcl. rewrite brace_end_is. f_equal. symmetry. apply is_tc_eq. exact Hcl. }
  assert (Rg : Rel tol [c; n; cl] (group_begin GBrace ++ ttext n ++ group_end GBrace)).
  { rewrite <- Tc, <- Tcl. rewrite <- (app_nil_r (ttext cl)).
    apply Rel_keep, Rel_keep, Rel_keep. constructor. }
  rewrite env_end_eq.
  apply read_spacer_cases in Esp. destruct Esp as [->|(sp & -> & Hsp)].
  - exists [t; nm; c; n; cl]. split; [reflexivity|].
    change (backslash :: s_end ++ group_begin GBrace ++ ttext n ++ group_end GBrace)
      with ([backslash] ++ s_end ++ group_begin GBrace ++ ttext n ++ group_end GBrace).
    rewrite <- Tt, <- Tnm. apply Rel_keep, Rel_keep. exact Rg.
  - exists [t; nm; sp; c; n; cl]. split; [reflexivity|].
    change (backslash :: s_end ++ group_begin GBrace ++ ttext n ++ group_end GBrace)
      with ([backslash] ++ s_end ++ group_begin GBrace ++ ttext n ++ group_end GBrace).
    rewrite <- Tt, <- Tnm. apply Rel_keep, Rel_keep.
    apply Rel_drop; [exact Hsp | left; exact Ho | exact Rg].
Qed.

(* opening an environment: the name group of `\begin` is simple, so the node's
   name re-serialises to exactly the group that was read *)
Lemma begin_name f strict m c nt rest0 name a0 args' src1 :
  Hyp (c :: nt :: rest0) -> is_tc TEscape c = true ->
  read_command f (-1) (-1) 0 strict m (nt :: rest0) = Ok ((name, a0 :: args'), src1) ->
  str_eqb name s_begin = true ->
  estr a0 = group_begin GBrace ++ strip (arg_string a0) ++ group_end GBrace /\
  okargs [a0] = true.
Proof.
  intros Hy Hc Hcmd Hb.
  destruct f as [|f1]; [discriminate|]. cbn [read_command] in Hcmd.
  replace (length (nt :: rest0) <? 0)%nat with false in Hcmd by reflexivity.
  change (skipn 0 (nt :: rest0)) with (nt :: rest0) in Hcmd. cbv beta iota in Hcmd.
  destruct (signature_of (ttext nt)) as [nr no] eqn:Esig.
  replace ((-1 <? 0)%Z && (-1 <? 0)%Z) with true in Hcmd by reflexivity.
  apply bind_ok in Hcmd. destruct Hcmd as ([pargs psrc] & Hargs & Hcmd).
  inversion Hcmd; subst name pargs psrc. clear Hcmd.
  assert (Hbe : is_beginend nt = true) by (unfold is_beginend; rewrite Hb; reflexivity).
  destruct (beginend_plain nt Hbe) as [Hsig _]. rewrite Hsig in Esig. inversion Esig; subst nr no.
  pose proof (args_nonempty_opens _ _ _ _ _ _ _ Hargs) as (c0 & Hc0 & Hk0).
  pose proof (h_names _ _ Hy) as Hn. cbn [clean_names] in Hn. rewrite Hc, Hbe in Hn.
  apply andb_true_iff in Hn. destruct Hn as [Hn _].
  apply andb_true_iff in Hn. destruct Hn as [_ Hnok].
  unfold head_after_spacer in Hc0. unfold after_spacer in Hnok.
  destruct (read_spacer rest0) as [b src2] eqn:Esp. cbn [snd] in Hc0, Hnok.
  destruct src2 as [|o src3]; [discriminate|]. inversion Hc0; subst c0.
  unfold name_ok in Hnok. rewrite (opener_of_kind o Hk0) in Hnok.
  destruct src3 as [|n [|cl src']]; try discriminate Hnok.
  destruct (args_simple_name f1 strict _ rest0 o n cl src' _ _
              ltac:(unfold after_spacer; rewrite Esp; reflexivity) Hnok Hargs) as (args'' & Ea0).
  inversion Ea0; subst a0 args''. clear Ea0.
  unfold simple_name_group in Hnok.
  apply andb_true_iff in Hnok. destruct Hnok as [Hs _].
  apply andb_true_iff in Hs. destruct Hs as [_ Hstrip].
  apply str_eqb_eq in Hstrip.
  split; [|reflexivity].
  unfold arg_string, estr_list. simpl. rewrite app_nil_r, Hstrip. reflexivity.
Qed.

Lemma skip_scan_prefix target acc toks body r :
  skip_scan target acc toks = (body, r) -> exists pre, toks = pre ++ r /\ body = acc ++ texts pre.
Proof.
  revert acc; induction toks as [|t ts IH]; intros acc H; simpl in H.
  - inversion H; subst. exists []. split; [reflexivity|]. symmetry. apply app_nil_r.
  - destruct (starts_with _ _).
    + inversion H; subst. exists []. split; [reflexivity|]. symmetry. apply app_nil_r.
    + apply IH in H. destruct H as (pre & -> & ->). exists (t :: pre).
      split; [reflexivity|]. unfold texts. simpl. rewrite <- app_assoc. reflexivity.
Qed.

Lemma texts_app a b : texts (a ++ b) = texts a ++ texts b.
Proof. unfold texts. rewrite map_app, concat_app. reflexivity. Qed.

Lemma skip_env_cons ename args' pos src1 e rest tol :
  Hyp src1 -> mem_str ename SK = true ->
  read_skip_env ename args' pos src1 = Ok (e, rest) ->
  exists used body p, src1 = used ++ rest /\ e = ENamed ename args' [ERaw body p] pos /\
    Rel tol used (body ++ env_end ename).
Proof.
  intros Hy Hm H. unfold read_skip_env in H.
  destruct (skip_scan (env_end ename) [] src1) as [body r] eqn:Esc.
  apply skip_scan_prefix in Esc. destruct Esc as (pre & Epre & Ebody). simpl in Ebody.
  destruct src1 as [|t0 ts]; [discriminate|]. destruct r as [|r0 rs]; [discriminate|].
  destruct (starts_with _ _) eqn:Est; [|discriminate]. inversion H; subst e rest. clear H.
  pose proof (h_skip _ _ Hy pre (r0 :: rs) ename Epre Hm Est) as H5.
  exists (pre ++ firstn 5 (r0 :: rs)), body, (tpos t0).
  split; [rewrite <- app_assoc, firstn_skipn; exact Epre|]. split; [reflexivity|].
  rewrite Ebody, <- H5, <- texts_app. apply Rel_texts.
Qed.

Lemma estr_cmd n a b p : estr (ECmd n a b p) = backslash :: n ++ estr_list a ++ estr_list b.
Proof. reflexivity. Qed.
Lemma estr_named n a b p :
  estr (ENamed n a b p) = env_begin n ++ estr_list a ++ estr_list b ++ env_end n.
Proof. reflexivity. Qed.
Lemma nobare_cmd n a b p : nobare (ECmd n a b p) = okargs a && forallb nobare b.
Proof. reflexivity. Qed.
Lemma nobare_named n a b p : nobare (ENamed n a b p) = okargs a && forallb nobare b.
Proof. reflexivity. Qed.

Lemma strip_nil : strip [] = [].
Proof. reflexivity. Qed.

Lemma no_skip : sub_skip SK [].
Proof. intros n Hn. discriminate. Qed.

Lemma cp_all_holds : forall f, cp_all f.
Proof.
  induction f as [|f IH].
  { unfold cp_all, cp_expr, cp_item, cp_math, cp_env, cp_command, cp_args, cp_opt, cp_req,
      cp_arg, cp_argloop.
    repeat match goal with |- _ /\ _ => split end; intros; simpl in *; discriminate. }
  destruct IH as (Ce & Ci & Cm & Cv & Cc & Ca & Co & Cr & Cg & Cl).
  unfold cp_all.
  assert (Hargloop : cp_argloop (S f)).
  { unfold cp_argloop. intros k pos strict m acc toks e rest Hy H. simpl in H.
    destruct toks as [|t src].
    - destruct strict; [discriminate|]. inversion H; subst.
      exists [], []. split; [reflexivity|]. split; [rewrite app_nil_r; reflexivity|].
      intros _. simpl. rewrite <- (app_nil_r (group_end k)).
      apply Rel_ins; [reflexivity | destruct k; unfold closer; auto | constructor].
    - destruct (is_group_end k t) eqn:Eend.
      + inversion H; subst. exists [t], [].
        split; [reflexivity|]. split; [rewrite app_nil_r; reflexivity|].
        intros _. simpl.
        replace (group_end k) with (ttext t); [apply Rel_one|].
        apply Hyp_head_wf in Hy. apply Hy. apply is_group_end_tok. exact Eend.
      + apply bind_ok in H. destruct H as ([e1 src1] & He & H).
        apply Ce in He; [|intros n Hn; discriminate | exact Hy].
        destruct He as (u1 & Eu1 & R1).
        apply Cl in H; [|rewrite Eu1 in Hy; eapply Hyp_suffix; exact Hy].
        destruct H as (u2 & new & Eu2 & -> & R2).
        exists (u1 ++ u2), (e1 :: new).
        split; [rewrite Eu1, Eu2, <- app_assoc; reflexivity|].
        split; [rewrite <- app_assoc; reflexivity|].
        intro Hn. simpl in Hn. apply andb_true_iff in Hn. destruct Hn as [Hn1 Hn2].
        change (estr_list (e1 :: new)) with (estr e1 ++ estr_list new).
        rewrite <- app_assoc. apply Rel_app; auto. }
  assert (Harg : cp_arg (S f)).
  { unfold cp_arg. intros c strict m toks e rest Wc Hy H. simpl in H.
    destruct (group_kind_of_begin (tcat c)) as [k|] eqn:Ek; [|discriminate].
    apply Cl in H; [|exact Hy]. destruct H as (used & new & Eu & -> & R).
    exists used. split; [exact Eu|]. split; [reflexivity|].
    simpl. intro Hn. replace (group_begin k) with (ttext c).
    - apply Rel_keep. auto.
    - apply Wc. apply group_kind_begin_tok. exact Ek. }
  assert (Hmath : cp_math (S f)).
  { unfold cp_math. intros k pos strict acc toks e rest Hy H. simpl in H.
    destruct toks as [|t src]; [discriminate|].
    destruct (is_math_end k t) eqn:Eend.
    - inversion H; subst. exists [t], [].
      split; [reflexivity|]. split; [rewrite app_nil_r; reflexivity|].
      intros _. simpl. replace (math_end k) with (ttext t); [apply Rel_one|].
      apply Hyp_head_wf in Hy. apply Hy. apply is_math_end_tok. exact Eend.
    - apply bind_ok in H. destruct H as ([e1 src1] & He & H).
      apply Ce in He; [|exact no_skip | exact Hy]. destruct He as (u1 & Eu1 & R1).
      apply Cm in H; [|rewrite Eu1 in Hy; eapply Hyp_suffix; exact Hy].
      destruct H as (u2 & new & Eu2 & -> & R2).
      exists (u1 ++ u2), (e1 :: new).
      split; [rewrite Eu1, Eu2, <- app_assoc; reflexivity|].
      split; [rewrite <- app_assoc; reflexivity|].
      apply step_loop; assumption. }
  assert (Hitem : cp_item (S f)).
  { unfold cp_item. intros acc toks es rest Hy H. simpl in H.
    assert (Hstep : forall es rest,
      bind (read_expr f [] true MNonMath toks)
           (fun '(e, src1) => read_item_loop f (acc ++ [e]) src1) = Ok (es, rest) ->
      exists used new, toks = used ++ rest /\ es = acc ++ new /\
        (forallb nobare new = true -> Rel false used (estr_list new))).
    { intros es' rest' H'. apply bind_ok in H'. destruct H' as ([e1 src1] & He & H').
      apply Ce in He; [|exact no_skip | exact Hy]. destruct He as (u1 & Eu1 & R1).
      apply Ci in H'; [|rewrite Eu1 in Hy; eapply Hyp_suffix; exact Hy].
      destruct H' as (u2 & new & Eu2 & -> & R2).
      exists (u1 ++ u2), (e1 :: new).
      split; [rewrite Eu1, Eu2, <- app_assoc; reflexivity|].
      split; [rewrite <- app_assoc; reflexivity|].
      intro Hn. rewrite <- (app_nil_r (estr_list (e1 :: new))).
      apply step_loop; try assumption. intro. rewrite app_nil_r. auto. }
    assert (Hstop : forall es rest, Ok (acc, toks) = Ok (es, rest) ->
      exists used new, toks = used ++ rest /\ es = acc ++ new /\
        (forallb nobare new = true -> Rel false used (estr_list new))).
    { intros es' rest' H'. inversion H'; subst. exists [], [].
      split; [reflexivity|]. split; [rewrite app_nil_r; reflexivity|]. intros _. constructor. }
    destruct toks as [|t src]; [apply Hstop; exact H|].
    destruct (is_tc TEscape t).
    - apply bind_ok in H. destruct H as ([[cname cargs] crest] & _ & H).
      destruct (str_eqb cname s_end || str_eqb cname s_item); [apply Hstop | apply Hstep]; exact H.
    - destruct (is_tc TGroupEnd t); [apply Hstop | apply Hstep]; exact H. }
  assert (Hopt : cp_opt (S f)).
  { unfold cp_opt. intros args nopt strict m toks args' n' rest Hy H. simpl in H.
    assert (Hstop : forall args' n' rest, Ok (args, nopt, toks) = Ok (args', n', rest) ->
      exists used new, toks = used ++ rest /\ args' = args ++ new /\
        (okargs new = true -> Rel (negb strict) used (estr_list new))).
    { intros a' k' r' H'. inversion H'; subst. exists [], [].
      split; [reflexivity|]. split; [rewrite app_nil_r; reflexivity|]. intros _. constructor. }
    destruct (nopt =? 0)%Z; [exact (Hstop _ _ _ H)|].
    destruct (read_spacer toks) as [b src1] eqn:Esp.
    destruct src1 as [|c src2]; [exact (Hstop _ _ _ H)|].
    destruct (is_tc TBracketBegin c) eqn:Ec; [|exact (Hstop _ _ _ H)].
    apply bind_ok in H. destruct H as ([g src3] & Hg & H).
    destruct (Hyp_after_spacer _ _ _ _ Hy Esp) as [Wc Hy2].
    apply Cg in Hg; [|exact Wc | exact Hy2]. destruct Hg as (ug & Eug & _ & Rg).
    apply Co in H; [|rewrite Eug in Hy2; eapply Hyp_suffix; exact Hy2].
    destruct H as (u2 & new2 & Eu2 & -> & R2).
    destruct (attach_rel (negb strict) toks b c src2 ug src3 g u2 new2 rest Esp) as (used & Eu & R);
      auto.
    { unfold is_opener. rewrite Ec. apply orb_true_r. }
    exists used, (g :: new2). split; [exact Eu|]. split; [rewrite <- app_assoc; reflexivity|exact R]. }
  assert (Hreq : cp_req (S f)).
  { unfold cp_req. intros args nreq strict m toks args' n' rest Hy H. simpl in H.
    assert (Hstop : forall args' n' rest, Ok (args, nreq, toks) = Ok (args', n', rest) ->
      exists used new, toks = used ++ rest /\ args' = args ++ new /\
        (okargs new = true -> Rel (negb strict) used (estr_list new))).
    { intros a' k' r' H'. inversion H'; subst. exists [], [].
      split; [reflexivity|]. split; [rewrite app_nil_r; reflexivity|]. intros _. constructor. }
    destruct (nreq =? 0)%Z; [exact (Hstop _ _ _ H)|].
    destruct toks as [|t0 ts0]; [exact (Hstop _ _ _ H)|].
    destruct (read_spacer (t0 :: ts0)) as [b src1] eqn:Esp.
    destruct src1 as [|c src2]; [exact (Hstop _ _ _ H)|].
    destruct (Hyp_after_spacer _ _ _ _ Hy Esp) as [Wc Hy2].
    assert (Hpre : exists pre, t0 :: ts0 = pre ++ c :: src2).
    { apply read_spacer_cases in Esp. destruct Esp as [E|(sp & E & _)]; rewrite E;
        [exists [] | exists [sp]]; reflexivity. }
    destruct (is_tc TGroupBegin c) eqn:Ec.
    - apply bind_ok in H. destruct H as ([g src3] & Hg & H).
      apply Cg in Hg; [|exact Wc | exact Hy2]. destruct Hg as (ug & Eug & _ & Rg).
      apply Cr in H; [|rewrite Eug in Hy2; eapply Hyp_suffix; exact Hy2].
      destruct H as (u2 & new2 & Eu2 & -> & R2).
      destruct (attach_rel (negb strict) (t0 :: ts0) b c src2 ug src3 g u2 new2 rest Esp)
        as (used & Eu & R); auto.
      { unfold is_opener. rewrite Ec. reflexivity. }
      exists used, (g :: new2). split; [exact Eu|].
      split; [rewrite <- app_assoc; reflexivity|exact R].
    - destruct (0 <? nreq)%Z; [|exact (Hstop _ _ _ H)].
      destruct Hpre as (pre & Epre).
      destruct (is_tc TEscape c).
      + apply bind_ok in H. destruct H as ([[cname cargs] src3] & Hc & H).
        apply Cc in Hc; [|exact Hy2].
        apply Cr in H.
        * destruct H as (u2 & new2 & Eu2 & -> & _).
          destruct Hc as [(E1 & _ & _ & E4)|(nt & uc & E1 & _ & _)].
          -- rewrite E4 in Eu2. symmetry in Eu2. apply app_eq_nil in Eu2.
             destruct Eu2 as [-> ->].
             exists (pre ++ [c]), (ECmd (strip cname) [] [] (tpos c) :: new2).
             split; [rewrite Epre, E1, app_nil_r; reflexivity|].
             split; [rewrite <- app_assoc; reflexivity|]. intro Hok. apply okargs_cons in Hok. destruct Hok as (Hg1 & Hg2 & _). simpl in Hg1, Hg2. discriminate.
          -- exists (pre ++ c :: nt :: uc ++ u2), (ECmd (strip cname) [] [] (tpos c) :: new2).
             split; [rewrite Epre, E1, Eu2, <- !app_assoc; simpl; rewrite <- app_assoc; reflexivity|].
             split; [rewrite <- app_assoc; reflexivity|]. intro Hok. apply okargs_cons in Hok. destruct Hok as (Hg1 & Hg2 & _). simpl in Hg1, Hg2. discriminate.
        * destruct Hc as [(E1 & _ & _ & E4)|(nt & uc & E1 & _ & _)].
          -- subst src3. exact Hyp_nil.
          -- rewrite E1 in Hy2. apply Hyp_tail in Hy2. eapply Hyp_suffix; exact Hy2.
      + apply Cr in H; [|exact Hy2]. destruct H as (u2 & new2 & Eu2 & -> & _).
        exists (pre ++ c :: u2), (EGroup GBrace [EStr (ttext c)] (-1) :: new2).
        split; [rewrite Epre, Eu2, <- app_assoc; reflexivity|].
        split; [rewrite <- app_assoc; reflexivity|]. intro Hok. apply okargs_cons in Hok. destruct Hok as (Hg1 & Hg2 & _). simpl in Hg1, Hg2. discriminate. }
  assert (Hargs : cp_args (S f)).
  { unfold cp_args. intros nreq nopt strict m toks args rest Hy H. simpl in H.
    destruct ((nreq =? 0)%Z && (nopt =? 0)%Z).
    { inversion H; subst. exists []. split; [reflexivity|]. intros _. constructor. }
    apply bind_ok in H. destruct H as ([[args1 nopt1] src1] & H1 & H).
    apply Co in H1; [|exact Hy]. destruct H1 as (u1 & new1 & Eu1 & -> & R1).
    assert (Hy1 : Hyp src1) by (rewrite Eu1 in Hy; eapply Hyp_suffix; exact Hy).
    apply bind_ok in H. destruct H as ([[args2 nreq1] src2] & H2 & H).
    apply Cr in H2; [|exact Hy1]. destruct H2 as (u2 & new2 & Eu2 & -> & R2).
    assert (Hy2 : Hyp src2) by (rewrite Eu2 in Hy1; eapply Hyp_suffix; exact Hy1).
    apply bind_ok in H. destruct H as ([[args3 n3] src3] & H3 & H).
    assert (S3 : exists u3 new3, src2 = u3 ++ src3 /\ args3 = ([] ++ new1) ++ new2 ++ new3 /\
                   (okargs new3 = true -> Rel (negb strict) u3 (estr_list new3))).
    { assert (Hnone : Ok (([] ++ new1) ++ new2, nopt1, src2) = Ok (args3, n3, src3) ->
               exists u3 new3, src2 = u3 ++ src3 /\ args3 = ([] ++ new1) ++ new2 ++ new3 /\
                   (okargs new3 = true -> Rel (negb strict) u3 (estr_list new3))).
      { intro E. inversion E; subst. exists [], []. rewrite !app_nil_r.
        repeat split; auto. intros _. constructor. }
      destruct src2 as [|t2 ts2]; [exact (Hnone H3)|].
      destruct (is_tc TBracketBegin t2); [|exact (Hnone H3)].
      apply Co in H3; [|exact Hy2]. destruct H3 as (u3 & new3 & Eu3 & -> & R3).
      exists u3, new3. rewrite <- !app_assoc. auto. }
    destruct S3 as (u3 & new3 & Eu3 & -> & R3).
    assert (Hy3 : Hyp src3) by (rewrite Eu3 in Hy2; eapply Hyp_suffix; exact Hy2).
    apply bind_ok in H. destruct H as ([[args4 n4] src4] & H4 & H).
    inversion H; subst args4 src4. clear H.
    assert (S4 : exists u4 new4, src3 = u4 ++ rest /\
                   args = (([] ++ new1) ++ new2 ++ new3) ++ new4 /\
                   (okargs new4 = true -> Rel (negb strict) u4 (estr_list new4))).
    { assert (Hnone : Ok (([] ++ new1) ++ new2 ++ new3, nreq1, src3) = Ok (args, n4, rest) ->
               exists u4 new4, src3 = u4 ++ rest /\
                   args = (([] ++ new1) ++ new2 ++ new3) ++ new4 /\
                   (okargs new4 = true -> Rel (negb strict) u4 (estr_list new4))).
      { intro E. inversion E; subst. exists [], []. rewrite !app_nil_r.
        repeat split; auto. intros _. constructor. }
      destruct src3 as [|t3 ts3]; [exact (Hnone H4)|].
      destruct (is_tc TGroupBegin t3); [|exact (Hnone H4)].
      apply Cr in H4; [|exact Hy3]. destruct H4 as (u4 & new4 & Eu4 & -> & R4).
      exists u4, new4. auto. }
    destruct S4 as (u4 & new4 & Eu4 & -> & R4).
    exists (u1 ++ u2 ++ u3 ++ u4).
    split; [rewrite Eu1, Eu2, Eu3, Eu4, <- !app_assoc; reflexivity|].
    simpl. intro Hok.
    apply okargs_app in Hok. destruct Hok as [Hok H4ok].
    apply okargs_app in Hok. destruct Hok as [H1ok Hok].
    apply okargs_app in Hok. destruct Hok as [H2ok H3ok].
    rewrite !estr_list_app, <- !app_assoc. simpl.
    apply Rel_app; auto. apply Rel_app; auto. apply Rel_app; auto. }
  assert (Hcmd : cp_command (S f)).
  { unfold cp_command. intros nreq nopt strict m toks name args rest Hy H.
    cbn [read_command] in H. change (skipn 0 toks) with toks in H.
    replace (length toks <? 0)%nat with false in H by (symmetry; apply Nat.ltb_ge; lia).
    destruct toks as [|nt src]; [inversion H; auto|]. right.
    destruct (if (nreq <? 0)%Z && (nopt <? 0)%Z then signature_of (ttext nt) else (nreq, nopt))
      as [nr no].
    apply bind_ok in H. destruct H as ([args1 src1] & Ha & H). inversion H; subst.
    apply Ca in Ha; [|eapply Hyp_tail; exact Hy]. destruct Ha as (used & Eu & R).
    exists nt, used. rewrite Eu. auto. }
  assert (Henv : cp_env (S f)).
  { unfold cp_env. intros name args pos skip strict m acc toks e rest Hsk Hy H.
    cbn [read_env_loop] in H.
    assert (Hstep : forall e rest,
      bind (read_expr f skip strict m toks)
           (fun '(e0, src1) => read_env_loop f name args pos skip strict m (acc ++ [e0]) src1)
        = Ok (e, rest) ->
      exists used new, toks = used ++ rest /\ e = ENamed name args (acc ++ new) pos /\
        (forallb nobare new = true ->
         Rel (negb strict) used (estr_list new ++ env_end name))).
    { intros e' rest' H'. apply bind_ok in H'. destruct H' as ([e1 src1] & He & H').
      apply Ce in He; [|exact Hsk | exact Hy]. destruct He as (u1 & Eu1 & R1).
      apply Cv in H'; [|exact Hsk | rewrite Eu1 in Hy; eapply Hyp_suffix; exact Hy].
      destruct H' as (u2 & new & Eu2 & -> & R2).
      exists (u1 ++ u2), (e1 :: new).
      split; [rewrite Eu1, Eu2, <- app_assoc; reflexivity|].
      split; [rewrite <- app_assoc; reflexivity|].
      apply step_loop; assumption. }
    assert (Hunclosed : forall e rest,
      (if strict then Err EOFError else Ok (ENamed name args acc pos, toks)) = Ok (e, rest) ->
      exists used new, toks = used ++ rest /\ e = ENamed name args (acc ++ new) pos /\
        (forallb nobare new = true ->
         Rel (negb strict) used (estr_list new ++ env_end name))).
    { intros e' rest' H'. destruct strict; [discriminate|]. inversion H'; subst.
      exists [], []. split; [reflexivity|]. split; [rewrite app_nil_r; reflexivity|].
      intros _. simpl. rewrite <- (app_nil_r (env_end name)).
      apply Rel_ins; [reflexivity | right; right; eauto | constructor]. }
    destruct toks as [|t l]; [exact (Hunclosed _ _ H)|].
    destruct (is_tc TEscape t) eqn:Et; [|exact (Hstep _ _ H)].
    apply bind_ok in H. destruct H as ([[cname cargs] crest] & Hpeek & H).
    destruct (str_eqb cname s_end) eqn:Eend; [|exact (Hstep _ _ H)].
    destruct cargs as [|a0 cargs]; [exact (Hunclosed _ _ H)|].
    destruct (negb (str_eqb (arg_string a0) name)) eqn:Ename; [exact (Hunclosed _ _ H)|].
    apply negb_false_iff in Ename.
    destruct (read_spacer (skipn 2 (t :: l))) as [b src2] eqn:Esp.
    destruct src2 as [|c src3]; [discriminate|].
    apply bind_ok in H. destruct H as ([g grest] & Harg' & H). inversion H; subst.
    destruct (finish_end _ _ _ _ _ _ _ _ _ _ _ _ _ _ _ (negb strict) Hy Et Hpeek Eend Ename Esp Harg')
      as (used & Eu & R).
    exists used, []. split; [exact Eu|]. split; [rewrite app_nil_r; reflexivity|].
    intros _. exact R. }
  assert (Hexpr : cp_expr (S f)).
  { unfold cp_expr. intros skip strict m toks e rest Hsk Hy H. cbn [read_expr] in H.
    destruct toks as [|c src]; [discriminate|].
    pose proof (Hyp_head_wf _ _ Hy) as Wc. pose proof (Hyp_tail _ _ _ Hy) as Hys.
    destruct (math_kind_of_begin (tcat c)) as [k|] eqn:Ek.
    { (* math region *)
      apply Cm in H; [|exact Hys]. destruct H as (used & new & Eu & -> & R).
      exists (c :: used). split; [rewrite Eu; reflexivity|].
      simpl. intro Hn. replace (math_begin k) with (ttext c); [apply Rel_keep; auto|].
      apply Wc. apply math_kind_begin_tok. exact Ek. }
    destruct (is_tc TEscape c) eqn:Ec.
    2:{ destruct (is_tc TGroupBegin c) eqn:Eg.
        - apply Cg in H; [|exact Wc | exact Hys]. destruct H as (used & Eu & _ & R).
          exists (c :: used). split; [rewrite Eu; reflexivity | exact R].
        - inversion H; subst. exists [c]. split; [reflexivity|]. intros _. apply Rel_one. }
    (* a command *)
    assert (Tc : ttext c = [backslash]) by (apply Wc; apply is_tc_eq; exact Ec).
    apply bind_ok in H. destruct H as ([[name args] src1] & Hcmd' & H).
    pose proof Hcmd' as Hcmd2.
    apply Cc in Hcmd'; [|exact Hys].
    destruct Hcmd' as [(-> & -> & -> & ->)|(nt & usedc & Esrc & Ename & Rargs)].
    { (* lone escape at the end of the input *)
      simpl in H. inversion H; subst. exists [c]. split; [reflexivity|].
      intros _. simpl. rewrite <- Tc. apply Rel_one. }
    subst src.
    assert (Hstrip : strip name = name).
    { pose proof (h_names _ _ Hy) as Hn. cbn [clean_names] in Hn. rewrite Ec in Hn.
      apply andb_true_iff in Hn. destruct Hn as [Hn _].
      apply andb_true_iff in Hn. destruct Hn as [Hn _].
      apply str_eqb_eq in Hn. rewrite Ename. exact Hn. }
    assert (Hys1 : Hyp src1).
    { change (nt :: usedc ++ src1) with ((nt :: usedc) ++ src1) in Hys.
      eapply Hyp_suffix; exact Hys. }
    assert (Rhead : forall tail out, okargs args = true -> Rel (negb strict) tail out ->
              Rel (negb strict) (c :: nt :: usedc ++ tail)
                  (backslash :: name ++ estr_list args ++ out)).
    { intros tail out Hok Rt.
      change (backslash :: name ++ estr_list args ++ out)
        with ([backslash] ++ name ++ estr_list args ++ out).
      rewrite <- Tc, Ename. apply Rel_keep, Rel_keep. apply Rel_app; auto. }
    destruct (str_eqb name s_item) eqn:Eitem.
    { (* \item *)
      destruct (mode_is_math m); [discriminate|].
      apply bind_ok in H. destruct H as ([contents src2] & Hit & H). inversion H; subst.
      apply Ci in Hit; [|exact Hys1]. destruct Hit as (u2 & new & Eu2 & -> & R2).
      exists (c :: nt :: usedc ++ u2).
      split; [rewrite Eu2; simpl; rewrite <- app_assoc; reflexivity|].
      rewrite Hstrip, estr_cmd, nobare_cmd. intro Hn.
      apply andb_true_iff in Hn. destruct Hn as [Hn Hn3].
      apply Rhead; [exact Hn|]. apply Rel_mono. auto. }
    destruct (str_eqb name s_begin && negb (mode_is_special m)) eqn:Ebegin.
    2:{ (* an ordinary command *)
        inversion H; subst. exists (c :: nt :: usedc ++ []).
        split; [rewrite app_nil_r; reflexivity|].
        rewrite Hstrip, estr_cmd, nobare_cmd. intro Hn.
        rewrite andb_true_r in Hn.
        apply Rhead; [exact Hn | constructor]. }
    (* \begin *)
    apply andb_true_iff in Ebegin. destruct Ebegin as [Ebegin _].
    destruct args as [|a0 args']; [discriminate|].
    destruct (begin_name _ _ _ _ _ _ _ _ _ _ Hy Ec Hcmd2 Ebegin) as (Ea0 & Hoka0).
    set (ename := strip (arg_string a0)) in *.
    assert (Ebeg : name = s_begin) by (apply str_eqb_eq; exact Ebegin).
    assert (Rbegin : forall tail out, okargs args' = true -> Rel (negb strict) tail out ->
              Rel (negb strict) (c :: nt :: usedc ++ tail)
                  (env_begin ename ++ estr_list args' ++ out)).
    { intros tail out Hok Rt. rewrite env_begin_eq.
      replace ((backslash :: s_begin ++ group_begin GBrace ++ ename ++ group_end GBrace)
               ++ estr_list args' ++ out)
        with (backslash :: name ++ estr_list (a0 :: args') ++ out).
      - apply Rhead; [|exact Rt]. unfold okargs in *. simpl in *.
        apply andb_true_iff in Hoka0. destruct Hoka0 as [G1 G2].
        apply andb_true_iff in Hok. destruct Hok as [G3 G4].
        rewrite !andb_true_r in G1, G2. rewrite G1, G2, G3, G4. reflexivity.
      - change (estr_list (a0 :: args')) with (estr a0 ++ estr_list args').
        rewrite Ea0, Ebeg. simpl. rewrite <- !app_assoc. reflexivity. }
    destruct (mem_str ename skip) eqn:Eskip.
    { (* verbatim-like *)
      destruct (skip_env_cons _ _ _ _ _ _ (negb strict) Hys1 (Hsk _ Eskip) H)
        as (u2 & body & p & Eu2 & -> & R2).
      exists (c :: nt :: usedc ++ u2).
      split; [rewrite Eu2; simpl; rewrite <- app_assoc; reflexivity|].
      rewrite estr_named, nobare_named, estr_list_one. cbn [estr forallb nobare].
      rewrite andb_true_r. intro Hn.
      apply Rbegin; [exact Hn | exact R2]. }
    apply Cv in H; [|exact Hsk | exact Hys1]. destruct H as (u2 & new & Eu2 & -> & R2).
    exists (c :: nt :: usedc ++ u2).
    split; [rewrite Eu2; simpl; rewrite <- app_assoc; reflexivity|].
    rewrite estr_named, nobare_named. cbn [app]. intro Hn.
    apply andb_true_iff in Hn. destruct Hn as [Hn Hn3].
    apply Rbegin; [exact Hn | auto]. }
  repeat split; assumption.
Qed.

End CP.

(* ------------------------------------------------------------- top level *)

Lemma read_tex_loop_cons SK fuel efuel skip strict : forall acc toks body,
  sub_skip SK skip -> Hyp SK toks ->
  read_tex_loop fuel efuel skip strict acc toks = Ok body ->
  exists new, body = acc ++ new /\
    (forallb nobare new = true -> Rel (negb strict) toks (estr_list new)).
Proof.
  induction fuel as [|fu IH]; intros acc toks body Hsk Hy H; [discriminate|].
  cbn [read_tex_loop] in H. destruct toks as [|t ts].
  - inversion H; subst. exists []. split; [symmetry; apply app_nil_r|]. intros _. constructor.
  - apply bind_ok in H. destruct H as ([e rest] & He & H).
    destruct (cp_all_holds SK efuel) as (Ce & _).
    apply Ce in He; [|exact Hsk | exact Hy]. destruct He as (u1 & Eu1 & R1).
    apply IH in H; [|exact Hsk | rewrite Eu1 in Hy; eapply Hyp_suffix; exact Hy].
    destruct H as (new & -> & R2). exists (e :: new).
    split; [rewrite <- app_assoc; reflexivity|].
    intro Hn. rewrite Eu1. rewrite <- (app_nil_r (estr_list (e :: new))).
    assert (Hr : Rel (negb strict) (u1 ++ rest) (estr_list (e :: new) ++ [])).
    { apply step_loop; try assumption. intro Hn2. rewrite app_nil_r. auto. }
    exact Hr.
Qed.

Definition all_skip (user_skip : list str) : list str := Tables.skip_env_names ++ user_skip.

(* CP for a whole token list: every token is consumed and the serialised
   tree is the token texts up to dropped argument spacers (and, in tolerant
   mode, inserted closers) *)
Theorem parse_tokens_conserves toks strict user_skip t :
  Hyp (all_skip user_skip) toks ->
  parse_tokens toks strict user_skip = Ok t ->
  nobare t = true ->
  Rel (negb strict) toks (estr t).
Proof.
  intros Hy H Hn. unfold parse_tokens in H.
  apply bind_ok in H. destruct H as (body & Hb & H). inversion H; subst t.
  apply (read_tex_loop_cons (all_skip user_skip)) in Hb; [|intros n Hm; exact Hm | exact Hy].
  destruct Hb as (new & -> & R). simpl in Hn |- *. auto.
Qed.

(* strict mode, no spacer before an argument group: the output is the input *)
Theorem parse_tokens_roundtrip toks user_skip t :
  Hyp (all_skip user_skip) toks ->
  parse_tokens toks true user_skip = Ok t ->
  nobare t = true -> no_arg_spacer toks = true ->
  estr t = texts toks.
Proof.
  intros Hy H Hn Hs. apply Rel_exact; [|exact Hs].
  exact (parse_tokens_conserves toks true user_skip t Hy H Hn).
Qed.
