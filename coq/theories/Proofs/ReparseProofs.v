(* C14, last sentence: "re-parsing the new text yields a tree that shows the
   same change", at TOKEN level for documents of the grammar of
   ReaderComplete.v, by reader completeness.

   Part A  what a follow condition sees of the continuation (`obs`: category
           and end/item flag of the next two tokens); what an argument list
           contributes to `cmd_shape` / `cmd_follow` (`akey`: kind + spacer).
   Part B  `good x x'`: x' may stand for x in every context.  Addressing of
           grammar documents by the SAME paths as Model/Edit.v (`dn_get`,
           `dn_put` mirror `get`, `put`); `good` is a congruence for them
           (`ctx_good`); `tree` commutes with get / put (`get_tree`, `put_tree`).
   Part C  the three edits on documents (`rename_node`, `restring_node`,
           `reargs_node`), each: commutation with Edit.v's `rename`,
           `restring`, `reargs` on the tree, and `good` under explicit
           conditions.
   Part D  Stage 1 theorems (`reparse_rename_tokens`, ...), refutations.
   Part E  Stage 2 (text), Part F Stage 3 (searches), Part G examples. *)
From Coq Require Import List NArith ZArith Bool Lia Arith.
From TexModel Require Import Base Tables Chars Tokenizer Tree Reader Edit.
From TexProofs Require Import ReaderLen ReaderTotal ReaderCons AttachProofs ReaderComplete.
Import ListNotations.

(* ====================================================================== *)
(* Part A: observations                                                    *)
(* ====================================================================== *)

(* all that a follow condition (cmd_follow, item_stop_b) reads of a token *)
Definition tkey (t : token) : tc * bool :=
  (tcat t, str_eqb (ttext t) s_end || str_eqb (ttext t) s_item).
(* ... and of a continuation: two tokens *)
Definition obs (l : list token) : list (tc * bool) := map tkey (firstn 2 l).

Lemma obs_cons a r r' : obs r = obs r' -> obs (a :: r) = obs (a :: r').
Proof.
  unfold obs. destruct r as [|x [|y r]], r' as [|x' [|y' r']]; cbn [firstn map]; intro H;
    try discriminate H; try reflexivity; congruence.
Qed.

Lemma obs_app x r r' : obs r = obs r' -> obs (x ++ r) = obs (x ++ r').
Proof.
  intro H. destruct x as [|a [|b x]]; cbn [app].
  - exact H.
  - apply obs_cons. exact H.
  - reflexivity.
Qed.

Lemma obs_two a b l l' : obs (a :: b :: l) = obs (a :: b :: l').
Proof. reflexivity. Qed.

Definition head_notb_k (k : tc) (o : list (tc * bool)) : bool :=
  match o with (c0, _) :: _ => negb (tc_beq c0 k) | [] => true end.
Definition stopsb_k (k : tc) (o : list (tc * bool)) : bool :=
  match o with
  | [] => true
  | (c0, _) :: o' =>
    if tc_beq c0 TMergedSpacer
    then match o' with (c1, _) :: _ => negb (tc_beq c1 k) | [] => true end
    else negb (tc_beq c0 k)
  end.
Definition item_stop_k (o : list (tc * bool)) : bool :=
  match o with
  | [] => true
  | (c0, _) :: o' =>
    if tc_beq c0 TEscape
    then match o' with (_, f) :: _ => f | [] => false end
    else tc_beq c0 TGroupEnd
  end.

Lemma head_notb_obs_eq k r : head_notb k r = head_notb_k k (obs r).
Proof. destruct r as [|x r]; reflexivity. Qed.

Lemma stopsb_obs_eq k r : stopsb k r = stopsb_k k (obs r).
Proof.
  unfold stopsb, head_after_spacer, read_spacer, obs, is_tc.
  destruct r as [|x [|y r]]; cbn [firstn map tkey stopsb_k]; try reflexivity;
    destruct (tc_beq (tcat x) TMergedSpacer); reflexivity.
Qed.

Lemma item_stop_obs_eq r : item_stop_b r = item_stop_k (obs r).
Proof.
  unfold item_stop_b, obs, is_tc.
  destruct r as [|x [|y r]]; cbn [firstn map tkey item_stop_k]; try reflexivity;
    destruct (tc_beq (tcat x) TEscape); reflexivity.
Qed.

Lemma head_notb_obs k r r' : obs r = obs r' -> head_notb k r = head_notb k r'.
Proof. intro H. rewrite !head_notb_obs_eq, H. reflexivity. Qed.
Lemma stopsb_obs k r r' : obs r = obs r' -> stopsb k r = stopsb k r'.
Proof. intro H. rewrite !stopsb_obs_eq, H. reflexivity. Qed.
Lemma item_stop_obs r r' : obs r = obs r' -> item_stop_b r = item_stop_b r'.
Proof. intro H. rewrite !item_stop_obs_eq, H. reflexivity. Qed.

Lemma cmd_follow_obs sg args r r' :
  obs r = obs r' -> cmd_follow sg args r = cmd_follow sg args r'.
Proof.
  intro H. unfold cmd_follow.
  rewrite (stopsb_obs TGroupBegin r r' H), (stopsb_obs TBracketBegin r r' H),
    (head_notb_obs TBracketBegin r r' H), (head_notb_obs TGroupBegin r r' H).
  reflexivity.
Qed.

(* ------------------------------------------------ argument lists: akey *)

Definition akey (a : arg) : groupkind * bool := (arg_kind a, no_spacer a).

Lemma cons_eq_inv {A} (a b : A) l l' : a :: l = b :: l' -> a = b /\ l = l'.
Proof. intro H. injection H. auto. Qed.

Lemma take_kind_akey k : forall l l', map akey l = map akey l' ->
  map akey (fst (take_kind k l)) = map akey (fst (take_kind k l')) /\
  map akey (snd (take_kind k l)) = map akey (snd (take_kind k l')).
Proof.
  induction l as [|a l IH]; intros [|a' l'] H; try discriminate H.
  - split; reflexivity.
  - cbn [map] in H. apply cons_eq_inv in H. destruct H as [Ha Hl]. cbn [take_kind].
    assert (Hk : arg_kind a = arg_kind a') by (unfold akey in Ha; congruence).
    rewrite Hk. destruct (groupkind_beq (arg_kind a') k).
    + destruct (IH l' Hl) as [I1 I2].
      destruct (take_kind k l) as [x y], (take_kind k l') as [x' y'].
      cbn [fst snd] in *. split; [cbn [map]; congruence | exact I2].
    + cbn [fst snd map]. split; [reflexivity | congruence].
Qed.

Lemma nonempty_akey (l l' : list arg) : map akey l = map akey l' -> nonempty l = nonempty l'.
Proof. destruct l, l'; intro H; try discriminate H; reflexivity. Qed.
Lemma head_no_spacer_akey l l' : map akey l = map akey l' -> head_no_spacer l = head_no_spacer l'.
Proof.
  destruct l as [|a l], l' as [|a' l']; intro H; try discriminate H; [reflexivity|].
  cbn [map] in H. apply cons_eq_inv in H. destruct H as [Ha _]. unfold akey in Ha.
  cbn [head_no_spacer]. congruence.
Qed.
Lemma length_akey (l l' : list arg) : map akey l = map akey l' -> length l = length l'.
Proof. intro H. rewrite <- (map_length akey l), H. apply map_length. Qed.

(* the five pieces of split4, as functions *)
Definition s4 (args : list arg) :=
  let t1 := take_kind GBracket args in
  let t2 := take_kind GBrace (snd t1) in
  let t3 := take_kind GBracket (snd t2) in
  let t4 := take_kind GBrace (snd t3) in
  (fst t1, fst t2, fst t3, fst t4, snd t4).

Lemma split4_s4 args : split4 args = s4 args.
Proof.
  unfold split4, s4.
  destruct (take_kind GBracket args) as [b1 r1]; cbn [fst snd].
  destruct (take_kind GBrace r1) as [c1 r2]; cbn [fst snd].
  destruct (take_kind GBracket r2) as [b2 r3]; cbn [fst snd].
  destruct (take_kind GBrace r3) as [c2 r4]; reflexivity.
Qed.

Lemma s4_akey l l' : map akey l = map akey l' ->
  match s4 l, s4 l' with
  | (b1, c1, b2, c2, r4), (b1', c1', b2', c2', r4') =>
    map akey b1 = map akey b1' /\ map akey c1 = map akey c1' /\ map akey b2 = map akey b2' /\
    map akey c2 = map akey c2' /\ map akey r4 = map akey r4'
  end.
Proof.
  intro H. unfold s4.
  destruct (take_kind_akey GBracket l l' H) as [A1 B1].
  destruct (take_kind_akey GBrace _ _ B1) as [A2 B2].
  destruct (take_kind_akey GBracket _ _ B2) as [A3 B3].
  destruct (take_kind_akey GBrace _ _ B3) as [A4 B4].
  repeat split; assumption.
Qed.

Lemma cmd_shape_akey sg l l' : map akey l = map akey l' -> cmd_shape sg l = cmd_shape sg l'.
Proof.
  intro H. unfold cmd_shape. rewrite !split4_s4.
  pose proof (s4_akey l l' H) as S.
  destruct (s4 l) as [[[[b1 c1] b2] c2] r4], (s4 l') as [[[[b1' c1'] b2'] c2'] r4'].
  destruct S as (A1 & A2 & A3 & A4 & B4).
  destruct (is_free sg).
  - rewrite (nonempty_akey _ _ B4), (head_no_spacer_akey _ _ A3), (head_no_spacer_akey _ _ A4).
    reflexivity.
  - rewrite (nonempty_akey _ _ H).
    destruct (take_kind_akey GBracket l l' H) as [C1 D1].
    destruct (take_kind_akey GBrace _ _ D1) as [C2 D2].
    destruct (take_kind GBracket l) as [bs r1], (take_kind GBracket l') as [bs' r1'].
    cbn [fst snd] in *.
    destruct (take_kind GBrace r1) as [cs r2], (take_kind GBrace r1') as [cs' r2'].
    cbn [fst snd] in *.
    rewrite (nonempty_akey _ _ D2), (length_akey _ _ C1), (length_akey _ _ C2). reflexivity.
Qed.

Lemma cmd_follow_b_akey sg l l' a b c d :
  map akey l = map akey l' -> cmd_follow_b sg l a b c d = cmd_follow_b sg l' a b c d.
Proof.
  intro H. unfold cmd_follow_b. rewrite !split4_s4.
  pose proof (s4_akey l l' H) as S.
  destruct (s4 l) as [[[[b1 c1] b2] c2] r4], (s4 l') as [[[[b1' c1'] b2'] c2'] r4'].
  destruct S as (A1 & A2 & A3 & A4 & B4).
  destruct (is_free sg).
  - rewrite (nonempty_akey _ _ A2).
    destruct b2 as [|x3 b3], b2' as [|x3' b3']; try discriminate A3; [reflexivity|].
    destruct c2 as [|x4 b4], c2' as [|x4' b4']; try discriminate A4; reflexivity.
  - destruct (take_kind_akey GBracket l l' H) as [C1 D1].
    destruct (take_kind GBracket l) as [bs r1], (take_kind GBracket l') as [bs' r1'].
    cbn [fst snd] in *. rewrite (length_akey _ _ C1). reflexivity.
Qed.

Lemma cmd_follow_akey sg l l' r :
  map akey l = map akey l' -> cmd_follow sg l r = cmd_follow sg l' r.
Proof. intro H. unfold cmd_follow. apply cmd_follow_b_akey. exact H. Qed.

(* ----------------------------------------- substitution in lists (Edit.v) *)

Lemma subst_nth_0 {A} (x a : A) l : subst_nth 0 x (a :: l) = x :: l.
Proof. reflexivity. Qed.
Lemma subst_nth_S {A} i (x a : A) l : subst_nth (S i) x (a :: l) = a :: subst_nth i x l.
Proof. reflexivity. Qed.

Lemma map_subst_nth {A B} (f : A -> B) i x l :
  map f (subst_nth i x l) = subst_nth i (f x) (map f l).
Proof.
  unfold subst_nth. rewrite map_app. cbn [map]. rewrite firstn_map, skipn_map. reflexivity.
Qed.

Lemma subst_nth_same_key {A B} (f : A -> B) : forall l i x y,
  nth_error l i = Some x -> f y = f x -> map f (subst_nth i y l) = map f l.
Proof.
  induction l as [|a l IH]; intros [|i] x y H E; try discriminate H.
  - cbn in H. injection H as ->. rewrite subst_nth_0. cbn [map]. rewrite E. reflexivity.
  - cbn in H. rewrite subst_nth_S. cbn [map]. rewrite (IH i x y H E). reflexivity.
Qed.

Lemma forallb_subst_nth {A} (P : A -> bool) : forall l i y,
  forallb P l = true -> P y = true -> forallb P (subst_nth i y l) = true.
Proof.
  induction l as [|a l IH]; intros i y H Hy.
  - unfold subst_nth. rewrite firstn_nil, skipn_nil. cbn. rewrite Hy. reflexivity.
  - cbn [forallb] in H. apply andb_true_iff in H. destruct H as [H1 H2]. destruct i as [|i].
    + rewrite subst_nth_0. cbn [forallb]. rewrite Hy, H2. reflexivity.
    + rewrite subst_nth_S. cbn [forallb]. rewrite H1, (IH i y H2 Hy). reflexivity.
Qed.

Lemma forallb_nth {A} (P : A -> bool) : forall l i x,
  forallb P l = true -> nth_error l i = Some x -> P x = true.
Proof.
  induction l as [|a l IH]; intros [|i] x H E; try discriminate E; cbn [forallb] in H;
    apply andb_true_iff in H; destruct H as [H1 H2]; cbn in E.
  - injection E as <-. exact H1.
  - exact (IH i x H2 E).
Qed.

(* ====================================================================== *)
(* Part B: replacing a sub-document in a context                           *)
(* ====================================================================== *)

Section Ctx.
Variable SK : list str.

(* follow conditions depend on the continuation through `obs` only *)
Lemma follows_ok_obs : forall d r r', obs r = obs r' ->
  follows_ok SK d r = follows_ok SK d r'.
Proof.
  apply (doc_ind' (fun d => forall r r', obs r = obs r' ->
                     follows_ok SK d r = follows_ok SK d r') (fun _ => True));
    try (intros; exact I); try (intros; reflexivity).
  - intros e n args _ r r' H. cbn [follows_ok]. apply cmd_follow_obs. exact H.
  - intros e b ng xargs body e2 en ng2 _ _ _ _ r r' H. cbn [follows_ok].
    apply cmd_follow_obs. exact H.
  - intros e n args body _ Hbody r r' H. rewrite !follows_ok_item.
    rewrite (item_stop_obs r r' H).
    rewrite (cmd_follow_obs free_sig args _ _ (obs_app (flat_list body) r r' H)).
    f_equal. f_equal.
    induction Hbody as [|d ds Hd _ IH]; [reflexivity|].
    rewrite !wf_seq_cons. rewrite IH.
    rewrite (Hd _ _ (obs_app (flat_list ds) r r' H)). reflexivity.
Qed.

Lemma wf_seq_obs mm x ds r r' : obs r = obs r' ->
  wf_seq SK mm x ds r = wf_seq SK mm x ds r'.
Proof.
  intro H. induction ds as [|d ds IH]; [reflexivity|].
  rewrite !wf_seq_cons, IH.
  rewrite (follows_ok_obs d _ _ (obs_app (flat_list ds) r r' H)). reflexivity.
Qed.

(* x' may stand for x: same head token and item-ness, well-formed and
   followable wherever x is, and the same first two tokens as seen from the
   left *)
Definition good (x x' : doc) : Prop :=
  dhead x' = dhead x /\ is_item x' = is_item x /\
  (forall mm, wf SK mm x = true -> wf SK mm x' = true) /\
  (forall r r', obs r = obs r' -> follows_ok SK x r = true -> follows_ok SK x' r' = true) /\
  (forall r r', obs r = obs r' -> obs (flat x ++ r) = obs (flat x' ++ r')).

Definition good_arg (a a' : arg) : Prop :=
  akey a' = akey a /\
  (forall mm, wf_arg SK mm a = true -> wf_arg SK mm a' = true) /\
  (forall r r', obs r = obs r' -> obs (flat_arg a ++ r) = obs (flat_arg a' ++ r')).

Definition good_seq (ds ds' : list doc) : Prop :=
  (forall mm x r r', obs r = obs r' -> wf_seq SK mm x ds r = true -> wf_seq SK mm x ds' r' = true) /\
  (forall r r', obs r = obs r' -> obs (flat_list ds ++ r) = obs (flat_list ds' ++ r')).

Lemma good_refl x : good x x.
Proof.
  repeat split; auto.
  - intros r r' H F. rewrite <- (follows_ok_obs x r r' H). exact F.
  - intros r r' H. apply obs_app. exact H.
Qed.

Lemma good_seq_subst : forall ds i y y',
  good y y' -> nth_error ds i = Some y -> good_seq ds (subst_nth i y' ds).
Proof.
  induction ds as [|d ds IH]; intros [|i] y y' G E; try discriminate E; cbn in E.
  - injection E as ->. rewrite subst_nth_0.
    destruct G as (G1 & G2 & G3 & G4 & G5). split.
    + intros mm x r r' H W. rewrite wf_seq_cons in W |- *.
      apply andb_true_iff in W. destruct W as [W W5].
      apply andb_true_iff in W. destruct W as [W W4].
      apply andb_true_iff in W. destruct W as [W W3].
      apply andb_true_iff in W. destruct W as [W1 W2].
      rewrite G1, W1. unfold allowed in W2 |- *. rewrite G2, W2.
      rewrite (G3 mm W3).
      rewrite (G4 _ _ (obs_app (flat_list ds) r r' H) W4).
      rewrite <- (wf_seq_obs mm x ds r r' H). exact W5.
    + intros r r' H. rewrite !flat_list_cons, <- !app_assoc.
      apply G5. apply obs_app. exact H.
  - rewrite subst_nth_S. destruct (IH i y y' G E) as [I1 I2]. split.
    + intros mm x r r' H W. rewrite wf_seq_cons in W |- *.
      apply andb_true_iff in W. destruct W as [W W5].
      apply andb_true_iff in W. destruct W as [W W4].
      rewrite W. rewrite (I1 mm x r r' H W5).
      rewrite <- (follows_ok_obs d _ _ (I2 r r' H)). rewrite W4. reflexivity.
    + intros r r' H. rewrite !flat_list_cons, <- !app_assoc.
      apply obs_app. apply I2. exact H.
Qed.

(* ------------------------------------------------ one step of a context *)

Lemma good_group o b b' c : good_seq b b' -> good (DGroup o b c) (DGroup o b' c).
Proof.
  intros [S1 S2]. repeat split; auto.
  - intros mm W. rewrite wf_group in W |- *.
    apply andb_true_iff in W. destruct W as [W W3]. rewrite W.
    exact (S1 false (CGroup GBrace) [c] [c] eq_refl W3).
  - intros r r' H. rewrite !flat_group. cbn [app]. apply obs_cons.
    rewrite <- !app_assoc. apply S2. apply obs_app. exact H.
Qed.

Lemma good_math k o b b' c : good_seq b b' -> good (DMath k o b c) (DMath k o b' c).
Proof.
  intros [S1 S2]. repeat split; auto.
  - intros mm W. rewrite wf_math in W |- *.
    apply andb_true_iff in W. destruct W as [W W3]. rewrite W.
    exact (S1 true (CMath k) [c] [c] eq_refl W3).
  - intros r r' H. rewrite !flat_math. cbn [app]. apply obs_cons.
    rewrite <- !app_assoc. apply S2. apply obs_app. exact H.
Qed.

Lemma good_arg_body sp k o b b' c : good_seq b b' -> good_arg (Arg sp k o b c) (Arg sp k o b' c).
Proof.
  intros [S1 S2]. repeat split.
  - intros mm W. rewrite wf_arg_eq in W |- *.
    apply andb_true_iff in W. destruct W as [W W3]. rewrite W.
    exact (S1 mm (CGroup k) [c] [c] eq_refl W3).
  - intros r r' H. rewrite !flat_arg_eq, <- !app_assoc. apply obs_app. cbn [app].
    apply obs_cons. rewrite <- !app_assoc. apply S2. apply obs_app. exact H.
Qed.

Lemma good_env_body e b ng xargs body body' e2 en ng2 : good_seq body body' ->
  good (DEnv e b ng xargs body e2 en ng2) (DEnv e b ng xargs body' e2 en ng2).
Proof.
  intros [S1 S2]. repeat split; auto.
  - intros mm W. rewrite wf_env in W |- *.
    apply andb_true_iff in W. destruct W as [W W13].
    apply andb_true_iff in W. destruct W as [W W12].
    apply andb_true_iff in W. destruct W as [W W11].
    apply andb_true_iff in W. destruct W as [W W10].
    apply andb_true_iff in W. destruct W as [W W9].
    apply andb_true_iff in W. destruct W as [W W8].
    apply andb_true_iff in W. destruct W as [W W7].
    rewrite W, W9, W10, W11, W12, W13.
    rewrite (S1 _ CEnv [e2; en] [e2; en] eq_refl W8).
    rewrite <- (cmd_follow_obs free_sig (ng :: xargs) _ _ (S2 [e2] [e2] eq_refl)), W7.
    reflexivity.
  - intros r r' H F. cbn [follows_ok] in F |- *.
    rewrite <- (cmd_follow_obs free_sig [ng2] r r' H). exact F.
Qed.

Lemma good_item_body e n args body body' : good_seq body body' ->
  good (DItem e n args body) (DItem e n args body').
Proof.
  intros [S1 S2]. repeat split; auto.
  - intros r r' H F. rewrite follows_ok_item in F |- *.
    apply andb_true_iff in F. destruct F as [F F3].
    apply andb_true_iff in F. destruct F as [F1 F2].
    rewrite <- (item_stop_obs r r' H), F3.
    rewrite (S1 false CItem r r' H F2).
    rewrite <- (cmd_follow_obs free_sig args _ _ (S2 r r' H)), F1. reflexivity.
Qed.

Lemma args_subst_key args j a a' :
  nth_error args j = Some a -> akey a' = akey a ->
  map akey (subst_nth j a' args) = map akey args.
Proof. intros E K. exact (subst_nth_same_key akey args j a a' E K). Qed.

Lemma good_cmd_arg e n args j a a' : nth_error args j = Some a -> good_arg a a' ->
  good (DCmd e n args) (DCmd e n (subst_nth j a' args)).
Proof.
  intros E (K & Wa & _). pose proof (args_subst_key args j a a' E K) as M.
  repeat split; auto.
  - intros mm W. rewrite wf_cmd in W |- *.
    apply andb_true_iff in W. destruct W as [W W4].
    apply andb_true_iff in W. destruct W as [W W3]. rewrite W.
    rewrite (cmd_shape_akey _ _ _ M), W3.
    apply forallb_subst_nth; [exact W4|]. apply Wa. exact (forallb_nth _ _ _ _ W4 E).
  - intros r r' H F. cbn [follows_ok] in F |- *.
    rewrite (cmd_follow_akey _ _ _ r' M), <- (cmd_follow_obs _ args r r' H). exact F.
Qed.

Lemma good_env_arg e b ng xargs j a a' body e2 en ng2 :
  nth_error xargs j = Some a -> good_arg a a' ->
  good (DEnv e b ng xargs body e2 en ng2) (DEnv e b ng (subst_nth j a' xargs) body e2 en ng2).
Proof.
  intros E (K & Wa & _). pose proof (args_subst_key xargs j a a' E K) as M.
  assert (M' : map akey (ng :: subst_nth j a' xargs) = map akey (ng :: xargs))
    by (cbn [map]; rewrite M; reflexivity).
  repeat split; auto.
  - intros mm W. rewrite wf_env in W |- *.
    apply andb_true_iff in W. destruct W as [W W13].
    apply andb_true_iff in W. destruct W as [W W12].
    apply andb_true_iff in W. destruct W as [W W11].
    apply andb_true_iff in W. destruct W as [W W10].
    apply andb_true_iff in W. destruct W as [W W9].
    apply andb_true_iff in W. destruct W as [W W8].
    apply andb_true_iff in W. destruct W as [W W7].
    apply andb_true_iff in W. destruct W as [W W7b].
    apply andb_true_iff in W. destruct W as [W W7a].
    rewrite W, W8, W9, W10, W11, W12, W13.
    rewrite (cmd_shape_akey _ _ _ M'), W7a.
    rewrite (cmd_follow_akey _ _ _ _ M'), W7.
    rewrite (forallb_subst_nth _ xargs j a' W7b (Wa mm (forallb_nth _ _ _ _ W7b E))).
    reflexivity.
  - intros r r' H F. cbn [follows_ok] in F |- *.
    rewrite <- (cmd_follow_obs free_sig [ng2] r r' H). exact F.
Qed.

Lemma good_item_arg e n args j a a' body : nth_error args j = Some a -> good_arg a a' ->
  good (DItem e n args body) (DItem e n (subst_nth j a' args) body).
Proof.
  intros E (K & Wa & Oa). pose proof (args_subst_key args j a a' E K) as M.
  repeat split; auto.
  - intros mm W. rewrite wf_item in W |- *.
    apply andb_true_iff in W. destruct W as [W W5].
    apply andb_true_iff in W. destruct W as [W W4]. rewrite W.
    rewrite (cmd_shape_akey _ _ _ M), W4.
    apply forallb_subst_nth; [exact W5|]. apply Wa. exact (forallb_nth _ _ _ _ W5 E).
  - intros r r' H F. rewrite follows_ok_item in F |- *.
    apply andb_true_iff in F. destruct F as [F F3].
    apply andb_true_iff in F. destruct F as [F1 F2].
    rewrite <- (item_stop_obs r r' H), F3, <- (wf_seq_obs false CItem body r r' H), F2.
    rewrite (cmd_follow_akey _ _ _ _ M).
    rewrite <- (cmd_follow_obs free_sig args _ _ (obs_app (flat_list body) r r' H)), F1.
    reflexivity.
Qed.

(* --------------------------- addressing documents with the paths of Edit.v *)

(* a node of a grammar document: an element, an argument group, the root *)
Inductive dn := Nd (d : doc) | Na (a : arg) | Nr (ds : list doc).

Definition dn_tree (n : dn) : expr :=
  match n with Nd d => tree d | Na a => tree_arg a | Nr ds => ERoot (map tree ds) end.

Definition dn_args (n : dn) : list arg :=
  match n with
  | Nd (DCmd _ _ a) => a
  | Nd (DItem _ _ a _) => a
  | Nd (DEnv _ _ _ xa _ _ _ _) => xa
  | _ => []
  end.
Definition dn_body (n : dn) : list doc :=
  match n with
  | Nd (DGroup _ b _) => b
  | Nd (DMath _ _ b _) => b
  | Nd (DEnv _ _ _ _ b _ _ _) => b
  | Nd (DItem _ _ _ b) => b
  | Na (Arg _ _ _ b _) => b
  | Nr ds => ds
  | _ => []
  end.
Definition dn_set_args (n : dn) (a : list arg) : dn :=
  match n with
  | Nd (DCmd e nm _) => Nd (DCmd e nm a)
  | Nd (DItem e nm _ b) => Nd (DItem e nm a b)
  | Nd (DEnv e b ng _ body e2 en ng2) => Nd (DEnv e b ng a body e2 en ng2)
  | _ => n
  end.
Definition dn_set_body (n : dn) (b : list doc) : dn :=
  match n with
  | Nd (DGroup o _ c) => Nd (DGroup o b c)
  | Nd (DMath k o _ c) => Nd (DMath k o b c)
  | Nd (DEnv e bg ng xa _ e2 en ng2) => Nd (DEnv e bg ng xa b e2 en ng2)
  | Nd (DItem e nm a _) => Nd (DItem e nm a b)
  | Na (Arg sp k o _ c) => Na (Arg sp k o b c)
  | Nr _ => Nr b
  | _ => n
  end.

Definition dn_child (n : dn) (s : step) : option dn :=
  match s with
  | SArg i => option_map Na (nth_error (dn_args n) i)
  | SBody i => option_map Nd (nth_error (dn_body n) i)
  end.
Definition dn_set_child (n : dn) (s : step) (c : dn) : dn :=
  match s, c with
  | SArg i, Na a => dn_set_args n (subst_nth i a (dn_args n))
  | SBody i, Nd d => dn_set_body n (subst_nth i d (dn_body n))
  | _, _ => n
  end.

Fixpoint dn_get (n : dn) (p : path) : option dn :=
  match p with
  | [] => Some n
  | s :: p' => match dn_child n s with Some c => dn_get c p' | None => None end
  end.
Fixpoint dn_put (n : dn) (p : path) (x : dn) : option dn :=
  match p with
  | [] => Some x
  | s :: p' =>
    match dn_child n s with
    | Some c => match dn_put c p' x with Some c' => Some (dn_set_child n s c') | None => None end
    | None => None
    end
  end.

(* `tree` commutes with the addressing *)
Lemma args_of_tree n : args_of (dn_tree n) = map tree_arg (dn_args n).
Proof. destruct n as [[]|[]|]; reflexivity. Qed.
Lemma body_of_tree n : body_of (dn_tree n) = map tree (dn_body n).
Proof. destruct n as [[]|[]|]; reflexivity. Qed.

Lemma child_tree n s : child (dn_tree n) s = option_map dn_tree (dn_child n s).
Proof.
  destruct s as [i|i]; cbn [child dn_child].
  - rewrite args_of_tree, nth_error_map. destruct (nth_error (dn_args n) i); reflexivity.
  - rewrite body_of_tree, nth_error_map. destruct (nth_error (dn_body n) i); reflexivity.
Qed.

Lemma get_tree : forall p n, get (dn_tree n) p = option_map dn_tree (dn_get n p).
Proof.
  induction p as [|s p IH]; intro n; [reflexivity|].
  cbn [get dn_get]. rewrite child_tree. destruct (dn_child n s) as [c|]; [apply IH | reflexivity].
Qed.

Definition same_sort (a b : dn) : Prop :=
  match a, b with Nd _, Nd _ | Na _, Na _ | Nr _, Nr _ => True | _, _ => False end.

Lemma set_args_tree n a :
  set_args_of (dn_tree n) (map tree_arg a) = dn_tree (dn_set_args n a).
Proof. destruct n as [[]|[]|]; reflexivity. Qed.
Lemma set_body_tree n b : dn_body n <> [] ->
  set_body (dn_tree n) (map tree b) = dn_tree (dn_set_body n b).
Proof. destruct n as [[]|[]|]; intro H; try reflexivity; exfalso; apply H; reflexivity. Qed.

Lemma set_child_tree n s c c' :
  dn_child n s = Some c -> same_sort c c' ->
  set_child (dn_tree n) s (dn_tree c') = dn_tree (dn_set_child n s c') /\
  same_sort n (dn_set_child n s c').
Proof.
  destruct s as [i|i]; cbn [dn_child]; intros E S.
  - destruct (nth_error (dn_args n) i) as [a|]; [|discriminate E]. injection E as <-.
    destruct c' as [|a'|]; try contradiction. cbn [set_child dn_set_child dn_tree].
    rewrite args_of_tree. change (tree_arg a') with (tree_arg a').
    rewrite <- (map_subst_nth tree_arg). split; [apply set_args_tree|].
    destruct n as [[]|[]|]; exact I.
  - destruct (nth_error (dn_body n) i) as [d|] eqn:En; [|discriminate E]. injection E as <-.
    destruct c' as [d'| |]; try contradiction. cbn [set_child dn_set_child dn_tree].
    rewrite body_of_tree. rewrite <- (map_subst_nth tree).
    split; [apply set_body_tree; intro Z; rewrite Z in En; destruct i; discriminate En|].
    destruct n as [[]|[]|]; exact I.
Qed.

Lemma put_tree : forall p n x x',
  dn_get n p = Some x -> same_sort x x' ->
  exists n', dn_put n p x' = Some n' /\ same_sort n n' /\
             put (dn_tree n) p (dn_tree x') = Some (dn_tree n').
Proof.
  induction p as [|s p IH]; intros n x x' G S.
  - cbn in G. injection G as <-. exists x'. repeat split; auto.
  - cbn [dn_get] in G. destruct (dn_child n s) as [c|] eqn:E; [|discriminate G].
    destruct (IH c x x' G S) as (c' & P & Sc & T).
    exists (dn_set_child n s c'). cbn [dn_put put]. rewrite E, P, child_tree, E.
    cbn [option_map]. rewrite T.
    destruct (set_child_tree n s c c' E Sc) as [T' S']. rewrite T'. repeat split. exact S'.
Qed.

(* `good` is a congruence for the addressing *)
Definition dn_good (n n' : dn) : Prop :=
  match n, n' with
  | Nd x, Nd x' => good x x'
  | Na a, Na a' => good_arg a a'
  | Nr ds, Nr ds' => good_seq ds ds'
  | _, _ => False
  end.

Lemma step_good n s c c' :
  dn_child n s = Some c -> dn_good c c' -> dn_good n (dn_set_child n s c').
Proof.
  destruct s as [j|i]; cbn [dn_child]; intros E G.
  - destruct (nth_error (dn_args n) j) as [a|] eqn:En; [|discriminate E]. injection E as <-.
    destruct c' as [|a'|]; try contradiction. cbn [dn_good] in G. cbn [dn_set_child].
    destruct n as [[t|o b c0|e nm args|k o b c0|e b ng xa body e2 en ng2|e nm args body]|[]|];
      cbn [dn_args] in En; try (destruct j; discriminate En); cbn [dn_args dn_set_args dn_good].
    + apply good_cmd_arg with (a := a); assumption.
    + apply good_env_arg with (a := a); assumption.
    + apply good_item_arg with (a := a); assumption.
  - destruct (nth_error (dn_body n) i) as [d|] eqn:En; [|discriminate E]. injection E as <-.
    destruct c' as [d'| |]; try contradiction. cbn [dn_good] in G. cbn [dn_set_child].
    pose proof (good_seq_subst (dn_body n) i d d' G En) as GS.
    destruct n as [[t|o b c0|e nm args|k o b c0|e b ng xa body e2 en ng2|e nm args body]
                  |[sp k o b c0]|ds];
      cbn [dn_body] in En, GS; try (destruct i; discriminate En);
      cbn [dn_body dn_set_body dn_good].
    + apply good_group. exact GS.
    + apply good_math. exact GS.
    + apply good_env_body. exact GS.
    + apply good_item_body. exact GS.
    + apply good_arg_body. exact GS.
    + exact GS.
Qed.

Theorem ctx_good : forall p n x x' n',
  dn_get n p = Some x -> dn_good x x' -> dn_put n p x' = Some n' -> dn_good n n'.
Proof.
  induction p as [|s p IH]; intros n x x' n' G Gd P.
  - cbn in G, P. injection G as <-. injection P as <-. exact Gd.
  - cbn [dn_get] in G. cbn [dn_put] in P.
    destruct (dn_child n s) as [c|] eqn:E; [|discriminate G].
    destruct (dn_put c p x') as [c'|] eqn:Pc; [|discriminate P]. injection P as <-.
    apply step_good with (c := c); [exact E|]. exact (IH c x x' c' G Gd Pc).
Qed.

End Ctx.

(* ====================================================================== *)
(* Part C: the three edits on grammar documents                            *)
(* ====================================================================== *)

(* every continuation admissible after (sg, args) is admissible after
   (sg', args'): the four facts cmd_follow reads, over the combinations that
   can occur (stopsb k implies head_notb k) *)
Definition follow_combos : list (bool * bool * bool * bool) :=
  (* (sg_, sb_, hb_, hg_) *)
  [ (true, true, true, true); (true, false, true, true); (true, false, false, true);
    (false, true, true, true); (false, false, true, true); (false, false, false, true);
    (false, true, true, false); (false, false, true, false); (false, false, false, false) ].

Definition follow_le (sg : Z * Z) (args : list arg) (sg' : Z * Z) (args' : list arg) : bool :=
  forallb (fun q => match q with (a, b, c, d) =>
             implb (cmd_follow_b sg args a b c d) (cmd_follow_b sg' args' a b c d) end)
          follow_combos.

Lemma follow_le_refl sg args : follow_le sg args sg args = true.
Proof.
  unfold follow_le. apply forallb_forall. intros [[[a b] c] d] _.
  destruct (cmd_follow_b sg args a b c d); reflexivity.
Qed.

Lemma follow_le_sound sg args sg' args' r :
  follow_le sg args sg' args' = true ->
  cmd_follow sg args r = true -> cmd_follow sg' args' r = true.
Proof.
  unfold follow_le, cmd_follow. intros L F. rewrite forallb_forall in L.
  pose proof (stopsb_head TGroupBegin r ltac:(discriminate)) as Hg.
  pose proof (stopsb_head TBracketBegin r ltac:(discriminate)) as Hb.
  destruct (stopsb TGroupBegin r) eqn:E1, (stopsb TBracketBegin r) eqn:E2,
           (head_notb TBracketBegin r) eqn:E3, (head_notb TGroupBegin r) eqn:E4;
    try (specialize (Hg eq_refl); discriminate Hg);
    try (specialize (Hb eq_refl); discriminate Hb);
    match goal with
    | |- cmd_follow_b _ _ ?a ?b ?c ?d = true =>
      assert (I : In (a, b, c, d) follow_combos) by (cbn; tauto);
      specialize (L _ I); cbn beta iota in L; rewrite F in L; exact L
    end.
Qed.

Definition retext (t : token) (s : str) : token := mkt s (tpos t) (tcat t).
(* the token of Edit.text_of *)
Definition text_tok (s : str) : token := mkt s (-1)%Z TText.

Lemma text_of_tok s : text_of s = EText (text_tok s).
Proof. reflexivity. Qed.

Definition leaf_body (s : str) : list doc := [DLeaf (text_tok s)].

Definition rename_arg (s : str) (a : arg) : arg :=
  match a with Arg sp k o _ c => Arg sp k o (leaf_body s) c end.

(* node.name = s *)
Definition rename_node (s : str) (d : doc) : doc :=
  match d with
  | DCmd e n args => DCmd e (retext n s) args
  | DEnv e b ng xa body e2 en ng2 => DEnv e b (rename_arg s ng) xa body e2 en (rename_arg s ng2)
  | _ => d
  end.

(* node.string = s *)
Definition restring_node (s : str) (d : doc) : doc :=
  match d with
  | DCmd e n [Arg sp k o _ c] => DCmd e n [Arg sp k o (leaf_body s) c]
  | DEnv e b ng xa _ e2 en ng2 => DEnv e b ng xa (leaf_body s) e2 en ng2
  | _ => d
  end.

(* node.args = [node.args[i] for i in idxs]; `drop`: the spacers in front of
   the groups are dropped (as str() does) or kept *)
Definition unspace (a : arg) : arg := match a with Arg _ k o b c => Arg None k o b c end.
Definition pick_args (drop : bool) (idxs : list nat) (args : list arg) : option (list arg) :=
  match select args idxs with
  | Some a' => Some (if drop then map unspace a' else a')
  | None => None
  end.
Definition reargs_node (drop : bool) (idxs : list nat) (d : doc) : doc :=
  match d with
  | DCmd e n args =>
    match pick_args drop idxs args with Some a' => DCmd e n a' | None => d end
  | _ => d
  end.

(* ------------------------------------------------- conditions (decidable) *)

Definition new_name_ok (s : str) : bool :=
  str_eqb (strip s) s &&
  negb (str_eqb s s_item) && negb (str_eqb s s_begin) && negb (str_eqb s s_end) &&
  negb (mem_str s Tables.special_commands).

Definition rename_ok (SK : list str) (s : str) (d : doc) : bool :=
  match d with
  | DCmd e n args =>
    name_ok n && new_name_ok s && cmd_shape (signature_of s) args &&
    follow_le (signature_of (ttext n)) args (signature_of s) args
  | DEnv e b ng xa body e2 en ng2 =>
    str_eqb (strip s) s && negb (mem_str s SK) &&
    Bool.eqb (mem_str s Tables.math_env_names) (mem_str (env_name ng) Tables.math_env_names)
  | _ => false
  end.

Definition restring_target (d : doc) : bool :=
  match d with
  | DCmd _ _ [_] => true
  | DEnv _ _ _ _ _ _ _ _ => true
  | _ => false
  end.

Definition reargs_ok (drop : bool) (idxs : list nat) (d : doc) : bool :=
  match d with
  | DCmd e n args =>
    nodup_nat idxs &&
    match pick_args drop idxs args with
    | Some a' => cmd_shape (signature_of (ttext n)) a' &&
                 follow_le (signature_of (ttext n)) args (signature_of (ttext n)) a'
    | None => false
    end
  | _ => false
  end.

(* ---------------------------------------- commutation with Edit.v's edits *)

Lemma arg_string_rename s a : arg_string (tree_arg (rename_arg s a)) = s.
Proof. destruct a as [sp k o b c]. cbn. apply app_nil_r. Qed.

Lemma env_name_rename s a : strip s = s -> env_name (rename_arg s a) = s.
Proof. intro H. unfold env_name. rewrite arg_string_rename. exact H. Qed.

Lemma rename_commutes s d :
  strip s = s -> (match d with DCmd _ _ _ | DEnv _ _ _ _ _ _ _ _ => true | _ => false end) = true ->
  rename (tree d) s = Done (tree (rename_node s d)).
Proof.
  intros Hs Hd. destruct d as [t|o b c|e n args|k o b c|e b ng xa body e2 en ng2|e n args body];
    try discriminate Hd; cbn [tree rename rename_node].
  - cbn [retext ttext]. rewrite Hs. reflexivity.
  - fold (env_name (rename_arg s ng)). rewrite (env_name_rename s ng Hs). reflexivity.
Qed.

Lemma restring_commutes s d t' :
  restring_target d = true -> restring (tree d) s = Done t' -> t' = tree (restring_node s d).
Proof.
  intros Hd H. destruct d as [t|o b c|e n args|k o b c|e b ng xa body e2 en ng2|e n args body];
    try discriminate Hd.
  - destruct args as [|[sp k o b c] [|a2 args]]; try discriminate Hd.
    cbn in H. injection H as <-. reflexivity.
  - cbn [tree] in H |- *. cbn [restring] in H.
    destruct (cview _) as [|[q y] [|z l]]; try discriminate H.
    destruct (is_node y); [discriminate H|]. injection H as <-. reflexivity.
Qed.

Lemma select_map {A B} (f : A -> B) l : forall idxs,
  select (map f l) idxs = option_map (map f) (select l idxs).
Proof.
  induction idxs as [|i r IH]; [reflexivity|]. cbn [select]. rewrite nth_error_map, IH.
  destruct (nth_error l i); [|reflexivity]. destruct (select l r); reflexivity.
Qed.

Lemma select_In {A} (l : list A) : forall idxs l', select l idxs = Some l' ->
  forall x, In x l' -> In x l.
Proof.
  induction idxs as [|i r IH]; intros l' H x Hx; cbn [select] in H.
  - injection H as <-. destruct Hx.
  - destruct (nth_error l i) as [y|] eqn:E; [|discriminate H].
    destruct (select l r) as [ys|]; [|discriminate H]. injection H as <-.
    destruct Hx as [<-|Hx]; [exact (nth_error_In _ _ E) | exact (IH ys eq_refl x Hx)].
Qed.

Lemma tree_arg_unspace a : tree_arg (unspace a) = tree_arg a.
Proof. destruct a; reflexivity. Qed.

Lemma pick_args_tree drop idxs args a' :
  pick_args drop idxs args = Some a' ->
  select (map tree_arg args) idxs = Some (map tree_arg a').
Proof.
  unfold pick_args. rewrite select_map. destruct (select args idxs) as [l|]; [|discriminate].
  intro H. injection H as <-. cbn [option_map]. destruct drop; [|reflexivity].
  rewrite map_map. f_equal. apply map_ext. intro a. symmetry. apply tree_arg_unspace.
Qed.

Lemma reargs_commutes drop idxs d :
  reargs_ok drop idxs d = true ->
  reargs (tree d) idxs = Done (tree (reargs_node drop idxs d)).
Proof.
  destruct d as [t|o b c|e n args|k o b c|e b ng xa body e2 en ng2|e n args body];
    try discriminate. cbn [reargs_ok]. intro H.
  apply andb_true_iff in H. destruct H as [Hn H].
  cbn [tree reargs reargs_node]. rewrite Hn.
  destruct (pick_args drop idxs args) as [a'|] eqn:E; [|discriminate H].
  rewrite (pick_args_tree drop idxs args a' E). reflexivity.
Qed.

(* ------------------------------------------------------------- goodness *)

Section Edits.
Variable SK : list str.

Lemma leaf_seq_wf mm k s c :
  wf_seq SK mm (CGroup k) (leaf_body s) [c] = true.
Proof. destruct k; reflexivity. Qed.

Lemma rename_arg_wf mm mm' s a :
  wf_arg SK mm a = true -> wf_arg SK mm' (rename_arg s a) = true.
Proof.
  destruct a as [sp k o b c]. intro W.
  destruct (wf_arg_parts _ _ _ _ _ _ _ W) as (W1 & W2 & W3 & _).
  cbn [rename_arg]. rewrite wf_arg_eq, W1, W2, W3, leaf_seq_wf. reflexivity.
Qed.

Lemma rename_arg_key s a : akey (rename_arg s a) = akey a.
Proof. destruct a; reflexivity. Qed.
Lemma rename_arg_brace s a : is_brace_arg (rename_arg s a) = is_brace_arg a.
Proof. destruct a; reflexivity. Qed.

Lemma name_ok_flag n : name_ok n = true ->
  str_eqb (ttext n) s_end || str_eqb (ttext n) s_item = false.
Proof.
  unfold name_ok. intro H.
  apply andb_true_iff in H. destruct H as [H _].
  apply andb_true_iff in H. destruct H as [H H3].
  apply andb_true_iff in H. destruct H as [H1 _].
  apply negb_true_iff in H1, H3. rewrite H1, H3. reflexivity.
Qed.

Lemma rename_good s d : rename_ok SK s d = true -> good SK d (rename_node s d).
Proof.
  destruct d as [t|o b c|e n args|k o b c|e b ng xa body e2 en ng2|e n args body];
    try discriminate; cbn [rename_ok rename_node]; intro H.
  - (* command *)
    apply andb_true_iff in H. destruct H as [H HL].
    apply andb_true_iff in H. destruct H as [H HS].
    apply andb_true_iff in H. destruct H as [HO HN].
    unfold new_name_ok in HN.
    apply andb_true_iff in HN. destruct HN as [HN N5].
    apply andb_true_iff in HN. destruct HN as [HN N4].
    apply andb_true_iff in HN. destruct HN as [HN N3].
    apply andb_true_iff in HN. destruct HN as [N1 N2].
    repeat split; auto.
    + intros mm W. rewrite wf_cmd in W |- *.
      apply andb_true_iff in W. destruct W as [W W4].
      apply andb_true_iff in W. destruct W as [W _].
      apply andb_true_iff in W. destruct W as [W1 _].
      rewrite W1, W4. unfold name_ok. cbn [retext ttext]. rewrite N2, N3, N4, N5, HS. reflexivity.
    + intros r r' Hr F. cbn [follows_ok retext ttext] in F |- *.
      apply (follow_le_sound _ _ _ _ r' HL). rewrite <- (cmd_follow_obs _ args r r' Hr). exact F.
    + intros r r' _. rewrite !flat_cmd. cbn [app]. unfold obs. cbn [firstn map].
      unfold tkey at 2 4. cbn [retext ttext tcat]. rewrite (name_ok_flag n HO).
      apply negb_true_iff in N2, N4. rewrite N2, N4. reflexivity.
  - (* environment *)
    apply andb_true_iff in H. destruct H as [H HM].
    apply andb_true_iff in H. destruct H as [HS HK].
    apply str_eqb_eq in HS. apply Bool.eqb_prop in HM.
    assert (EM : forall mm, env_mm mm (rename_arg s ng) = env_mm mm ng).
    { intro mm. unfold env_mm. rewrite (env_name_rename s ng HS), HM. reflexivity. }
    assert (K1 : map akey (rename_arg s ng :: xa) = map akey (ng :: xa))
      by (cbn [map]; rewrite rename_arg_key; reflexivity).
    assert (K2 : map akey [rename_arg s ng2] = map akey [ng2])
      by (cbn [map]; rewrite rename_arg_key; reflexivity).
    repeat split; auto.
    + intros mm W. rewrite wf_env in W |- *.
      apply andb_true_iff in W. destruct W as [W W13].
      apply andb_true_iff in W. destruct W as [W W12].
      apply andb_true_iff in W. destruct W as [W W11].
      apply andb_true_iff in W. destruct W as [W W10].
      apply andb_true_iff in W. destruct W as [W W9].
      apply andb_true_iff in W. destruct W as [W W8].
      apply andb_true_iff in W. destruct W as [W W7].
      apply andb_true_iff in W. destruct W as [W W7b].
      apply andb_true_iff in W. destruct W as [W W7a].
      apply andb_true_iff in W. destruct W as [W W6].
      apply andb_true_iff in W. destruct W as [W W4].
      apply andb_true_iff in W. destruct W as [W W3].
      apply andb_true_iff in W. destruct W as [W1 W2].
      rewrite W1, W2, W7b, W9, W10.
      rewrite (rename_arg_wf mm mm s ng W3), !rename_arg_brace, W4, W12.
      rewrite (env_name_rename s ng HS), HK.
      rewrite (cmd_shape_akey _ _ _ K1), W7a, (cmd_follow_akey _ _ _ _ K1), W7.
      rewrite EM, W8, (rename_arg_wf _ _ s ng2 W11), arg_string_rename, str_eqb_refl.
      reflexivity.
    + intros r r' Hr F. cbn [follows_ok] in F |- *.
      rewrite (cmd_follow_akey _ _ _ r' K2), <- (cmd_follow_obs _ [ng2] r r' Hr). exact F.
Qed.

Lemma restring_good s d : restring_target d = true -> good SK d (restring_node s d).
Proof.
  destruct d as [t|o b c|e n args|k o b c|e b ng xa body e2 en ng2|e n args body];
    try discriminate.
  - (* command with one argument *)
    destruct args as [|[sp k o b c] [|a2 args]]; try discriminate. intros _.
    cbn [restring_node].
    assert (K : map akey [Arg sp k o (leaf_body s) c] = map akey [Arg sp k o b c]) by reflexivity.
    repeat split; auto.
    + intros mm W. rewrite wf_cmd in W |- *.
      apply andb_true_iff in W. destruct W as [W W4].
      apply andb_true_iff in W. destruct W as [W W3]. rewrite W.
      rewrite (cmd_shape_akey _ _ _ K), W3.
      cbn [forallb] in W4 |- *. rewrite andb_true_r in W4 |- *.
      destruct (wf_arg_parts _ _ _ _ _ _ _ W4) as (A1 & A2 & A3 & _).
      rewrite wf_arg_eq, A1, A2, A3, leaf_seq_wf. reflexivity.
    + intros r r' Hr F. cbn [follows_ok] in F |- *.
      rewrite (cmd_follow_akey _ _ _ r' K), <- (cmd_follow_obs _ _ r r' Hr). exact F.
  - (* environment *)
    intros _. cbn [restring_node]. repeat split; auto.
    + intros mm W. rewrite wf_env in W |- *.
      apply andb_true_iff in W. destruct W as [W W13].
      apply andb_true_iff in W. destruct W as [W W12].
      apply andb_true_iff in W. destruct W as [W W11].
      apply andb_true_iff in W. destruct W as [W W10].
      apply andb_true_iff in W. destruct W as [W W9].
      apply andb_true_iff in W. destruct W as [W _].
      apply andb_true_iff in W. destruct W as [W _].
      rewrite W, W9, W10, W11, W12, W13.
      replace (wf_seq SK (env_mm mm ng) CEnv (leaf_body s) [e2; en]) with true by reflexivity.
      replace (cmd_follow free_sig (ng :: xa) (flat_list (leaf_body s) ++ [e2])) with true;
        [reflexivity|].
      unfold cmd_follow, cmd_follow_b. cbn [is_free free_sig fst snd Z.eqb andb].
      destruct (split4 (ng :: xa)) as [[[[b1 c1] b2] c2] r4].
      replace (stopsb TGroupBegin (flat_list (leaf_body s) ++ [e2])) with true by reflexivity.
      replace (stopsb TBracketBegin (flat_list (leaf_body s) ++ [e2])) with true by reflexivity.
      replace (head_notb TGroupBegin (flat_list (leaf_body s) ++ [e2])) with true by reflexivity.
      replace (head_notb TBracketBegin (flat_list (leaf_body s) ++ [e2])) with true by reflexivity.
      destruct b2, c2, (nonempty c1); reflexivity.
    + intros r r' Hr F. cbn [follows_ok] in F |- *.
      rewrite <- (cmd_follow_obs _ [ng2] r r' Hr). exact F.
Qed.

Lemma unspace_wf mm a : wf_arg SK mm a = true -> wf_arg SK mm (unspace a) = true.
Proof.
  destruct a as [sp k o b c]. intro W.
  destruct (wf_arg_parts _ _ _ _ _ _ _ W) as (_ & W2 & W3 & W4).
  cbn [unspace]. rewrite wf_arg_eq, W2, W3, W4. reflexivity.
Qed.

Lemma pick_args_wf mm drop idxs args a' :
  pick_args drop idxs args = Some a' ->
  forallb (wf_arg SK mm) args = true -> forallb (wf_arg SK mm) a' = true.
Proof.
  unfold pick_args. destruct (select args idxs) as [l|] eqn:E; [|discriminate].
  intros H W. injection H as <-. rewrite forallb_forall in W.
  assert (Wl : forallb (wf_arg SK mm) l = true).
  { apply forallb_forall. intros x Hx. apply W. exact (select_In args idxs l E x Hx). }
  destruct drop; [|exact Wl].
  rewrite forallb_forall in Wl. apply forallb_forall. intros x Hx.
  apply in_map_iff in Hx. destruct Hx as (y & <- & Hy). apply unspace_wf. exact (Wl y Hy).
Qed.

Lemma reargs_good drop idxs d :
  reargs_ok drop idxs d = true -> good SK d (reargs_node drop idxs d).
Proof.
  destruct d as [t|o b c|e n args|k o b c|e b ng xa body e2 en ng2|e n args body];
    try discriminate. cbn [reargs_ok reargs_node]. intro H.
  apply andb_true_iff in H. destruct H as [_ H].
  destruct (pick_args drop idxs args) as [a'|] eqn:E; [|discriminate H].
  apply andb_true_iff in H. destruct H as [HS HL].
  repeat split; auto.
  - intros mm W. rewrite wf_cmd in W |- *.
    apply andb_true_iff in W. destruct W as [W W4].
    apply andb_true_iff in W. destruct W as [W _]. rewrite W, HS.
    exact (pick_args_wf mm drop idxs args a' E W4).
  - intros r r' Hr F. cbn [follows_ok] in F |- *.
    apply (follow_le_sound _ _ _ _ r' HL). rewrite <- (cmd_follow_obs _ args r r' Hr). exact F.
Qed.

End Edits.

(* ====================================================================== *)
(* Part D: Stage 1 - re-parsing the edited token sequence                  *)
(* ====================================================================== *)

(* apply f to the element at path p (nothing happens when p does not lead to
   an element) *)
Definition edit_docs (f : doc -> doc) (p : path) (ds : list doc) : list doc :=
  match dn_get (Nr ds) p with
  | Some (Nd x) =>
    match dn_put (Nr ds) p (Nd (f x)) with Some (Nr ds') => ds' | _ => ds end
  | _ => ds
  end.

Definition rename_docs (s : str) := edit_docs (rename_node s).
Definition restring_docs (s : str) := edit_docs (restring_node s).
Definition reargs_docs (drop : bool) (idxs : list nat) := edit_docs (reargs_node drop idxs).

(* the generic step: a `good` replacement at an addressed element *)
Lemma edit_generic SK f ds p x :
  dn_get (Nr ds) p = Some (Nd x) -> good SK x (f x) ->
  get (ERoot (map tree ds)) p = Some (tree x) /\
  put (ERoot (map tree ds)) p (tree (f x)) = Some (ERoot (map tree (edit_docs f p ds))) /\
  (wf_seq SK false CTop ds [] = true -> wf_seq SK false CTop (edit_docs f p ds) [] = true).
Proof.
  intros G Gd.
  pose proof (get_tree p (Nr ds)) as GT. rewrite G in GT. cbn [option_map dn_tree] in GT.
  destruct (put_tree p (Nr ds) (Nd x) (Nd (f x)) G I) as (n' & P & S & T).
  destruct n' as [|?|ds']; try contradiction.
  pose proof (ctx_good SK p (Nr ds) (Nd x) (Nd (f x)) (Nr ds') G Gd P) as GS.
  cbn [dn_good] in GS. destruct GS as [GS _].
  unfold edit_docs. rewrite G, P. cbn [dn_tree] in T.
  split; [exact GT|]. split; [exact T|].
  intro W. exact (GS false CTop [] [] eq_refl W).
Qed.

(* renaming a command or an environment *)
Theorem reparse_rename_tokens ds p x s strict user :
  wf_seq (all_skip user) false CTop ds [] = true ->
  dn_get (Nr ds) p = Some (Nd x) -> rename_ok (all_skip user) s x = true ->
  set_name (ERoot (map tree ds)) p s = Done (ERoot (map tree (rename_docs s p ds))) /\
  wf_seq (all_skip user) false CTop (rename_docs s p ds) [] = true /\
  parse_tokens (flat_list (rename_docs s p ds)) strict user =
    Ok (ERoot (map tree (rename_docs s p ds))).
Proof.
  intros W G R.
  destruct (edit_generic (all_skip user) (rename_node s) ds p x G (rename_good _ s x R))
    as (GT & PT & WF).
  assert (C : rename (tree x) s = Done (tree (rename_node s x))).
  { apply rename_commutes.
    - destruct x; try discriminate R; cbn [rename_ok] in R.
      + apply andb_true_iff in R. destruct R as [R _].
        apply andb_true_iff in R. destruct R as [R _].
        apply andb_true_iff in R. destruct R as [_ R]. unfold new_name_ok in R.
        apply andb_true_iff in R. destruct R as [R _].
        apply andb_true_iff in R. destruct R as [R _].
        apply andb_true_iff in R. destruct R as [R _].
        apply andb_true_iff in R. destruct R as [R _]. apply str_eqb_eq. exact R.
      + apply andb_true_iff in R. destruct R as [R _].
        apply andb_true_iff in R. destruct R as [R _]. apply str_eqb_eq. exact R.
    - destruct x; try discriminate R; reflexivity. }
  split; [|split; [exact (WF W)|apply PP_parse_tokens; exact (WF W)]].
  unfold set_name. rewrite GT, C. cbn [obind]. unfold put_o, rename_docs. rewrite PT. reflexivity.
Qed.

(* assigning the string of a one-argument command or of an environment: when
   the assignment succeeds on the tree *)
Theorem reparse_restring_tokens ds p x s t' strict user :
  wf_seq (all_skip user) false CTop ds [] = true ->
  dn_get (Nr ds) p = Some (Nd x) -> restring_target x = true ->
  set_string (ERoot (map tree ds)) p s = Done t' ->
  t' = ERoot (map tree (restring_docs s p ds)) /\
  wf_seq (all_skip user) false CTop (restring_docs s p ds) [] = true /\
  parse_tokens (flat_list (restring_docs s p ds)) strict user = Ok t'.
Proof.
  intros W G R E.
  destruct (edit_generic (all_skip user) (restring_node s) ds p x G (restring_good _ s x R))
    as (GT & PT & WF).
  unfold set_string in E. rewrite GT in E.
  destruct (restring (tree x) s) as [h'| |] eqn:C; try discriminate E. cbn [obind] in E.
  rewrite (restring_commutes s x h' R C) in E. unfold put_o in E. rewrite PT in E.
  injection E as <-.
  split; [reflexivity|]. split; [exact (WF W)|apply PP_parse_tokens; exact (WF W)].
Qed.

(* for a one-argument command the assignment always succeeds *)
Lemma restring_cmd_succeeds s e n a :
  exists h', restring (tree (DCmd e n [a])) s = Done h'.
Proof. eexists. reflexivity. Qed.

(* selecting / reordering the argument groups of a command *)
Theorem reparse_reargs_tokens ds p x drop idxs strict user :
  wf_seq (all_skip user) false CTop ds [] = true ->
  dn_get (Nr ds) p = Some (Nd x) -> reargs_ok drop idxs x = true ->
  set_args (ERoot (map tree ds)) p idxs = Done (ERoot (map tree (reargs_docs drop idxs p ds))) /\
  wf_seq (all_skip user) false CTop (reargs_docs drop idxs p ds) [] = true /\
  parse_tokens (flat_list (reargs_docs drop idxs p ds)) strict user =
    Ok (ERoot (map tree (reargs_docs drop idxs p ds))).
Proof.
  intros W G R.
  destruct (edit_generic (all_skip user) (reargs_node drop idxs) ds p x G
                         (reargs_good _ drop idxs x R)) as (GT & PT & WF).
  split; [|split; [exact (WF W)|apply PP_parse_tokens; exact (WF W)]].
  unfold set_args. rewrite GT, (reargs_commutes drop idxs x R). cbn [obind].
  unfold put_o, reargs_docs. rewrite PT. reflexivity.
Qed.

(* ------------------------------------------------ Stage 1: non-vacuity *)

Definition s_zz : str := [122;122]%N.
Definition s_ff : str := [102;102]%N.
Definition s_yy : str := [121;121]%N.
Definition s_new : str := [110;101;119]%N.
Definition s_foo : str := [102;111;111]%N.
Definition s_section : str := [115;101;99;116;105;111;110]%N.
Definition s_equation : str := [101;113;117;97;116;105;111;110]%N.
Definition s_verbatim : str := [118;101;114;98;97;116;105;109]%N.

(* {\begin{e}x\a{y}\end{e}}z : a command in an environment in a group *)
Definition exA_src : str :=
  [123;92;98;101;103;105;110;123;101;125;120;92;97;123;121;125;92;101;110;100;123;101;125;125;122]%N.
Definition exA_toks : list token := fst (tokens_of_string exA_src).
Definition exA_doc : list doc :=
  let t i := nth i exA_toks tok0 in
  [ DGroup (t 0%nat)
      [ DEnv (t 1%nat) (t 2%nat) (Arg None GBrace (t 3%nat) [DLeaf (t 4%nat)] (t 5%nat)) []
          [ DLeaf (t 6%nat);
            DCmd (t 7%nat) (t 8%nat) [Arg None GBrace (t 9%nat) [DLeaf (t 10%nat)] (t 11%nat)] ]
          (t 12%nat) (t 13%nat) (Arg None GBrace (t 14%nat) [DLeaf (t 15%nat)] (t 16%nat)) ]
      (t 17%nat);
    DLeaf (t 18%nat) ].
Definition exA_cmd_path : path := [SBody 0; SBody 0; SBody 1]%nat.
Definition exA_env_path : path := [SBody 0; SBody 0]%nat.
(* {\begin{e}x\zz{y}\end{e}}z   {\begin{ff}x\a{y}\end{ff}}z *)
Definition exA_src_cmd : str :=
  [123;92;98;101;103;105;110;123;101;125;120;92;122;122;123;121;125;92;101;110;100;123;101;125;125;122]%N.
Definition exA_src_env : str :=
  [123;92;98;101;103;105;110;123;102;102;125;120;92;97;123;121;125;92;101;110;100;123;102;102;125;125;122]%N.

Example exA_is_tokenizer_output :
  tokens_of_string exA_src = (flat_list exA_doc, TEnd).
Proof. vm_compute. reflexivity. Qed.

Example exA_rename_cmd_hyps :
  wf_seq (all_skip []) false CTop exA_doc [] = true /\
  match dn_get (Nr exA_doc) exA_cmd_path with
  | Some (Nd x) => rename_ok (all_skip []) s_zz x = true
  | _ => False
  end.
Proof. split; vm_compute; reflexivity. Qed.

Example exA_rename_cmd_result :
  texts (flat_list (rename_docs s_zz exA_cmd_path exA_doc)) = exA_src_cmd /\
  set_name (ERoot (map tree exA_doc)) exA_cmd_path s_zz =
    Done (ERoot (map tree (rename_docs s_zz exA_cmd_path exA_doc))) /\
  parse_tokens (flat_list (rename_docs s_zz exA_cmd_path exA_doc)) true [] =
    Ok (ERoot (map tree (rename_docs s_zz exA_cmd_path exA_doc))).
Proof. repeat split; vm_compute; reflexivity. Qed.

Example exA_rename_env_hyps :
  match dn_get (Nr exA_doc) exA_env_path with
  | Some (Nd x) => rename_ok (all_skip []) s_ff x = true
  | _ => False
  end.
Proof. vm_compute. reflexivity. Qed.

Example exA_rename_env_result :
  texts (flat_list (rename_docs s_ff exA_env_path exA_doc)) = exA_src_env /\
  set_name (ERoot (map tree exA_doc)) exA_env_path s_ff =
    Done (ERoot (map tree (rename_docs s_ff exA_env_path exA_doc))) /\
  parse_tokens (flat_list (rename_docs s_ff exA_env_path exA_doc)) false [] =
    Ok (ERoot (map tree (rename_docs s_ff exA_env_path exA_doc))).
Proof. repeat split; vm_compute; reflexivity. Qed.

(* a\emph{x}b : node.string = "yy" *)
Definition exB_src : str := [97;92;101;109;112;104;123;120;125;98]%N.
Definition exB_toks : list token := fst (tokens_of_string exB_src).
Definition exB_doc : list doc :=
  let t i := nth i exB_toks tok0 in
  [ DLeaf (t 0%nat);
    DCmd (t 1%nat) (t 2%nat) [Arg None GBrace (t 3%nat) [DLeaf (t 4%nat)] (t 5%nat)];
    DLeaf (t 6%nat) ].
Definition exB_path : path := [SBody 1%nat].
Definition exB_src_new : str := [97;92;101;109;112;104;123;121;121;125;98]%N.

Example exB_restring_hyps :
  tokens_of_string exB_src = (flat_list exB_doc, TEnd) /\
  wf_seq (all_skip []) false CTop exB_doc [] = true /\
  match dn_get (Nr exB_doc) exB_path with
  | Some (Nd x) => restring_target x = true
  | _ => False
  end /\
  set_string (ERoot (map tree exB_doc)) exB_path s_yy =
    Done (ERoot (map tree (restring_docs s_yy exB_path exB_doc))).
Proof. repeat split; vm_compute; reflexivity. Qed.

Example exB_restring_result :
  texts (flat_list (restring_docs s_yy exB_path exB_doc)) = exB_src_new /\
  parse_tokens (flat_list (restring_docs s_yy exB_path exB_doc)) true [] =
    Ok (ERoot (map tree (restring_docs s_yy exB_path exB_doc))).
Proof. repeat split; vm_compute; reflexivity. Qed.

(* \begin{e}x\end{e}w : node.string = "new" on a text-only environment *)
Definition exD_src : str := [92;98;101;103;105;110;123;101;125;120;92;101;110;100;123;101;125;119]%N.
Definition exD_toks : list token := fst (tokens_of_string exD_src).
Definition exD_doc : list doc :=
  let t i := nth i exD_toks tok0 in
  [ DEnv (t 0%nat) (t 1%nat) (Arg None GBrace (t 2%nat) [DLeaf (t 3%nat)] (t 4%nat)) []
      [ DLeaf (t 5%nat) ]
      (t 6%nat) (t 7%nat) (Arg None GBrace (t 8%nat) [DLeaf (t 9%nat)] (t 10%nat));
    DLeaf (t 11%nat) ].
Definition exD_path : path := [SBody 0%nat].
Definition exD_src_new : str :=
  [92;98;101;103;105;110;123;101;125;110;101;119;92;101;110;100;123;101;125;119]%N.

Example exD_restring_hyps :
  tokens_of_string exD_src = (flat_list exD_doc, TEnd) /\
  wf_seq (all_skip []) false CTop exD_doc [] = true /\
  match dn_get (Nr exD_doc) exD_path with
  | Some (Nd x) => restring_target x = true
  | _ => False
  end /\
  set_string (ERoot (map tree exD_doc)) exD_path s_new =
    Done (ERoot (map tree (restring_docs s_new exD_path exD_doc))).
Proof. repeat split; vm_compute; reflexivity. Qed.

Example exD_restring_result :
  texts (flat_list (restring_docs s_new exD_path exD_doc)) = exD_src_new /\
  parse_tokens (flat_list (restring_docs s_new exD_path exD_doc)) true [] =
    Ok (ERoot (map tree (restring_docs s_new exD_path exD_doc))).
Proof. repeat split; vm_compute; reflexivity. Qed.

(* \a{x}{y}z : node.args = [args[1], args[0]] *)
Definition exC_src : str := [92;97;123;120;125;123;121;125;122]%N.
Definition exC_toks : list token := fst (tokens_of_string exC_src).
Definition exC_doc : list doc :=
  let t i := nth i exC_toks tok0 in
  [ DCmd (t 0%nat) (t 1%nat)
      [ Arg None GBrace (t 2%nat) [DLeaf (t 3%nat)] (t 4%nat);
        Arg None GBrace (t 5%nat) [DLeaf (t 6%nat)] (t 7%nat) ];
    DLeaf (t 8%nat) ].
Definition exC_path : path := [SBody 0%nat].
Definition exC_src_new : str := [92;97;123;121;125;123;120;125;122]%N.

Example exC_reargs_hyps :
  tokens_of_string exC_src = (flat_list exC_doc, TEnd) /\
  wf_seq (all_skip []) false CTop exC_doc [] = true /\
  match dn_get (Nr exC_doc) exC_path with
  | Some (Nd x) => reargs_ok false [1; 0]%nat x = true /\ reargs_ok true [1]%nat x = true
  | _ => False
  end.
Proof. repeat split; vm_compute; reflexivity. Qed.

Example exC_reargs_result :
  texts (flat_list (reargs_docs false [1; 0]%nat exC_path exC_doc)) = exC_src_new /\
  set_args (ERoot (map tree exC_doc)) exC_path [1; 0]%nat =
    Done (ERoot (map tree (reargs_docs false [1; 0]%nat exC_path exC_doc))) /\
  parse_tokens (flat_list (reargs_docs false [1; 0]%nat exC_path exC_doc)) true [] =
    Ok (ERoot (map tree (reargs_docs false [1; 0]%nat exC_path exC_doc))).
Proof. repeat split; vm_compute; reflexivity. Qed.

(* ------------------------------------------- the conditions are forced *)

(* "the re-parsed text shows a different tree": the re-parse succeeds and
   prints the same, but its root has another number of children *)
Definition reparse_other_arity (t' : expr) : Prop :=
  exists t'', parse (estr t') true [] = Ok t'' /\ estr t'' = estr t' /\
              length (body_of t'') <> length (body_of t').

(* \section{a}{b} -> \foo{a}{b}: section (signature 1 required, 1 optional)
   takes one brace group, foo (no signature) takes both *)
Definition badS_src : str := [92;115;101;99;116;105;111;110;123;97;125;123;98;125]%N.
Definition badS_doc : list doc :=
  let t i := nth i (fst (tokens_of_string badS_src)) tok0 in
  [ DCmd (t 0%nat) (t 1%nat) [Arg None GBrace (t 2%nat) [DLeaf (t 3%nat)] (t 4%nat)];
    DGroup (t 5%nat) [DLeaf (t 6%nat)] (t 7%nat) ].

Theorem rename_to_free_signature_refuted :
  exists ds p s t',
    tokens_of_string badS_src = (flat_list ds, TEnd) /\
    wf_seq (all_skip []) false CTop ds [] = true /\ new_name_ok s = true /\
    set_name (ERoot (map tree ds)) p s = Done t' /\ reparse_other_arity t'.
Proof.
  exists badS_doc, [SBody 0%nat], s_foo. eexists.
  split; [vm_compute; reflexivity|]. split; [vm_compute; reflexivity|].
  split; [vm_compute; reflexivity|]. split; [vm_compute; reflexivity|].
  eexists. split; [vm_compute; reflexivity|]. split; [vm_compute; reflexivity|].
  vm_compute. discriminate.
Qed.

(* \foo{a}{b} -> \section{a}{b}: the other way round *)
Definition badF_src : str := [92;102;111;111;123;97;125;123;98;125]%N.
Definition badF_doc : list doc :=
  let t i := nth i (fst (tokens_of_string badF_src)) tok0 in
  [ DCmd (t 0%nat) (t 1%nat)
      [ Arg None GBrace (t 2%nat) [DLeaf (t 3%nat)] (t 4%nat);
        Arg None GBrace (t 5%nat) [DLeaf (t 6%nat)] (t 7%nat) ] ].

Theorem rename_to_fixed_signature_refuted :
  exists ds p s t',
    tokens_of_string badF_src = (flat_list ds, TEnd) /\
    wf_seq (all_skip []) false CTop ds [] = true /\ new_name_ok s = true /\
    set_name (ERoot (map tree ds)) p s = Done t' /\ reparse_other_arity t'.
Proof.
  exists badF_doc, [SBody 0%nat], s_section. eexists.
  split; [vm_compute; reflexivity|]. split; [vm_compute; reflexivity|].
  split; [vm_compute; reflexivity|]. split; [vm_compute; reflexivity|].
  eexists. split; [vm_compute; reflexivity|]. split; [vm_compute; reflexivity|].
  vm_compute. discriminate.
Qed.

(* \begin{e}\item x\end{e} -> \begin{equation}...: the body is now read in
   math mode, where \item is an AssertionError *)
Definition badM_src : str :=
  [92;98;101;103;105;110;123;101;125;92;105;116;101;109;32;120;92;101;110;100;123;101;125]%N.
Definition badM_doc : list doc :=
  let t i := nth i (fst (tokens_of_string badM_src)) tok0 in
  [ DEnv (t 0%nat) (t 1%nat) (Arg None GBrace (t 2%nat) [DLeaf (t 3%nat)] (t 4%nat)) []
      [ DItem (t 5%nat) (t 6%nat) [] [DLeaf (t 7%nat)] ]
      (t 8%nat) (t 9%nat) (Arg None GBrace (t 10%nat) [DLeaf (t 11%nat)] (t 12%nat)) ].

Theorem rename_to_math_env_refuted :
  exists ds p s t',
    tokens_of_string badM_src = (flat_list ds, TEnd) /\
    wf_seq (all_skip []) false CTop ds [] = true /\
    strip s = s /\ mem_str s (all_skip []) = false /\
    set_name (ERoot (map tree ds)) p s = Done t' /\
    parse (estr t') true [] = Err AssertionError.
Proof.
  exists badM_doc, [SBody 0%nat], s_equation. eexists.
  repeat split; vm_compute; reflexivity.
Qed.

(* \begin{e}x\end{e} -> \begin{verbatim}...: the body is now read verbatim *)
Definition badV_src : str := [92;98;101;103;105;110;123;101;125;120;92;101;110;100;123;101;125]%N.
Definition badV_doc : list doc :=
  let t i := nth i (fst (tokens_of_string badV_src)) tok0 in
  [ DEnv (t 0%nat) (t 1%nat) (Arg None GBrace (t 2%nat) [DLeaf (t 3%nat)] (t 4%nat)) []
      [ DLeaf (t 5%nat) ]
      (t 6%nat) (t 7%nat) (Arg None GBrace (t 8%nat) [DLeaf (t 9%nat)] (t 10%nat)) ].

Definition first_child_is_raw (t : expr) : bool :=
  match body_of t with
  | ENamed _ _ [ERaw _ _] _ :: _ => true
  | _ => false
  end.

Theorem rename_to_skip_env_refuted :
  exists ds p s t' t'',
    tokens_of_string badV_src = (flat_list ds, TEnd) /\
    wf_seq (all_skip []) false CTop ds [] = true /\
    strip s = s /\
    mem_str s Tables.math_env_names = false /\
    set_name (ERoot (map tree ds)) p s = Done t' /\
    parse (estr t') true [] = Ok t'' /\
    first_child_is_raw t' = false /\ first_child_is_raw t'' = true.
Proof.
  exists badV_doc, [SBody 0%nat], s_verbatim. do 2 eexists.
  repeat split; vm_compute; reflexivity.
Qed.

(* \a[w]{x}[y]{z} with the arguments rotated to {x}[y]{z}[w]: a fifth run,
   which read_args does not read (cmd_shape fails) *)
Definition badP_src : str := [92;97;91;119;93;123;120;125;91;121;93;123;122;125]%N.
Definition badP_doc : list doc :=
  let t i := nth i (fst (tokens_of_string badP_src)) tok0 in
  [ DCmd (t 0%nat) (t 1%nat)
      [ Arg None GBracket (t 2%nat) [DLeaf (t 3%nat)] (t 4%nat);
        Arg None GBrace (t 5%nat) [DLeaf (t 6%nat)] (t 7%nat);
        Arg None GBracket (t 8%nat) [DLeaf (t 9%nat)] (t 10%nat);
        Arg None GBrace (t 11%nat) [DLeaf (t 12%nat)] (t 13%nat) ] ].

Theorem reargs_shape_refuted :
  exists ds p idxs t',
    tokens_of_string badP_src = (flat_list ds, TEnd) /\
    wf_seq (all_skip []) false CTop ds [] = true /\ nodup_nat idxs = true /\
    set_args (ERoot (map tree ds)) p idxs = Done t' /\ reparse_other_arity t'.
Proof.
  exists badP_doc, [SBody 0%nat], [1; 2; 3; 0]%nat. eexists.
  split; [vm_compute; reflexivity|]. split; [vm_compute; reflexivity|].
  split; [vm_compute; reflexivity|]. split; [vm_compute; reflexivity|].
  eexists. split; [vm_compute; reflexivity|]. split; [vm_compute; reflexivity|].
  vm_compute. discriminate.
Qed.

(* \a[y]{x} [z] with the two arguments swapped: \a{x}[y] [z] - the bracket
   run is now the last one read, and it goes on through the spacer (the
   follow condition of the new argument list fails) *)
Definition badQ_src : str := [92;97;91;121;93;123;120;125;32;91;122;93]%N.
Definition badQ_doc : list doc :=
  let t i := nth i (fst (tokens_of_string badQ_src)) tok0 in
  [ DCmd (t 0%nat) (t 1%nat)
      [ Arg None GBracket (t 2%nat) [DLeaf (t 3%nat)] (t 4%nat);
        Arg None GBrace (t 5%nat) [DLeaf (t 6%nat)] (t 7%nat) ];
    DLeaf (t 8%nat); DLeaf (t 9%nat); DLeaf (t 10%nat); DLeaf (t 11%nat) ].

Theorem reargs_follow_refuted :
  exists ds p idxs t',
    tokens_of_string badQ_src = (flat_list ds, TEnd) /\
    wf_seq (all_skip []) false CTop ds [] = true /\ nodup_nat idxs = true /\
    (match dn_get (Nr ds) p with
     | Some (Nd (DCmd _ n args)) =>
       match pick_args false idxs args with
       | Some a' => cmd_shape (signature_of (ttext n)) a'
       | None => false
       end
     | _ => false
     end = true) /\
    set_args (ERoot (map tree ds)) p idxs = Done t' /\
    parse_tokens (flat_list (reargs_docs false idxs p ds)) true [] <> Ok t'.
Proof.
  exists badQ_doc, [SBody 0%nat], [1; 0]%nat. eexists.
  split; [vm_compute; reflexivity|]. split; [vm_compute; reflexivity|].
  split; [vm_compute; reflexivity|]. split; [vm_compute; reflexivity|].
  split; [vm_compute; reflexivity|]. vm_compute. discriminate.
Qed.

(* ====================================================================== *)
(* Part E: Stage 2 - the edited tokens ARE the new text                    *)
(* ====================================================================== *)

From TexProofs Require TokInverse FixedPoint.

Lemma texts_TI l : TokInverse.texts l = texts l.
Proof. reflexivity. Qed.

(* the assembly: a well-formed, printable document whose tokens are shaped
   as the tokenizer shapes them and follow each other as the tokenizer lets
   them.  Its tree prints as its tokens; that text tokenizes back to those
   tokens (positions recomputed); parsing the text gives the tree up to the
   recorded positions. *)
Theorem reparse_string_generic ds strict user :
  wf_seq (all_skip user) false CTop ds [] = true ->
  forallb printable ds = true -> Forall tok_wf (flat_list ds) ->
  Forall (fun t => TokInverse.shape t = true) (flat_list ds) ->
  TokInverse.follows_ok (flat_list ds) = true -> TokInverse.first_ok (flat_list ds) = true ->
  estr (ERoot (map tree ds)) = texts (flat_list ds) /\
  tokens_of_string (estr (ERoot (map tree ds))) = (TokInverse.repos 0 (flat_list ds), TEnd) /\
  exists t'', parse (estr (ERoot (map tree ds))) strict user = Ok t'' /\
              FixedPoint.expr_pos_sim (ERoot (map tree ds)) t''.
Proof.
  intros W P T Sh Fo Fi.
  pose proof (estr_tree_list (all_skip user) false CTop ds [] W P T) as E.
  pose proof (TokInverse.tokinv (flat_list ds) Sh Fo Fi) as TK. rewrite texts_TI in TK.
  split; [exact E|]. rewrite E. split; [exact TK|].
  unfold parse. rewrite TK.
  pose proof (FixedPoint.parse_tokens_pos_sim _ _ strict user
                (FixedPoint.repos_pos_sim (flat_list ds) 0%Z)) as S.
  rewrite (PP_parse_tokens ds strict user W) in S.
  destruct (parse_tokens (TokInverse.repos 0 (flat_list ds)) strict user) as [t''|er];
    [|contradiction].
  exists t''. split; [reflexivity|].
  (* symmetry of expr_pos_sim through ze *)
  apply FixedPoint.ze_eq_sim. symmetry. apply FixedPoint.sim_ze_eq. exact S.
Qed.

(* the lexical conditions on the edited token list, as one decidable test *)
Definition lex_ok (toks : list token) : bool :=
  forallb tok_wfb toks && forallb TokInverse.shape toks &&
  TokInverse.follows_ok toks && TokInverse.first_ok toks.

Lemma lex_ok_parts toks : lex_ok toks = true ->
  Forall tok_wf toks /\ Forall (fun t => TokInverse.shape t = true) toks /\
  TokInverse.follows_ok toks = true /\ TokInverse.first_ok toks = true.
Proof.
  unfold lex_ok. intro H.
  apply andb_true_iff in H. destruct H as [H H4].
  apply andb_true_iff in H. destruct H as [H H3].
  apply andb_true_iff in H. destruct H as [H1 H2].
  split; [apply tok_wfb_all; exact H1|]. split; [|auto].
  apply Forall_forall. rewrite forallb_forall in H2. exact H2.
Qed.

(* C14, re-parse clause, string level: the three edits *)
Theorem reparse_rename_string ds p x s strict user :
  wf_seq (all_skip user) false CTop ds [] = true ->
  dn_get (Nr ds) p = Some (Nd x) -> rename_ok (all_skip user) s x = true ->
  forallb printable (rename_docs s p ds) = true ->
  lex_ok (flat_list (rename_docs s p ds)) = true ->
  exists t', set_name (ERoot (map tree ds)) p s = Done t' /\
    estr t' = texts (flat_list (rename_docs s p ds)) /\
    exists t'', parse (estr t') strict user = Ok t'' /\ FixedPoint.expr_pos_sim t' t''.
Proof.
  intros W G R P L.
  destruct (reparse_rename_tokens ds p x s strict user W G R) as (E & W' & _).
  destruct (lex_ok_parts _ L) as (T & Sh & Fo & Fi).
  destruct (reparse_string_generic _ strict user W' P T Sh Fo Fi) as (E1 & _ & E3).
  exists (ERoot (map tree (rename_docs s p ds))). auto.
Qed.

Theorem reparse_restring_string ds p x s t' strict user :
  wf_seq (all_skip user) false CTop ds [] = true ->
  dn_get (Nr ds) p = Some (Nd x) -> restring_target x = true ->
  set_string (ERoot (map tree ds)) p s = Done t' ->
  forallb printable (restring_docs s p ds) = true ->
  lex_ok (flat_list (restring_docs s p ds)) = true ->
  estr t' = texts (flat_list (restring_docs s p ds)) /\
  exists t'', parse (estr t') strict user = Ok t'' /\ FixedPoint.expr_pos_sim t' t''.
Proof.
  intros W G R E P L.
  destruct (reparse_restring_tokens ds p x s t' strict user W G R E) as (-> & W' & _).
  destruct (lex_ok_parts _ L) as (T & Sh & Fo & Fi).
  destruct (reparse_string_generic _ strict user W' P T Sh Fo Fi) as (E1 & _ & E3). auto.
Qed.

Theorem reparse_reargs_string ds p x drop idxs strict user :
  wf_seq (all_skip user) false CTop ds [] = true ->
  dn_get (Nr ds) p = Some (Nd x) -> reargs_ok drop idxs x = true ->
  forallb printable (reargs_docs drop idxs p ds) = true ->
  lex_ok (flat_list (reargs_docs drop idxs p ds)) = true ->
  exists t', set_args (ERoot (map tree ds)) p idxs = Done t' /\
    estr t' = texts (flat_list (reargs_docs drop idxs p ds)) /\
    exists t'', parse (estr t') strict user = Ok t'' /\ FixedPoint.expr_pos_sim t' t''.
Proof.
  intros W G R P L.
  destruct (reparse_reargs_tokens ds p x drop idxs strict user W G R) as (E & W' & _).
  destruct (lex_ok_parts _ L) as (T & Sh & Fo & Fi).
  destruct (reparse_string_generic _ strict user W' P T Sh Fo Fi) as (E1 & _ & E3).
  exists (ERoot (map tree (reargs_docs drop idxs p ds))). auto.
Qed.

Example exA_rename_cmd_string_hyps :
  forallb printable (rename_docs s_zz exA_cmd_path exA_doc) = true /\
  lex_ok (flat_list (rename_docs s_zz exA_cmd_path exA_doc)) = true /\
  forallb printable (rename_docs s_ff exA_env_path exA_doc) = true /\
  lex_ok (flat_list (rename_docs s_ff exA_env_path exA_doc)) = true.
Proof. repeat split; vm_compute; reflexivity. Qed.
Example exB_restring_string_hyps :
  forallb printable (restring_docs s_yy exB_path exB_doc) = true /\
  lex_ok (flat_list (restring_docs s_yy exB_path exB_doc)) = true /\
  forallb printable (restring_docs s_new exD_path exD_doc) = true /\
  lex_ok (flat_list (restring_docs s_new exD_path exD_doc)) = true.
Proof. repeat split; vm_compute; reflexivity. Qed.
Example exC_reargs_string_hyps :
  forallb printable (reargs_docs false [1; 0]%nat exC_path exC_doc) = true /\
  lex_ok (flat_list (reargs_docs false [1; 0]%nat exC_path exC_doc)) = true.
Proof. repeat split; vm_compute; reflexivity. Qed.

(* ====================================================================== *)
(* Part F: Stage 3 - a rename is visible to subsequent searches            *)
(* ====================================================================== *)

From Coq Require Import Permutation.
From TexModel Require Views.
From TexProofs Require ViewsProofs EditProofs.

Definition ends_in_body (p : path) : bool :=
  match rev p with SBody _ :: _ => true | _ => false end.

Lemma ends_in_body_cons s p : p <> [] -> ends_in_body (s :: p) = ends_in_body p.
Proof.
  intro H. unfold ends_in_body. cbn [rev].
  destruct (rev p) as [|x r] eqn:E.
  - exfalso. apply H. apply (f_equal (@rev step)) in E. rewrite rev_involutive in E. exact E.
  - reflexivity.
Qed.

Lemma in_walk_item x l : Views.is_env_or_cmd x = true -> In x l ->
  forall y, (y = x \/ In y (Views.walk x)) -> In y (flat_map ViewsProofs.walk_item l).
Proof.
  intros Hx Hin y Hy. apply in_flat_map. exists x. split; [exact Hin|].
  destruct x; try discriminate Hx; cbn [ViewsProofs.walk_item Views.is_blank];
    (destruct Hy as [->|Hy]; [left; reflexivity | right; exact Hy]).
Qed.

(* a node (command / environment / group) at a raw path that ends with a
   content step is one of the nodes the search walks over *)
Lemma get_in_walk : forall p root x,
  get root p = Some x -> ends_in_body p = true -> Views.is_env_or_cmd x = true ->
  In x (Views.walk root).
Proof.
  induction p as [|s p IH]; intros root x G E Hx; [discriminate E|].
  cbn [get] in G. destruct (child root s) as [c|] eqn:C; [|discriminate G].
  destruct p as [|s' p'].
  - (* last step *)
    cbn in G. injection G as ->. destruct s as [j|i]; [discriminate E|].
    cbn [child] in C. apply nth_error_In in C. rewrite ViewsProofs.walk_eq.
    destruct root; cbn [body_of] in C; try (destruct C; fail);
      try apply in_or_app; try right;
      apply (in_walk_item x _ Hx C); left; reflexivity.
  - assert (Hc : In x (Views.walk c)).
    { apply IH; [exact G | | exact Hx].
      rewrite <- E. symmetry. apply ends_in_body_cons. discriminate. }
    assert (Nc : Views.is_env_or_cmd c = true).
    { destruct c; try reflexivity; cbn [get] in G; destruct s'; cbn in G;
        rewrite ?nth_error_nil in G; try discriminate G;
        destruct i; discriminate G. }
    rewrite ViewsProofs.walk_eq. destruct s as [j|i]; cbn [child] in C; apply nth_error_In in C.
    + destruct root; cbn [args_of] in C; try (destruct C; fail);
        apply in_or_app; left; apply in_flat_map; exists c; split; assumption.
    + destruct root; cbn [body_of] in C; try (destruct C; fail);
        try apply in_or_app; try right;
        apply (in_walk_item c _ Nc C); right; exact Hc.
Qed.

(* after node.name = s at path np (a command or a named environment, reached
   through a content list): searching for s finds the renamed node, and a
   search for any other name does not return it *)
Theorem rename_visible root np h s root' :
  get root np = Some h -> ends_in_body np = true ->
  set_name root np s = Done root' -> Views.ident_query s = true ->
  exists h', rename h s = Done h' /\ get root' np = Some h' /\ Views.expr_name h' = s /\
    In h' (map snd (Views.find_all (Views.QName s) ([], root'))) /\
    forall q, Views.ident_query q = true -> q <> s ->
              ~ In h' (map snd (Views.find_all (Views.QName q) ([], root'))).
Proof.
  intros G E S Hs. unfold set_name in S. rewrite G in S.
  destruct (rename h s) as [h'| |] eqn:R; try discriminate S. cbn [obind] in S.
  unfold put_o in S. destruct (put root np h') as [r|] eqn:P; [|discriminate S].
  injection S as ->. exists h'. split; [reflexivity|].
  pose proof (EditProofs.get_put_same np root h h' root' G P) as G'.
  assert (Nm : Views.expr_name h' = s /\ Views.is_env_or_cmd h' = true).
  { destruct h; try discriminate R; cbn in R; injection R as <-; split; reflexivity. }
  destruct Nm as [Nm Nd'].
  split; [exact G'|]. split; [exact Nm|].
  pose proof (get_in_walk np root' h' G' E Nd') as W.
  pose proof (ViewsProofs.descendants_complete ([], root')) as Pm. cbn [snd] in Pm.
  apply (Permutation_in _ (Permutation_sym Pm)) in W.
  apply in_map_iff in W. destruct W as (it & Hit & Hin).
  split.
  - apply in_map_iff. exists it. split; [exact Hit|].
    rewrite (ViewsProofs.find_all_spec_partial s _ Hs). apply filter_In. split; [exact Hin|].
    rewrite Hit, Nd', Nm, str_eqb_refl. reflexivity.
  - intros q Hq Hne Hc. apply in_map_iff in Hc. destruct Hc as (it' & Hit' & Hin').
    rewrite (ViewsProofs.find_all_spec_partial q _ Hq) in Hin'. apply filter_In in Hin'.
    destruct Hin' as [_ Hm]. rewrite Hit', Nm in Hm.
    apply andb_true_iff in Hm. destruct Hm as [_ Hm]. apply str_eqb_eq in Hm. congruence.
Qed.

Example exA_rename_visible_hyps :
  ends_in_body exA_cmd_path = true /\ ends_in_body exA_env_path = true /\
  Views.ident_query s_zz = true /\ Views.ident_query s_ff = true /\
  (exists h, get (ERoot (map tree exA_doc)) exA_cmd_path = Some h) /\
  match set_name (ERoot (map tree exA_doc)) exA_cmd_path s_zz with
  | Done r => map fst (Views.find_all (Views.QName s_zz) ([], r)) = [[0; 0; 1]]%nat /\
              Views.find_all (Views.QName [97]%N) ([], r) = []
  | _ => False
  end.
Proof.
  split; [reflexivity|]. split; [reflexivity|]. split; [reflexivity|]. split; [reflexivity|].
  split; [eexists; vm_compute; reflexivity|]. vm_compute. split; reflexivity.
Qed.

(* ====================================================================== *)
(* Part G: Stage 2, sufficient conditions in terms of the OLD token list   *)
(* ====================================================================== *)

Definition flat_dn (n : dn) : list token :=
  match n with Nd d => flat d | Na a => flat_arg a | Nr ds => flat_list ds end.

Lemma flat_list_app a b : flat_list (a ++ b) = flat_list a ++ flat_list b.
Proof. unfold flat_list. rewrite map_app, concat_app. reflexivity. Qed.

Lemma nth_split {A} : forall (l : list A) i x,
  nth_error l i = Some x -> l = firstn i l ++ x :: skipn (S i) l.
Proof.
  induction l as [|a l IH]; intros [|i] x H; try discriminate H; cbn in H.
  - injection H as ->. reflexivity.
  - cbn [firstn skipn app]. f_equal. exact (IH i x H).
Qed.

Lemma flat_list_subst ds i y :
  nth_error ds i = Some y ->
  exists pre post, flat_list ds = pre ++ flat y ++ post /\
    forall y', flat_list (subst_nth i y' ds) = pre ++ flat y' ++ post.
Proof.
  intro E. exists (flat_list (firstn i ds)), (flat_list (skipn (S i) ds)). split.
  - rewrite (nth_split ds i y E) at 1. rewrite flat_list_app, flat_list_cons. reflexivity.
  - intro y'. unfold subst_nth. rewrite flat_list_app, flat_list_cons. reflexivity.
Qed.

Lemma flat_args_subst args j a :
  nth_error args j = Some a ->
  exists pre post, flat_args args = pre ++ flat_arg a ++ post /\
    forall a', flat_args (subst_nth j a' args) = pre ++ flat_arg a' ++ post.
Proof.
  intro E. exists (flat_args (firstn j args)), (flat_args (skipn (S j) args)). split.
  - rewrite (nth_split args j a E) at 1. rewrite flat_args_app, flat_args_cons. reflexivity.
  - intro a'. unfold subst_nth. rewrite flat_args_app, flat_args_cons. reflexivity.
Qed.

(* one step: the tokens of a node are  pre ++ tokens of the child ++ post,
   and replacing the child replaces exactly that segment *)
Ltac fin := cbn [app]; rewrite <- ?app_assoc; cbn [app]; rewrite <- ?app_assoc; reflexivity.

Lemma flat_step n s c :
  dn_child n s = Some c ->
  exists pre post, flat_dn n = pre ++ flat_dn c ++ post /\
    forall c', same_sort c c' -> flat_dn (dn_set_child n s c') = pre ++ flat_dn c' ++ post.
Proof.
  destruct s as [j|i]; cbn [dn_child]; intro E.
  - destruct (nth_error (dn_args n) j) as [a|] eqn:En; [|discriminate E]. injection E as <-.
    destruct (flat_args_subst _ _ _ En) as (pre & post & F1 & F2).
    destruct n as [[t|o b c0|e nm args|k o b c0|e b ng xa body e2 en ng2|e nm args body]|[]|];
      cbn [dn_args] in En, F1, F2; try (destruct j; discriminate En).
    + exists (e :: nm :: pre), post. split.
      * cbn [flat_dn]. rewrite flat_cmd, F1. fin.
      * intros [|a'|] S; try contradiction. cbn [dn_set_child dn_args dn_set_args flat_dn].
        rewrite flat_cmd, F2. fin.
    + exists (e :: b :: flat_arg ng ++ pre),
             (post ++ flat_list body ++ e2 :: en :: flat_arg ng2). split.
      * cbn [flat_dn]. rewrite flat_env, flat_args_cons, F1. fin.
      * intros [|a'|] S; try contradiction. cbn [dn_set_child dn_args dn_set_args flat_dn].
        rewrite flat_env, flat_args_cons, F2. fin.
    + exists (e :: nm :: pre), (post ++ flat_list body). split.
      * cbn [flat_dn]. rewrite flat_item, F1. fin.
      * intros [|a'|] S; try contradiction. cbn [dn_set_child dn_args dn_set_args flat_dn].
        rewrite flat_item, F2. fin.
  - destruct (nth_error (dn_body n) i) as [d|] eqn:En; [|discriminate E]. injection E as <-.
    destruct (flat_list_subst _ _ _ En) as (pre & post & F1 & F2).
    destruct n as [[t|o b c0|e nm args|k o b c0|e b ng xa body e2 en ng2|e nm args body]
                  |[sp k o b c0]|ds];
      cbn [dn_body] in En, F1, F2; try (destruct i; discriminate En).
    + exists (o :: pre), (post ++ [c0]). split.
      * cbn [flat_dn]. rewrite flat_group, F1. fin.
      * intros [d'| |] S; try contradiction. cbn [dn_set_child dn_body dn_set_body flat_dn].
        rewrite flat_group, F2. fin.
    + exists (o :: pre), (post ++ [c0]). split.
      * cbn [flat_dn]. rewrite flat_math, F1. fin.
      * intros [d'| |] S; try contradiction. cbn [dn_set_child dn_body dn_set_body flat_dn].
        rewrite flat_math, F2. fin.
    + exists (e :: b :: flat_args (ng :: xa) ++ pre), (post ++ e2 :: en :: flat_arg ng2). split.
      * cbn [flat_dn]. rewrite flat_env, F1. fin.
      * intros [d'| |] S; try contradiction. cbn [dn_set_child dn_body dn_set_body flat_dn].
        rewrite flat_env, F2. fin.
    + exists (e :: nm :: flat_args args ++ pre), post. split.
      * cbn [flat_dn]. rewrite flat_item, F1. fin.
      * intros [d'| |] S; try contradiction. cbn [dn_set_child dn_body dn_set_body flat_dn].
        rewrite flat_item, F2. fin.
    + exists (opt_tok sp ++ o :: pre), (post ++ [c0]). split.
      * cbn [flat_dn]. rewrite flat_arg_eq, F1. fin.
      * intros [d'| |] S; try contradiction. cbn [dn_set_child dn_body dn_set_body flat_dn].
        rewrite flat_arg_eq, F2. fin.
    + exists pre, post. split; [exact F1|].
      intros [d'| |] S; try contradiction. cbn [dn_set_child dn_body dn_set_body flat_dn].
      apply F2.
Qed.

Lemma put_sort p n x x' n' :
  dn_get n p = Some x -> same_sort x x' -> dn_put n p x' = Some n' -> same_sort n n'.
Proof.
  intros G S P. destruct (put_tree p n x x' G S) as (n'' & P' & S' & _).
  rewrite P in P'. injection P' as ->. exact S'.
Qed.

(* token-level locality of an edit at a path *)
Lemma flat_ctx : forall p n x,
  dn_get n p = Some x ->
  exists pre post, flat_dn n = pre ++ flat_dn x ++ post /\
    forall x' n', same_sort x x' -> dn_put n p x' = Some n' ->
                  flat_dn n' = pre ++ flat_dn x' ++ post.
Proof.
  induction p as [|s p IH]; intros n x G.
  - cbn in G. injection G as <-. exists [], []. split; [rewrite app_nil_r; reflexivity|].
    intros x' n' _ P. cbn in P. injection P as <-. rewrite app_nil_r. reflexivity.
  - cbn [dn_get] in G. destruct (dn_child n s) as [c|] eqn:E; [|discriminate G].
    destruct (IH c x G) as (pre1 & post1 & F1 & F1').
    destruct (flat_step n s c E) as (pre0 & post0 & F0 & F0').
    exists (pre0 ++ pre1), (post1 ++ post0). split.
    + rewrite F0, F1, <- !app_assoc. reflexivity.
    + intros x' n' S P. cbn [dn_put] in P. rewrite E in P.
      destruct (dn_put c p x') as [c'|] eqn:Pc; [|discriminate P]. injection P as <-.
      rewrite (F0' c' (put_sort p c x x' c' G S Pc)), (F1' x' c' S Pc), <- !app_assoc.
      reflexivity.
Qed.

Theorem edit_tokens_local f ds p x :
  dn_get (Nr ds) p = Some (Nd x) ->
  exists pre post, flat_list ds = pre ++ flat x ++ post /\
                   flat_list (edit_docs f p ds) = pre ++ flat (f x) ++ post.
Proof.
  intro G. destruct (flat_ctx p (Nr ds) (Nd x) G) as (pre & post & F & F').
  exists pre, post. split; [exact F|].
  destruct (put_tree p (Nr ds) (Nd x) (Nd (f x)) G I) as (n' & P & S & _).
  destruct n' as [| |ds']; try contradiction.
  unfold edit_docs. rewrite G, P. exact (F' (Nd (f x)) (Nr ds') I P).
Qed.

(* ------------------------------------------------- printable, in context *)

Definition dn_printable (n : dn) : bool :=
  match n with
  | Nd d => printable d
  | Na a => printable_arg a
  | Nr ds => forallb printable ds
  end.

Lemma printable_step n s c :
  dn_printable n = true -> dn_child n s = Some c ->
  dn_printable c = true /\
  forall c', same_sort c c' -> dn_printable c' = true ->
             dn_printable (dn_set_child n s c') = true.
Proof.
  destruct s as [j|i]; cbn [dn_child]; intros P E.
  - destruct (nth_error (dn_args n) j) as [a|] eqn:En; [|discriminate E]. injection E as <-.
    destruct n as [[t|o b c0|e nm args|k o b c0|e b ng xa body e2 en ng2|e nm args body]|[]|];
      cbn [dn_args] in En; try (destruct j; discriminate En);
      cbn [dn_printable printable] in P.
    + apply andb_true_iff in P. destruct P as [P1 P2].
      split; [exact (forallb_nth _ _ _ _ P2 En)|].
      intros [|a'|] S Pa; try contradiction.
      cbn [dn_set_child dn_args dn_set_args dn_printable printable].
      rewrite P1, (forallb_subst_nth _ _ j a' P2 Pa). reflexivity.
    + apply andb_true_iff in P. destruct P as [P P5].
      apply andb_true_iff in P. destruct P as [P P4].
      apply andb_true_iff in P. destruct P as [P P3].
      apply andb_true_iff in P. destruct P as [P1 P2].
      split; [exact (forallb_nth _ _ _ _ P2 En)|].
      intros [|a'|] S Pa; try contradiction.
      cbn [dn_set_child dn_args dn_set_args dn_printable printable].
      rewrite P1, P3, P4, P5, (forallb_subst_nth _ _ j a' P2 Pa). reflexivity.
    + apply andb_true_iff in P. destruct P as [P1 P2].
      split; [exact (forallb_nth _ _ _ _ P1 En)|].
      intros [|a'|] S Pa; try contradiction.
      cbn [dn_set_child dn_args dn_set_args dn_printable printable].
      rewrite P2, (forallb_subst_nth _ _ j a' P1 Pa). reflexivity.
  - destruct (nth_error (dn_body n) i) as [d|] eqn:En; [|discriminate E]. injection E as <-.
    destruct n as [[t|o b c0|e nm args|k o b c0|e b ng xa body e2 en ng2|e nm args body]
                  |[sp k o b c0]|ds];
      cbn [dn_body] in En; try (destruct i; discriminate En);
      cbn [dn_printable printable printable_arg] in P.
    + split; [exact (forallb_nth _ _ _ _ P En)|].
      intros [d'| |] S Pd; try contradiction.
      cbn [dn_set_child dn_body dn_set_body dn_printable printable].
      exact (forallb_subst_nth _ _ i d' P Pd).
    + split; [exact (forallb_nth _ _ _ _ P En)|].
      intros [d'| |] S Pd; try contradiction.
      cbn [dn_set_child dn_body dn_set_body dn_printable printable].
      exact (forallb_subst_nth _ _ i d' P Pd).
    + apply andb_true_iff in P. destruct P as [P P5].
      split; [exact (forallb_nth _ _ _ _ P5 En)|].
      intros [d'| |] S Pd; try contradiction.
      cbn [dn_set_child dn_body dn_set_body dn_printable printable].
      rewrite P, (forallb_subst_nth _ _ i d' P5 Pd). reflexivity.
    + apply andb_true_iff in P. destruct P as [P1 P2].
      split; [exact (forallb_nth _ _ _ _ P2 En)|].
      intros [d'| |] S Pd; try contradiction.
      cbn [dn_set_child dn_body dn_set_body dn_printable printable].
      rewrite P1, (forallb_subst_nth _ _ i d' P2 Pd). reflexivity.
    + apply andb_true_iff in P. destruct P as [P1 P2].
      split; [exact (forallb_nth _ _ _ _ P2 En)|].
      intros [d'| |] S Pd; try contradiction.
      cbn [dn_set_child dn_body dn_set_body dn_printable printable_arg].
      rewrite P1, (forallb_subst_nth _ _ i d' P2 Pd). reflexivity.
    + split; [exact (forallb_nth _ _ _ _ P En)|].
      intros [d'| |] S Pd; try contradiction.
      cbn [dn_set_child dn_body dn_set_body dn_printable].
      exact (forallb_subst_nth _ _ i d' P Pd).
Qed.

Lemma printable_ctx : forall p n x,
  dn_printable n = true -> dn_get n p = Some x ->
  dn_printable x = true /\
  forall x' n', same_sort x x' -> dn_printable x' = true -> dn_put n p x' = Some n' ->
                dn_printable n' = true.
Proof.
  induction p as [|s p IH]; intros n x Pn G.
  - cbn in G. injection G as <-. split; [exact Pn|].
    intros x' n' _ Px P. cbn in P. injection P as <-. exact Px.
  - cbn [dn_get] in G. destruct (dn_child n s) as [c|] eqn:E; [|discriminate G].
    destruct (printable_step n s c Pn E) as [Pc St].
    destruct (IH c x Pc G) as [Px Ih]. split; [exact Px|].
    intros x' n' S Px' P. cbn [dn_put] in P. rewrite E in P.
    destruct (dn_put c p x') as [c'|] eqn:Pc'; [|discriminate P]. injection P as <-.
    apply St; [exact (put_sort p c x x' c' G S Pc') | exact (Ih x' c' S Px' Pc')].
Qed.

Theorem edit_printable f ds p x :
  forallb printable ds = true -> dn_get (Nr ds) p = Some (Nd x) ->
  printable x = true /\
  (printable (f x) = true -> forallb printable (edit_docs f p ds) = true).
Proof.
  intros P G. destruct (printable_ctx p (Nr ds) (Nd x) P G) as [Px H].
  split; [exact Px|]. intro Pf.
  destruct (put_tree p (Nr ds) (Nd x) (Nd (f x)) G I) as (n' & Pt & S & _).
  destruct n' as [| |ds']; try contradiction.
  unfold edit_docs. rewrite G, Pt. exact (H (Nd (f x)) (Nr ds') I Pf Pt).
Qed.

Lemma rename_printable s x :
  strip s = s -> printable x = true -> printable (rename_node s x) = true.
Proof.
  intros Hs P.
  destruct x as [t|o b c|e n args|k o b c|e b [sp k o bd c] xa body e2 en [sp2 k2 o2 bd2 c2]
                |e n args body]; try exact P.
  - cbn [rename_node printable retext ttext] in P |- *.
    apply andb_true_iff in P. destruct P as [_ P]. rewrite Hs, str_eqb_refl, P. reflexivity.
  - cbn [rename_node rename_arg printable printable_arg] in P |- *.
    apply andb_true_iff in P. destruct P as [P P5].
    apply andb_true_iff in P. destruct P as [P _].
    apply andb_true_iff in P. destruct P as [P P3].
    apply andb_true_iff in P. destruct P as [P1 P2].
    apply andb_true_iff in P1. destruct P1 as [P1 _].
    apply andb_true_iff in P3. destruct P3 as [P3 _].
    rewrite P1, P2, P3, P5.
    change (arg_string (tree_arg (Arg sp k o (leaf_body s) c))) with (s ++ []).
    rewrite app_nil_r, Hs, str_eqb_refl. reflexivity.
Qed.

Lemma restring_printable s x : printable x = true -> printable (restring_node s x) = true.
Proof.
  intro P.
  destruct x as [t|o b c|e n args|k o b c|e b ng xa body e2 en ng2|e n args body]; try exact P.
  - destruct args as [|[sp k o b c] [|a2 args]]; try exact P.
    cbn [restring_node printable printable_arg forallb] in P |- *.
    apply andb_true_iff in P. destruct P as [P1 P2]. rewrite P1.
    rewrite andb_true_r in P2 |- *. apply andb_true_iff in P2. destruct P2 as [P2 _].
    rewrite P2. reflexivity.
  - cbn [restring_node printable] in P |- *.
    apply andb_true_iff in P. destruct P as [P _]. rewrite P. reflexivity.
Qed.

(* --------------------------- the tokenizer's follow conditions are local *)

Module TI := TokInverse.

(* not the letter part of a sizing command (\left, \big, ...): such a
   CommandName token fuses with a delimiter that follows it *)
Definition nosize (t : token) : bool :=
  negb (tc_beq (tcat t) TCommandName) || negb (mem_str (ttext t) TI.sizing_prefixes).

(* for a shaped token that is not a sizing prefix, `follow` reads the first
   character and the first token of the continuation only *)
Lemma follow_local t nxt nxt' :
  TI.shape t = true -> nosize t = true ->
  hd_error (TI.texts nxt) = hd_error (TI.texts nxt') ->
  TI.pre_ok (TI.ends_esc t) nxt = TI.pre_ok (TI.ends_esc t) nxt' ->
  TI.follow t nxt = true -> TI.follow t nxt' = true.
Proof.
  intros Sh NS Hh Hp F. unfold TI.follow in *.
  apply andb_true_iff in F. destruct F as [F1 F2]. rewrite <- Hp, F2, andb_true_r.
  unfold TI.followc in *. rewrite <- Hh.
  destruct (tc_beq (tcat t) TCommandName) eqn:K.
  2:{ destruct (tcat t); cbn in K; first [discriminate K | exact F1]. }
  apply tc_eqb_eq in K. rewrite K in F1 |- *.
  apply andb_true_iff in F1. destruct F1 as [A _]. rewrite A. cbn [andb].
  unfold nosize in NS. rewrite K in NS.
  change (tc_beq TCommandName TCommandName) with true in NS. cbn [negb orb] in NS.
  apply negb_true_iff in NS.
  assert (A' : TI.nc_not TI.ls_c (hd_error (TI.texts nxt')) = true) by (rewrite <- Hh; exact A).
  pose proof (TI.cmd_not_sizing_ok t (TI.texts nxt') Sh K A' NS) as L.
  unfold TI.last_tok_ok in L. rewrite K in L.
  destruct (find_point _ _); [discriminate L | reflexivity].
Qed.

Lemma hd_texts_app pre A B :
  hd_error (TI.texts A) = hd_error (TI.texts B) ->
  hd_error (TI.texts (pre ++ A)) = hd_error (TI.texts (pre ++ B)).
Proof.
  intro H. induction pre as [|t pre IH]; [exact H|].
  cbn [app]. rewrite !TI.texts_cons. destruct (ttext t); [exact IH | reflexivity].
Qed.

Lemma follows_ok_suffix pre A : TI.follows_ok (pre ++ A) = true -> TI.follows_ok A = true.
Proof.
  induction pre as [|t pre IH]; [auto|]. cbn [app TI.follows_ok]. intro H.
  apply andb_true_iff in H. destruct H as [_ H]. exact (IH H).
Qed.

(* replacing a suffix A by B that starts with the same character and the
   same kind of token *)
Lemma follows_ok_splice pre A B :
  Forall (fun t => TI.shape t = true) pre -> forallb nosize pre = true ->
  hd_error (TI.texts A) = hd_error (TI.texts B) ->
  (forall e, TI.pre_ok e A = TI.pre_ok e B) ->
  TI.follows_ok (pre ++ A) = true -> TI.follows_ok B = true ->
  TI.follows_ok (pre ++ B) = true.
Proof.
  intros Sh NS Hh Hp F FB. induction pre as [|t pre IH]; [exact FB|].
  inversion Sh as [|? ? Sht Shp]; subst.
  cbn [forallb] in NS. apply andb_true_iff in NS. destruct NS as [NSt NSp].
  cbn [app TI.follows_ok] in F |- *.
  apply andb_true_iff in F. destruct F as [F1 F2].
  rewrite (IH Shp NSp F2), andb_true_r.
  apply (follow_local t (pre ++ A) (pre ++ B) Sht NSt); [apply hd_texts_app; exact Hh| |exact F1].
  destruct pre as [|u pre]; [apply Hp | reflexivity].
Qed.

Lemma is_c_eq k c : TI.is_c k c = true -> categorize_char c = k.
Proof. unfold TI.is_c. apply cc_eqb_eq. Qed.

Lemma letter_follows_escape c :
  TI.is_c CLetter c = true -> TI.esc2_c c = false /\ TI.asym_c c = false.
Proof.
  intro H. apply is_c_eq in H. unfold TI.esc2_c, TI.asym_c. rewrite H. split; reflexivity.
Qed.

Lemma ls_not_escape c : TI.ls_c c = true -> TI.is_c CEscape c = false.
Proof.
  unfold TI.ls_c. intro H. apply orb_true_iff in H. destruct H as [H|H].
  - apply is_c_eq in H. unfold TI.is_c. rewrite H. reflexivity.
  - apply N.eqb_eq in H. subst c. vm_compute. reflexivity.
Qed.

Lemma forallb_last {A} (P : A -> bool) d : forall l, l <> [] -> forallb P l = true ->
  P (last l d) = true.
Proof.
  induction l as [|a l IH]; intros Hn H; [congruence|].
  cbn [forallb] in H. apply andb_true_iff in H. destruct H as [H1 H2].
  destruct l as [|b l]; [exact H1|]. apply IH; [discriminate | exact H2].
Qed.

Lemma cmdname_letters t : TI.shape t = true -> tcat t = TCommandName ->
  exists c0 m, ttext t = c0 :: m /\ TI.is_c CLetter c0 = true /\ forallb TI.ls_c (ttext t) = true.
Proof.
  unfold TI.shape. intros H K. apply andb_true_iff in H. destruct H as [_ H]. rewrite K in H.
  cbn [TI.shape_cat] in H. destruct (ttext t) as [|c0 m]; [discriminate H|].
  apply andb_true_iff in H. destruct H as [H1 H2]. exists c0, m.
  split; [reflexivity|]. split; [exact H1|]. cbn [forallb]. unfold TI.ls_c at 1.
  rewrite H1, H2. reflexivity.
Qed.

Lemma cmdname_not_ends_esc t : TI.shape t = true -> tcat t = TCommandName ->
  TI.ends_esc t = false.
Proof.
  intros Sh K. destruct (cmdname_letters t Sh K) as (c0 & m & E & _ & L).
  unfold TI.ends_esc. apply ls_not_escape. apply forallb_last; [rewrite E; discriminate | exact L].
Qed.

(* the renamed name token keeps the tokenizer's follow conditions *)
Lemma rename_follows e n s post :
  tcat e = TEscape -> tcat n = TCommandName ->
  TI.shape n = true -> TI.shape (retext n s) = true ->
  mem_str s TI.sizing_prefixes = false ->
  TI.follows_ok (e :: n :: post) = true -> TI.follows_ok (e :: retext n s :: post) = true.
Proof.
  intros Ke Kn Shn Shn' NS F.
  assert (Kn' : tcat (retext n s) = TCommandName) by exact Kn.
  cbn [TI.follows_ok] in F |- *.
  apply andb_true_iff in F. destruct F as [F1 F].
  apply andb_true_iff in F. destruct F as [F2 F3]. rewrite F3, andb_true_r.
  destruct (cmdname_letters _ Shn' Kn') as (c0 & m & Es & L0 & _). cbn [retext ttext] in Es.
  apply andb_true_iff. split.
  - unfold TI.follow in F1 |- *. apply andb_true_iff in F1. destruct F1 as [_ P1].
    apply andb_true_iff. split.
    + unfold TI.followc. rewrite Ke, TI.texts_cons. cbn [retext ttext]. rewrite Es.
      cbn [app hd_error TI.nc_not]. destruct (letter_follows_escape c0 L0) as [-> ->]. reflexivity.
    + cbn [TI.pre_ok] in P1 |- *. unfold TI.pre_tok in P1 |- *. rewrite Kn' . rewrite Kn in P1.
      exact P1.
  - unfold TI.follow in F2 |- *. apply andb_true_iff in F2. destruct F2 as [C2 P2].
    apply andb_true_iff. split.
    + unfold TI.followc in C2 |- *. rewrite Kn in C2. rewrite Kn'.
      apply andb_true_iff in C2. destruct C2 as [A _]. rewrite A. cbn [andb].
      pose proof (TI.cmd_not_sizing_ok (retext n s) (TI.texts post) Shn' Kn' A NS) as Lk.
      unfold TI.last_tok_ok in Lk. rewrite Kn' in Lk.
      destruct (find_point _ _); [discriminate Lk | reflexivity].
    + rewrite (cmdname_not_ends_esc _ Shn' Kn'). rewrite (cmdname_not_ends_esc _ Shn Kn) in P2.
      exact P2.
Qed.

Lemma retext_tok_wf n s : tcat n = TCommandName -> tok_wf (retext n s).
Proof.
  intro K. unfold tok_wf. cbn [retext tcat ttext]. rewrite K.
  repeat split; try (intros k H; destruct k; vm_compute in H; discriminate H).
  intro H. discriminate H.
Qed.

(* C14, re-parse clause at string level for the renaming of a COMMAND, with
   all lexical conditions stated on the OLD token list and the new name:
   the old tokens are tokenizer-shaped and follow each other, no CommandName
   token of the document is a sizing prefix, the new name has the shape of a
   command name (a letter, then letters or stars; no NUL/DEL) and is not a
   sizing prefix.  Only the index-0 quirk is asked of the new list. *)
Theorem reparse_rename_cmd_string_old ds p e n args s strict user :
  wf_seq (all_skip user) false CTop ds [] = true ->
  dn_get (Nr ds) p = Some (Nd (DCmd e n args)) ->
  rename_ok (all_skip user) s (DCmd e n args) = true ->
  forallb printable ds = true -> Forall tok_wf (flat_list ds) ->
  Forall (fun t => TI.shape t = true) (flat_list ds) ->
  TI.follows_ok (flat_list ds) = true -> forallb nosize (flat_list ds) = true ->
  tcat e = TEscape -> tcat n = TCommandName ->
  TI.shape (retext n s) = true -> mem_str s TI.sizing_prefixes = false ->
  TI.first_ok (flat_list (rename_docs s p ds)) = true ->
  exists t', set_name (ERoot (map tree ds)) p s = Done t' /\
    estr t' = texts (flat_list (rename_docs s p ds)) /\
    exists t'', parse (estr t') strict user = Ok t'' /\ FixedPoint.expr_pos_sim t' t''.
Proof.
  intros W G R P T Sh Fo NSz Ke Kn Shn' NSn Fi.
  destruct (reparse_rename_tokens ds p _ s strict user W G R) as (E & W' & _).
  destruct (edit_tokens_local (rename_node s) ds p _ G) as (pre & post & D & D').
  fold (rename_docs s p ds) in D'. cbn [rename_node] in D'. rewrite flat_cmd in D, D'.
  cbn [app] in D, D'.
  rewrite D in T, Sh, Fo, NSz.
  apply Forall_app in T. destruct T as [T1 T2].
  inversion T2 as [|? ? Te T3]; subst. inversion T3 as [|? ? Tn T4]; subst.
  apply Forall_app in Sh. destruct Sh as [S1 S2].
  inversion S2 as [|? ? She S3]; subst. inversion S3 as [|? ? Shn S4]; subst.
  rewrite forallb_app in NSz. apply andb_true_iff in NSz. destruct NSz as [NS1 _].
  assert (Strip : strip s = s).
  { cbn [rename_ok] in R.
    apply andb_true_iff in R. destruct R as [R _].
    apply andb_true_iff in R. destruct R as [R _].
    apply andb_true_iff in R. destruct R as [_ R]. unfold new_name_ok in R.
    apply andb_true_iff in R. destruct R as [R _].
    apply andb_true_iff in R. destruct R as [R _].
    apply andb_true_iff in R. destruct R as [R _].
    apply andb_true_iff in R. destruct R as [R _]. apply str_eqb_eq. exact R. }
  destruct (edit_printable (rename_node s) ds p _ P G) as [Px Pn].
  fold (rename_docs s p ds) in Pn.
  specialize (Pn (rename_printable s _ Strip Px)).
  assert (T' : Forall tok_wf (flat_list (rename_docs s p ds))).
  { rewrite D'. apply Forall_app. split; [exact T1|].
    constructor; [exact Te|]. constructor; [apply retext_tok_wf; exact Kn | exact T4]. }
  assert (Sh' : Forall (fun t => TI.shape t = true) (flat_list (rename_docs s p ds))).
  { rewrite D'. apply Forall_app. split; [exact S1|].
    constructor; [exact She|]. constructor; [exact Shn' | exact S4]. }
  assert (Fo' : TI.follows_ok (flat_list (rename_docs s p ds)) = true).
  { rewrite D'. apply (follows_ok_splice pre (e :: n :: flat_args args ++ post)); auto.
    - rewrite !TI.texts_cons. pose proof (TI.shape_nonempty e She) as Ne.
      destruct (ttext e); [congruence | reflexivity].
    - apply rename_follows; auto. exact (follows_ok_suffix pre _ Fo). }
  destruct (reparse_string_generic _ strict user W' Pn T' Sh' Fo' Fi) as (E1 & _ & E3).
  exists (ERoot (map tree (rename_docs s p ds))). auto.
Qed.

(* its hypotheses on exA (rename \a to \zz) *)
Example exA_rename_cmd_old_hyps :
  forallb printable exA_doc = true /\ forallb tok_wfb (flat_list exA_doc) = true /\
  forallb TI.shape (flat_list exA_doc) = true /\ TI.follows_ok (flat_list exA_doc) = true /\
  forallb nosize (flat_list exA_doc) = true /\
  match dn_get (Nr exA_doc) exA_cmd_path with
  | Some (Nd (DCmd e n args)) =>
    tcat e = TEscape /\ tcat n = TCommandName /\ TI.shape (retext n s_zz) = true
  | _ => False
  end /\
  mem_str s_zz TI.sizing_prefixes = false /\
  TI.first_ok (flat_list (rename_docs s_zz exA_cmd_path exA_doc)) = true.
Proof. repeat split; vm_compute; reflexivity. Qed.

(* ---------------------------------- the lexical conditions are forced *)

Definition s_langle : str := [108;97;110;103;108;101]%N.
Definition s_left : str := [108;101;102;116]%N.

(* \left\lang, lang -> langle: Stage 1 holds (the edited TOKENS parse to the
   edited tree) but the new TEXT \left\langle is tokenized as the single
   sizing command "left\langle": a CommandName token of the context (left) is
   a sizing prefix *)
Definition badL_src : str := [92;108;101;102;116;92;108;97;110;103]%N.
Definition badL_doc : list doc :=
  let t i := nth i (fst (tokens_of_string badL_src)) tok0 in
  [ DCmd (t 0%nat) (t 1%nat) []; DCmd (t 2%nat) (t 3%nat) [] ].

Theorem rename_sizing_context_refuted :
  exists ds p x s t' t'',
    tokens_of_string badL_src = (flat_list ds, TEnd) /\
    wf_seq (all_skip []) false CTop ds [] = true /\
    dn_get (Nr ds) p = Some (Nd x) /\ rename_ok (all_skip []) s x = true /\
    forallb printable ds = true /\ lex_ok (flat_list ds) = true /\
    mem_str s TI.sizing_prefixes = false /\
    set_name (ERoot (map tree ds)) p s = Done t' /\
    parse_tokens (flat_list (rename_docs s p ds)) true [] = Ok t' /\
    parse (estr t') true [] = Ok t'' /\ ~ FixedPoint.expr_pos_sim t' t''.
Proof.
  exists badL_doc, [SBody 1%nat]. eexists. exists s_langle. do 2 eexists.
  split; [vm_compute; reflexivity|]. split; [vm_compute; reflexivity|].
  split; [vm_compute; reflexivity|]. split; [vm_compute; reflexivity|].
  split; [vm_compute; reflexivity|]. split; [vm_compute; reflexivity|].
  split; [vm_compute; reflexivity|]. split; [vm_compute; reflexivity|].
  split; [vm_compute; reflexivity|]. split; [vm_compute; reflexivity|].
  apply FixedPoint.not_sim. vm_compute. discriminate.
Qed.

(* \a(x), a -> left: the new name is a sizing prefix; \left(x) is tokenized
   as the sizing command "left(" *)
Definition badK_src : str := [92;97;40;120;41]%N.
Definition badK_doc : list doc :=
  let t i := nth i (fst (tokens_of_string badK_src)) tok0 in
  [ DCmd (t 0%nat) (t 1%nat) []; DLeaf (t 2%nat) ].

Theorem rename_to_sizing_prefix_refuted :
  exists ds p x s t' t'',
    tokens_of_string badK_src = (flat_list ds, TEnd) /\
    wf_seq (all_skip []) false CTop ds [] = true /\
    dn_get (Nr ds) p = Some (Nd x) /\ rename_ok (all_skip []) s x = true /\
    forallb printable ds = true /\ lex_ok (flat_list ds) = true /\
    forallb nosize (flat_list ds) = true /\
    set_name (ERoot (map tree ds)) p s = Done t' /\
    parse_tokens (flat_list (rename_docs s p ds)) true [] = Ok t' /\
    parse (estr t') true [] = Ok t'' /\ ~ FixedPoint.expr_pos_sim t' t''.
Proof.
  exists badK_doc, [SBody 0%nat]. eexists. exists s_left. do 2 eexists.
  split; [vm_compute; reflexivity|]. split; [vm_compute; reflexivity|].
  split; [vm_compute; reflexivity|]. split; [vm_compute; reflexivity|].
  split; [vm_compute; reflexivity|]. split; [vm_compute; reflexivity|].
  split; [vm_compute; reflexivity|]. split; [vm_compute; reflexivity|].
  split; [vm_compute; reflexivity|]. split; [vm_compute; reflexivity|].
  apply FixedPoint.not_sim. vm_compute. discriminate.
Qed.
