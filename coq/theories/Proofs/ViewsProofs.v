(* Proofs about the view model (Views.v): C03 and C04.  Every statement is
   about an arbitrary tree; recursion through `contents` is handled by a
   well-founded induction on the nesting depth ([item_depth_ind]), the
   structural facts by the nested induction principle [expr_ind']. *)
From Coq Require Import List NArith ZArith Bool Lia Arith Permutation.
From TexModel Require Import Base Tables Chars Tokenizer Tree Reader Views.
Import ListNotations.

(* ------------------------------------------------------------------ *)
(* generic list lemmas                                                 *)

Lemma flat_map_ext_in {A B} (f g : A -> list B) l :
  (forall a, In a l -> f a = g a) -> flat_map f l = flat_map g l.
Proof.
  induction l as [|a l IH]; intro H; simpl; [reflexivity|].
  rewrite (H a (or_introl eq_refl)). rewrite IH; [reflexivity|].
  intros b Hb. apply H. right. exact Hb.
Qed.

Lemma map_flat_map {A B C} (g : B -> C) (f : A -> list B) l :
  map g (flat_map f l) = flat_map (fun a => map g (f a)) l.
Proof.
  induction l as [|a l IH]; simpl; [reflexivity|].
  rewrite map_app, IH. reflexivity.
Qed.

Lemma filter_flat_map {A B} (g : B -> bool) (f : A -> list B) l :
  filter g (flat_map f l) = flat_map (fun a => filter g (f a)) l.
Proof.
  induction l as [|a l IH]; simpl; [reflexivity|].
  rewrite filter_app, IH. reflexivity.
Qed.

Lemma flat_map_flat_map {A B C} (g : B -> list C) (f : A -> list B) l :
  flat_map g (flat_map f l) = flat_map (fun a => flat_map g (f a)) l.
Proof.
  induction l as [|a l IH]; simpl; [reflexivity|].
  rewrite flat_map_app, IH. reflexivity.
Qed.

Lemma NoDup_app_intro {A} (l1 l2 : list A) :
  NoDup l1 -> NoDup l2 -> (forall x, In x l1 -> In x l2 -> False) -> NoDup (l1 ++ l2).
Proof.
  induction l1 as [|a l1 IH]; intros H1 H2 Hd; simpl; [exact H2|].
  inversion H1 as [|a' l' Hna Hnd]; subst.
  constructor.
  - intro Hin. apply in_app_or in Hin. destruct Hin as [Hin|Hin].
    + exact (Hna Hin).
    + exact (Hd a (or_introl eq_refl) Hin).
  - apply IH; [exact Hnd | exact H2 |].
    intros x Hx1 Hx2. exact (Hd x (or_intror Hx1) Hx2).
Qed.

Lemma NoDup_map_filter {A B} (f : A -> B) (g : A -> bool) l :
  NoDup (map f l) -> NoDup (map f (filter g l)).
Proof.
  induction l as [|a l IH]; intro H; simpl; [constructor|].
  simpl in H. inversion H as [|a' l' Hna Hnd]; subst.
  destruct (g a) eqn:Hg; simpl.
  - constructor; [|exact (IH Hnd)].
    intro Hin. apply Hna. apply in_map_iff in Hin. destruct Hin as [x [Hfx Hx]].
    apply filter_In in Hx. destruct Hx as [Hx _].
    apply in_map_iff. exists x. split; assumption.
  - exact (IH Hnd).
Qed.

Lemma forallb_app' {A} (f : A -> bool) l1 l2 :
  forallb f (l1 ++ l2) = forallb f l1 && forallb f l2.
Proof. induction l1 as [|a l1 IH]; simpl; [reflexivity|]. rewrite IH, andb_assoc. reflexivity. Qed.

Lemma forallb_flat_map {A B} (g : B -> bool) (f : A -> list B) l :
  (forall a, In a l -> forallb g (f a) = true) -> forallb g (flat_map f l) = true.
Proof.
  induction l as [|a l IH]; intro H; simpl; [reflexivity|].
  rewrite forallb_app'. rewrite (H a (or_introl eq_refl)). simpl.
  apply IH. intros b Hb. apply H. right. exact Hb.
Qed.

(* ------------------------------------------------------------------ *)
(* unfolding the nested fixpoints                                      *)

Lemma contents_over_args a :
  (fix over_args (l : list expr) : list expr :=
     match l with
     | [] => []
     | a :: l' => expr_contents a ++ over_args l'
     end) a = flat_map expr_contents a.
Proof. induction a as [|x a IH]; [reflexivity|]. simpl. rewrite IH. reflexivity. Qed.

(* C04 (i), expression level: contents = all, TexText unwrapped, blank dropped *)
Lemma expr_contents_eq e : expr_contents e = clean (expr_all e).
Proof.
  destruct e; reflexivity.
Qed.

Definition maxdepth (l : list expr) : nat :=
  fold_right (fun x m => Nat.max (edepth x) m) O l.

Lemma depth_mx l :
  (fix mx (l : list expr) : nat :=
     match l with
     | [] => O
     | x :: l' => Nat.max (edepth x) (mx l')
     end) l = maxdepth l.
Proof. induction l as [|x l IH]; [reflexivity|]. simpl. rewrite IH. reflexivity. Qed.

Lemma edepth_eq e :
  edepth e = match e with
             | EText _ | ERaw _ _ | EStr _ => O
             | ECmd _ a b _ | ENamed _ a b _ => S (Nat.max (maxdepth a) (maxdepth b))
             | EMath _ b _ | EGroup _ b _ | ERoot b => S (maxdepth b)
             end.
Proof.
  destruct e; try reflexivity; cbn [edepth]; rewrite ?depth_mx; reflexivity.
Qed.

Lemma maxdepth_in x l : In x l -> edepth x <= maxdepth l.
Proof.
  induction l as [|y l IH]; intro H; [destruct H|].
  simpl. destruct H as [H|H].
  - subst. apply Nat.le_max_l.
  - specialize (IH H). lia.
Qed.

Definition walk_item (x : expr) : list expr :=
  match x with
  | EText t => if str_isspace (ttext t) then [] else [ERaw (ttext t) (tpos t)]
  | _ => if is_blank x then [] else x :: walk x
  end.

Lemma walk_over_args a :
  (fix over_args (l : list expr) : list expr :=
     match l with
     | [] => []
     | a :: l' => walk a ++ over_args l'
     end) a = flat_map walk a.
Proof. induction a as [|x a IH]; [reflexivity|]. simpl. rewrite IH. reflexivity. Qed.

Lemma walk_over_body b :
  (fix over_body (l : list expr) : list expr :=
     match l with
     | [] => []
     | x :: l' =>
       match x with
       | EText t => if str_isspace (ttext t) then [] else [ERaw (ttext t) (tpos t)]
       | _ => if is_blank x then [] else x :: walk x
       end ++ over_body l'
     end) b = flat_map walk_item b.
Proof. induction b as [|x b IH]; [reflexivity|]. simpl. rewrite IH. reflexivity. Qed.

Lemma walk_eq e :
  walk e = match e with
           | EText t => if str_isspace (ttext t) then [] else [ERaw (ttext t) (tpos t)]
           | ERaw _ _ | EStr _ => []
           | ECmd _ a b _ | ENamed _ a b _ => flat_map walk a ++ flat_map walk_item b
           | EMath _ b _ | EGroup _ b _ | ERoot b => flat_map walk_item b
           end.
Proof.
  destruct e; try reflexivity; cbn [walk]; rewrite ?walk_over_args, ?walk_over_body; reflexivity.
Qed.

Definition leaf_item (x : expr) : list expr :=
  match x with
  | EText t => if str_isspace (ttext t) then [] else [ERaw (ttext t) (tpos t)]
  | ERaw s p => if str_isspace s then [] else [ERaw s p]
  | EStr s => if str_isspace s then [] else [EStr s]
  | _ => leaves x
  end.

Lemma leaves_over_args a :
  (fix over_args (l : list expr) : list expr :=
     match l with
     | [] => []
     | a :: l' => leaves a ++ over_args l'
     end) a = flat_map leaves a.
Proof. induction a as [|x a IH]; [reflexivity|]. simpl. rewrite IH. reflexivity. Qed.

Lemma leaves_over_body b :
  (fix over_body (l : list expr) : list expr :=
     match l with
     | [] => []
     | x :: l' =>
       match x with
       | EText t => if str_isspace (ttext t) then [] else [ERaw (ttext t) (tpos t)]
       | ERaw s p => if str_isspace s then [] else [ERaw s p]
       | EStr s => if str_isspace s then [] else [EStr s]
       | _ => leaves x
       end ++ over_body l'
     end) b = flat_map leaf_item b.
Proof. induction b as [|x b IH]; [reflexivity|]. simpl. rewrite IH. reflexivity. Qed.

Lemma leaves_eq e :
  leaves e = match e with
             | EText t => if str_isspace (ttext t) then [] else [ERaw (ttext t) (tpos t)]
             | ERaw _ _ | EStr _ => []
             | ECmd _ a b _ | ENamed _ a b _ => flat_map leaves a ++ flat_map leaf_item b
             | EMath _ b _ | EGroup _ b _ | ERoot b => flat_map leaf_item b
             end.
Proof.
  destruct e; try reflexivity; cbn [leaves]; rewrite ?leaves_over_args, ?leaves_over_body;
    reflexivity.
Qed.

(* ------------------------------------------------------------------ *)
(* clean                                                               *)

(* what an item of a `contents` view can be: not blank, not a TexText *)
Definition ok_item (x : expr) : bool :=
  negb (is_blank x) && match x with EText _ => false | _ => true end.

Lemma clean_app l1 l2 : clean (l1 ++ l2) = clean l1 ++ clean l2.
Proof. unfold clean. rewrite map_app, filter_app. reflexivity. Qed.

Lemma clean_cons x l :
  clean (x :: l) = (if is_blank (unwrap x) then [] else [unwrap x]) ++ clean l.
Proof. unfold clean. simpl. destruct (is_blank (unwrap x)); reflexivity. Qed.

Lemma is_blank_unwrap x : is_blank (unwrap x) = is_blank x.
Proof. destruct x; reflexivity. Qed.

Lemma clean_in x l :
  In x (clean l) -> is_blank x = false /\ exists y, In y l /\ x = unwrap y.
Proof.
  unfold clean. intro H. apply filter_In in H. destruct H as [H1 H2].
  apply in_map_iff in H1. destruct H1 as [y [Hy Hin]].
  split.
  - apply negb_true_iff in H2. exact H2.
  - exists y. split; [exact Hin | symmetry; exact Hy].
Qed.

Lemma clean_ok l : forallb ok_item (clean l) = true.
Proof.
  apply forallb_forall. intros x Hx. apply clean_in in Hx.
  destruct Hx as [Hb [y [_ Hy]]]. unfold ok_item. rewrite Hb. simpl.
  subst x. destruct y; reflexivity.
Qed.

Lemma clean_id l : forallb ok_item l = true -> clean l = l.
Proof.
  induction l as [|x l IH]; intro H; [reflexivity|].
  simpl in H. apply andb_true_iff in H. destruct H as [Hx Hl].
  rewrite clean_cons, (IH Hl).
  unfold ok_item in Hx. apply andb_true_iff in Hx. destruct Hx as [Hb Ht].
  apply negb_true_iff in Hb.
  destruct x; try discriminate Ht; simpl unwrap; rewrite Hb; reflexivity.
Qed.

Lemma expr_contents_ok e : forallb ok_item (expr_contents e) = true.
Proof. rewrite expr_contents_eq. apply clean_ok. Qed.

Lemma ok_item_cases x :
  ok_item x = true -> is_env_or_cmd x = true \/ (is_strlike x = true /\ is_texexpr x = false).
Proof.
  destruct x; unfold ok_item; simpl; intro H;
    try (rewrite andb_false_r in H; discriminate H);
    try (left; reflexivity); right; split; reflexivity.
Qed.

Lemma contents_item_cases e x :
  In x (expr_contents e) ->
  is_blank x = false /\
  (is_env_or_cmd x = true \/ (is_strlike x = true /\ is_texexpr x = false)).
Proof.
  intro H. pose proof (expr_contents_ok e) as Hok.
  rewrite forallb_forall in Hok. specialize (Hok x H).
  split; [|exact (ok_item_cases x Hok)].
  unfold ok_item in Hok. apply andb_true_iff in Hok. destruct Hok as [Hb _].
  apply negb_true_iff in Hb. exact Hb.
Qed.

Lemma unwrap_node y : is_env_or_cmd (unwrap y) = true -> unwrap y = y.
Proof. destruct y; simpl; intro H; try discriminate H; reflexivity. Qed.

(* ------------------------------------------------------------------ *)
(* depth of the items of contents                                      *)

Lemma contents_depth e :
  forall x, In x (expr_contents e) -> is_env_or_cmd x = true -> edepth x < edepth e.
Proof.
  induction e as [t|s p|s|n a b p IHa IHb|n a b p IHa IHb|k b p IHb|k b p IHb|b IHb]
    using expr_ind'; intros x Hin Hnode.
  - simpl in Hin. unfold clean in Hin. simpl in Hin.
    destruct (negb (str_isspace (ttext t))); simpl in Hin; [|destruct Hin].
    destruct Hin as [Hin|[]]. subst x. discriminate Hnode.
  - destruct Hin.
  - destruct Hin.
  - rewrite expr_contents_eq in Hin. cbn [expr_all] in Hin.
    apply clean_in in Hin. destruct Hin as [_ [y [Hy Hx]]].
    rewrite (edepth_eq (ECmd n a b p)).
    apply in_app_or in Hy. destruct Hy as [Hy|Hy].
    + apply in_flat_map in Hy. destruct Hy as [a0 [Ha0 Hy]].
      rewrite Forall_forall in IHa.
      assert (Hxy : x = y).
      { subst x. apply unwrap_node. exact Hnode. }
      subst y. pose proof (IHa a0 Ha0 x Hy Hnode) as Hlt.
      pose proof (maxdepth_in a0 a Ha0). lia.
    + assert (Hxy : x = y).
      { subst x. apply unwrap_node. exact Hnode. }
      subst y. pose proof (maxdepth_in x b Hy). lia.
  - rewrite expr_contents_eq in Hin. cbn [expr_all] in Hin.
    apply clean_in in Hin. destruct Hin as [_ [y [Hy Hx]]].
    rewrite (edepth_eq (ENamed n a b p)).
    apply in_app_or in Hy. destruct Hy as [Hy|Hy].
    + apply in_flat_map in Hy. destruct Hy as [a0 [Ha0 Hy]].
      rewrite Forall_forall in IHa.
      assert (Hxy : x = y).
      { subst x. apply unwrap_node. exact Hnode. }
      subst y. pose proof (IHa a0 Ha0 x Hy Hnode) as Hlt.
      pose proof (maxdepth_in a0 a Ha0). lia.
    + assert (Hxy : x = y).
      { subst x. apply unwrap_node. exact Hnode. }
      subst y. pose proof (maxdepth_in x b Hy). lia.
  - rewrite expr_contents_eq in Hin. cbn [expr_all] in Hin.
    apply clean_in in Hin. destruct Hin as [_ [y [Hy Hx]]].
    rewrite (edepth_eq (EMath k b p)).
    assert (Hxy : x = y).
    { subst x. apply unwrap_node. exact Hnode. }
    subst y. pose proof (maxdepth_in x b Hy). lia.
  - rewrite expr_contents_eq in Hin. cbn [expr_all] in Hin.
    apply clean_in in Hin. destruct Hin as [_ [y [Hy Hx]]].
    rewrite (edepth_eq (EGroup k b p)).
    assert (Hxy : x = y).
    { subst x. apply unwrap_node. exact Hnode. }
    subst y. pose proof (maxdepth_in x b Hy). lia.
  - rewrite expr_contents_eq in Hin. cbn [expr_all] in Hin.
    apply clean_in in Hin. destruct Hin as [_ [y [Hy Hx]]].
    rewrite (edepth_eq (ERoot b)).
    assert (Hxy : x = y).
    { subst x. apply unwrap_node. exact Hnode. }
    subst y. pose proof (maxdepth_in x b Hy). lia.
Qed.

(* ------------------------------------------------------------------ *)
(* wrap_from                                                           *)

Lemma wrap_from_snd p i l : map snd (wrap_from p i l) = l.
Proof.
  revert i. induction l as [|x l IH]; intro i; simpl; [reflexivity|].
  rewrite IH. reflexivity.
Qed.

Lemma wrap_from_length p i l : length (wrap_from p i l) = length l.
Proof. rewrite <- (wrap_from_snd p i l) at 2. rewrite map_length. reflexivity. Qed.

Lemma wrap_from_in p i l it :
  In it (wrap_from p i l) ->
  exists j, fst it = p ++ [j] /\ i <= j /\ In (snd it) l.
Proof.
  revert i. induction l as [|x l IH]; intros i H; [destruct H|].
  simpl in H. destruct H as [H|H].
  - subst it. exists i. simpl. split; [reflexivity|]. split; [lia|]. left. reflexivity.
  - destruct (IH (S i) H) as [j [Hj [Hle Hin]]].
    exists j. split; [exact Hj|]. split; [lia|]. right. exact Hin.
Qed.

Lemma wrap_from_nodup p i l : NoDup (map fst (wrap_from p i l)).
Proof.
  revert i. induction l as [|x l IH]; intro i; simpl; [constructor|].
  constructor; [|apply IH].
  intro Hin. apply in_map_iff in Hin. destruct Hin as [it [Hfst Hit]].
  apply wrap_from_in in Hit. destruct Hit as [j [Hj [Hle _]]].
  rewrite Hj in Hfst. apply app_inv_head in Hfst. inversion Hfst. lia.
Qed.

Lemma wrap_from_nth p i l k :
  nth_error (wrap_from p i l) k =
  match nth_error l k with Some x => Some (p ++ [i + k], x) | None => None end.
Proof.
  revert i k. induction l as [|x l IH]; intros i k.
  - destruct k; reflexivity.
  - destruct k as [|k]; simpl.
    + rewrite Nat.add_0_r. reflexivity.
    + rewrite IH. replace (S i + k) with (i + S k) by lia. reflexivity.
Qed.

(* ------------------------------------------------------------------ *)
(* contents / children of a node                                       *)

Lemma contents_snd n : map snd (contents n) = expr_contents (snd n).
Proof. unfold contents. apply wrap_from_snd. Qed.

Lemma contents_in n x :
  In x (contents n) -> exists j, fst x = fst n ++ [j] /\ In (snd x) (expr_contents (snd n)).
Proof.
  unfold contents. intro H. apply wrap_from_in in H.
  destruct H as [j [Hj [_ Hin]]]. exists j. split; assumption.
Qed.

Lemma contents_nodup n : NoDup (map fst (contents n)).
Proof. unfold contents. apply wrap_from_nodup. Qed.

Lemma children_in n c :
  In c (children n) <-> In c (contents n) /\ is_env_or_cmd (snd c) = true.
Proof. unfold children. apply filter_In. Qed.

Lemma children_snd n : map snd (children n) = expr_children (snd n).
Proof.
  unfold children, expr_children. rewrite <- contents_snd.
  induction (contents n) as [|it l IH]; simpl; [reflexivity|].
  destruct (is_env_or_cmd (snd it)); simpl; rewrite IH; reflexivity.
Qed.

Lemma children_depth n c : In c (children n) -> edepth (snd c) < edepth (snd n).
Proof.
  intro H. apply children_in in H. destruct H as [Hin Hnode].
  apply contents_in in Hin. destruct Hin as [_ [_ Hin]].
  exact (contents_depth (snd n) (snd c) Hin Hnode).
Qed.

Lemma contents_of_string p x :
  is_texexpr x = false -> contents (p, x) = [].
Proof. destruct x; simpl; intro H; try discriminate H; reflexivity. Qed.

(* well-founded induction through `children` *)
Lemma item_depth_ind (P : item -> Prop) :
  (forall n, (forall c, In c (children n) -> P c) -> P n) -> forall n, P n.
Proof.
  intro Hstep.
  assert (H : forall k n, edepth (snd n) < k -> P n).
  { induction k as [|k IH]; intros n Hk; [lia|].
    apply Hstep. intros c Hc. apply IH.
    pose proof (children_depth n c Hc). lia. }
  intro n. apply (H (S (edepth (snd n)))). lia.
Qed.

(* ------------------------------------------------------------------ *)
(* the fuelled recursions do not depend on the fuel                    *)

Lemma descendants_f_S f n :
  descendants_f (S f) n = contents n ++ flat_map (descendants_f f) (children n).
Proof. reflexivity. Qed.

Lemma descendants_fuel k1 :
  forall k2 n, edepth (snd n) < k1 -> edepth (snd n) < k2 ->
               descendants_f k1 n = descendants_f k2 n.
Proof.
  induction k1 as [|k1 IH]; intros k2 n H1 H2; [lia|].
  destruct k2 as [|k2]; [lia|].
  rewrite !descendants_f_S. f_equal.
  apply flat_map_ext_in. intros c Hc.
  pose proof (children_depth n c Hc).
  apply IH; lia.
Qed.

(* the equation of the code *)
Lemma descendants_eq n :
  descendants n = contents n ++ flat_map descendants (children n).
Proof.
  unfold descendants at 1. rewrite descendants_f_S. f_equal.
  apply flat_map_ext_in. intros c Hc.
  pose proof (children_depth n c Hc).
  unfold descendants. apply descendants_fuel; lia.
Qed.

Lemma text_f_S f n :
  text_f (S f) n =
  flat_map (fun it => if is_strlike (snd it) then [it] else text_f f it) (contents n).
Proof. reflexivity. Qed.

Lemma not_strlike_node n x :
  In x (contents n) -> is_strlike (snd x) = false -> In x (children n).
Proof.
  intros Hin Hs. apply children_in. split; [exact Hin|].
  apply contents_in in Hin. destruct Hin as [_ [_ Hin]].
  apply contents_item_cases in Hin. destruct Hin as [_ [Hn|[Hs' _]]]; [exact Hn|].
  rewrite Hs in Hs'. discriminate Hs'.
Qed.

Lemma text_fuel k1 :
  forall k2 n, edepth (snd n) < k1 -> edepth (snd n) < k2 -> text_f k1 n = text_f k2 n.
Proof.
  induction k1 as [|k1 IH]; intros k2 n H1 H2; [lia|].
  destruct k2 as [|k2]; [lia|].
  rewrite !text_f_S. apply flat_map_ext_in. intros c Hc.
  destruct (is_strlike (snd c)) eqn:Hs; [reflexivity|].
  pose proof (children_depth n c (not_strlike_node n c Hc Hs)).
  apply IH; lia.
Qed.

Lemma text_eq n :
  text n = flat_map (fun it => if is_strlike (snd it) then [it] else text it) (contents n).
Proof.
  unfold text at 1. rewrite text_f_S. apply flat_map_ext_in. intros c Hc.
  destruct (is_strlike (snd c)) eqn:Hs; [reflexivity|].
  pose proof (children_depth n c (not_strlike_node n c Hc Hs)).
  unfold text. apply text_fuel; lia.
Qed.

(* ================================================================== *)
(* C04                                                                 *)

(* (i) contents = expr.all with TexText unwrapped and blank strings dropped *)
Lemma contents_is_all_minus_blank n :
  map snd (contents n)
  = filter (fun x => negb (is_blank x)) (map unwrap (expr_all (snd n))).
Proof. rewrite contents_snd, expr_contents_eq. reflexivity. Qed.

(* ... the texts of the items are those of expr.all without the blank ones *)
Lemma contents_strings n :
  map estr (map snd (contents n))
  = map estr (filter (fun x => negb (is_blank x)) (expr_all (snd n))).
Proof.
  rewrite contents_is_all_minus_blank.
  induction (expr_all (snd n)) as [|x l IH]; [reflexivity|].
  simpl. rewrite is_blank_unwrap.
  destruct (is_blank x); simpl; rewrite IH; [reflexivity|].
  f_equal. destruct x; reflexivity.
Qed.

(* (ii) children = contents without the strings *)
Lemma children_is_contents_minus_text n :
  children n = filter (fun it => negb (is_strlike (snd it))) (contents n)
  /\ map snd (children n) = expr_children (snd n).
Proof.
  split; [|apply children_snd].
  unfold children. apply filter_ext_in. intros it Hit.
  apply contents_in in Hit. destruct Hit as [_ [_ Hit]].
  apply contents_item_cases in Hit. destruct Hit as [_ [Hn|[Hs _]]].
  - rewrite Hn. destruct (snd it); try discriminate Hn; reflexivity.
  - rewrite Hs. destruct (snd it); try discriminate Hs; reflexivity.
Qed.

(* (iii) iteration and indexing follow contents (Python indexing) *)
Lemma iter_index_follow_contents n :
  node_iter n = contents n /\
  forall k, k < length (contents n) ->
            node_getitem n (Z.of_nat k) = nth_error (contents n) k /\
            node_getitem n (Z.of_nat k - Z.of_nat (length (contents n)))
            = nth_error (contents n) k.
Proof.
  split; [reflexivity|]. intros k Hk. unfold node_getitem.
  split.
  - destruct (Z.of_nat k <? 0)%Z eqn:H1; [apply Z.ltb_lt in H1; lia|].
    rewrite H1. rewrite Nat2Z.id. reflexivity.
  - destruct (Z.of_nat k - Z.of_nat (length (contents n)) <? 0)%Z eqn:H1;
      [|apply Z.ltb_ge in H1; lia].
    replace (Z.of_nat k - Z.of_nat (length (contents n)) + Z.of_nat (length (contents n)))%Z
      with (Z.of_nat k) by lia.
    destruct (Z.of_nat k <? 0)%Z eqn:H2; [apply Z.ltb_lt in H2; lia|].
    rewrite Nat2Z.id. reflexivity.
Qed.

(* (iv) descendants = transitive closure of contents *)
Lemma descendants_of_string c :
  is_env_or_cmd (snd c) = false -> ok_item (snd c) = true -> descendants c = [].
Proof.
  intros Hn Hok. destruct c as [p x]. simpl in Hn, Hok.
  apply ok_item_cases in Hok. destruct Hok as [Hok|[_ Hok]].
  - rewrite Hok in Hn. discriminate Hn.
  - rewrite descendants_eq. unfold children.
    rewrite (contents_of_string p x Hok). reflexivity.
Qed.

Lemma contents_item_ok n c : In c (contents n) -> ok_item (snd c) = true.
Proof.
  intro H. apply contents_in in H. destruct H as [_ [_ H]].
  pose proof (expr_contents_ok (snd n)) as Hok. rewrite forallb_forall in Hok.
  exact (Hok _ H).
Qed.

Lemma descendants_reach n : forall x, In x (descendants n) -> reach n x.
Proof.
  induction n as [n IH] using item_depth_ind. intros x Hx.
  rewrite descendants_eq in Hx. apply in_app_or in Hx. destruct Hx as [Hx|Hx].
  - apply reach_one. exact Hx.
  - apply in_flat_map in Hx. destruct Hx as [c [Hc Hx]].
    apply reach_step with c.
    + apply children_in in Hc. destruct Hc as [Hc _]. exact Hc.
    + exact (IH c Hc x Hx).
Qed.

Lemma reach_descendants n x : reach n x -> In x (descendants n).
Proof.
  intro H. induction H as [n x Hx|n c x Hc Hr IH].
  - rewrite descendants_eq. apply in_or_app. left. exact Hx.
  - rewrite descendants_eq. apply in_or_app. right.
    apply in_flat_map. exists c. split; [|exact IH].
    apply children_in. split; [exact Hc|].
    destruct (is_env_or_cmd (snd c)) eqn:Hn; [reflexivity|].
    rewrite (descendants_of_string c Hn (contents_item_ok n c Hc)) in IH. destruct IH.
Qed.

Lemma descendants_is_closure n x : In x (descendants n) <-> reach n x.
Proof. split; [apply descendants_reach | apply reach_descendants]. Qed.

(* every path below n extends the path of n *)
Lemma descendants_paths n :
  forall x, In x (descendants n) -> exists j r, fst x = fst n ++ j :: r.
Proof.
  induction n as [n IH] using item_depth_ind. intros x Hx.
  rewrite descendants_eq in Hx. apply in_app_or in Hx. destruct Hx as [Hx|Hx].
  - apply contents_in in Hx. destruct Hx as [j [Hj _]]. exists j, []. exact Hj.
  - apply in_flat_map in Hx. destruct Hx as [c [Hc Hx]].
    destruct (IH c Hc x Hx) as [j' [r Hp]].
    apply children_in in Hc. destruct Hc as [Hc _].
    apply contents_in in Hc. destruct Hc as [j [Hj _]].
    exists j, (j' :: r). rewrite Hp, Hj, <- app_assoc. reflexivity.
Qed.

Lemma nodup_below (p : path) (l : list item) :
  NoDup (map fst l) ->
  (forall c, In c l -> exists j, fst c = p ++ [j]) ->
  (forall c, In c l -> NoDup (map fst (descendants c))) ->
  NoDup (flat_map (fun c => map fst (descendants c)) l).
Proof.
  induction l as [|c l IH]; intros Hnd Hform Hsub; simpl; [constructor|].
  simpl in Hnd. inversion Hnd as [|c' l' Hnc Hndl]; subst.
  apply NoDup_app_intro.
  - apply Hsub. left. reflexivity.
  - apply IH; [exact Hndl | |].
    + intros c0 Hc0. apply Hform. right. exact Hc0.
    + intros c0 Hc0. apply Hsub. right. exact Hc0.
  - intros q Hq1 Hq2.
    apply in_map_iff in Hq1. destruct Hq1 as [x1 [Hx1 Hin1]].
    apply descendants_paths in Hin1. destruct Hin1 as [j1 [r1 Hp1]].
    apply in_flat_map in Hq2. destruct Hq2 as [c2 [Hc2 Hq2]].
    apply in_map_iff in Hq2. destruct Hq2 as [x2 [Hx2 Hin2]].
    apply descendants_paths in Hin2. destruct Hin2 as [j2 [r2 Hp2]].
    destruct (Hform c (or_introl eq_refl)) as [k1 Hk1].
    destruct (Hform c2 (or_intror Hc2)) as [k2 Hk2].
    rewrite Hk1, <- app_assoc in Hp1. rewrite Hk2, <- app_assoc in Hp2.
    rewrite <- Hx1, Hp1 in Hx2. rewrite Hp2 in Hx2.
    apply app_inv_head in Hx2. simpl in Hx2. injection Hx2 as Hk Hrest.
    apply Hnc. apply in_map_iff. exists c2. split; [|exact Hc2].
    rewrite Hk1, Hk2, Hk. reflexivity.
Qed.

(* ... and every node occurs exactly once *)
Lemma descendants_nodup n : NoDup (map fst (descendants n)).
Proof.
  induction n as [n IH] using item_depth_ind.
  rewrite descendants_eq, map_app, map_flat_map.
  apply NoDup_app_intro.
  - apply contents_nodup.
  - apply nodup_below with (p := fst n).
    + unfold children. apply NoDup_map_filter. apply contents_nodup.
    + intros c Hc. apply children_in in Hc. destruct Hc as [Hc _].
      apply contents_in in Hc. destruct Hc as [j [Hj _]]. exists j. exact Hj.
    + exact IH.
  - intros q Hq1 Hq2.
    apply in_map_iff in Hq1. destruct Hq1 as [x1 [Hx1 Hin1]].
    apply contents_in in Hin1. destruct Hin1 as [j1 [Hp1 _]].
    apply in_flat_map in Hq2. destruct Hq2 as [c [Hc Hq2]].
    apply in_map_iff in Hq2. destruct Hq2 as [x2 [Hx2 Hin2]].
    apply descendants_paths in Hin2. destruct Hin2 as [j2 [r2 Hp2]].
    apply children_in in Hc. destruct Hc as [Hc _].
    apply contents_in in Hc. destruct Hc as [j [Hj _]].
    rewrite Hj, <- app_assoc in Hp2.
    rewrite <- Hx1, Hp1 in Hx2. rewrite Hp2 in Hx2.
    apply app_inv_head in Hx2. simpl in Hx2. inversion Hx2.
Qed.

(* ------------------------------------------------------------------ *)
(* the structural walk, expressed through contents                     *)

Lemma walk_string x : is_env_or_cmd x = false -> ok_item x = true -> walk x = [].
Proof.
  intros Hn Hok. apply ok_item_cases in Hok. destruct Hok as [Hok|[_ Hok]].
  - rewrite Hok in Hn. discriminate Hn.
  - destruct x; try discriminate Hok; reflexivity.
Qed.

Lemma walk_clean_one x :
  flat_map (fun x => x :: walk x) (if is_blank (unwrap x) then [] else [unwrap x])
  = walk_item x.
Proof.
  destruct x; cbn [unwrap is_blank walk_item];
    try (destruct (str_isspace _); reflexivity);
    cbn [flat_map]; apply app_nil_r.
Qed.

Lemma walk_clean_body b :
  flat_map (fun x => x :: walk x) (clean b) = flat_map walk_item b.
Proof.
  induction b as [|x b IH]; [reflexivity|].
  rewrite clean_cons, flat_map_app, IH, walk_clean_one. reflexivity.
Qed.

Lemma walk_contents e :
  walk e = flat_map (fun x => x :: walk x) (expr_contents e).
Proof.
  induction e as [t|s p|s|n a b p IHa IHb|n a b p IHa IHb|k b p IHb|k b p IHb|b IHb]
    using expr_ind'.
  - simpl. unfold clean. simpl. destruct (str_isspace (ttext t)); reflexivity.
  - reflexivity.
  - reflexivity.
  - rewrite walk_eq, expr_contents_eq. cbn [expr_all].
    rewrite clean_app, flat_map_app, (walk_clean_body b). f_equal.
    rewrite clean_id.
    + rewrite flat_map_flat_map. apply flat_map_ext_in. intros a0 Ha0.
      rewrite Forall_forall in IHa. exact (IHa a0 Ha0).
    + apply forallb_flat_map. intros a0 _. apply expr_contents_ok.
  - rewrite walk_eq, expr_contents_eq. cbn [expr_all].
    rewrite clean_app, flat_map_app, (walk_clean_body b). f_equal.
    rewrite clean_id.
    + rewrite flat_map_flat_map. apply flat_map_ext_in. intros a0 Ha0.
      rewrite Forall_forall in IHa. exact (IHa a0 Ha0).
    + apply forallb_flat_map. intros a0 _. apply expr_contents_ok.
  - rewrite walk_eq, expr_contents_eq. cbn [expr_all]. rewrite walk_clean_body. reflexivity.
  - rewrite walk_eq, expr_contents_eq. cbn [expr_all]. rewrite walk_clean_body. reflexivity.
  - rewrite walk_eq, expr_contents_eq. cbn [expr_all]. rewrite walk_clean_body. reflexivity.
Qed.

(* breadth-first-by-level order of the code vs depth-first order of the walk *)
Lemma perm_level_vs_dfs (l : list expr) :
  forall p i,
    (forall c, In c (wrap_from p i l) -> is_env_or_cmd (snd c) = true ->
               Permutation (map snd (descendants c)) (walk (snd c))) ->
    (forall x, In x l -> is_env_or_cmd x = false -> walk x = []) ->
    Permutation
      (l ++ flat_map (fun c => map snd (descendants c))
                     (filter (fun it => is_env_or_cmd (snd it)) (wrap_from p i l)))
      (flat_map (fun x => x :: walk x) l).
Proof.
  induction l as [|x l IH]; intros p i Hsub Hstr; [constructor|].
  simpl. apply perm_skip.
  assert (IH' := IH p (S i)
                    (fun c Hc => Hsub c (or_intror Hc))
                    (fun y Hy => Hstr y (or_intror Hy))).
  destruct (is_env_or_cmd x) eqn:Hx; simpl.
  - eapply perm_trans; [apply Permutation_app_swap_app|].
    apply Permutation_app; [|exact IH'].
    apply (Hsub (p ++ [i], x)); [left; reflexivity | exact Hx].
  - rewrite (Hstr x (or_introl eq_refl) Hx). exact IH'.
Qed.

(* C03: the descendants are exactly the items of the structural walk *)
Lemma descendants_complete n :
  Permutation (map snd (descendants n)) (walk (snd n)).
Proof.
  induction n as [n IH] using item_depth_ind.
  rewrite descendants_eq, map_app, map_flat_map, contents_snd, walk_contents.
  unfold children, contents.
  apply perm_level_vs_dfs.
  - intros c Hc Hnode. apply IH. apply children_in. split; [exact Hc | exact Hnode].
  - intros x Hx Hnode. apply walk_string; [exact Hnode|].
    pose proof (expr_contents_ok (snd n)) as Hok. rewrite forallb_forall in Hok.
    exact (Hok x Hx).
Qed.

Lemma descendants_complete_once n :
  Permutation (map snd (descendants n)) (walk (snd n))
  /\ NoDup (map fst (descendants n)).
Proof. split; [apply descendants_complete | apply descendants_nodup]. Qed.

(* (v) text: the non-blank string leaves, depth first, left to right *)
Lemma map_snd_flat_map_wrap (g : item -> list item) (h : expr -> list expr) l :
  forall p i,
    (forall c, In c (wrap_from p i l) -> map snd (g c) = h (snd c)) ->
    map snd (flat_map g (wrap_from p i l)) = flat_map h l.
Proof.
  induction l as [|x l IH]; intros p i H; [reflexivity|].
  simpl. rewrite map_app. f_equal.
  - exact (H (p ++ [i], x) (or_introl eq_refl)).
  - apply IH. intros c Hc. apply H. right. exact Hc.
Qed.

Lemma text_is_walk_strings n :
  map snd (text n) = filter is_strlike (walk (snd n)).
Proof.
  induction n as [n IH] using item_depth_ind.
  rewrite text_eq, walk_contents, filter_flat_map. unfold contents at 1.
  apply map_snd_flat_map_wrap. intros c Hc. fold (contents n) in Hc.
  destruct (is_strlike (snd c)) eqn:Hs.
  - simpl. rewrite Hs.
    assert (Hw : walk (snd c) = []).
    { apply walk_string; [|exact (contents_item_ok n c Hc)].
      destruct (snd c); try discriminate Hs; reflexivity. }
    rewrite Hw. reflexivity.
  - simpl. rewrite Hs. apply IH. exact (not_strlike_node n c Hc Hs).
Qed.

Lemma leaves_string x : is_env_or_cmd x = false -> ok_item x = true -> leaves x = [].
Proof.
  intros Hn Hok. apply ok_item_cases in Hok. destruct Hok as [Hok|[_ Hok]].
  - rewrite Hok in Hn. discriminate Hn.
  - destruct x; try discriminate Hok; reflexivity.
Qed.

Lemma leaf_item_walk_item x :
  (is_env_or_cmd x = true -> leaves x = filter is_strlike (walk x)) ->
  leaf_item x = filter is_strlike (walk_item x).
Proof.
  intro H. destruct x; simpl.
  - destruct (str_isspace (ttext t)); reflexivity.
  - destruct (str_isspace s); reflexivity.
  - destruct (str_isspace s); reflexivity.
  - apply H; reflexivity.
  - apply H; reflexivity.
  - apply H; reflexivity.
  - apply H; reflexivity.
  - apply H; reflexivity.
Qed.

(* the independent enumeration of string leaves = the strings of the walk *)
Lemma leaves_walk e : leaves e = filter is_strlike (walk e).
Proof.
  induction e as [t|s p|s|n a b p IHa IHb|n a b p IHa IHb|k b p IHb|k b p IHb|b IHb]
    using expr_ind'.
  - simpl. destruct (str_isspace (ttext t)); reflexivity.
  - reflexivity.
  - reflexivity.
  - rewrite leaves_eq, walk_eq, filter_app, !filter_flat_map. f_equal.
    + apply flat_map_ext_in. intros a0 Ha0. rewrite Forall_forall in IHa. exact (IHa a0 Ha0).
    + apply flat_map_ext_in. intros x Hx. apply leaf_item_walk_item. intros _.
      rewrite Forall_forall in IHb. exact (IHb x Hx).
  - rewrite leaves_eq, walk_eq, filter_app, !filter_flat_map. f_equal.
    + apply flat_map_ext_in. intros a0 Ha0. rewrite Forall_forall in IHa. exact (IHa a0 Ha0).
    + apply flat_map_ext_in. intros x Hx. apply leaf_item_walk_item. intros _.
      rewrite Forall_forall in IHb. exact (IHb x Hx).
  - rewrite leaves_eq, walk_eq, !filter_flat_map.
    apply flat_map_ext_in. intros x Hx. apply leaf_item_walk_item. intros _.
    rewrite Forall_forall in IHb. exact (IHb x Hx).
  - rewrite leaves_eq, walk_eq, !filter_flat_map.
    apply flat_map_ext_in. intros x Hx. apply leaf_item_walk_item. intros _.
    rewrite Forall_forall in IHb. exact (IHb x Hx).
  - rewrite leaves_eq, walk_eq, !filter_flat_map.
    apply flat_map_ext_in. intros x Hx. apply leaf_item_walk_item. intros _.
    rewrite Forall_forall in IHb. exact (IHb x Hx).
Qed.

Lemma text_is_leaves_in_order n :
  map snd (text n) = leaves (snd n)
  /\ leaves (snd n) = filter is_strlike (walk (snd n)).
Proof. split; [rewrite leaves_walk; apply text_is_walk_strings | apply leaves_walk]. Qed.

(* the text items are exactly the string items of descendants (as a multiset) *)
Lemma text_perm_descendants n :
  Permutation (map snd (text n)) (filter is_strlike (map snd (descendants n))).
Proof.
  rewrite text_is_walk_strings.
  apply Permutation_sym.
  assert (H : forall (l1 l2 : list expr), Permutation l1 l2 ->
                                          Permutation (filter is_strlike l1) (filter is_strlike l2)).
  { intros l1 l2 Hp. induction Hp as [|x l1 l2 Hp IH|x y l|l1 l2 l3 H1 IH1 H2 IH2].
    - constructor.
    - simpl. destruct (is_strlike x); [apply perm_skip|]; exact IH.
    - simpl. destruct (is_strlike x), (is_strlike y);
        try apply perm_swap; try apply Permutation_refl.
    - eapply perm_trans; eassumption. }
  apply H. apply descendants_complete.
Qed.

(* (vi) at the root (and in any argument-free environment) the complete
   content list concatenates to the whole text *)
Lemma root_all_concat b : concat (map estr (expr_all (ERoot b))) = estr (ERoot b).
Proof. reflexivity. Qed.

Lemma root_node_all_ok b :
  forallb is_texexpr b = true -> node_all ([], ERoot b) = Some b.
Proof. intro H. unfold node_all. simpl. rewrite H. reflexivity. Qed.

(* (vii) parents *)
Lemma parent_of_contents_item n x : In x (contents n) -> parent_path (fst x) = fst n.
Proof.
  intro H. apply contents_in in H. destruct H as [j [Hj _]].
  rewrite Hj. unfold parent_path. apply removelast_last.
Qed.

Lemma parent_of_view_item n x :
  (In x (contents n) -> parent_path (fst x) = fst n) /\
  (In x (children n) -> parent_path (fst x) = fst n) /\
  (In x (node_iter n) -> parent_path (fst x) = fst n) /\
  (In x (descendants n) ->
   exists m, (m = n \/ (In m (descendants n) /\ is_env_or_cmd (snd m) = true))
             /\ In x (contents m) /\ parent_path (fst x) = fst m).
Proof.
  split; [apply parent_of_contents_item|].
  split; [intro H; apply children_in in H; destruct H as [H _];
          exact (parent_of_contents_item n x H)|].
  split; [apply parent_of_contents_item|].
  revert x. induction n as [n IH] using item_depth_ind. intros x Hx.
  rewrite descendants_eq in Hx. apply in_app_or in Hx. destruct Hx as [Hx|Hx].
  - exists n. split; [left; reflexivity|]. split; [exact Hx|].
    exact (parent_of_contents_item n x Hx).
  - apply in_flat_map in Hx. destruct Hx as [c [Hc Hx]].
    destruct (IH c Hc x Hx) as [m [Hm [Hxm Hpar]]].
    exists m. split; [|split; assumption].
    right. pose proof Hc as Hc'. apply children_in in Hc'. destruct Hc' as [Hcc Hcn].
    destruct Hm as [Hm|[Hm Hmn]].
    + subst m. split; [|exact Hcn].
      rewrite descendants_eq. apply in_or_app. left. exact Hcc.
    + split; [|exact Hmn].
      rewrite descendants_eq. apply in_or_app. right.
      apply in_flat_map. exists c. split; assumption.
Qed.

Lemma ancestor_path_app p s : ancestor_path (length s) (p ++ s) = p.
Proof.
  induction s as [|a s IH] using rev_ind.
  - simpl. apply app_nil_r.
  - rewrite app_length. simpl length. rewrite Nat.add_1_r. simpl.
    unfold parent_path. rewrite app_assoc, removelast_last. exact IH.
Qed.

(* walking parents from any descendant ends at the node the view was taken of *)
Lemma parents_reach_root n x :
  In x (descendants n) ->
  length (fst n) < length (fst x) /\
  ancestor_path (length (fst x) - length (fst n)) (fst x) = fst n.
Proof.
  intro H. apply descendants_paths in H. destruct H as [j [r Hp]].
  rewrite Hp, app_length. simpl length. split; [lia|].
  replace (length (fst n) + S (length r) - length (fst n)) with (length (j :: r))
    by (simpl; lia).
  apply ancestor_path_app.
Qed.

(* the ancestors of a descendant, strictly between it and n, are descendant
   nodes of n *)
Lemma parents_walk_through_descendants n :
  forall i x, In x (descendants n) ->
              i < length (fst x) - length (fst n) ->
              exists m, In m (descendants n) /\ fst m = ancestor_path i (fst x)
                        /\ (0 < i -> is_env_or_cmd (snd m) = true).
Proof.
  induction i as [|i IHi]; intros x Hx Hi.
  - exists x. split; [exact Hx|]. split; [reflexivity|]. intro H. lia.
  - destruct (parent_of_view_item n x) as [_ [_ [_ Hpar]]].
    destruct (Hpar Hx) as [m [Hm [Hxm Hpm]]].
    pose proof (contents_in m x Hxm) as [j [Hj _]].
    assert (Hlen : length (fst x) = S (length (fst m))).
    { rewrite Hj, app_length. simpl. lia. }
    destruct Hm as [Hm|[Hm Hmn]].
    + subst m. lia.
    + simpl. rewrite Hpm.
      destruct i as [|i].
      * exists m. split; [exact Hm|]. split; [reflexivity|]. intros _. exact Hmn.
      * destruct (IHi m Hm) as [m' [Hm' [Hp' Hn']]]; [lia|].
        exists m'. split; [exact Hm'|]. split; [exact Hp'|]. intros _. apply Hn'. lia.
Qed.

(* ================================================================== *)
(* C03                                                                 *)

Lemma descendants_ok n x : In x (descendants n) -> ok_item (snd x) = true.
Proof.
  intro H. destruct (parent_of_view_item n x) as [_ [_ [_ Hpar]]].
  destruct (Hpar H) as [m [_ [Hxm _]]]. exact (contents_item_ok m x Hxm).
Qed.

Lemma find_is_head q n : find q n = hd_error (find_all q n).
Proof. unfold find. destruct (find_all q n); reflexivity. Qed.

Lemma count_is_length q n : count q n = length (find_all q n).
Proof. reflexivity. Qed.

Lemma getattr_is_find a n :
  is_real_attr a = false -> getattr a n = AFound (find (QName a) n).
Proof. intro H. unfold getattr. rewrite H. reflexivity. Qed.

Lemma find_all_sublist q n :
  forall x, In x (find_all q n) -> In x (descendants n) /\ is_env_or_cmd (snd x) = true.
Proof.
  intros x H. unfold find_all in H. apply filter_In in H. destruct H as [Hin Hm].
  split; [exact Hin|].
  pose proof (descendants_ok n x Hin) as Hok.
  apply ok_item_cases in Hok. destruct Hok as [Hok|[_ Hok]]; [exact Hok|].
  destruct (snd x); try discriminate Hok; discriminate Hm.
Qed.

Lemma find_all_nodup q n : NoDup (map fst (find_all q n)).
Proof. unfold find_all. apply NoDup_map_filter. apply descendants_nodup. Qed.

(* --- plain identifiers ------------------------------------------------ *)

Lemma ident_no_brace q : ident_query q = true -> query_has_brace (QName q) = false.
Proof.
  unfold ident_query, query_has_brace. destruct q as [|c q]; [discriminate|].
  intro H. rewrite forallb_forall in H.
  apply orb_false_iff. split.
  - destruct (mem_N c_lbrace (c :: q)) eqn:Hm; [|reflexivity].
    unfold mem_N in Hm. apply existsb_exists in Hm. destruct Hm as [y [Hy Heq]].
    apply N.eqb_eq in Heq. subst y. specialize (H _ Hy). discriminate H.
  - destruct (mem_N c_lbracket (c :: q)) eqn:Hm; [|reflexivity].
    unfold mem_N in Hm. apply existsb_exists in Hm. destruct Hm as [y [Hy Heq]].
    apply N.eqb_eq in Heq. subst y. specialize (H _ Hy). discriminate H.
Qed.

Lemma ident_head_bad q c s :
  ident_query q = true -> mem_N c [123; 91; 125; 93; 92]%N = true -> str_eqb q (c :: s) = false.
Proof.
  intros Hq Hc. destruct (str_eqb q (c :: s)) eqn:He; [|reflexivity].
  apply str_eqb_eq in He. subst q. unfold ident_query in Hq.
  cbn [forallb] in Hq. rewrite Hc in Hq. discriminate Hq.
Qed.

Lemma ident_not_nil q : ident_query q = true -> str_eqb q [] = false.
Proof. destruct q; [discriminate|reflexivity]. Qed.

Lemma ident_match q x :
  ident_query q = true -> ok_item x = true ->
  match_item (QName q) x = is_env_or_cmd x && str_eqb (expr_name x) q.
Proof.
  intros Hq Hok. pose proof (ident_no_brace q Hq) as Hnb.
  assert (Hsym : forall a, str_eqb q a = str_eqb a q).
  { intro a. destruct (str_eqb q a) eqn:H1; destruct (str_eqb a q) eqn:H2; try reflexivity.
    - apply str_eqb_eq in H1. subst a. rewrite str_eqb_refl in H2. discriminate H2.
    - apply str_eqb_eq in H2. subst a. rewrite str_eqb_refl in H1. discriminate H1. }
  destruct x as [t|s p|s|n a b p|n a b p|k b p|k b p|b].
  - unfold ok_item in Hok. rewrite andb_false_r in Hok. discriminate Hok.
  - reflexivity.
  - reflexivity.
  - cbn [match_item is_env_or_cmd andb]. unfold texexpr_match. rewrite Hnb. reflexivity.
  - cbn [match_item is_env_or_cmd andb]. unfold texenv_match, texexpr_match. rewrite Hnb.
    unfold expr_begin_args. cbn [expr_name expr_begin expr_end expr_args].
    unfold env_begin, env_end, s_begin_open, s_end_open. cbn [app].
    rewrite (ident_head_bad q 92%N _ Hq eq_refl).
    rewrite (ident_head_bad q 92%N _ Hq eq_refl).
    rewrite (ident_head_bad q 92%N _ Hq eq_refl).
    rewrite !orb_false_r, Hsym. destruct (str_eqb n q); reflexivity.
  - cbn [match_item is_env_or_cmd andb]. unfold texenv_match, texexpr_match. rewrite Hnb.
    unfold expr_begin_args. cbn [expr_name expr_begin expr_end expr_args].
    destruct k; vm_compute math_name; vm_compute math_begin; vm_compute math_end;
      unfold estr_list; cbn [map concat app];
      rewrite ?(ident_head_bad q 92%N _ Hq eq_refl);
      rewrite Hsym; destruct (str_eqb _ q); reflexivity.
  - cbn [match_item is_env_or_cmd andb]. unfold texenv_match, texexpr_match. rewrite Hnb.
    unfold expr_begin_args. cbn [expr_name expr_begin expr_end expr_args].
    destruct k; vm_compute group_name; vm_compute group_begin; vm_compute group_end;
      unfold estr_list; cbn [map concat app];
      rewrite ?(ident_head_bad q 123%N _ Hq eq_refl), ?(ident_head_bad q 125%N _ Hq eq_refl),
        ?(ident_head_bad q 91%N _ Hq eq_refl), ?(ident_head_bad q 93%N _ Hq eq_refl);
      rewrite !orb_false_r, Hsym; destruct (str_eqb _ q); reflexivity.
  - cbn [match_item is_env_or_cmd andb]. unfold texenv_match, texexpr_match. rewrite Hnb.
    unfold expr_begin_args. cbn [expr_name expr_begin expr_end expr_args].
    unfold estr_list; cbn [map concat app].
    rewrite (ident_not_nil q Hq), !orb_false_r, Hsym. destruct (str_eqb _ q); reflexivity.
Qed.

Lemma find_all_spec_partial q n :
  ident_query q = true ->
  find_all (QName q) n
  = filter (fun it => is_env_or_cmd (snd it) && str_eqb (expr_name (snd it)) q) (descendants n).
Proof.
  intro Hq. unfold find_all. apply filter_ext_in. intros x Hx.
  apply ident_match; [exact Hq | exact (descendants_ok n x Hx)].
Qed.

(* --- list queries ------------------------------------------------------ *)

Lemma list_match l x :
  query_has_brace (QList l) = false -> ok_item x = true ->
  match_item (QList l) x = is_env_or_cmd x && mem_str (expr_name x) l.
Proof.
  intros Hnb Hok.
  destruct x as [t|s p|s|n a b p|n a b p|k b p|k b p|b];
    try reflexivity;
    try (cbn [match_item texenv_match is_env_or_cmd andb]; unfold texexpr_match;
         rewrite Hnb; reflexivity).
  unfold ok_item in Hok. rewrite andb_false_r in Hok. discriminate Hok.
Qed.

Lemma list_query_exact l n :
  query_has_brace (QList l) = false ->
  find_all (QList l) n
  = filter (fun it => is_env_or_cmd (snd it) && mem_str (expr_name (snd it)) l) (descendants n).
Proof.
  intro Hnb. unfold find_all. apply filter_ext_in. intros x Hx.
  apply list_match; [exact Hnb | exact (descendants_ok n x Hx)].
Qed.

(* the quirk: a list holding the one-character string '{' or '[' matches nothing *)
Lemma list_query_brace_quirk l n :
  query_has_brace (QList l) = true -> find_all (QList l) n = [].
Proof.
  intro Hb. unfold find_all.
  assert (H : forall x, match_item (QList l) x = false).
  { intro x. destruct x; try reflexivity;
      cbn [match_item texenv_match]; unfold texexpr_match; rewrite Hb; reflexivity. }
  induction (descendants n) as [|x d IH]; [reflexivity|].
  simpl. rewrite H. exact IH.
Qed.

Lemma idents_no_brace l :
  forallb ident_query l = true -> query_has_brace (QList l) = false.
Proof.
  intro H. rewrite forallb_forall in H. unfold query_has_brace.
  apply orb_false_iff. split.
  - destruct (mem_str [c_lbrace] l) eqn:Hm; [|reflexivity].
    unfold mem_str in Hm. apply existsb_exists in Hm. destruct Hm as [y [Hy Heq]].
    apply str_eqb_eq in Heq. subst y. specialize (H _ Hy). discriminate H.
  - destruct (mem_str [c_lbracket] l) eqn:Hm; [|reflexivity].
    unfold mem_str in Hm. apply existsb_exists in Hm. destruct Hm as [y [Hy Heq]].
    apply str_eqb_eq in Heq. subst y. specialize (H _ Hy). discriminate H.
Qed.

Lemma list_query_is_union l n :
  forallb ident_query l = true ->
  forall x, In x (find_all (QList l) n)
            <-> exists q, In q l /\ In x (find_all (QName q) n).
Proof.
  intros Hl x. rewrite (list_query_exact l n (idents_no_brace l Hl)).
  rewrite forallb_forall in Hl.
  split.
  - intro H. apply filter_In in H. destruct H as [Hin Hm].
    apply andb_true_iff in Hm. destruct Hm as [Hnode Hmem].
    unfold mem_str in Hmem. apply existsb_exists in Hmem. destruct Hmem as [q [Hq Heq]].
    exists q. split; [exact Hq|].
    rewrite (find_all_spec_partial q n (Hl q Hq)).
    apply filter_In. split; [exact Hin|]. rewrite Hnode, Heq. reflexivity.
  - intros [q [Hq H]].
    rewrite (find_all_spec_partial q n (Hl q Hq)) in H.
    apply filter_In in H. destruct H as [Hin Hm].
    apply andb_true_iff in Hm. destruct Hm as [Hnode Heq].
    apply filter_In. split; [exact Hin|]. rewrite Hnode. simpl.
    unfold mem_str. apply existsb_exists. exists q. split; assumption.
Qed.

(* --- full-expression queries and absent names --------------------------- *)

Lemma str_eqb_sym a b : str_eqb a b = str_eqb b a.
Proof.
  destruct (str_eqb a b) eqn:H1; destruct (str_eqb b a) eqn:H2; try reflexivity.
  - apply str_eqb_eq in H1. subst b. rewrite str_eqb_refl in H2. discriminate H2.
  - apply str_eqb_eq in H2. subst b. rewrite str_eqb_refl in H1. discriminate H1.
Qed.

Lemma env_match_openings q x :
  texenv_match (QName q) x = mem_str q (env_openings x) || texexpr_match (QName q) x.
Proof.
  unfold texenv_match, env_openings, mem_str. cbn [existsb]. rewrite orb_false_r.
  rewrite !orb_assoc.
  destruct (str_eqb q (expr_name x) || str_eqb q (expr_begin_args x)
            || str_eqb q (expr_begin x) || str_eqb q (expr_end x)); reflexivity.
Qed.

Lemma full_expr_match q x :
  query_has_brace (QName q) = true -> ok_item x = true ->
  match_item (QName q) x
  = is_env_or_cmd x && (str_eqb (estr x) q || (is_env x && mem_str q (env_openings x))).
Proof.
  intros Hb Hok.
  destruct x as [t|s p|s|n a b p|n a b p|k b p|k b p|b];
    try reflexivity;
    try (cbn [match_item is_env_or_cmd is_env andb]; rewrite env_match_openings;
         unfold texexpr_match; rewrite Hb; apply orb_comm).
  - unfold ok_item in Hok. rewrite andb_false_r in Hok. discriminate Hok.
  - cbn [match_item is_env_or_cmd is_env andb]. unfold texexpr_match. rewrite Hb.
    rewrite orb_false_r. reflexivity.
Qed.

Lemma full_expr_query_spec q n :
  query_has_brace (QName q) = true ->
  find_all (QName q) n
  = filter (fun it => is_env_or_cmd (snd it)
                      && (str_eqb (estr (snd it)) q
                          || (is_env (snd it) && mem_str q (env_openings (snd it)))))
           (descendants n).
Proof.
  intro Hb. unfold find_all. apply filter_ext_in. intros x Hx.
  apply full_expr_match; [exact Hb | exact (descendants_ok n x Hx)].
Qed.

(* whatever the form of the query: a match is a node one of whose names is q *)
Lemma match_sound q x :
  match_item (QName q) x = true -> mem_str q (names_of x) = true.
Proof.
  assert (Hexpr : texexpr_match (QName q) x = true -> mem_str q (names_of x) = true).
  { unfold texexpr_match, names_of, env_openings, mem_str. cbn [existsb].
    destruct (query_has_brace (QName q)); intro H.
    - rewrite str_eqb_sym, H. reflexivity.
    - rewrite (str_eqb_sym q (expr_name x)), H. apply orb_true_r. }
  destruct x as [t|s p|s|n a b p|n a b p|k b p|k b p|b]; cbn [match_item];
    try discriminate; try exact Hexpr;
    rewrite env_match_openings; intro H; apply orb_true_iff in H;
    (destruct H as [H|H]; [|exact (Hexpr H)]);
    unfold names_of, mem_str; cbn [existsb]; unfold mem_str in H; rewrite H;
    apply orb_true_r.
Qed.

Lemma absent_name_empty q n :
  forallb (fun d => negb (mem_str q (names_of (snd d)))) (descendants n) = true ->
  find_all (QName q) n = [] /\ find (QName q) n = None /\ count (QName q) n = 0.
Proof.
  intro H.
  assert (Hfa : find_all (QName q) n = []).
  { unfold find_all. rewrite forallb_forall in H.
    induction (descendants n) as [|x d IH]; [reflexivity|].
    simpl. destruct (match_item (QName q) (snd x)) eqn:Hm.
    - apply match_sound in Hm. specialize (H x (or_introl eq_refl)).
      rewrite Hm in H. discriminate H.
    - apply IH. intros y Hy. apply H. right. exact Hy. }
  unfold find, count. rewrite Hfa. repeat split; reflexivity.
Qed.

Lemma absent_list_empty l n :
  forallb (fun d => negb (mem_str (expr_name (snd d)) l)) (descendants n) = true ->
  find_all (QList l) n = [].
Proof.
  intro H. destruct (query_has_brace (QList l)) eqn:Hb.
  - apply list_query_brace_quirk. exact Hb.
  - rewrite (list_query_exact l n Hb). rewrite forallb_forall in H.
    induction (descendants n) as [|x d IH]; [reflexivity|].
    simpl. pose proof (H x (or_introl eq_refl)) as Hx. apply negb_true_iff in Hx.
    rewrite Hx, andb_false_r. apply IH. intros y Hy. apply H. right. exact Hy.
Qed.

(* ================================================================== *)
(* witnesses: statements that are false of the faithful model, and
   non-vacuity examples                                                *)

(* \section{A \emph{b}}\begin{itemize}\item x $y$ \item z\end{itemize}\ref{k}\ref{j}\ref{k} *)
Definition ex_doc : str := [92; 115; 101; 99; 116; 105; 111; 110; 123; 65; 32; 92; 101; 109; 112; 104; 123; 98; 125; 125; 92; 98; 101; 103; 105; 110; 123; 105; 116; 101; 109; 105; 122; 101; 125; 92; 105; 116; 101; 109; 32; 120; 32; 36; 121; 36; 32; 92; 105; 116; 101; 109; 32; 122; 92; 101; 110; 100; 123; 105; 116; 101; 109; 105; 122; 101; 125; 92; 114; 101; 102; 123; 107; 125; 92; 114; 101; 102; 123; 106; 125; 92; 114; 101; 102; 123; 107; 125]%N.
Definition ex_tree : expr :=
  match parse ex_doc true [] with Ok e => e | Err _ => ERoot [] end.
Definition ex_root : item := ([], ex_tree).
Definition s_item' : str := [105; 116; 101; 109]%N.
Definition s_ref : str := [114; 101; 102]%N.
Definition s_emph : str := [101; 109; 112; 104]%N.
Definition s_refk : str := [92; 114; 101; 102; 123; 107; 125]%N.
Definition s_begin_itemize : str := [92; 98; 101; 103; 105; 110; 123; 105; 116; 101; 109; 105; 122; 101; 125]%N.

(* "no { and no [ in the query" is not enough for find_all_spec: '}' finds
   the brace group (its `end`), whose name is 'BraceGroup'.  Source: {a} *)
Lemma find_all_spec_refuted :
  exists (src q : str) (e : expr),
    parse src true [] = Ok e /\ query_has_brace (QName q) = false /\
    find_all (QName q) ([], e)
    <> filter (fun it => is_env_or_cmd (snd it) && str_eqb (expr_name (snd it)) q)
              (descendants ([], e)).
Proof.
  exists [123; 97; 125]%N, [125]%N. eexists.
  split; [vm_compute; reflexivity|]. split; [reflexivity|].
  vm_compute. discriminate.
Qed.

(* a command whose name contains '[' or '{' ( \left[  \big\{ ) is not found
   under its own name: the name is taken for a full-expression query.
   Source: \left[ x \right] *)
Lemma name_with_bracket_not_found :
  exists (src : str) (e : expr) (d : item),
    parse src true [] = Ok e /\ In d (descendants ([], e)) /\
    is_env_or_cmd (snd d) = true /\ find_all (QName (expr_name (snd d))) ([], e) = [].
Proof.
  exists [92; 108; 101; 102; 116; 91; 32; 120; 32; 92; 114; 105; 103; 104; 116; 93]%N. eexists. eexists.
  split; [vm_compute; reflexivity|].
  split; [vm_compute; left; reflexivity|].
  split; vm_compute; reflexivity.
Qed.

(* a list query holding the one-character string '{' matches nothing, although
   one of its names is present.  Source: \x, query ['{', 'x'] *)
Lemma list_query_is_union_refuted :
  exists (src : str) (l : list str) (q : str) (e : expr),
    parse src true [] = Ok e /\ In q l /\
    find_all (QName q) ([], e) <> [] /\ find_all (QList l) ([], e) = [].
Proof.
  exists [92; 120]%N, [[123]%N; [120]%N], [120]%N. eexists.
  split; [vm_compute; reflexivity|].
  split; [right; left; reflexivity|].
  split; [vm_compute; discriminate | vm_compute; reflexivity].
Qed.

(* `expr`, `parent`, `char_to_line` are not in dir(TexNode) but are set by
   __init__: attribute access does not reach __getattr__ *)
Lemma getattr_is_find_refuted :
  exists (a : str) (n : item),
    mem_str a Tables.dir_texnode = false /\ getattr a n <> AFound (find (QName a) n).
Proof.
  exists [101; 120; 112; 114]%N, ex_root. split; [vm_compute; reflexivity|].
  vm_compute. discriminate.
Qed.

(* non-vacuity *)
Example ex_parses : parse ex_doc true [] = Ok ex_tree.
Proof. vm_compute. reflexivity. Qed.

Example ex_descendants_count : length (descendants ex_root) = 17 /\ length (text ex_root) = 8.
Proof. vm_compute. split; reflexivity. Qed.

Example ex_find_all_item :
  ident_query s_item' = true /\ map fst (find_all (QName s_item') ex_root) = [[1; 0]; [1; 1]].
Proof. vm_compute. split; reflexivity. Qed.

Example ex_list_query :
  forallb ident_query [s_emph; s_ref] = true
  /\ map fst (find_all (QList [s_emph; s_ref]) ex_root) = [[2]; [3]; [4]; [0; 1]].
Proof. vm_compute. split; reflexivity. Qed.

Example ex_full_expr_query :
  query_has_brace (QName s_refk) = true
  /\ map fst (find_all (QName s_refk) ex_root) = [[2]; [4]]
  /\ query_has_brace (QName s_begin_itemize) = true
  /\ map fst (find_all (QName s_begin_itemize) ex_root) = [[1]].
Proof. vm_compute. repeat split; reflexivity. Qed.

Example ex_absent :
  forallb (fun d => negb (mem_str [122; 122; 97; 98; 115; 101; 110; 116]%N (names_of (snd d)))) (descendants ex_root) = true.
Proof. vm_compute. reflexivity. Qed.

Example ex_getattr : is_real_attr s_emph = false /\ is_real_attr [116; 101; 120; 116]%N = true.
Proof. vm_compute. split; reflexivity. Qed.

Example ex_deep_descendant :
  In ([1; 0; 1; 0], ERaw [121]%N 44) (descendants ex_root).
Proof. vm_compute. tauto. Qed.

Example ex_index : 1 < length (contents ex_root) /\ node_getitem ex_root (-1) = nth_error (contents ex_root) 4.
Proof. vm_compute. split; [lia | reflexivity]. Qed.

Example ex_root_all : match ex_tree with ERoot b => forallb is_texexpr b = true | _ => False end.
Proof. vm_compute. reflexivity. Qed.

Example ex_absent_list :
  forallb (fun d => negb (mem_str (expr_name (snd d)) [s_refk; [122; 122]%N])) (descendants ex_root) = true.
Proof. vm_compute. reflexivity. Qed.
