(* Proofs about the TexArgs model (Model/Args.v): refinement of a plain Python
   list of groups, the shadow-list invariant, rejection of malformed strings. *)
From Coq Require Import List ZArith Bool Lia Permutation.
From TexModel Require Import Args.
Import ListNotations.
Local Open Scope Z_scope.

(* ------------------------------------------------------------------ *)
(* strings and textual equality                                        *)

Lemma pstr_eqb_eq a b : pstr_eqb a b = true <-> a = b.
Proof.
  revert b; induction a as [|x a IH]; destruct b as [|y b]; simpl; split; intro H;
    try reflexivity; try discriminate.
  - apply andb_true_iff in H as [H1 H2]. apply Z.eqb_eq in H1. apply IH in H2. congruence.
  - inversion H; subst. rewrite Z.eqb_refl. simpl. apply IH. reflexivity.
Qed.

Lemma pstr_eqb_refl a : pstr_eqb a a = true.
Proof. apply pstr_eqb_eq. reflexivity. Qed.

Lemma bool_eq_iff (a b : bool) : (a = true <-> b = true) -> a = b.
Proof. destruct a, b; intros [H1 H2]; try reflexivity; [symmetry; auto | auto]. Qed.

Lemma pstr_eqb_sym a b : pstr_eqb a b = pstr_eqb b a.
Proof. apply bool_eq_iff. rewrite !pstr_eqb_eq. split; congruence. Qed.

Lemma render_inj g h : render g = render h -> g = h.
Proof.
  destruct g as [k b], h as [k' b']. unfold render; simpl. intro H.
  injection H as Ho Hb.
  assert (Hk : k = k') by (destruct k, k'; simpl in Ho; congruence).
  subst k'. apply app_inj_tail in Hb. destruct Hb as [Hb _]. subst. reflexivity.
Qed.

Lemma group_eqb_eq g h : group_eqb g h = true <-> g = h.
Proof.
  destruct g as [k b], h as [k' b']. unfold group_eqb. cbn [fst snd]. split.
  - intro H. apply andb_true_iff in H as [H1 H2].
    apply eqb_prop in H1. apply pstr_eqb_eq in H2. congruence.
  - intro H. inversion H; subst. rewrite eqb_reflx, pstr_eqb_refl. reflexivity.
Qed.

Lemma item_eqb_groups g h : item_eqb (IG g) (IG h) = true <-> g = h.
Proof.
  unfold item_eqb, render_item. rewrite pstr_eqb_eq. split.
  - apply render_inj.
  - congruence.
Qed.

Lemma item_eqb_group_eqb x g : item_eqb (IG x) (IG g) = group_eqb x g.
Proof. apply bool_eq_iff. rewrite item_eqb_groups, group_eqb_eq. tauto. Qed.

Lemma group_eqb_sym x g : group_eqb x g = group_eqb g x.
Proof. apply bool_eq_iff. rewrite !group_eqb_eq. split; congruence. Qed.

Lemma is_space_render g : is_space (render g) = false.
Proof. destruct g as [[|] b]; reflexivity. Qed.

(* a whitespace string is never textually equal to a group *)
Lemma ws_item_eq_group x g : ws_item x -> item_eqb x (IG g) = true -> x = IG g.
Proof.
  destruct x as [h|w]; simpl; intros Hw He.
  - apply item_eqb_groups in He. congruence.
  - unfold item_eqb, render_item in He. apply pstr_eqb_eq in He. subst w.
    rewrite is_space_render in Hw. discriminate.
Qed.

Lemma group_eq_ws_false g w : is_space w = true -> item_eqb (IG g) (IW w) = false.
Proof.
  intro Hw. destruct (item_eqb (IG g) (IW w)) eqn:He; [|reflexivity].
  unfold item_eqb, render_item in He. apply pstr_eqb_eq in He. subst w.
  rewrite is_space_render in Hw. discriminate.
Qed.

(* ------------------------------------------------------------------ *)
(* TexGroup.parse / __coerce agree with the specification's reading      *)

Lemma zlen_cons {A} (x : A) l : zlen (x :: l) = zlen l + 1.
Proof. unfold zlen. simpl length. lia. Qed.

Lemma zlen_app {A} (a b : list A) : zlen (a ++ b) = zlen a + zlen b.
Proof. unfold zlen. rewrite app_length. lia. Qed.

Lemma zlen_nonneg {A} (l : list A) : 0 <= zlen l.
Proof. unfold zlen. lia. Qed.

Lemma slice_mid (c d : Z) (b : pstr) : py_slice (Some 1) (Some (-1)) (c :: b ++ [d]) = b.
Proof.
  unfold py_slice, clamp_index.
  set (n := zlen (c :: b ++ [d])).
  assert (Hn : n = zlen b + 2).
  { unfold n. rewrite zlen_cons, zlen_app. unfold zlen at 2. simpl. lia. }
  pose proof (zlen_nonneg b) as Hb.
  change (1 <? 0) with false. change (-1 <? 0) with true. cbv iota.
  destruct (n <? 1) eqn:E2; [apply Z.ltb_lt in E2; lia|].
  destruct (-1 + n <? 0) eqn:E4; [apply Z.ltb_lt in E4; lia|].
  destruct (n <? -1 + n) eqn:E5; [apply Z.ltb_lt in E5; lia|].
  destruct (1 <? -1 + n) eqn:E6.
  - replace (Z.to_nat (-1 + n - 1)) with (length b) by (unfold zlen in Hn; lia).
    change (Z.to_nat 1) with 1%nat. simpl skipn.
    rewrite firstn_app, Nat.sub_diag, firstn_all. simpl. apply app_nil_r.
  - apply Z.ltb_ge in E6. assert (Hz : zlen b = 0) by lia.
    destruct b; [reflexivity|]. rewrite zlen_cons in Hz. pose proof (zlen_nonneg b). lia.
Qed.

Lemma parse_kind_mid k c d b :
  parse_kind k (c :: b ++ [d]) =
  if (c =? open_of k) && (d =? close_of k) then Some (k, b) else None.
Proof.
  unfold parse_kind, ends_with. rewrite slice_mid.
  simpl rev. rewrite rev_app_distr. simpl.
  rewrite !andb_true_r. reflexivity.
Qed.

Lemma parse_kind_nil k : parse_kind k [] = None.
Proof. reflexivity. Qed.

Lemma parse_kind_single k c : parse_kind k [c] = None.
Proof.
  unfold parse_kind, ends_with. simpl. rewrite !andb_true_r.
  destruct (c =? open_of k) eqn:E1; [|reflexivity].
  destruct (c =? close_of k) eqn:E2; [|reflexivity].
  apply Z.eqb_eq in E1, E2. destruct k; simpl in *; lia.
Qed.

Lemma coerce_classify a :
  match spec_classify a with
  | CGroup g => coerce a = Some (IG g)
  | CSpace => exists s, a = AS s /\ is_space s = true /\ coerce a = Some (IW s)
  | CBad => coerce a = None
  end.
Proof.
  destruct a as [g|s]; [reflexivity|].
  unfold spec_classify, coerce.
  destruct (is_space s) eqn:Hs.
  { exists s. auto. }
  destruct s as [|c t]; [reflexivity|].
  destruct t as [|e t'].
  { unfold parse_group. rewrite !parse_kind_single. reflexivity. }
  assert (Hne : e :: t' <> []) by discriminate.
  pose proof (app_removelast_last 0 Hne) as Ht.
  set (b := removelast (e :: t')) in *. set (d := last (e :: t') 0) in *.
  unfold parse_group. rewrite Ht, !parse_kind_mid. simpl open_of. simpl close_of.
  destruct (c =? 123) eqn:E1; destruct (d =? 125) eqn:E2; simpl;
    destruct (c =? 91) eqn:E3; destruct (d =? 93) eqn:E4; simpl; try reflexivity;
    try (apply Z.eqb_eq in E1; apply Z.eqb_eq in E3; lia);
    try (apply Z.eqb_eq in E2; apply Z.eqb_eq in E4; lia).
Qed.

(* ------------------------------------------------------------------ *)
(* Python list primitives                                              *)

Lemma insert_at_spec {A} k (x : A) l : insert_at k x l = firstn k l ++ x :: skipn k l.
Proof.
  revert l; induction k as [|k IH]; intro l; [reflexivity|].
  destruct l as [|y t]; [reflexivity|]. simpl. rewrite IH. reflexivity.
Qed.

Lemma insert_at_perm {A} k (x : A) l : Permutation (insert_at k x l) (x :: l).
Proof.
  rewrite insert_at_spec. rewrite <- (firstn_skipn k l) at 3.
  symmetry. apply Permutation_middle.
Qed.

Lemma py_insert_perm {A} i (x : A) l : Permutation (py_insert i x l) (x :: l).
Proof. unfold py_insert. apply insert_at_perm. Qed.

Lemma py_index_some {A} (p : A -> bool) l j :
  py_index p l = Some j ->
  exists l1 x l2, l = l1 ++ x :: l2 /\ length l1 = j /\ p x = true.
Proof.
  revert j; induction l as [|y t IH]; intros j H; simpl in H; [discriminate|].
  destruct (p y) eqn:Hp.
  - injection H as <-. exists [], y, t. auto.
  - destruct (py_index p t) as [j'|] eqn:Hi; simpl in H; [|discriminate].
    injection H as <-. destruct (IH j' eq_refl) as (l1 & x & l2 & -> & Hl & Hx).
    exists (y :: l1), x, l2. simpl. auto.
Qed.

Lemma py_index_none {A} (p : A -> bool) l :
  py_index p l = None -> forall y, In y l -> p y = false.
Proof.
  induction l as [|z t IH]; intros H y Hy; simpl in *; [contradiction|].
  destruct (p z) eqn:Hp; [discriminate|].
  destruct (py_index p t) eqn:Hi; simpl in H; [discriminate|].
  destruct Hy as [<-|Hy]; auto.
Qed.

Lemma py_remove_some {A} (p : A -> bool) l l' :
  py_remove p l = Some l' ->
  exists l1 x l2, l = l1 ++ x :: l2 /\ l' = l1 ++ l2 /\ p x = true.
Proof.
  revert l'; induction l as [|y t IH]; intros l' H; simpl in H; [discriminate|].
  destruct (p y) eqn:Hp.
  - injection H as <-. exists [], y, t. auto.
  - destruct (py_remove p t) as [t'|] eqn:Hi; simpl in H; [|discriminate].
    injection H as <-. destruct (IH t' eq_refl) as (l1 & x & l2 & -> & -> & Hx).
    exists (y :: l1), x, l2. simpl. auto.
Qed.

Lemma py_remove_none {A} (p : A -> bool) l :
  py_remove p l = None -> forall y, In y l -> p y = false.
Proof.
  induction l as [|z t IH]; intros H y Hy; simpl in *; [contradiction|].
  destruct (p z) eqn:Hp; [discriminate|].
  destruct (py_remove p t) eqn:Hi; simpl in H; [discriminate|].
  destruct Hy as [<-|Hy]; auto.
Qed.

Lemma py_remove_ext {A} (p q : A -> bool) l :
  (forall x, p x = q x) -> py_remove p l = py_remove q l.
Proof.
  intro H. induction l as [|y t IH]; simpl; [reflexivity|].
  rewrite H, IH. reflexivity.
Qed.

Lemma remove_first_py g l : remove_first g l = py_remove (fun x => group_eqb x g) l.
Proof.
  induction l as [|y t IH]; simpl; [reflexivity|].
  rewrite IH. destruct (group_eqb y g); [reflexivity|].
  destruct (py_remove _ t); reflexivity.
Qed.

Lemma pop_at_app {A} (l1 : list A) x l2 : pop_at (length l1) (l1 ++ x :: l2) = Some (x, l1 ++ l2).
Proof. induction l1 as [|y t IH]; simpl; [reflexivity|]. rewrite IH. reflexivity. Qed.

Lemma firstn_skipn_split {A} (l1 : list A) x l2 :
  firstn (length l1) (l1 ++ x :: l2) ++ skipn (S (length l1)) (l1 ++ x :: l2) = l1 ++ l2.
Proof.
  rewrite firstn_app, Nat.sub_diag, firstn_all. simpl firstn. rewrite app_nil_r.
  replace (S (length l1)) with (length (l1 ++ [x])) by (rewrite app_length; simpl; lia).
  replace (l1 ++ x :: l2) with ((l1 ++ [x]) ++ l2) by (rewrite <- app_assoc; reflexivity).
  rewrite skipn_app, skipn_all, Nat.sub_diag. reflexivity.
Qed.

(* in-range positions: py_pop / py_getitem against the reference index *)
Lemma ref_index_some n i k : ref_index n i = Some k ->
  let j := if i <? 0 then i + n else i in 0 <= j < n /\ k = Z.to_nat j.
Proof.
  unfold ref_index. intro H. cbv zeta.
  destruct (0 <=? (if i <? 0 then i + n else i)) eqn:E1; simpl in H; [|discriminate].
  destruct ((if i <? 0 then i + n else i) <? n) eqn:E2; [|discriminate].
  apply Z.leb_le in E1. apply Z.ltb_lt in E2. injection H as <-. auto.
Qed.

Lemma ref_index_none n i : ref_index n i = None ->
  let j := if i <? 0 then i + n else i in j < 0 \/ n <= j.
Proof.
  unfold ref_index. intro H. cbv zeta.
  destruct (0 <=? (if i <? 0 then i + n else i)) eqn:E1; simpl in H.
  - destruct ((if i <? 0 then i + n else i) <? n) eqn:E2; [discriminate|].
    apply Z.ltb_ge in E2. auto.
  - apply Z.leb_gt in E1. auto.
Qed.

Lemma nth_error_in_range {A} (l : list A) j : 0 <= j < zlen l ->
  exists x, nth_error l (Z.to_nat j) = Some x.
Proof.
  intro H. destruct (nth_error l (Z.to_nat j)) eqn:E; [eauto|].
  apply nth_error_None in E. unfold zlen in H. lia.
Qed.

Lemma py_getitem_ref {A} (l : list A) i :
  py_getitem i l = match ref_index (zlen l) i with
                   | Some k => nth_error l k
                   | None => None
                   end.
Proof.
  unfold py_getitem. destruct (ref_index (zlen l) i) as [k|] eqn:E.
  - apply ref_index_some in E. cbv zeta in E. destruct E as [Hj ->].
    destruct ((if i <? 0 then i + zlen l else i) <? 0) eqn:E1; [apply Z.ltb_lt in E1; lia|].
    destruct (zlen l <=? (if i <? 0 then i + zlen l else i)) eqn:E2; [apply Z.leb_le in E2; lia|].
    reflexivity.
  - apply ref_index_none in E. cbv zeta in E.
    destruct ((if i <? 0 then i + zlen l else i) <? 0) eqn:E1; [reflexivity|].
    destruct (zlen l <=? (if i <? 0 then i + zlen l else i)) eqn:E2; [reflexivity|].
    apply Z.ltb_ge in E1. apply Z.leb_gt in E2. lia.
Qed.

Lemma py_pop_ref {A} (l : list A) i :
  py_pop i l = match ref_index (zlen l) i with
               | Some k => match nth_error l k with
                           | Some x => Some (x, firstn k l ++ skipn (S k) l)
                           | None => None
                           end
               | None => None
               end.
Proof.
  unfold py_pop. destruct (ref_index (zlen l) i) as [k|] eqn:E.
  - apply ref_index_some in E. cbv zeta in E. destruct E as [Hj ->].
    destruct (zlen l =? 0) eqn:E0; [apply Z.eqb_eq in E0; lia|].
    destruct ((if i <? 0 then i + zlen l else i) <? 0) eqn:E1; [apply Z.ltb_lt in E1; lia|].
    destruct (zlen l <=? (if i <? 0 then i + zlen l else i)) eqn:E2; [apply Z.leb_le in E2; lia|].
    simpl orb. cbv iota.
    destruct (nth_error_in_range l _ Hj) as [x Hx]. rewrite Hx.
    destruct (nth_error_split l _ Hx) as (l1 & l2 & Hl & Hlen).
    rewrite <- Hlen. rewrite Hl at 1 2 3.
    rewrite pop_at_app, firstn_skipn_split. reflexivity.
  - apply ref_index_none in E. cbv zeta in E.
    destruct (zlen l =? 0) eqn:E0; [reflexivity|].
    destruct ((if i <? 0 then i + zlen l else i) <? 0) eqn:E1; [reflexivity|].
    destruct (zlen l <=? (if i <? 0 then i + zlen l else i)) eqn:E2; [reflexivity|].
    apply Z.ltb_ge in E1. apply Z.leb_gt in E2. lia.
Qed.

Lemma py_join_concat l : py_join l = concat l.
Proof.
  unfold py_join.
  assert (H : forall acc, fold_left (fun a s => a ++ s) l acc = acc ++ concat l).
  { induction l as [|x t IH]; intro acc; simpl.
    - rewrite app_nil_r. reflexivity.
    - rewrite IH, app_assoc. reflexivity. }
  apply H.
Qed.

(* ------------------------------------------------------------------ *)
(* the shadow list                                                      *)

Definition Inv (st : state) : Prop :=
  Permutation (groups_of (snd st)) (fst st) /\ Forall ws_item (snd st).

Definition item_groups (it : item) : list group :=
  match it with IG g => [g] | IW _ => [] end.

Lemma groups_of_app a b : groups_of (a ++ b) = groups_of a ++ groups_of b.
Proof.
  induction a as [|[g|w] t IH]; simpl; [reflexivity| |]; rewrite IH; reflexivity.
Qed.

Lemma groups_of_cons it a : groups_of (it :: a) = item_groups it ++ groups_of a.
Proof. destruct it; reflexivity. Qed.

Lemma groups_of_rev a : groups_of (rev a) = rev (groups_of a).
Proof.
  induction a as [|[g|w] t IH]; simpl; [reflexivity| |]; rewrite groups_of_app, IH; simpl.
  - reflexivity.
  - apply app_nil_r.
Qed.

Lemma groups_of_perm a b : Permutation a b -> Permutation (groups_of a) (groups_of b).
Proof.
  induction 1 as [|x a b H IH|x y a|a b c H1 IH1 H2 IH2].
  - constructor.
  - rewrite !groups_of_cons. apply Permutation_app_head. exact IH.
  - rewrite !groups_of_cons. rewrite !app_assoc. apply Permutation_app_tail.
    apply Permutation_app_comm.
  - eapply Permutation_trans; eassumption.
Qed.

Lemma groups_of_in g a : In g (groups_of a) <-> In (IG g) a.
Proof.
  induction a as [|[h|w] t IH]; simpl.
  - tauto.
  - rewrite IH. split; intros [H|H]; auto; left; congruence.
  - rewrite IH. split; [auto|]. intros [H|H]; [discriminate|auto].
Qed.

Lemma groups_of_map_IG l : groups_of (map IG l) = l.
Proof. induction l as [|g t IH]; simpl; [reflexivity|]. rewrite IH. reflexivity. Qed.

Lemma Inv_empty : Inv empty_state.
Proof. split; simpl; constructor. Qed.

(* a group that is in the list is found in the shadow list *)
Lemma index_found st g : Inv st -> In g (fst st) ->
  exists a1 a2, snd st = a1 ++ IG g :: a2 /\
                py_index (fun x => item_eqb x (IG g)) (snd st) = Some (length a1).
Proof.
  intros [Hp Hw] Hin.
  destruct (py_index (fun x => item_eqb x (IG g)) (snd st)) as [j|] eqn:E.
  - destruct (py_index_some _ _ _ E) as (a1 & x & a2 & Hall & Hlen & Hx).
    assert (Hwx : ws_item x).
    { rewrite Forall_forall in Hw. apply Hw. rewrite Hall. apply in_elt. }
    apply ws_item_eq_group in Hx; [|exact Hwx]. subst x j.
    exists a1, a2. auto.
  - exfalso. assert (Hi : In (IG g) (snd st)).
    { apply groups_of_in. eapply Permutation_in; [symmetry; exact Hp | exact Hin]. }
    pose proof (py_index_none _ _ E _ Hi) as Hf. simpl in Hf.
    assert (Ht : item_eqb (IG g) (IG g) = true) by (apply item_eqb_groups; reflexivity).
    congruence.
Qed.

Lemma inv_remove_one a1 g a2 l1 l2 :
  Permutation (groups_of (a1 ++ IG g :: a2)) (l1 ++ g :: l2) ->
  Permutation (groups_of (a1 ++ a2)) (l1 ++ l2).
Proof.
  rewrite !groups_of_app. simpl. apply Permutation_app_inv.
Qed.

Lemma Forall_remove_mid {A} (P : A -> Prop) a x b :
  Forall P (a ++ x :: b) -> Forall P (a ++ b).
Proof.
  rewrite !Forall_app. intros [H1 H2]. inversion H2; subst. auto.
Qed.

(* inserting one coerced item anywhere in the shadow list, and its group (if
   any) anywhere in the list, keeps the invariant *)
Lemma Inv_insert lst all it lst1 all1 :
  Inv (lst, all) -> ws_item it ->
  Permutation lst1 (item_groups it ++ lst) ->
  Permutation all1 (it :: all) ->
  Inv (lst1, all1).
Proof.
  intros [Hp Hw] Hit H1 H2. split; simpl in *.
  - eapply Permutation_trans; [apply groups_of_perm; exact H2|].
    rewrite groups_of_cons. eapply Permutation_trans; [|symmetry; exact H1].
    apply Permutation_app_head. exact Hp.
  - eapply Permutation_Forall; [symmetry; exact H2|]. constructor; assumption.
Qed.

Lemma coerce_ws a it : coerce a = Some it -> ws_item it.
Proof.
  destruct a as [g|s]; simpl.
  - intro H; injection H as <-. exact I.
  - destruct (is_space s) eqn:Hs.
    + intro H; injection H as <-. exact Hs.
    + destruct (parse_group s); intro H; [injection H as <-; exact I | discriminate].
Qed.
