(* Proofs about the TexArgs model (Model/Args.v): refinement of a plain Python
   list of groups, the shadow-list invariant, rejection of malformed strings. *)
From Coq Require Import List ZArith Bool Lia Permutation.
From TexModel Require Import Args.
Import ListNotations.
Local Open Scope Z_scope.

(* ------------------------------------------------------------------ *)
(* strings and textual equality                                        *)

Lemma pstr_eqb_eq a b : pstr_eqb a b = true <-> a = b.
Proof.
  revert b; induction a as [|x a IH]; destruct b as [|y b]; simpl; split; intro H;
    try reflexivity; try discriminate.
  - apply andb_true_iff in H as [H1 H2]. apply Z.eqb_eq in H1. apply IH in H2. congruence.
  - inversion H; subst. rewrite Z.eqb_refl. simpl. apply IH. reflexivity.
Qed.

Lemma pstr_eqb_refl a : pstr_eqb a a = true.
Proof. apply pstr_eqb_eq. reflexivity. Qed.

Lemma bool_eq_iff (a b : bool) : (a = true <-> b = true) -> a = b.
Proof. destruct a, b; intros [H1 H2]; try reflexivity; [symmetry; auto | auto]. Qed.

Lemma pstr_eqb_sym a b : pstr_eqb a b = pstr_eqb b a.
Proof. apply bool_eq_iff. rewrite !pstr_eqb_eq. split; congruence. Qed.

Lemma render_inj g h : render g = render h -> g = h.
Proof.
  destruct g as [k b], h as [k' b']. unfold render; simpl. intro H.
  injection H as Ho Hb.
  assert (Hk : k = k') by (destruct k, k'; simpl in Ho; congruence).
  subst k'. apply app_inj_tail in Hb. destruct Hb as [Hb _]. subst. reflexivity.
Qed.

Lemma group_eqb_eq g h : group_eqb g h = true <-> g = h.
Proof.
  destruct g as [k b], h as [k' b']. unfold group_eqb. cbn [fst snd]. split.
  - intro H. apply andb_true_iff in H as [H1 H2].
    apply eqb_prop in H1. apply pstr_eqb_eq in H2. congruence.
  - intro H. inversion H; subst. rewrite eqb_reflx, pstr_eqb_refl. reflexivity.
Qed.

Lemma item_eqb_groups g h : item_eqb (IG g) (IG h) = true <-> g = h.
Proof.
  unfold item_eqb, render_item. rewrite pstr_eqb_eq. split.
  - apply render_inj.
  - congruence.
Qed.

Lemma item_eqb_group_eqb x g : item_eqb (IG x) (IG g) = group_eqb x g.
Proof. apply bool_eq_iff. rewrite item_eqb_groups, group_eqb_eq. tauto. Qed.

Lemma group_eqb_sym x g : group_eqb x g = group_eqb g x.
Proof. apply bool_eq_iff. rewrite !group_eqb_eq. split; congruence. Qed.

Lemma is_space_render g : is_space (render g) = false.
Proof. destruct g as [[|] b]; reflexivity. Qed.

(* a whitespace string is never textually equal to a group *)
Lemma ws_item_eq_group x g : ws_item x -> item_eqb x (IG g) = true -> x = IG g.
Proof.
  destruct x as [h|w]; simpl; intros Hw He.
  - apply item_eqb_groups in He. congruence.
  - unfold item_eqb, render_item in He. apply pstr_eqb_eq in He. subst w.
    rewrite is_space_render in Hw. discriminate.
Qed.

Lemma group_eq_ws_false g w : is_space w = true -> item_eqb (IG g) (IW w) = false.
Proof.
  intro Hw. destruct (item_eqb (IG g) (IW w)) eqn:He; [|reflexivity].
  unfold item_eqb, render_item in He. apply pstr_eqb_eq in He. subst w.
  rewrite is_space_render in Hw. discriminate.
Qed.

(* ------------------------------------------------------------------ *)
(* TexGroup.parse / __coerce agree with the specification's reading      *)

Lemma zlen_cons {A} (x : A) l : zlen (x :: l) = zlen l + 1.
Proof. unfold zlen. simpl length. lia. Qed.

Lemma zlen_app {A} (a b : list A) : zlen (a ++ b) = zlen a + zlen b.
Proof. unfold zlen. rewrite app_length. lia. Qed.

Lemma zlen_nonneg {A} (l : list A) : 0 <= zlen l.
Proof. unfold zlen. lia. Qed.

Lemma slice_mid (c d : Z) (b : pstr) : py_slice (Some 1) (Some (-1)) (c :: b ++ [d]) = b.
Proof.
  unfold py_slice, clamp_index.
  set (n := zlen (c :: b ++ [d])).
  assert (Hn : n = zlen b + 2).
  { unfold n. rewrite zlen_cons, zlen_app. unfold zlen at 2. simpl. lia. }
  pose proof (zlen_nonneg b) as Hb.
  change (1 <? 0) with false. change (-1 <? 0) with true. cbv iota.
  change (1 <? 0) with false. cbv iota.
  destruct (n <? 1) eqn:E2; [apply Z.ltb_lt in E2; lia|].
  destruct (-1 + n <? 0) eqn:E4; [apply Z.ltb_lt in E4; lia|].
  destruct (n <? -1 + n) eqn:E5; [apply Z.ltb_lt in E5; lia|].
  destruct (1 <? -1 + n) eqn:E6.
  - replace (Z.to_nat (-1 + n - 1)) with (length b) by (unfold zlen in Hn; lia).
    change (Z.to_nat 1) with 1%nat. simpl skipn.
    rewrite firstn_app, Nat.sub_diag, firstn_all. simpl. apply app_nil_r.
  - apply Z.ltb_ge in E6. assert (Hz : zlen b = 0) by lia.
    destruct b; [reflexivity|]. rewrite zlen_cons in Hz. pose proof (zlen_nonneg b). lia.
Qed.

Lemma starts_with_nil s : starts_with s [] = true.
Proof. destruct s; reflexivity. Qed.

Lemma parse_kind_mid k c d b :
  parse_kind k (c :: b ++ [d]) =
  if (c =? open_of k) && (d =? close_of k) then Some (k, b) else None.
Proof.
  unfold parse_kind, ends_with. rewrite slice_mid.
  simpl rev. rewrite rev_app_distr. simpl.
  rewrite !starts_with_nil, !andb_true_r. reflexivity.
Qed.

Lemma parse_kind_nil k : parse_kind k [] = None.
Proof. reflexivity. Qed.

Lemma parse_kind_single k c : parse_kind k [c] = None.
Proof.
  unfold parse_kind, ends_with. simpl. rewrite !andb_true_r.
  destruct (c =? open_of k) eqn:E1; [|reflexivity].
  destruct (c =? close_of k) eqn:E2; [|reflexivity].
  apply Z.eqb_eq in E1, E2. destruct k; simpl in *; lia.
Qed.

Lemma coerce_classify a :
  match spec_classify a with
  | CGroup g => coerce a = Some (IG g)
  | CSpace => exists s, a = AS s /\ is_space s = true /\ coerce a = Some (IW s)
  | CBad => coerce a = None
  end.
Proof.
  destruct a as [g|s]; [reflexivity|].
  unfold spec_classify, coerce.
  destruct (is_space s) eqn:Hs.
  { exists s. auto. }
  destruct s as [|c t]; [reflexivity|].
  destruct t as [|e t'].
  { unfold parse_group. rewrite !parse_kind_single. reflexivity. }
  assert (Hne : e :: t' <> []) by discriminate.
  pose proof (app_removelast_last 0 Hne) as Ht.
  set (b := removelast (e :: t')) in *. set (d := last (e :: t') 0) in *.
  unfold parse_group. rewrite Ht, !parse_kind_mid. simpl open_of. simpl close_of.
  destruct (c =? 123) eqn:E1; destruct (d =? 125) eqn:E2; simpl;
    destruct (c =? 91) eqn:E3; destruct (d =? 93) eqn:E4; simpl; try reflexivity;
    try (apply Z.eqb_eq in E1; apply Z.eqb_eq in E3; lia);
    try (apply Z.eqb_eq in E2; apply Z.eqb_eq in E4; lia).
Qed.

(* ------------------------------------------------------------------ *)
(* Python list primitives                                              *)

Lemma insert_at_spec {A} k (x : A) l : insert_at k x l = firstn k l ++ x :: skipn k l.
Proof.
  revert l; induction k as [|k IH]; intro l; [reflexivity|].
  destruct l as [|y t]; [reflexivity|]. simpl. rewrite IH. reflexivity.
Qed.

Lemma insert_at_perm {A} k (x : A) l : Permutation (insert_at k x l) (x :: l).
Proof.
  rewrite insert_at_spec. rewrite <- (firstn_skipn k l) at 3.
  symmetry. apply Permutation_middle.
Qed.

Lemma py_insert_perm {A} i (x : A) l : Permutation (py_insert i x l) (x :: l).
Proof. unfold py_insert. apply insert_at_perm. Qed.

Lemma py_index_some {A} (p : A -> bool) l j :
  py_index p l = Some j ->
  exists l1 x l2, l = l1 ++ x :: l2 /\ length l1 = j /\ p x = true.
Proof.
  revert j; induction l as [|y t IH]; intros j H; simpl in H; [discriminate|].
  destruct (p y) eqn:Hp.
  - injection H as <-. exists [], y, t. auto.
  - destruct (py_index p t) as [j'|] eqn:Hi; simpl in H; [|discriminate].
    injection H as <-. destruct (IH j' eq_refl) as (l1 & x & l2 & -> & Hl & Hx).
    exists (y :: l1), x, l2. simpl. auto.
Qed.

Lemma py_index_none {A} (p : A -> bool) l :
  py_index p l = None -> forall y, In y l -> p y = false.
Proof.
  induction l as [|z t IH]; intros H y Hy; simpl in *; [contradiction|].
  destruct (p z) eqn:Hp; [discriminate|].
  destruct (py_index p t) eqn:Hi; simpl in H; [discriminate|].
  destruct Hy as [<-|Hy]; auto.
Qed.

Lemma py_remove_some {A} (p : A -> bool) l l' :
  py_remove p l = Some l' ->
  exists l1 x l2, l = l1 ++ x :: l2 /\ l' = l1 ++ l2 /\ p x = true.
Proof.
  revert l'; induction l as [|y t IH]; intros l' H; simpl in H; [discriminate|].
  destruct (p y) eqn:Hp.
  - injection H as <-. exists [], y, t. auto.
  - destruct (py_remove p t) as [t'|] eqn:Hi; simpl in H; [|discriminate].
    injection H as <-. destruct (IH t' eq_refl) as (l1 & x & l2 & -> & -> & Hx).
    exists (y :: l1), x, l2. simpl. auto.
Qed.

Lemma py_remove_none {A} (p : A -> bool) l :
  py_remove p l = None -> forall y, In y l -> p y = false.
Proof.
  induction l as [|z t IH]; intros H y Hy; simpl in *; [contradiction|].
  destruct (p z) eqn:Hp; [discriminate|].
  destruct (py_remove p t) eqn:Hi; simpl in H; [discriminate|].
  destruct Hy as [<-|Hy]; auto.
Qed.

Lemma py_remove_ext {A} (p q : A -> bool) l :
  (forall x, p x = q x) -> py_remove p l = py_remove q l.
Proof.
  intro H. induction l as [|y t IH]; simpl; [reflexivity|].
  rewrite H, IH. reflexivity.
Qed.

Lemma remove_first_py g l : remove_first g l = py_remove (fun x => group_eqb x g) l.
Proof.
  induction l as [|y t IH]; simpl; [reflexivity|].
  rewrite IH. destruct (group_eqb y g); [reflexivity|].
  destruct (py_remove _ t); reflexivity.
Qed.

Lemma pop_at_app {A} (l1 : list A) x l2 : pop_at (length l1) (l1 ++ x :: l2) = Some (x, l1 ++ l2).
Proof. induction l1 as [|y t IH]; simpl; [reflexivity|]. rewrite IH. reflexivity. Qed.

Lemma firstn_skipn_split {A} (l1 : list A) x l2 :
  firstn (length l1) (l1 ++ x :: l2) ++ skipn (S (length l1)) (l1 ++ x :: l2) = l1 ++ l2.
Proof.
  rewrite firstn_app, Nat.sub_diag, firstn_all. simpl firstn. rewrite app_nil_r.
  replace (S (length l1)) with (length (l1 ++ [x])) by (rewrite app_length; simpl; lia).
  replace (l1 ++ x :: l2) with ((l1 ++ [x]) ++ l2) by (rewrite <- app_assoc; reflexivity).
  rewrite skipn_app, skipn_all, Nat.sub_diag. reflexivity.
Qed.

(* in-range positions: py_pop / py_getitem against the reference index *)
Lemma ref_index_some n i k : ref_index n i = Some k ->
  let j := if i <? 0 then i + n else i in 0 <= j < n /\ k = Z.to_nat j.
Proof.
  unfold ref_index. intro H. cbv zeta.
  destruct (0 <=? (if i <? 0 then i + n else i)) eqn:E1; simpl in H; [|discriminate].
  destruct ((if i <? 0 then i + n else i) <? n) eqn:E2; [|discriminate].
  apply Z.leb_le in E1. apply Z.ltb_lt in E2. injection H as <-. auto.
Qed.

Lemma ref_index_none n i : ref_index n i = None ->
  let j := if i <? 0 then i + n else i in j < 0 \/ n <= j.
Proof.
  unfold ref_index. intro H. cbv zeta.
  destruct (0 <=? (if i <? 0 then i + n else i)) eqn:E1; simpl in H.
  - destruct ((if i <? 0 then i + n else i) <? n) eqn:E2; [discriminate|].
    apply Z.ltb_ge in E2. auto.
  - apply Z.leb_gt in E1. auto.
Qed.

Lemma nth_error_in_range {A} (l : list A) j : 0 <= j < zlen l ->
  exists x, nth_error l (Z.to_nat j) = Some x.
Proof.
  intro H. destruct (nth_error l (Z.to_nat j)) eqn:E; [eauto|].
  apply nth_error_None in E. unfold zlen in H. lia.
Qed.

Lemma py_getitem_ref {A} (l : list A) i :
  py_getitem i l = match ref_index (zlen l) i with
                   | Some k => nth_error l k
                   | None => None
                   end.
Proof.
  unfold py_getitem. destruct (ref_index (zlen l) i) as [k|] eqn:E.
  - apply ref_index_some in E. cbv zeta in E. destruct E as [Hj ->].
    destruct ((if i <? 0 then i + zlen l else i) <? 0) eqn:E1; [apply Z.ltb_lt in E1; lia|].
    destruct (zlen l <=? (if i <? 0 then i + zlen l else i)) eqn:E2; [apply Z.leb_le in E2; lia|].
    reflexivity.
  - apply ref_index_none in E. cbv zeta in E.
    destruct ((if i <? 0 then i + zlen l else i) <? 0) eqn:E1; [reflexivity|].
    destruct (zlen l <=? (if i <? 0 then i + zlen l else i)) eqn:E2; [reflexivity|].
    apply Z.ltb_ge in E1. apply Z.leb_gt in E2. lia.
Qed.

Lemma py_pop_ref {A} (l : list A) i :
  py_pop i l = match ref_index (zlen l) i with
               | Some k => match nth_error l k with
                           | Some x => Some (x, firstn k l ++ skipn (S k) l)
                           | None => None
                           end
               | None => None
               end.
Proof.
  unfold py_pop. destruct (ref_index (zlen l) i) as [k|] eqn:E.
  - apply ref_index_some in E. cbv zeta in E. destruct E as [Hj ->].
    destruct (zlen l =? 0) eqn:E0; [apply Z.eqb_eq in E0; lia|].
    destruct ((if i <? 0 then i + zlen l else i) <? 0) eqn:E1; [apply Z.ltb_lt in E1; lia|].
    destruct (zlen l <=? (if i <? 0 then i + zlen l else i)) eqn:E2; [apply Z.leb_le in E2; lia|].
    simpl orb. cbv iota.
    destruct (nth_error_in_range l _ Hj) as [x Hx]. rewrite Hx.
    destruct (nth_error_split l _ Hx) as (l1 & l2 & Hl & Hlen).
    rewrite <- Hlen. rewrite Hl at 1 2 3.
    rewrite pop_at_app, firstn_skipn_split. reflexivity.
  - apply ref_index_none in E. cbv zeta in E.
    destruct (zlen l =? 0) eqn:E0; [reflexivity|].
    destruct ((if i <? 0 then i + zlen l else i) <? 0) eqn:E1; [reflexivity|].
    destruct (zlen l <=? (if i <? 0 then i + zlen l else i)) eqn:E2; [reflexivity|].
    apply Z.ltb_ge in E1. apply Z.leb_gt in E2. lia.
Qed.

Lemma py_join_concat l : py_join l = concat l.
Proof.
  unfold py_join.
  assert (H : forall acc, fold_left (fun a s => a ++ s) l acc = acc ++ concat l).
  { induction l as [|x t IH]; intro acc; simpl.
    - rewrite app_nil_r. reflexivity.
    - rewrite IH, app_assoc. reflexivity. }
  apply H.
Qed.

(* ------------------------------------------------------------------ *)
(* the shadow list                                                      *)

Definition Inv (st : state) : Prop :=
  Permutation (groups_of (snd st)) (fst st) /\ Forall ws_item (snd st).

Definition item_groups (it : item) : list group :=
  match it with IG g => [g] | IW _ => [] end.

Lemma groups_of_app a b : groups_of (a ++ b) = groups_of a ++ groups_of b.
Proof.
  induction a as [|[g|w] t IH]; simpl; [reflexivity| |]; rewrite IH; reflexivity.
Qed.

Lemma groups_of_cons it a : groups_of (it :: a) = item_groups it ++ groups_of a.
Proof. destruct it; reflexivity. Qed.

Lemma groups_of_rev a : groups_of (rev a) = rev (groups_of a).
Proof.
  induction a as [|[g|w] t IH]; simpl; [reflexivity| |]; rewrite groups_of_app, IH; simpl.
  - reflexivity.
  - apply app_nil_r.
Qed.

Lemma groups_of_perm a b : Permutation a b -> Permutation (groups_of a) (groups_of b).
Proof.
  induction 1 as [|x a b H IH|x y a|a b c H1 IH1 H2 IH2].
  - constructor.
  - rewrite !groups_of_cons. apply Permutation_app_head. exact IH.
  - rewrite !groups_of_cons. rewrite !app_assoc. apply Permutation_app_tail.
    apply Permutation_app_comm.
  - eapply Permutation_trans; eassumption.
Qed.

Lemma groups_of_in g a : In g (groups_of a) <-> In (IG g) a.
Proof.
  induction a as [|[h|w] t IH]; simpl.
  - tauto.
  - rewrite IH. split; intros [H|H]; auto; left; congruence.
  - rewrite IH. split; [auto|]. intros [H|H]; [discriminate|auto].
Qed.

Lemma groups_of_map_IG l : groups_of (map IG l) = l.
Proof. induction l as [|g t IH]; simpl; [reflexivity|]. rewrite IH. reflexivity. Qed.

Lemma Inv_empty : Inv empty_state.
Proof. split; simpl; constructor. Qed.

(* a group that is in the list is found in the shadow list *)
Lemma index_found st g : Inv st -> In g (fst st) ->
  exists a1 a2, snd st = a1 ++ IG g :: a2 /\
                py_index (fun x => item_eqb x (IG g)) (snd st) = Some (length a1).
Proof.
  intros [Hp Hw] Hin.
  destruct (py_index (fun x => item_eqb x (IG g)) (snd st)) as [j|] eqn:E.
  - destruct (py_index_some _ _ _ E) as (a1 & x & a2 & Hall & Hlen & Hx).
    assert (Hwx : ws_item x).
    { rewrite Forall_forall in Hw. apply Hw. rewrite Hall. apply in_elt. }
    apply ws_item_eq_group in Hx; [|exact Hwx]. subst x j.
    exists a1, a2. auto.
  - exfalso. assert (Hi : In (IG g) (snd st)).
    { apply groups_of_in. eapply Permutation_in; [symmetry; exact Hp | exact Hin]. }
    pose proof (py_index_none _ _ E _ Hi) as Hf. simpl in Hf.
    assert (Ht : item_eqb (IG g) (IG g) = true) by (apply item_eqb_groups; reflexivity).
    congruence.
Qed.

Lemma inv_remove_one a1 g a2 l1 l2 :
  Permutation (groups_of (a1 ++ IG g :: a2)) (l1 ++ g :: l2) ->
  Permutation (groups_of (a1 ++ a2)) (l1 ++ l2).
Proof.
  rewrite !groups_of_app. simpl. apply Permutation_app_inv.
Qed.

Lemma Forall_remove_mid {A} (P : A -> Prop) a x b :
  Forall P (a ++ x :: b) -> Forall P (a ++ b).
Proof.
  rewrite !Forall_app. intros [H1 H2]. inversion H2; subst. auto.
Qed.

(* inserting one coerced item anywhere in the shadow list, and its group (if
   any) anywhere in the list, keeps the invariant *)
Lemma Inv_insert lst all it lst1 all1 :
  Inv (lst, all) -> ws_item it ->
  Permutation lst1 (item_groups it ++ lst) ->
  Permutation all1 (it :: all) ->
  Inv (lst1, all1).
Proof.
  intros [Hp Hw] Hit H1 H2. split; simpl in *.
  - eapply Permutation_trans; [apply groups_of_perm; exact H2|].
    rewrite groups_of_cons. eapply Permutation_trans; [|symmetry; exact H1].
    apply Permutation_app_head. exact Hp.
  - eapply Permutation_Forall; [symmetry; exact H2|]. constructor; assumption.
Qed.

Lemma coerce_ws a it : coerce a = Some it -> ws_item it.
Proof.
  destruct a as [g|s]; simpl.
  - intro H; injection H as <-. exact I.
  - destruct (is_space s) eqn:Hs.
    + intro H; injection H as <-. exact Hs.
    + destruct (parse_group s); intro H; [injection H as <-; exact I | discriminate].
Qed.

(* ------------------------------------------------------------------ *)
(* insert / append / extend                                            *)

Lemma norm_insert_id n i : 0 <= i <= n -> norm_insert n i = i.
Proof.
  intro H. unfold norm_insert.
  destruct (i <? 0) eqn:E1; [apply Z.ltb_lt in E1; lia|]. rewrite E1.
  destruct (n <? i) eqn:E2; [apply Z.ltb_lt in E2; lia|]. reflexivity.
Qed.

Lemma In_firstn {A} (x : A) k l : In x (firstn k l) -> In x l.
Proof. intro H. rewrite <- (firstn_skipn k l). apply in_or_app. left. exact H. Qed.

Lemma py_getitem_nonneg {A} (l : list A) j : 0 <= j < zlen l ->
  py_getitem j l = nth_error l (Z.to_nat j).
Proof.
  intro H. unfold py_getitem.
  destruct (j <? 0) eqn:E1; [apply Z.ltb_lt in E1; lia|]. rewrite E1.
  destruct (zlen l <=? j) eqn:E2; [apply Z.leb_le in E2; lia|]. reflexivity.
Qed.

Lemma nth_firstn_app {A} (l r : list A) k j : (j < k <= length l)%nat ->
  exists b, nth_error (firstn k l ++ r) j = Some b /\ In b l.
Proof.
  intros [H1 H2].
  assert (Hl : length (firstn k l) = k) by (apply firstn_length_le; exact H2).
  rewrite nth_error_app1 by lia.
  destruct (nth_error (firstn k l) j) as [b|] eqn:E.
  - exists b. split; [reflexivity|]. apply nth_error_In in E. eapply In_firstn; exact E.
  - apply nth_error_None in E. lia.
Qed.

Lemma insert_tail_ok lst all it lst1 i' :
  Inv (lst, all) -> ws_item it ->
  Permutation lst1 (item_groups it ++ lst) ->
  0 <= i' ->
  (1 <= i' -> 1 < zlen lst1 -> exists b, py_getitem (i' - 1) lst1 = Some b /\ In b lst) ->
  exists all1, shadow_insert lst1 all i' it = ((lst1, all1), ONone) /\ Inv (lst1, all1).
Proof.
  intros HI Hit Hp H0 Hget. unfold shadow_insert.
  destruct (zlen lst1 <=? 1) eqn:E1.
  - exists (all ++ [it]). split; [reflexivity|].
    eapply Inv_insert; [exact HI | exact Hit | exact Hp |].
    symmetry. apply Permutation_cons_append.
  - destruct (i' =? 0) eqn:E2.
    + exists (py_insert 0 it all). split; [reflexivity|].
      eapply Inv_insert; [exact HI | exact Hit | exact Hp | apply py_insert_perm].
    + apply Z.leb_gt in E1. apply Z.eqb_neq in E2.
      destruct Hget as (b & Hb & Hin); [lia | lia |]. rewrite Hb.
      destruct (index_found (lst, all) b HI Hin) as (a1 & a2 & Hall & Hidx).
      simpl in Hidx. rewrite Hidx.
      eexists. split; [reflexivity|].
      eapply Inv_insert; [exact HI | exact Hit | exact Hp | apply py_insert_perm].
Qed.

Lemma m_insert_ok st i a : Inv st ->
  fst (fst (m_insert st i a)) = fst (ref_insert (fst st) i a) /\
  snd (m_insert st i a) = snd (ref_insert (fst st) i a) /\
  Inv (fst (m_insert st i a)).
Proof.
  intros HI. destruct st as [lst all].
  pose proof (coerce_classify a) as Hc. unfold ref_insert. simpl fst.
  destruct (spec_classify a) as [g| |] eqn:Hs.
  - (* a group or a coercible string *)
    unfold m_insert. rewrite Hc. cbv zeta.
    set (n := zlen lst).
    set (i' := if i <? 0 then Z.max 0 (n + i) else Z.min i n).
    assert (Hn : 0 <= n) by apply zlen_nonneg.
    assert (Hi' : 0 <= i' <= n).
    { unfold i'. destruct (i <? 0) eqn:E; [apply Z.ltb_lt in E | apply Z.ltb_ge in E]; lia. }
    assert (Hk : Z.max 0 (Z.min n (if i <? 0 then i + n else i)) = i').
    { unfold i'. destruct (i <? 0) eqn:E; [apply Z.ltb_lt in E | apply Z.ltb_ge in E]; lia. }
    rewrite Hk.
    assert (Hl1 : py_insert i' g lst = firstn (Z.to_nat i') lst ++ g :: skipn (Z.to_nat i') lst).
    { unfold py_insert. fold n. rewrite norm_insert_id by exact Hi'. apply insert_at_spec. }
    set (lst1 := py_insert i' g lst) in *.
    destruct (insert_tail_ok lst all (IG g) lst1 i') as (all1 & Heq & HI1).
    + exact HI.
    + exact I.
    + simpl. unfold lst1. apply py_insert_perm.
    + lia.
    + intros H1 _.
      assert (Hz : zlen lst1 = n + 1).
      { rewrite Hl1. rewrite zlen_app, zlen_cons.
        unfold zlen. rewrite firstn_length_le, skipn_length by (unfold n, zlen in Hi'; lia).
        unfold n, zlen in *. lia. }
      rewrite py_getitem_nonneg by lia. rewrite Hl1.
      apply nth_firstn_app. unfold n, zlen in Hi'. lia.
    + rewrite Heq. simpl. rewrite <- Hl1. auto.
  - (* whitespace *)
    destruct Hc as (s & -> & Hsp & Hco).
    unfold m_insert. rewrite Hco. cbv zeta.
    set (n := zlen lst).
    set (i' := if i <? 0 then Z.max 0 (n + i) else Z.min i n).
    assert (Hn : 0 <= n) by apply zlen_nonneg.
    assert (Hi' : 0 <= i' <= n).
    { unfold i'. destruct (i <? 0) eqn:E; [apply Z.ltb_lt in E | apply Z.ltb_ge in E]; lia. }
    destruct (insert_tail_ok lst all (IW s) lst i') as (all1 & Heq & HI1).
    + exact HI.
    + exact Hsp.
    + simpl. apply Permutation_refl.
    + lia.
    + intros H1 H2. fold n in H2.
      rewrite py_getitem_nonneg by (fold n; lia).
      destruct (nth_error_in_range lst (i' - 1)) as [b Hb]; [fold n; lia|].
      exists b. split; [exact Hb|]. eapply nth_error_In; exact Hb.
    + fold n. rewrite Heq. simpl. auto.
  - unfold m_insert. rewrite Hc. simpl. auto.
Qed.

Lemma ref_insert_end l a : ref_insert l (zlen l) a = ref_extend l [a].
Proof.
  unfold ref_insert. simpl. destruct (spec_classify a) as [g| |]; try reflexivity.
  pose proof (zlen_nonneg l) as Hn.
  destruct (zlen l <? 0) eqn:E; [apply Z.ltb_lt in E; lia|].
  replace (Z.to_nat (Z.max 0 (Z.min (zlen l) (zlen l)))) with (length l) by (unfold zlen; lia).
  rewrite firstn_all, skipn_all. reflexivity.
Qed.

Lemma m_append_ok st a : Inv st ->
  fst (fst (m_append st a)) = fst (ref_extend (fst st) [a]) /\
  snd (m_append st a) = snd (ref_extend (fst st) [a]) /\
  Inv (fst (m_append st a)).
Proof.
  intro HI. unfold m_append. rewrite <- ref_insert_end. apply m_insert_ok. exact HI.
Qed.

Lemma m_extend_ok l : forall st, Inv st ->
  fst (fst (m_extend st l)) = fst (ref_extend (fst st) l) /\
  snd (m_extend st l) = snd (ref_extend (fst st) l) /\
  Inv (fst (m_extend st l)).
Proof.
  induction l as [|a t IH]; intros st HI.
  - simpl. auto.
  - destruct (m_append_ok st a HI) as (H1 & H2 & H3).
    cbn [m_extend ref_extend] in *.
    destruct (m_append st a) as [st1 o1] eqn:Ea. cbn [fst snd] in *.
    destruct (spec_classify a) as [g| |]; cbn [fst snd] in *; subst o1.
    + rewrite <- H1. apply IH. exact H3.
    + rewrite <- H1. apply IH. exact H3.
    + auto.
Qed.

Lemma ref_extend_groups v : forall l, ref_extend l (map AG v) = (l ++ v, ONone).
Proof.
  induction v as [|g t IH]; intro l; simpl.
  - rewrite app_nil_r. reflexivity.
  - rewrite IH, <- app_assoc. reflexivity.
Qed.

(* ------------------------------------------------------------------ *)
(* remove / pop                                                        *)

Lemma py_remove_false {A} (p : A -> bool) l : (forall x, p x = false) -> py_remove p l = None.
Proof.
  intro H. induction l as [|y t IH]; simpl; [reflexivity|]. rewrite H, IH. reflexivity.
Qed.

Lemma m_remove_ok st a : Inv st ->
  fst (fst (m_remove st a)) = fst (ref_step (fst st) (OpRemove a)) /\
  snd (m_remove st a) = snd (ref_step (fst st) (OpRemove a)) /\
  Inv (fst (m_remove st a)).
Proof.
  destruct st as [lst all]; intros HI. pose proof (coerce_classify a) as Hc.
  unfold ref_step. simpl fst.
  destruct (spec_classify a) as [g| |].
  - unfold m_remove. rewrite Hc. rewrite remove_first_py.
    rewrite (py_remove_ext (fun g0 => item_eqb (IG g0) (IG g)) (fun x => group_eqb x g))
      by (intro; apply item_eqb_group_eqb).
    destruct HI as [Hp Hw]. simpl in Hp, Hw.
    destruct (py_remove (fun x => item_eqb x (IG g)) all) as [all1|] eqn:Ea;
      destruct (py_remove (fun x => group_eqb x g) lst) as [lst1|] eqn:El.
    + simpl. split; [reflexivity|]. split; [reflexivity|].
      destruct (py_remove_some _ _ _ Ea) as (a1 & x & a2 & -> & -> & Hx).
      destruct (py_remove_some _ _ _ El) as (l1 & y & l2 & -> & -> & Hy).
      apply group_eqb_eq in Hy. subst y.
      assert (Hwx : ws_item x) by (rewrite Forall_forall in Hw; apply Hw, in_elt).
      apply ws_item_eq_group in Hx; [|exact Hwx]. subst x.
      split; simpl.
      * eapply inv_remove_one; exact Hp.
      * eapply Forall_remove_mid; exact Hw.
    + exfalso.
      destruct (py_remove_some _ _ _ Ea) as (a1 & x & a2 & -> & -> & Hx).
      assert (Hwx : ws_item x) by (rewrite Forall_forall in Hw; apply Hw, in_elt).
      apply ws_item_eq_group in Hx; [|exact Hwx]. subst x.
      assert (Hin : In g lst).
      { eapply Permutation_in; [exact Hp|]. apply groups_of_in. apply in_elt. }
      pose proof (py_remove_none _ _ El _ Hin) as Hf. simpl in Hf.
      assert (Ht : group_eqb g g = true) by (apply group_eqb_eq; reflexivity). congruence.
    + exfalso.
      destruct (py_remove_some _ _ _ El) as (l1 & y & l2 & -> & -> & Hy).
      apply group_eqb_eq in Hy. subst y.
      assert (Hin : In (IG g) all).
      { apply groups_of_in. eapply Permutation_in; [symmetry; exact Hp|]. apply in_elt. }
      pose proof (py_remove_none _ _ Ea _ Hin) as Hf. simpl in Hf.
      assert (Ht : item_eqb (IG g) (IG g) = true) by (apply item_eqb_groups; reflexivity).
      congruence.
    + simpl. split; [reflexivity|]. split; [reflexivity|]. split; assumption.
  - destruct Hc as (s & -> & Hsp & Hco). unfold m_remove. rewrite Hco.
    rewrite (py_remove_false (fun g => item_eqb (IG g) (IW s)))
      by (intro; apply group_eq_ws_false; exact Hsp).
    destruct (py_remove (fun x => item_eqb x (IW s)) all) as [all1|] eqn:Ea.
    + simpl. split; [reflexivity|]. split; [reflexivity|].
      destruct (py_remove_some _ _ _ Ea) as (a1 & x & a2 & -> & -> & Hx).
      destruct HI as [Hp Hw]. simpl in Hp, Hw.
      destruct x as [h|w].
      * rewrite group_eq_ws_false in Hx by exact Hsp. discriminate.
      * split; simpl.
        -- rewrite groups_of_app in *. simpl in Hp. exact Hp.
        -- eapply Forall_remove_mid; exact Hw.
    + simpl. auto.
  - unfold m_remove. rewrite Hc. simpl. auto.
Qed.

Lemma py_pop_at_split {A} (a1 : list A) x a2 :
  py_pop (Z.of_nat (length a1)) (a1 ++ x :: a2) = Some (x, a1 ++ a2).
Proof.
  unfold py_pop.
  assert (Hz : zlen (a1 ++ x :: a2) = Z.of_nat (length a1) + zlen a2 + 1).
  { rewrite zlen_app, zlen_cons. unfold zlen. lia. }
  pose proof (zlen_nonneg a2) as H2.
  destruct (zlen (a1 ++ x :: a2) =? 0) eqn:E0; [apply Z.eqb_eq in E0; lia|].
  destruct (Z.of_nat (length a1) <? 0) eqn:E1; [apply Z.ltb_lt in E1; lia|]. rewrite E1.
  destruct (zlen (a1 ++ x :: a2) <=? Z.of_nat (length a1)) eqn:E2; [apply Z.leb_le in E2; lia|].
  simpl orb. cbv iota. rewrite Nat2Z.id. apply pop_at_app.
Qed.

Lemma m_pop_ok st oi : Inv st ->
  fst (fst (m_pop st oi)) = fst (ref_step (fst st) (OpPop oi)) /\
  snd (m_pop st oi) = snd (ref_step (fst st) (OpPop oi)) /\
  Inv (fst (m_pop st oi)).
Proof.
  destruct st as [lst all]; intros HI.
  unfold m_pop, ref_step. cbn [fst]. cbv zeta.
  set (i := match oi with Some i => i | None => -1 end).
  rewrite py_pop_ref.
  destruct (ref_index (zlen lst) i) as [k|]; [|simpl; auto].
  destruct (nth_error lst k) as [g|] eqn:En; [|simpl; auto].
  destruct (nth_error_split lst k En) as (l1 & l2 & Hl & Hlen).
  assert (Hin : In g lst) by (eapply nth_error_In; exact En).
  destruct (index_found (lst, all) g HI Hin) as (a1 & a2 & Hall & Hidx).
  simpl in Hall, Hidx. subst all. rewrite Hidx. rewrite py_pop_at_split.
  cbn [fst snd]. split; [|split; [reflexivity|]].
  - subst k. rewrite Hl, firstn_skipn_split. reflexivity.
  - subst k. rewrite Hl, firstn_skipn_split.
    destruct HI as [Hp Hw]. simpl in Hp, Hw. subst lst. split; simpl.
    + eapply inv_remove_one; exact Hp.
    + eapply Forall_remove_mid; exact Hw.
Qed.

(* ------------------------------------------------------------------ *)
(* one operation                                                       *)

Lemma existsb_ext' {A} (p q : A -> bool) l : (forall x, p x = q x) -> existsb p l = existsb q l.
Proof.
  intro H. induction l as [|y t IH]; simpl; [reflexivity|]. rewrite H, IH. reflexivity.
Qed.

Lemma ref_extend_out args : forall l,
  snd (ref_extend l args) = ONone \/ snd (ref_extend l args) = ETypeError.
Proof.
  induction args as [|a t IH]; intro l; simpl; [auto|].
  destruct (spec_classify a); auto.
Qed.

Lemma ref_obs_fix l o : obs_out (snd (ref_step l o)) = snd (ref_step l o).
Proof.
  destruct o as [a|args|i a|a|i| | |i|lo hi|a]; cbn [ref_step].
  - destruct (ref_extend_out [a] l) as [H|H]; rewrite H; reflexivity.
  - destruct (ref_extend_out args l) as [H|H]; rewrite H; reflexivity.
  - unfold ref_insert. destruct (spec_classify a); reflexivity.
  - destruct (spec_classify a) as [g| |]; [destruct (remove_first g l)| |]; reflexivity.
  - destruct (ref_index (zlen l) _) as [k|]; [destruct (nth_error l k)|]; reflexivity.
  - reflexivity.
  - reflexivity.
  - destruct (ref_index (zlen l) i) as [k|]; [destruct (nth_error l k)|]; reflexivity.
  - reflexivity.
  - destruct a; reflexivity.
Qed.

Lemma step_all st o : Inv st ->
  Inv (fst (m_step st o)) /\
  (fst (fst (m_step st o)) = fst (ref_step (fst st) o) /\
   obs_out (snd (m_step st o)) = snd (ref_step (fst st) o)).
Proof.
  intro HI.
  destruct o as [a|args|i a|a|i| | |i|lo hi|a].
  - destruct (m_append_ok st a HI) as (H1 & H2 & H3). cbn [m_step ref_step].
    split; [exact H3|]. split; [exact H1|]. rewrite H2.
    apply (ref_obs_fix (fst st) (OpAppend a)).
  - destruct (m_extend_ok args st HI) as (H1 & H2 & H3). cbn [m_step ref_step].
    split; [exact H3|]. split; [exact H1|]. rewrite H2.
    apply (ref_obs_fix (fst st) (OpExtend args)).
  - destruct (m_insert_ok st i a HI) as (H1 & H2 & H3). cbn [m_step ref_step].
    split; [exact H3|]. split; [exact H1|]. rewrite H2.
    apply (ref_obs_fix (fst st) (OpInsert i a)).
  - destruct (m_remove_ok st a HI) as (H1 & H2 & H3). cbn [m_step].
    split; [exact H3|]. split; [exact H1|]. rewrite H2.
    apply (ref_obs_fix (fst st) (OpRemove a)).
  - destruct (m_pop_ok st i HI) as (H1 & H2 & H3). cbn [m_step].
    split; [exact H3|]. split; [exact H1|]. rewrite H2.
    apply (ref_obs_fix (fst st) (OpPop i)).
  - cbn [m_step ref_step fst snd]. split; [|auto].
    destruct HI as [Hp Hw]. split; cbn [fst snd].
    + rewrite groups_of_rev.
      eapply Permutation_trans; [symmetry; apply Permutation_rev|].
      eapply Permutation_trans; [exact Hp|]. apply Permutation_rev.
    + eapply Permutation_Forall; [apply Permutation_rev | exact Hw].
  - cbn [m_step ref_step fst snd]. split; [apply Inv_empty | auto].
  - cbn [m_step ref_step]. rewrite py_getitem_ref.
    destruct (ref_index (zlen (fst st)) i) as [k|]; [destruct (nth_error (fst st) k)|];
      cbn [fst snd obs_out]; auto.
  - cbn [m_step ref_step].
    destruct (m_extend_ok (map AG (py_slice lo hi (fst st))) empty_state Inv_empty)
      as (H1 & H2 & _).
    rewrite ref_extend_groups in H1, H2. cbn [fst snd empty_state app] in H1, H2.
    unfold m_new. destruct (m_extend empty_state (map AG (py_slice lo hi (fst st)))) as [st' o'].
    cbn [fst snd] in H1, H2. subst o'. cbn [fst snd obs_out].
    split; [exact HI|]. split; [reflexivity|]. rewrite H1. reflexivity.
  - cbn [m_step fst snd]. split; [exact HI|].
    destruct a as [g|s]; cbn [ref_step fst snd obs_out]; split; try reflexivity; f_equal;
      unfold m_contains; apply existsb_ext'; intro x.
    + rewrite item_eqb_group_eqb. apply group_eqb_sym.
    + apply pstr_eqb_sym.
Qed.

Lemma step_inv st o : Inv st -> Inv (fst (m_step st o)).
Proof. intro H. apply (step_all st o H). Qed.

Lemma obs_step st o : Inv st ->
  obs_model (m_step st o) = obs_ref (ref_step (fst st) o).
Proof.
  intros HI. destruct (step_all st o HI) as [_ [H1 H2]].
  unfold obs_model, obs_ref, m_len, m_str. rewrite py_join_concat, H1, H2. reflexivity.
Qed.

(* ------------------------------------------------------------------ *)
(* runs                                                                *)

Lemma refines_from_inv ops : forall st, Inv st ->
  map obs_model (m_run st ops) = map obs_ref (ref_run (fst st) ops).
Proof.
  induction ops as [|o t IH]; intros st HI; [reflexivity|].
  cbn [m_run ref_run map]. f_equal.
  - apply obs_step; assumption.
  - destruct (step_all st o HI) as [HI' [H1 _]].
    rewrite <- H1. apply IH; assumption.
Qed.

Lemma run_inv ops : forall st, Inv st -> Forall (fun r => Inv (fst r)) (m_run st ops).
Proof.
  induction ops as [|o t IH]; intros st HI; cbn [m_run]; constructor.
  - apply step_inv. exact HI.
  - apply IH. apply step_inv. exact HI.
Qed.

Lemma m_new_ok init :
  fst (fst (m_new init)) = fst (ref_extend [] init) /\
  snd (m_new init) = snd (ref_extend [] init) /\
  Inv (fst (m_new init)).
Proof. unfold m_new. apply (m_extend_ok init empty_state Inv_empty). Qed.

Lemma m_new_groups init : fst (fst (m_new (map AG init))) = init /\ snd (m_new (map AG init)) = ONone.
Proof.
  destruct (m_new_ok (map AG init)) as (H1 & H2 & _).
  rewrite ref_extend_groups in H1, H2. auto.
Qed.

Lemma refines : forall (init : list group) (ops : list op),
  map obs_model (m_run (fst (m_new (map AG init))) ops) = map obs_ref (ref_run init ops).
Proof.
  intros init ops. destruct (m_new_groups init) as [H1 _].
  rewrite <- H1 at 2. apply refines_from_inv. apply m_new_ok.
Qed.

(* same, the constructor given any mixture of groups, strings and whitespace *)
Lemma refines_args : forall (init : list arg) (ops : list op),
  map obs_model (m_run (fst (m_new init)) ops) =
  map obs_ref (ref_run (fst (ref_extend [] init)) ops).
Proof.
  intros init ops. destruct (m_new_ok init) as (H1 & _ & HI).
  rewrite <- H1. apply refines_from_inv; assumption.
Qed.

Definition ga : group := (false, [97]).       (* {a} *)
Definition gb : group := (false, [98]).       (* {b} *)
Definition ka : group := (true, [97]).        (* [a] *)

Lemma all_invariant : forall (init : list arg) (ops : list op) st o,
  In (st, o) (m_new init :: m_run (fst (m_new init)) ops) ->
  Permutation (groups_of (snd st)) (fst st) /\ Forall ws_item (snd st).
Proof.
  intros init ops st o Hin. destruct (m_new_ok init) as (_ & _ & HI).
  destruct Hin as [Hin|Hin].
  - rewrite Hin in HI. exact HI.
  - pose proof (run_inv ops _ HI) as HF. rewrite Forall_forall in HF.
    apply (HF _ Hin).
Qed.

Lemma str_is_concat : forall (st : state) (name : pstr),
  m_str st = concat (map render (fst st)) /\
  cmd_str name st = 92 :: name ++ concat (map render (fst st)).
Proof.
  intros st name. unfold cmd_str, m_str. rewrite py_join_concat. auto.
Qed.

(* ------------------------------------------------------------------ *)
(* rejection                                                           *)

Lemma m_insert_reject st i a : snd (m_insert st i a) = ETypeError ->
  coerce a = None /\ m_insert st i a = (st, ETypeError).
Proof.
  unfold m_insert. destruct (coerce a) as [it|]; [|auto].
  destruct st as [lst all]. cbv zeta. unfold shadow_insert.
  destruct (zlen _ <=? 1); [simpl; discriminate|].
  destruct (_ =? 0); [simpl; discriminate|].
  destruct (py_getitem _ _); [|simpl; discriminate].
  destruct (py_index _ _); simpl; discriminate.
Qed.

Definition reject_statement : Prop :=
  forall (st : state) (o : op), snd (m_step st o) = ETypeError -> fst (m_step st o) = st.

Lemma reject_partial : forall (st : state) (o : op),
  is_extend o = false -> snd (m_step st o) = ETypeError -> fst (m_step st o) = st.
Proof.
  intros st o He H.
  destruct o as [a|args|i a|a|i| | |i|lo hi|a]; cbn [m_step] in *.
  - unfold m_append in *. apply m_insert_reject in H. destruct H as [_ ->]. reflexivity.
  - discriminate.
  - apply m_insert_reject in H. destruct H as [_ ->]. reflexivity.
  - revert H. unfold m_remove. destruct (coerce a) as [it|]; [|reflexivity].
    destruct st as [lst all].
    destruct (py_remove _ all); [destruct (py_remove _ lst)|]; simpl; discriminate.
  - revert H. unfold m_pop. destruct st as [lst all]. cbv zeta.
    destruct (py_pop _ lst) as [[g l1]|]; [|simpl; discriminate].
    destruct (py_index _ all) as [j|]; [|simpl; discriminate].
    destruct (py_pop _ all) as [[it a1]|]; simpl; discriminate.
  - discriminate.
  - discriminate.
  - revert H. destruct (py_getitem i (fst st)); simpl; discriminate.
  - destruct (m_new _) as [st' o']. destruct o'; reflexivity.
  - discriminate.
Qed.

(* extend stops at the first malformed string; what came before it stays *)
Lemma extend_reject l : forall st st',
  m_extend st l = (st', ETypeError) ->
  exists pre bad post, l = pre ++ bad :: post /\ coerce bad = None /\
                       m_extend st pre = (st', ONone).
Proof.
  induction l as [|a t IH]; intros st st' H; cbn [m_extend] in H; [discriminate|].
  destruct (m_append st a) as [st1 o1] eqn:Ea.
  destruct o1; try discriminate.
  - destruct (IH st1 st' H) as (pre & bad & post & -> & Hb & Hpre).
    exists (a :: pre), bad, post. split; [reflexivity|]. split; [exact Hb|].
    cbn [m_extend]. rewrite Ea. exact Hpre.
  - injection H as <-.
    assert (Hs : snd (m_insert st (zlen (fst st)) a) = ETypeError).
    { unfold m_append in Ea. rewrite Ea. reflexivity. }
    apply m_insert_reject in Hs. destruct Hs as [Hc Hm].
    unfold m_append in Ea. rewrite Hm in Ea. injection Ea as <-.
    exists [], a, t. auto.
Qed.

Lemma reject_refuted : exists (st : state) (o : op),
  snd (m_step st o) = ETypeError /\ fst (m_step st o) <> st.
Proof.
  exists empty_state, (OpExtend [AS [123; 97; 125]; AS [120]]).
  split; [reflexivity|]. vm_compute. discriminate.
Qed.

Lemma reject_statement_false : ~ reject_statement.
Proof.
  intro H. destruct reject_refuted as (st & o & H1 & H2). apply H2. apply H. exact H1.
Qed.

(* ------------------------------------------------------------------ *)
(* examples: the hypotheses above are satisfiable on non-trivial inputs, *)
(* and the shadow list can drift from the list                           *)

Definition s_a_open : pstr := [123; 97].          (* '{a'  *)
Definition s_b_grp : pstr := [91; 98; 93].        (* '[b]' *)
Definition s_sp : pstr := [32].                   (* ' '   *)

Definition demo_ops : list op :=
  [OpAppend (AS s_b_grp); OpInsert (-5) (AG gb); OpInsert 1 (AS s_a_open); OpAppend (AS s_sp);
   OpRemove (AG ga); OpPop (Some (-1)); OpReverse; OpSlice (Some (-2)) None; OpGet 7;
   OpExtend [AG ga; AS s_a_open; AG gb]].

Example demo_run :
  map obs_ref (ref_run [ga; ka; ga] demo_ops) =
  [ ([ga; ka; ga; (true, [98])], 4, [123;97;125; 91;97;93; 123;97;125; 91;98;93], ONone);
    ([gb; ga; ka; ga; (true, [98])], 5,
       [123;98;125; 123;97;125; 91;97;93; 123;97;125; 91;98;93], ONone);
    ([gb; ga; ka; ga; (true, [98])], 5,
       [123;98;125; 123;97;125; 91;97;93; 123;97;125; 91;98;93], ETypeError);
    ([gb; ga; ka; ga; (true, [98])], 5,
       [123;98;125; 123;97;125; 91;97;93; 123;97;125; 91;98;93], ONone);
    ([gb; ka; ga; (true, [98])], 4, [123;98;125; 91;97;93; 123;97;125; 91;98;93], ONone);
    ([gb; ka; ga], 3, [123;98;125; 91;97;93; 123;97;125], OVal (IG (true, [98])));
    ([ga; ka; gb], 3, [123;97;125; 91;97;93; 123;98;125], ONone);
    ([ga; ka; gb], 3, [123;97;125; 91;97;93; 123;98;125], OArgs ([ka; gb], []));
    ([ga; ka; gb], 3, [123;97;125; 91;97;93; 123;98;125], EIndexError);
    ([ga; ka; gb; ga], 4, [123;97;125; 91;97;93; 123;98;125; 123;97;125], ETypeError) ].
Proof. vm_compute. reflexivity. Qed.

Example demo_refines :
  map obs_model (m_run (fst (m_new (map AG [ga; ka; ga]))) demo_ops) =
  map obs_ref (ref_run [ga; ka; ga] demo_ops).
Proof. vm_compute. reflexivity. Qed.

Example reject_partial_hyp :
  let st := fst (m_new [AG ga; AS s_sp; AG gb]) in
  let o := OpInsert 1 (AS s_a_open) in
  is_extend o = false /\ snd (m_step st o) = ETypeError /\ fst (m_step st o) = st /\
  fst st = [ga; gb].
Proof. vm_compute. auto. Qed.

Example extend_reject_hyp :
  m_extend empty_state [AG ga; AS s_b_grp; AS s_a_open; AG gb] =
  (([ga; (true, [98])], [IG ga; IG (true, [98])]), ETypeError).
Proof. vm_compute. reflexivity. Qed.

Example all_invariant_hyp :
  In (([gb; ga], [IW s_sp; IG gb; IG ga]), OVal (IG ga))
     (m_new [AG ga; AS s_sp; AG gb; AG ga]
      :: m_run (fst (m_new [AG ga; AS s_sp; AG gb; AG ga])) [OpReverse; OpPop (Some 0)]).
Proof. vm_compute. auto. Qed.

(* Drift 1: already the constructor orders `.all` differently from the list when a
   textually equal group occurs twice: TexArgs(['{a}','{a}','{b}']).all is
   [{a},{b},{a}] because self.all.index(before) finds the first '{a}'. *)
Example drift_constructor :
  let st := fst (m_new (map AG [ga; ga; gb])) in
  fst st = [ga; ga; gb] /\ groups_of (snd st) = [ga; gb; ga].
Proof. vm_compute. auto. Qed.

(* Drift 2: pop(2) on [{a},{b},{a}] removes the last element of the list but the
   first '{a}' of `.all`. *)
Example drift_pop :
  m_step ([ga; gb; ga], [IG ga; IG gb; IG ga]) (OpPop (Some 2)) =
  (([ga; gb], [IG gb; IG ga]), OVal (IG ga)).
Proof. vm_compute. reflexivity. Qed.

(* Drift 3: whitespace does not keep its place: TexArgs(['{a}',' ','{b}']).all is
   [{a},{b},' ']. *)
Example drift_whitespace :
  snd (fst (m_new [AG ga; AS s_sp; AG gb])) = [IG ga; IG gb; IW s_sp].
Proof. vm_compute. reflexivity. Qed.

(* remove(' ') raises ValueError (from list.remove) after self.all.remove(' ')
   has already deleted the whitespace from `.all`; the list is untouched. *)
Example ws_remove_half_done :
  m_step ([ga], [IG ga; IW s_sp]) (OpRemove (AS s_sp)) = (([ga], [IG ga]), EValueError).
Proof. vm_compute. reflexivity. Qed.

(* ------------------------------------------------------------------ *)
(* when is the shadow list exactly in step with the list?               *)
(* As long as no two elements of the list are textually equal.          *)

Definition synced (st : state) : Prop := groups_of (snd st) = fst st.

Lemma nodup_split_unique {A} (g : A) : forall x1 x2 l1 l2,
  NoDup (l1 ++ g :: l2) -> x1 ++ g :: x2 = l1 ++ g :: l2 -> x1 = l1 /\ x2 = l2.
Proof.
  induction x1 as [|h x1 IH]; intros x2 l1 l2 Hnd Heq; destruct l1 as [|h' l1]; simpl in *.
  - injection Heq as ->. auto.
  - injection Heq as <- ->. exfalso. inversion Hnd as [|? ? Hni _]; subst.
    apply Hni. apply in_elt.
  - injection Heq as -> <-. exfalso. inversion Hnd as [|? ? Hni _]; subst.
    apply Hni. apply in_elt.
  - injection Heq as -> Heq. inversion Hnd as [|? ? _ Hnd']; subst.
    destruct (IH x2 l1 l2 Hnd' Heq) as [-> ->]. auto.
Qed.

Lemma groups_of_insert_ws k w all : groups_of (insert_at k (IW w) all) = groups_of all.
Proof.
  rewrite insert_at_spec, groups_of_app. simpl.
  rewrite <- groups_of_app, firstn_skipn. reflexivity.
Qed.

Lemma firstn_S_split {A} (l1 : list A) x l2 :
  firstn (S (length l1)) (l1 ++ x :: l2) = l1 ++ [x] /\
  skipn (S (length l1)) (l1 ++ x :: l2) = l2.
Proof.
  replace (S (length l1)) with (length (l1 ++ [x])) by (rewrite app_length; simpl; lia).
  replace (l1 ++ x :: l2) with ((l1 ++ [x]) ++ l2) by (rewrite <- app_assoc; reflexivity).
  rewrite firstn_app, skipn_app, firstn_all, skipn_all, Nat.sub_diag. simpl.
  rewrite app_nil_r. auto.
Qed.

Lemma groups_of_remove g all : Forall ws_item all ->
  option_map groups_of (py_remove (fun x => item_eqb x (IG g)) all) =
  py_remove (fun x => group_eqb x g) (groups_of all).
Proof.
  induction 1 as [|x t Hx Ht IH]; [reflexivity|].
  destruct x as [h|w]; cbn [py_remove groups_of].
  - rewrite item_eqb_group_eqb. destruct (group_eqb h g); [reflexivity|].
    rewrite <- IH. destruct (py_remove _ t); reflexivity.
  - assert (Hf : item_eqb (IW w) (IG g) = false).
    { destruct (item_eqb (IW w) (IG g)) eqn:E; [|reflexivity].
      apply (ws_item_eq_group (IW w) g Hx) in E. discriminate. }
    rewrite Hf, <- IH. destruct (py_remove _ t); reflexivity.
Qed.

Lemma sync_insert st i a : Forall ws_item (snd st) -> synced st -> NoDup (fst st) ->
  synced (fst (m_insert st i a)).
Proof.
  destruct st as [lst all]. unfold synced. cbn [fst snd]. intros Hw Hs Hnd.
  assert (HI : Inv (lst, all)) by (split; cbn [fst snd]; [rewrite Hs; apply Permutation_refl | exact Hw]).
  unfold m_insert. destruct (coerce a) as [it|] eqn:Hc; [|exact Hs].
  cbv zeta.
  set (n := zlen lst).
  set (i' := if i <? 0 then Z.max 0 (n + i) else Z.min i n).
  assert (Hn : 0 <= n) by apply zlen_nonneg.
  assert (Hi' : 0 <= i' <= n).
  { unfold i'. destruct (i <? 0) eqn:E; [apply Z.ltb_lt in E | apply Z.ltb_ge in E]; lia. }
  assert (Hl1 : forall g, py_insert i' g lst = firstn (Z.to_nat i') lst ++ g :: skipn (Z.to_nat i') lst).
  { intro g. unfold py_insert. fold n. rewrite norm_insert_id by exact Hi'. apply insert_at_spec. }
  set (lst1 := match it with IG g => py_insert i' g lst | IW _ => lst end).
  unfold shadow_insert.
  destruct (zlen lst1 <=? 1) eqn:E1.
  { (* at most one element afterwards *)
    cbn [fst snd]. rewrite groups_of_app, Hs. apply Z.leb_le in E1.
    destruct it as [g|w]; unfold lst1 in *; simpl.
    - rewrite Hl1 in *. rewrite zlen_app, zlen_cons in E1.
      pose proof (zlen_nonneg (firstn (Z.to_nat i') lst)).
      pose proof (zlen_nonneg (skipn (Z.to_nat i') lst)).
      assert (Hz : n = 0).
      { unfold n. rewrite <- (firstn_skipn (Z.to_nat i') lst), zlen_app. lia. }
      destruct lst as [|x t]; [|unfold n in Hz; rewrite zlen_cons in Hz; pose proof (zlen_nonneg t); lia].
      rewrite firstn_nil, skipn_nil. reflexivity.
    - apply app_nil_r. }
  destruct (i' =? 0) eqn:E2.
  { apply Z.eqb_eq in E2. cbn [fst snd].
    unfold py_insert at 1. rewrite norm_insert_id by (pose proof (zlen_nonneg all); lia).
    simpl insert_at. destruct it as [g|w]; unfold lst1; simpl.
    - rewrite Hl1, E2. simpl. rewrite Hs. reflexivity.
    - exact Hs. }
  apply Z.leb_gt in E1. apply Z.eqb_neq in E2.
  (* before = lst[i'-1], unique in lst *)
  assert (Hlen1 : n <= zlen lst1).
  { destruct it as [g|w]; unfold lst1.
    - rewrite Hl1, zlen_app, zlen_cons. unfold n.
      rewrite <- (firstn_skipn (Z.to_nat i') lst) at 1. rewrite zlen_app. lia.
    - fold n. lia. }
  destruct (nth_error_in_range lst (i' - 1)) as [b Hb]; [fold n; lia|].
  destruct (nth_error_split lst _ Hb) as (l1 & l2 & Hl & Hlen).
  assert (Hk : Z.to_nat i' = S (length l1)) by lia.
  assert (Hget : py_getitem (i' - 1) lst1 = Some b).
  { destruct it as [g|w]; unfold lst1 in *.
    - rewrite py_getitem_nonneg by lia.
      rewrite Hl1, Hk, Hl. destruct (firstn_S_split l1 b l2) as [-> ->].
      rewrite <- Hlen. rewrite <- app_assoc. rewrite nth_error_app2 by lia.
      rewrite Nat.sub_diag. reflexivity.
    - rewrite py_getitem_nonneg by (fold n; lia). exact Hb. }
  rewrite Hget.
  assert (Hin : In b lst) by (eapply nth_error_In; exact Hb).
  destruct (index_found (lst, all) b HI Hin) as (a1 & a2 & Hall & Hidx).
  cbn [fst snd] in Hall, Hidx. rewrite Hidx. cbn [fst snd].
  (* the first textual occurrence of b in all is the right one *)
  assert (Hsplit : groups_of a1 = l1 /\ groups_of a2 = l2).
  { apply (nodup_split_unique b); [rewrite <- Hl; exact Hnd|].
    rewrite <- Hl, <- Hs, Hall, groups_of_app. reflexivity. }
  destruct Hsplit as [Hg1 Hg2].
  unfold py_insert at 1.
  assert (Hza : zlen all = Z.of_nat (length a1) + zlen a2 + 1).
  { rewrite Hall, zlen_app, zlen_cons. unfold zlen. lia. }
  pose proof (zlen_nonneg a2) as Hz2.
  rewrite norm_insert_id by lia.
  replace (Z.to_nat (Z.of_nat (length a1) + 1)) with (S (length a1)) by lia.
  rewrite insert_at_spec. rewrite Hall at 1 2.
  destruct (firstn_S_split a1 (IG b) a2) as [-> ->].
  rewrite !groups_of_app, !groups_of_cons, Hg1, Hg2. simpl groups_of. rewrite app_nil_r.
  destruct it as [g|w]; unfold lst1; simpl.
  - rewrite Hl1, Hk, Hl. destruct (firstn_S_split l1 b l2) as [-> ->]. reflexivity.
  - rewrite Hl, <- app_assoc. reflexivity.
Qed.

Lemma ref_extend_prefix args : forall l, exists t, fst (ref_extend l args) = l ++ t.
Proof.
  induction args as [|a r IH]; intro l; simpl.
  - exists []. rewrite app_nil_r. reflexivity.
  - destruct (spec_classify a) as [g| |].
    + destruct (IH (l ++ [g])) as [t ->]. exists (g :: t). rewrite <- app_assoc. reflexivity.
    + apply IH.
    + exists []. rewrite app_nil_r. reflexivity.
Qed.

Lemma NoDup_app_l {A} (a b : list A) : NoDup (a ++ b) -> NoDup a.
Proof.
  induction a as [|x t IH]; intro H; [constructor|].
  simpl in H. inversion H as [|? ? Hni Ht]; subst. constructor.
  - intro Hin. apply Hni. apply in_or_app. left. exact Hin.
  - apply IH. exact Ht.
Qed.

Lemma sync_extend args : forall st, Forall ws_item (snd st) -> synced st ->
  NoDup (fst (fst (m_extend st args))) -> synced (fst (m_extend st args)).
Proof.
  induction args as [|a t IH]; intros st Hw Hs Hnd; [exact Hs|].
  assert (HI : Inv st).
  { split; [rewrite Hs; apply Permutation_refl | exact Hw]. }
  destruct (m_append_ok st a HI) as (H1 & H2 & H3).
  cbn [m_extend] in *. destruct (m_append st a) as [st1 o1] eqn:Ea.
  cbn [fst snd] in *.
  assert (Hst1 : NoDup (fst st) -> synced st1).
  { intro Hn0. pose proof (sync_insert st (zlen (fst st)) a Hw Hs Hn0) as X.
    unfold m_append in Ea. rewrite Ea in X. exact X. }
  cbn [ref_extend] in H1, H2.
  destruct (spec_classify a) as [g| |]; cbn [fst snd] in H1, H2; subst o1.
  - (* appended a group: the final list extends fst st1 = fst st ++ [g] *)
    destruct (m_extend_ok t st1 H3) as (E1 & _ & _).
    destruct (ref_extend_prefix t (fst st1)) as [tl Htl].
    rewrite E1, Htl, H1 in Hnd.
    apply IH; [apply H3 | | rewrite E1, Htl, H1; exact Hnd].
    apply Hst1. apply NoDup_app_l in Hnd. apply NoDup_app_l in Hnd. exact Hnd.
  - destruct (m_extend_ok t st1 H3) as (E1 & _ & _).
    destruct (ref_extend_prefix t (fst st1)) as [tl Htl].
    rewrite E1, Htl, H1 in Hnd.
    apply IH; [apply H3 | | rewrite E1, Htl, H1; exact Hnd].
    apply Hst1. apply NoDup_app_l in Hnd. exact Hnd.
  - cbn [fst] in *. apply Hst1. rewrite <- H1. exact Hnd.
Qed.

Lemma sync_step st o : Forall ws_item (snd st) -> synced st ->
  NoDup (fst st) -> NoDup (fst (fst (m_step st o))) ->
  synced (fst (m_step st o)).
Proof.
  intros Hw Hs Hnd Hnd'.
  assert (HI : Inv st) by (split; [rewrite Hs; apply Permutation_refl | exact Hw]).
  destruct o as [a|args|i a|a|i| | |i|lo hi|a]; cbn [m_step] in *.
  - unfold m_append. apply sync_insert; assumption.
  - apply sync_extend; assumption.
  - apply sync_insert; assumption.
  - (* remove: first occurrence on both sides, duplicates or not *)
    destruct st as [lst all]. unfold synced in *. cbn [fst snd] in *.
    unfold m_remove. destruct (coerce a) as [it|] eqn:Hc; [|exact Hs].
    destruct it as [g|w].
    + pose proof (groups_of_remove g all Hw) as Hr. rewrite Hs in Hr.
      rewrite (py_remove_ext (fun g0 => item_eqb (IG g0) (IG g)) (fun x => group_eqb x g))
        by (intro; apply item_eqb_group_eqb).
      destruct (py_remove (fun x => item_eqb x (IG g)) all) as [all1|]; [|exact Hs].
      simpl in Hr. rewrite <- Hr. reflexivity.
    + assert (Hsp : is_space w = true) by (apply (coerce_ws a (IW w) Hc)).
      rewrite (py_remove_false (fun g => item_eqb (IG g) (IW w)))
        by (intro; apply group_eq_ws_false; exact Hsp).
      destruct (py_remove (fun x => item_eqb x (IW w)) all) as [all1|] eqn:Ea; [|exact Hs].
      cbn [fst snd].
      destruct (py_remove_some _ _ _ Ea) as (a1 & x & a2 & -> & -> & Hx).
      destruct x as [h|w'].
      * rewrite group_eq_ws_false in Hx by exact Hsp. discriminate.
      * rewrite groups_of_app in *. exact Hs.
  - destruct st as [lst all]. unfold synced in *. cbn [fst snd] in *.
    unfold m_pop in *. cbv zeta in *. rewrite py_pop_ref in *.
    destruct (ref_index (zlen lst) _) as [k|]; [|exact Hs].
    destruct (nth_error lst k) as [g|] eqn:En; [|exact Hs].
    destruct (nth_error_split lst k En) as (l1 & l2 & Hl & Hlen).
    assert (Hin : In g lst) by (eapply nth_error_In; exact En).
    destruct (index_found (lst, all) g HI Hin) as (a1 & a2 & Hall & Hidx).
    cbn [fst snd] in Hall, Hidx. subst all. rewrite Hidx, py_pop_at_split. cbn [fst snd].
    assert (Hsplit : groups_of a1 = l1 /\ groups_of a2 = l2).
    { apply (nodup_split_unique g); [rewrite <- Hl; exact Hnd|].
      rewrite <- Hl, <- Hs, groups_of_app. reflexivity. }
    destruct Hsplit as [Hg1 Hg2].
    subst k. rewrite Hl, firstn_skipn_split, groups_of_app, Hg1, Hg2. reflexivity.
  - unfold synced in *. cbn [fst snd]. rewrite groups_of_rev, Hs. reflexivity.
  - reflexivity.
  - destruct (py_getitem i (fst st)); exact Hs.
  - destruct (m_new _) as [st' o']. destruct o'; exact Hs.
  - exact Hs.
Qed.

Example sync_step_hyp :
  let st : state := ([ga; ka; gb], [IW s_sp; IG ga; IG ka; IG gb]) in
  let o := OpInsert 2 (AS s_b_grp) in
  synced st /\ NoDup (fst st) /\
  fst (m_step st o) = ([ga; ka; (true, [98]); gb], [IW s_sp; IG ga; IG ka; IG (true, [98]); IG gb]).
Proof.
  vm_compute. split; [reflexivity|]. split; [|reflexivity].
  repeat constructor; simpl; intuition discriminate.
Qed.

Lemma sync_run ops : forall st, Forall ws_item (snd st) -> synced st -> NoDup (fst st) ->
  Forall (fun r : state * out => NoDup (fst (fst r))) (m_run st ops) ->
  Forall (fun r : state * out => synced (fst r)) (m_run st ops).
Proof.
  induction ops as [|o t IH]; intros st Hw Hs Hnd Hall; cbn [m_run] in *; [constructor|].
  inversion Hall as [|? ? Hn1 Hrest]; subst.
  assert (HI : Inv st) by (split; [rewrite Hs; apply Permutation_refl | exact Hw]).
  assert (Hs1 : synced (fst (m_step st o))) by (apply sync_step; assumption).
  constructor; [exact Hs1|].
  apply IH; [apply (step_inv st o HI) | exact Hs1 | exact Hn1 | exact Hrest].
Qed.

Lemma synced_without_duplicates : forall (init : list arg) (ops : list op),
  Forall (fun r : state * out => NoDup (fst (fst r))) (m_new init :: m_run (fst (m_new init)) ops) ->
  Forall (fun r : state * out => groups_of (snd (fst r)) = fst (fst r))
         (m_new init :: m_run (fst (m_new init)) ops).
Proof.
  intros init ops Hall. inversion Hall as [|? ? Hn0 Hrest]; subst.
  assert (Hs0 : synced (fst (m_new init))).
  { unfold m_new in *. apply sync_extend; [constructor | reflexivity | exact Hn0]. }
  constructor; [exact Hs0|].
  apply (sync_run ops (fst (m_new init))); [apply m_new_ok | exact Hs0 | exact Hn0 | exact Hrest].
Qed.

Example synced_without_duplicates_hyp :
  let init := [AG ga; AS s_sp; AS s_b_grp] in
  let ops := [OpInsert 1 (AG gb); OpReverse; OpPop (Some 0); OpAppend (AG ka)] in
  map (fun r : state * out => fst (fst r)) (m_new init :: m_run (fst (m_new init)) ops) =
    [ [ga; (true, [98])]; [ga; gb; (true, [98])]; [(true, [98]); gb; ga]; [gb; ga]; [gb; ga; ka] ] /\
  Forall (fun r : state * out => NoDup (fst (fst r))) (m_new init :: m_run (fst (m_new init)) ops).
Proof.
  vm_compute. split; [reflexivity|].
  repeat constructor; simpl; intuition discriminate.
Qed.
