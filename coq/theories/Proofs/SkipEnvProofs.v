(* C11  Verbatim-like environments are opaque.
   read_skip_env / skip_scan (Reader.v) mirror TexSoup.reader.read_skip_env:
     contents = [src.forward_until(lambda s: s.startswith('\end{name}'), peek=False)]
     if not src.startswith('\end{name}'): unclosed_env_handler(...)   # EOFError
     src.forward(5)
   The look-ahead of forward_until joins the next len('\end{name}') TOKENS, so the
   scan is over token boundaries only and never looks at token categories. *)
From Coq Require Import List NArith ZArith Bool Lia Permutation.
From TexModel Require Import Base Tables Chars Tokenizer Tree Reader.
From TexProofs Require Import TokProofs ReaderLen.
Import ListNotations.
Local Open Scope Z_scope.

(* ------------------------------------------------------------ the scan *)

(* the test of forward_until at one token boundary *)
Definition end_here (target : str) (toks : list token) : bool :=
  starts_with (texts (firstn (length target) toks)) target.

(* the test fails at every token boundary strictly inside `pre` (and at its start) *)
Definition no_end_inside (target : str) (pre rest : list token) : Prop :=
  forall a b, pre = a ++ b -> b <> [] -> end_here target (b ++ rest) = false.

Lemma texts_app a b : texts (a ++ b) = texts a ++ texts b.
Proof. unfold texts. rewrite map_app, concat_app. reflexivity. Qed.

Lemma texts_cons t r : texts (t :: r) = ttext t ++ texts r.
Proof. reflexivity. Qed.

Theorem skip_scan_spec target acc toks body rest :
  skip_scan target acc toks = (body, rest) ->
  exists pre,
    toks = pre ++ rest /\ body = acc ++ texts pre /\
    no_end_inside target pre rest /\
    (rest = [] \/ end_here target rest = true).
Proof.
  revert acc. induction toks as [|t r IH]; intros acc H.
  - cbn [skip_scan] in H. inversion H; subst. exists []. repeat split.
    + cbn. rewrite app_nil_r. reflexivity.
    + intros a b E Hb. destruct a; destruct b; simpl in E; try discriminate. congruence.
    + left; reflexivity.
  - cbn [skip_scan] in H. fold (end_here target (t :: r)) in H.
    destruct (end_here target (t :: r)) eqn:E.
    + inversion H; subst. exists []. repeat split.
      * cbn. rewrite app_nil_r. reflexivity.
      * intros a b E' Hb. destruct a; destruct b; simpl in E'; try discriminate. congruence.
      * right; exact E.
    + apply IH in H. destruct H as (pre & Ht & Hb & Hno & Hend).
      exists (t :: pre). repeat split.
      * simpl. rewrite <- Ht. reflexivity.
      * rewrite Hb, texts_cons, app_assoc. reflexivity.
      * intros a b E' Hne. destruct a as [|a0 a].
        -- simpl in E'. subst b. simpl. rewrite <- Ht. exact E.
        -- simpl in E'. inversion E'; subst. apply (Hno a b eq_refl Hne).
      * exact Hend.
Qed.

(* converse: the decomposition determines the result, so it is unique - the
   scan stops at the FIRST boundary where the test holds *)
Theorem skip_scan_complete target acc pre rest :
  no_end_inside target pre rest -> (rest = [] \/ end_here target rest = true) ->
  skip_scan target acc (pre ++ rest) = (acc ++ texts pre, rest).
Proof.
  revert acc. induction pre as [|t p IH]; intros acc Hno Hend.
  - cbn [app texts map concat]. rewrite app_nil_r. destruct Hend as [->|Hend]; [reflexivity|].
    destruct rest as [|r0 rs]; [reflexivity|].
    cbn [skip_scan]. fold (end_here target (r0 :: rs)). rewrite Hend. reflexivity.
  - cbn [app skip_scan]. fold (end_here target (t :: p ++ rest)).
    assert (E0 : end_here target (t :: p ++ rest) = false)
      by exact (Hno [] (t :: p) eq_refl ltac:(discriminate)).
    rewrite E0.
    rewrite IH; [|intros a b E Hb; apply (Hno (t :: a) b); [simpl; congruence|exact Hb]|exact Hend].
    rewrite texts_cons, app_assoc. reflexivity.
Qed.

Corollary skip_scan_unique target acc toks body rest pre' rest' :
  skip_scan target acc toks = (body, rest) ->
  toks = pre' ++ rest' -> no_end_inside target pre' rest' ->
  (rest' = [] \/ end_here target rest' = true) ->
  rest = rest' /\ body = acc ++ texts pre'.
Proof.
  intros H Ht Hno Hend. subst toks. rewrite (skip_scan_complete _ _ _ _ Hno Hend) in H.
  inversion H; auto.
Qed.

(* when no token is empty (true of every tokenizer output, TokProofs.tokens_concat)
   the boundary test is simply "the remaining text starts with \end{name}" *)
Lemma starts_with_nil s : starts_with s [] = true.
Proof. destruct s; reflexivity. Qed.

Lemma starts_with_app_long a b p :
  (length p <= length a)%nat -> starts_with (a ++ b) p = starts_with a p.
Proof.
  revert a; induction p as [|y p IH]; intros a L; [rewrite !starts_with_nil; reflexivity|].
  destruct a as [|x a]; simpl in L; [lia|]. simpl. rewrite IH by lia. reflexivity.
Qed.

Lemma starts_with_app_true a b p : starts_with a p = true -> starts_with (a ++ b) p = true.
Proof.
  revert a; induction p as [|y p IH]; intros a H; [apply starts_with_nil|].
  destruct a as [|x a]; simpl in H; [discriminate|]. simpl.
  apply andb_true_iff in H as [H1 H2]. rewrite H1, IH by exact H2. reflexivity.
Qed.

Lemma texts_firstn_len n toks :
  Forall (fun t => ttext t <> []) toks -> (n <= length toks)%nat ->
  (n <= length (texts (firstn n toks)))%nat.
Proof.
  intro F. revert n. induction F as [|t r Ht F IH]; intros n L; simpl in L.
  - assert (n = 0%nat) by lia. subst. simpl. lia.
  - destruct n as [|n]; [simpl; lia|]. cbn [firstn]. rewrite texts_cons, app_length.
    specialize (IH n ltac:(lia)). destruct (ttext t); [congruence|]. simpl. lia.
Qed.

Theorem end_here_text target toks :
  Forall (fun t => ttext t <> []) toks ->
  end_here target toks = starts_with (texts toks) target.
Proof.
  intro F. unfold end_here.
  destruct (Nat.le_gt_cases (length target) (length toks)) as [L|L].
  - rewrite <- (firstn_skipn (length target) toks) at 2. rewrite texts_app.
    symmetry. apply starts_with_app_long. apply texts_firstn_len; assumption.
  - rewrite firstn_all2 by lia. reflexivity.
Qed.

Lemma end_here_text_true target toks :
  end_here target toks = true -> starts_with (texts toks) target = true.
Proof.
  unfold end_here. intro H. rewrite <- (firstn_skipn (length target) toks), texts_app.
  apply starts_with_app_true. exact H.
Qed.

(* ------------------------------------------------------- read_skip_env *)

Theorem read_skip_env_ok_iff name args pos toks e rest' :
  read_skip_env name args pos toks = Ok (e, rest') <->
  exists t0 pre rest,
    hd_error toks = Some t0 /\ toks = pre ++ rest /\ rest <> [] /\
    end_here (env_end name) rest = true /\
    no_end_inside (env_end name) pre rest /\
    e = ENamed name args [ERaw (texts pre) (tpos t0)] pos /\
    rest' = skipn 5 rest.
Proof.
  split.
  - unfold read_skip_env. destruct (skip_scan (env_end name) [] toks) as [body rest] eqn:E.
    apply skip_scan_spec in E. destruct E as (pre & Ht & Hb & Hno & Hend).
    destruct toks as [|t0 ts]; [discriminate|]. destruct rest as [|r0 rs]; [discriminate|].
    fold (end_here (env_end name) (r0 :: rs)).
    destruct (end_here (env_end name) (r0 :: rs)) eqn:Eh; [|discriminate].
    intro H. inversion H; subst e rest'. exists t0, pre, (r0 :: rs).
    repeat split; try assumption; try discriminate. rewrite Hb. reflexivity.
  - intros (t0 & pre & rest & Hhd & Ht & Hne & Hend & Hno & He & Hr).
    unfold read_skip_env.
    assert (S : skip_scan (env_end name) [] toks = (texts pre, rest)).
    { rewrite Ht. apply (skip_scan_complete (env_end name) [] pre rest Hno). right; exact Hend. }
    rewrite S. destruct toks as [|t ts]; [discriminate|]. simpl in Hhd. inversion Hhd; subst t.
    destruct rest as [|r0 rs]; [congruence|].
    fold (end_here (env_end name) (r0 :: rs)). rewrite Hend. subst. reflexivity.
Qed.

(* "can never cause a parse error": the only failure is the missing \end{name} *)
Theorem read_skip_env_only_eof name args pos toks er :
  read_skip_env name args pos toks = Err er -> er = EOFError.
Proof.
  unfold read_skip_env. destruct (skip_scan (env_end name) [] toks) as [body rest].
  destruct toks as [|t0 ts]; [intro H; inversion H; reflexivity|].
  destruct rest as [|r0 rs]; [intro H; inversion H; reflexivity|].
  destruct (starts_with _ _); intro H; inversion H; reflexivity.
Qed.

(* ... and it happens exactly when the test holds at no token boundary *)
Theorem read_skip_env_eof_iff name args pos toks :
  read_skip_env name args pos toks = Err EOFError <->
  (forall a b, toks = a ++ b -> b <> [] -> end_here (env_end name) b = false).
Proof.
  split.
  - unfold read_skip_env. destruct (skip_scan (env_end name) [] toks) as [body rest] eqn:E.
    apply skip_scan_spec in E. destruct E as (pre & Ht & Hb & Hno & Hend).
    destruct toks as [|t0 ts].
    { intros _ a b E Hne. destruct a; destruct b; simpl in E; try discriminate. congruence. }
    destruct rest as [|r0 rs].
    { intros _ a b E Hne. rewrite app_nil_r in Ht. subst pre.
      specialize (Hno a b E Hne). rewrite app_nil_r in Hno. exact Hno. }
    destruct Hend as [Hend|Hend]; [discriminate|].
    fold (end_here (env_end name) (r0 :: rs)). rewrite Hend. discriminate.
  - intro Hno. unfold read_skip_env.
    assert (S : skip_scan (env_end name) [] toks = (texts toks, [])).
    { rewrite <- (app_nil_r toks) at 1.
      apply (skip_scan_complete (env_end name) [] toks []); [|left; reflexivity].
      intros a b E Hne. rewrite app_nil_r. apply (Hno a b E Hne). }
    rewrite S. destruct toks; reflexivity.
Qed.

Corollary read_skip_env_cases name args pos toks :
  (exists e rest', read_skip_env name args pos toks = Ok (e, rest')) \/
  read_skip_env name args pos toks = Err EOFError.
Proof.
  destruct (read_skip_env name args pos toks) as [[e r]|er] eqn:E; [left; eauto|].
  right. apply read_skip_env_only_eof in E. subst. reflexivity.
Qed.

Lemma estr_skip_env name args body p pos :
  estr (ENamed name args [ERaw body p] pos) =
  env_begin name ++ concat (map estr args) ++ body ++ env_end name.
Proof. cbn [estr map concat]. rewrite app_nil_r. reflexivity. Qed.

(* serialisation: the body is written back verbatim; and the consumed token
   texts are exactly body ++ "\end{name}"-prefixed remainder *)
Corollary read_skip_env_estr name args pos toks e rest' :
  read_skip_env name args pos toks = Ok (e, rest') ->
  exists body rest,
    estr e = env_begin name ++ concat (map estr args) ++ body ++ env_end name /\
    texts toks = body ++ texts rest /\
    starts_with (texts rest) (env_end name) = true /\
    rest' = skipn 5 rest.
Proof.
  intro H. apply read_skip_env_ok_iff in H.
  destruct H as (t0 & pre & rest & _ & Ht & _ & Hend & _ & He & Hr).
  exists (texts pre), rest. subst e. split; [apply estr_skip_env|].
  split; [rewrite Ht; apply texts_app|]. split; [apply end_here_text_true; exact Hend|exact Hr].
Qed.

(* ---------------------------------------- one bare token, nothing inside *)

Definition children (e : expr) : list expr :=
  match e with
  | EText _ | ERaw _ _ | EStr _ => []
  | ECmd _ a b _ => a ++ b
  | ENamed _ a b _ => a ++ b
  | EMath _ b _ => b
  | EGroup _ b _ => b
  | ERoot b => b
  end.

Definition contents (e : expr) : list expr :=
  match e with
  | ECmd _ _ b _ | ENamed _ _ b _ | EMath _ b _ | EGroup _ b _ | ERoot b => b
  | EText _ | ERaw _ _ | EStr _ => []
  end.

Inductive descendant : expr -> expr -> Prop :=
| desc_child e c : In c (children e) -> descendant e c
| desc_trans e c d : In c (children e) -> descendant c d -> descendant e d.

Lemma raw_no_descendant s p d : ~ descendant (ERaw s p) d.
Proof. intro H. inversion H; subst; simpl in *; contradiction. Qed.

Theorem skip_env_single_raw name args pos toks e rest' :
  read_skip_env name args pos toks = Ok (e, rest') ->
  exists body p,
    e = ENamed name args [ERaw body p] pos /\
    contents e = [ERaw body p] /\
    children (ERaw body p) = [] /\
    (forall d, descendant e d ->
       d = ERaw body p \/ exists a, In a args /\ (d = a \/ descendant a d)).
Proof.
  intro H. apply read_skip_env_ok_iff in H.
  destruct H as (t0 & pre & rest & _ & _ & _ & _ & _ & He & _).
  exists (texts pre), (tpos t0). subst e. repeat split.
  intros d D. inversion D as [e c Hin|e c d' Hin D']; subst; cbn [children] in Hin;
    apply in_app_or in Hin; destruct Hin as [Hin|Hin].
  - right. exists d. auto.
  - left. simpl in Hin. destruct Hin as [<-|[]]. reflexivity.
  - right. exists c. auto.
  - simpl in Hin. destruct Hin as [<-|[]]. exfalso. eapply raw_no_descendant; eassumption.
Qed.

(* ------------------------------- the skip list matters only by membership *)

Definition same_members (s1 s2 : list str) : Prop := forall n, mem_str n s1 = mem_str n s2.

Lemma mem_str_In n l : mem_str n l = true <-> In n l.
Proof.
  unfold mem_str. rewrite existsb_exists. split.
  - intros (x & Hin & E). apply str_eqb_eq in E. subst. exact Hin.
  - intro Hin. exists n. split; [exact Hin|apply str_eqb_refl].
Qed.

Lemma mem_str_app n a b : mem_str n (a ++ b) = mem_str n a || mem_str n b.
Proof. apply existsb_app. Qed.

Lemma mem_str_cons x n l : mem_str x (n :: l) = str_eqb x n || mem_str x l.
Proof. reflexivity. Qed.

Lemma same_members_In s1 s2 : (forall n, In n s1 <-> In n s2) -> same_members s1 s2.
Proof.
  intros H n. destruct (mem_str n s1) eqn:E1, (mem_str n s2) eqn:E2; try reflexivity.
  - apply mem_str_In, H, mem_str_In in E1. congruence.
  - apply mem_str_In, H, mem_str_In in E2. congruence.
Qed.

Lemma same_members_app_l b u1 u2 : same_members u1 u2 -> same_members (b ++ u1) (b ++ u2).
Proof. intros H n. rewrite !mem_str_app, (H n). reflexivity. Qed.

Definition memb_expr f := forall s1 s2 strict m toks, same_members s1 s2 ->
  read_expr f s1 strict m toks = read_expr f s2 strict m toks.
Definition memb_env f := forall s1 s2 name args pos strict m acc toks, same_members s1 s2 ->
  read_env_loop f name args pos s1 strict m acc toks =
  read_env_loop f name args pos s2 strict m acc toks.

(* the other eight reader functions have no skip parameter at all, so the
   mutual induction only involves the two that do *)
Lemma memb_holds : forall f, memb_expr f /\ memb_env f.
Proof.
  induction f as [|f [IHe IHv]]; [split; intros ? **; reflexivity|].
  split.
  - intros s1 s2 strict m toks HS. cbn [read_expr].
    destruct toks as [|c src]; [reflexivity|].
    destruct (math_kind_of_begin (tcat c)); [reflexivity|].
    destruct (is_tc TEscape c); [|reflexivity].
    destruct (read_command f (-1) (-1) 0 strict m src) as [[[name args] src1]|er]; [|reflexivity].
    cbn [bind].
    destruct (str_eqb name s_item); [reflexivity|].
    destruct (str_eqb name s_begin && negb (mode_is_special m)); [|reflexivity].
    destruct args as [|a0 args']; [reflexivity|].
    rewrite (HS (strip (arg_string a0))).
    destruct (mem_str (strip (arg_string a0)) s2); [reflexivity|].
    apply IHv. exact HS.
  - intros s1 s2 name args pos strict m acc toks HS. cbn [read_env_loop].
    destruct toks as [|t ts]; [reflexivity|].
    assert (Hstep :
      bind (read_expr f s1 strict m (t :: ts)) (fun '(e, src1) =>
        read_env_loop f name args pos s1 strict m (acc ++ [e]) src1) =
      bind (read_expr f s2 strict m (t :: ts)) (fun '(e, src1) =>
        read_env_loop f name args pos s2 strict m (acc ++ [e]) src1)).
    { rewrite (IHe s1 s2 strict m (t :: ts) HS).
      destruct (read_expr f s2 strict m (t :: ts)) as [[e src1]|er]; [|reflexivity].
      cbn [bind]. apply IHv. exact HS. }
    rewrite Hstep. reflexivity.
Qed.

Theorem skip_names_only_by_membership f skip1 skip2 strict m toks :
  same_members skip1 skip2 ->
  read_expr f skip1 strict m toks = read_expr f skip2 strict m toks.
Proof. apply (proj1 (memb_holds f)). Qed.

Theorem skip_names_only_by_membership_env f skip1 skip2 name args pos strict m acc toks :
  same_members skip1 skip2 ->
  read_env_loop f name args pos skip1 strict m acc toks =
  read_env_loop f name args pos skip2 strict m acc toks.
Proof. apply (proj2 (memb_holds f)). Qed.

Lemma read_tex_loop_members fuel efuel s1 s2 strict acc toks :
  same_members s1 s2 ->
  read_tex_loop fuel efuel s1 strict acc toks = read_tex_loop fuel efuel s2 strict acc toks.
Proof.
  intro HS. revert acc toks. induction fuel as [|fu IH]; intros acc toks; [reflexivity|].
  cbn [read_tex_loop]. destruct toks as [|t ts]; [reflexivity|].
  rewrite (skip_names_only_by_membership efuel s1 s2 strict MNonMath (t :: ts) HS).
  destruct (read_expr efuel s2 strict MNonMath (t :: ts)) as [[e rest]|er]; [|reflexivity].
  cbn [bind]. apply IH.
Qed.

Theorem parse_same_members s strict u1 u2 :
  same_members (Tables.skip_env_names ++ u1) (Tables.skip_env_names ++ u2) ->
  parse s strict u1 = parse s strict u2.
Proof.
  intro HS. unfold parse. destruct (tokens_of_string s) as [toks e]. destruct e; try reflexivity.
  unfold parse_tokens. rewrite (read_tex_loop_members _ _ _ _ strict [] toks HS). reflexivity.
Qed.

(* a built-in name passed again by the user changes nothing *)
Theorem C11_builtin_user_same s strict n user :
  mem_str n Tables.skip_env_names = true ->
  parse s strict (n :: user) = parse s strict user.
Proof.
  intro Hn. apply parse_same_members. intro x. rewrite !mem_str_app, mem_str_cons.
  destruct (str_eqb x n) eqn:E; [|reflexivity].
  apply str_eqb_eq in E. subst x. rewrite Hn. reflexivity.
Qed.

(* only the SET of user names matters: order and multiplicity are irrelevant *)
Theorem C11_user_set_only s strict u1 u2 :
  (forall n, In n u1 <-> In n u2) -> parse s strict u1 = parse s strict u2.
Proof.
  intro H. apply parse_same_members, same_members_app_l, same_members_In, H.
Qed.

Corollary C11_user_permutation s strict u1 u2 :
  Permutation u1 u2 -> parse s strict u1 = parse s strict u2.
Proof.
  intro P. apply C11_user_set_only. intro n. split; apply Permutation_in; [|symmetry]; exact P.
Qed.

Corollary C11_user_duplicate s strict n u :
  parse s strict (n :: n :: u) = parse s strict (n :: u).
Proof. apply C11_user_set_only. intro x. simpl. tauto. Qed.

(* ------------------------------------- the scan is blind to token categories *)

Lemma texts_firstn_map n toks : texts (firstn n toks) = concat (firstn n (map ttext toks)).
Proof. unfold texts. rewrite firstn_map. reflexivity. Qed.

(* two token lists with the same texts (whatever their categories and recorded
   positions: braces, dollars, brackets, escapes, comments ...) are scanned
   identically *)
Theorem skip_scan_text_only target acc toks1 toks2 :
  map ttext toks1 = map ttext toks2 ->
  fst (skip_scan target acc toks1) = fst (skip_scan target acc toks2) /\
  map ttext (snd (skip_scan target acc toks1)) = map ttext (snd (skip_scan target acc toks2)).
Proof.
  revert acc toks2. induction toks1 as [|t1 r1 IH]; intros acc toks2 H;
    destruct toks2 as [|t2 r2]; try discriminate H.
  - split; reflexivity.
  - cbn [skip_scan]. rewrite !texts_firstn_map, H.
    destruct (starts_with (concat (firstn (length target) (map ttext (t2 :: r2)))) target).
    + split; [reflexivity|exact H].
    + simpl in H. inversion H as [[Ht Hr]]. rewrite Ht. apply IH. exact Hr.
Qed.

(* ----------------------------------------------- where skip_envs is consulted *)

Lemma math_kind_group_begin : math_kind_of_begin TGroupBegin = None.
Proof. vm_compute. reflexivity. Qed.

(* read_expr on \begin{name} with name in the list: the body goes to read_skip_env,
   whatever the fuel, the tolerance and (special mode apart) the mode *)
Theorem read_expr_begin_skip f skip strict m c src a0 args' src1 :
  math_kind_of_begin (tcat c) = None -> is_tc TEscape c = true ->
  read_command f (-1) (-1) 0 strict m src = Ok ((s_begin, a0 :: args'), src1) ->
  mode_is_special m = false ->
  mem_str (strip (arg_string a0)) skip = true ->
  read_expr (S f) skip strict m (c :: src) =
  read_skip_env (strip (arg_string a0)) args' (tpos c) src1.
Proof.
  intros Hk He Hc Hm Hs. cbn [read_expr]. rewrite Hk, He, Hc. cbn [bind].
  change (str_eqb s_begin s_item) with false. change (str_eqb s_begin s_begin) with true.
  rewrite Hm, Hs. reflexivity.
Qed.

(* ... and with name not in the list the body is parsed by read_env *)
Theorem read_expr_begin_noskip f skip strict m c src a0 args' src1 :
  math_kind_of_begin (tcat c) = None -> is_tc TEscape c = true ->
  read_command f (-1) (-1) 0 strict m src = Ok ((s_begin, a0 :: args'), src1) ->
  mode_is_special m = false ->
  mem_str (strip (arg_string a0)) skip = false ->
  read_expr (S f) skip strict m (c :: src) =
  read_env_loop f (strip (arg_string a0)) args' (tpos c) skip strict
    (if mem_str (strip (arg_string a0)) Tables.math_env_names then MMath else m) [] src1.
Proof.
  intros Hk He Hc Hm Hs. cbn [read_expr]. rewrite Hk, He, Hc. cbn [bind].
  change (str_eqb s_begin s_item) with false. change (str_eqb s_begin s_begin) with true.
  rewrite Hm, Hs. reflexivity.
Qed.

(* read_env hands the SAME list to the expressions of its body: nesting in named
   environments keeps the option *)
Theorem env_loop_threads_skip f name args pos skip strict m acc t ts :
  is_tc TEscape t = false ->
  read_env_loop (S f) name args pos skip strict m acc (t :: ts) =
  bind (read_expr f skip strict m (t :: ts)) (fun '(e, src1) =>
    read_env_loop f name args pos skip strict m (acc ++ [e]) src1).
Proof. intro He. cbn [read_env_loop]. rewrite He. reflexivity. Qed.

Theorem env_loop_threads_skip_cmd f name args pos skip strict m acc t ts cname cargs x :
  is_tc TEscape t = true ->
  read_command f (-1) (-1) 1 strict m (t :: ts) = Ok ((cname, cargs), x) ->
  str_eqb cname s_end = false ->
  read_env_loop (S f) name args pos skip strict m acc (t :: ts) =
  bind (read_expr f skip strict m (t :: ts)) (fun '(e, src1) =>
    read_env_loop f name args pos skip strict m (acc ++ [e]) src1).
Proof. intros He Hc Hn. cbn [read_env_loop]. rewrite He, Hc. cbn [bind]. rewrite Hn. reflexivity. Qed.

(* but brace/bracket groups, math and \item contents are read with the EMPTY list
   (read_arg, read_math_env, read_item do not pass skip_envs on) *)
Theorem group_ignores_skip f skip strict m c src :
  tcat c = TGroupBegin ->
  read_expr (S f) skip strict m (c :: src) = read_arg f c strict MNonMath src.
Proof.
  intro H. cbn [read_expr]. unfold is_tc. rewrite H, math_kind_group_begin. reflexivity.
Qed.

Theorem math_ignores_skip f skip strict m c src k :
  math_kind_of_begin (tcat c) = Some k ->
  read_expr (S f) skip strict m (c :: src) = read_math_loop f k (tpos c) strict [] src.
Proof. intro H. cbn [read_expr]. rewrite H. reflexivity. Qed.

Corollary C11_not_in_args f skip1 skip2 strict m c src :
  tcat c = TGroupBegin \/ math_kind_of_begin (tcat c) <> None ->
  read_expr f skip1 strict m (c :: src) = read_expr f skip2 strict m (c :: src).
Proof.
  intros [H|H]; destruct f as [|f]; try reflexivity.
  - rewrite !group_ignores_skip by exact H. reflexivity.
  - destruct (math_kind_of_begin (tcat c)) as [k|] eqn:E; [|congruence].
    rewrite !(math_ignores_skip _ _ _ _ _ _ k) by exact E. reflexivity.
Qed.

Theorem arg_loop_empty_skip f k pos strict m acc t src :
  is_group_end k t = false ->
  read_arg_loop (S f) k pos strict m acc (t :: src) =
  bind (read_expr f [] strict m (t :: src)) (fun '(e, src1) =>
    read_arg_loop f k pos strict m (acc ++ [e]) src1).
Proof. intro H. cbn [read_arg_loop]. rewrite H. reflexivity. Qed.

Theorem math_loop_empty_skip f k pos strict acc t src :
  is_math_end k t = false ->
  read_math_loop (S f) k pos strict acc (t :: src) =
  bind (read_expr f [] strict MMath (t :: src)) (fun '(e, src1) =>
    read_math_loop f k pos strict (acc ++ [e]) src1).
Proof. intro H. cbn [read_math_loop]. rewrite H. reflexivity. Qed.

Theorem item_loop_empty_skip f acc t src :
  is_tc TEscape t = false -> is_tc TGroupEnd t = false ->
  read_item_loop (S f) acc (t :: src) =
  bind (read_expr f [] true MNonMath (t :: src)) (fun '(e, src1) =>
    read_item_loop f (acc ++ [e]) src1).
Proof. intros H1 H2. cbn [read_item_loop]. rewrite H1, H2. reflexivity. Qed.

Theorem item_loop_empty_skip_cmd f acc t src cname cargs x :
  is_tc TEscape t = true ->
  read_command f (-1) (-1) 1 true MNonMath (t :: src) = Ok ((cname, cargs), x) ->
  str_eqb cname s_end || str_eqb cname s_item = false ->
  read_item_loop (S f) acc (t :: src) =
  bind (read_expr f [] true MNonMath (t :: src)) (fun '(e, src1) =>
    read_item_loop f (acc ++ [e]) src1).
Proof. intros H1 Hc Hn. cbn [read_item_loop]. rewrite H1, Hc. cbn [bind]. rewrite Hn. reflexivity. Qed.

(* ------------------------------------------ what forward(5) leaves behind *)

(* `src.forward(5)` assumes that \end{name} is the five tokens  \ end { name } .
   When the five tokens at the stop spell exactly \end{name}, nothing is lost: *)
Theorem skip_env_roundtrip_partial name args pos toks e rest' :
  read_skip_env name args pos toks = Ok (e, rest') ->
  texts (firstn 5 (snd (skip_scan (env_end name) [] toks))) = env_end name ->
  estr e ++ texts rest' = env_begin name ++ concat (map estr args) ++ texts toks.
Proof.
  intros H H5. apply read_skip_env_ok_iff in H.
  destruct H as (t0 & pre & rest & _ & Ht & _ & Hend & Hno & He & Hr).
  assert (S : skip_scan (env_end name) [] toks = (texts pre, rest)).
  { rewrite Ht. apply (skip_scan_complete _ [] pre rest Hno). right; exact Hend. }
  rewrite S in H5. cbn [snd] in H5.
  assert (R : texts rest = env_end name ++ texts (skipn 5 rest)).
  { rewrite <- H5, <- texts_app, firstn_skipn. reflexivity. }
  subst e rest'. rewrite estr_skip_env, Ht, texts_app, R, <- !app_assoc. reflexivity.
Qed.

(* test data *)
Definition s_verbatim : str := [118; 101; 114; 98; 97; 116; 105; 109]%N.   (* verbatim *)
Definition s_zz : str := [122; 122]%N.   (* zz *)
Definition s_a_br_b : str := [97; 91; 98]%N.   (* a[b *)
Definition ex_top : str :=   (* \begin{verbatim}$\end{verbatim} *)
  [92; 98; 101; 103; 105; 110; 123; 118; 101; 114; 98; 97; 116; 105; 109; 125; 36; 92; 101; 110; 100; 123; 118; 101; 114; 98; 97; 116; 105; 109; 125]%N.
Definition ex_in_arg : str :=   (* \x{\begin{verbatim}$\end{verbatim}} *)
  [92; 120; 123; 92; 98; 101; 103; 105; 110; 123; 118; 101; 114; 98; 97; 116; 105; 109; 125; 36; 92; 101; 110; 100; 123; 118; 101; 114; 98; 97; 116; 105; 109; 125; 125]%N.
Definition ex_in_arg_math : str :=   (* \x{\begin{verbatim}$x$\end{verbatim}} *)
  [92; 120; 123; 92; 98; 101; 103; 105; 110; 123; 118; 101; 114; 98; 97; 116; 105; 109; 125; 36; 120; 36; 92; 101; 110; 100; 123; 118; 101; 114; 98; 97; 116; 105; 109; 125; 125]%N.
Definition ex_in_math : str :=   (* $\begin{verbatim}{\end{verbatim}$ *)
  [36; 92; 98; 101; 103; 105; 110; 123; 118; 101; 114; 98; 97; 116; 105; 109; 125; 123; 92; 101; 110; 100; 123; 118; 101; 114; 98; 97; 116; 105; 109; 125; 36]%N.
Definition ex_in_item : str :=   (* \item\begin{verbatim}{\end{verbatim} *)
  [92; 105; 116; 101; 109; 92; 98; 101; 103; 105; 110; 123; 118; 101; 114; 98; 97; 116; 105; 109; 125; 123; 92; 101; 110; 100; 123; 118; 101; 114; 98; 97; 116; 105; 109; 125]%N.
Definition ex_nested : str :=   (* \begin{a}\begin{verbatim}${\end{verbatim}\end{a} *)
  [92; 98; 101; 103; 105; 110; 123; 97; 125; 92; 98; 101; 103; 105; 110; 123; 118; 101; 114; 98; 97; 116; 105; 109; 125; 36; 123; 92; 101; 110; 100; 123; 118; 101; 114; 98; 97; 116; 105; 109; 125; 92; 101; 110; 100; 123; 97; 125]%N.
Definition ex_zz_math : str :=   (* \begin{zz}$x$\end{zz} *)
  [92; 98; 101; 103; 105; 110; 123; 122; 122; 125; 36; 120; 36; 92; 101; 110; 100; 123; 122; 122; 125]%N.
Definition ex_zz_bad : str :=   (* \begin{zz}${\end{zz} *)
  [92; 98; 101; 103; 105; 110; 123; 122; 122; 125; 36; 123; 92; 101; 110; 100; 123; 122; 122; 125]%N.
Definition ex_unclosed : str :=   (* \begin{verbatim}${x *)
  [92; 98; 101; 103; 105; 110; 123; 118; 101; 114; 98; 97; 116; 105; 109; 125; 36; 123; 120]%N.
Definition ex_multi_tok : str :=   (* \begin{a[b}x\end{a[b}y *)
  [92; 98; 101; 103; 105; 110; 123; 97; 91; 98; 125; 120; 92; 101; 110; 100; 123; 97; 91; 98; 125; 121]%N.
Definition ex_body_multi : str :=   (* x\end{a[b}y *)
  [120; 92; 101; 110; 100; 123; 97; 91; 98; 125; 121]%N.
Definition ex_body_zz : str :=   (* ${\end{zz}y *)
  [36; 123; 92; 101; 110; 100; 123; 122; 122; 125; 121]%N.
Definition ex_body_none : str :=   (* ${\end {zz} *)
  [36; 123; 92; 101; 110; 100; 32; 123; 122; 122; 125]%N.

Definition toks_of (s : str) : list token := fst (tokens_of_string s).
Definition tok0 : token := mkt [] 0 TText.

(* builtin names all tokenise to the five tokens assumed by forward(5) *)
Example builtin_end_is_five_tokens :
  forallb (fun n => Nat.eqb (length (toks_of (env_end n))) 5) Tables.skip_env_names = true.
Proof. vm_compute. reflexivity. Qed.

(* ... in general they do not: what follows the environment is then damaged *)
Theorem skip_env_roundtrip_refuted :
  exists name args pos toks e rest',
    read_skip_env name args pos toks = Ok (e, rest') /\
    estr e ++ texts rest' <> env_begin name ++ concat (map estr args) ++ texts toks.
Proof.
  exists s_a_br_b, [], 0, (toks_of ex_body_multi).
  eexists. eexists. split; [vm_compute; reflexivity|].
  intro H. apply str_eqb_eq in H. vm_compute in H. discriminate H.
Qed.

(* the same at the level of parse: with the user name  a[b  the tree no longer
   serialises to the input (b} of \end{a[b} is re-read as text), while the
   built-in names and single-token user names round-trip *)
Theorem C11_user_like_builtin_refuted :
  exists s user t, parse s true user = Ok t /\ estr t <> s /\
    exists t', parse s true [] = Ok t' /\ estr t' = s.
Proof.
  exists ex_multi_tok, [s_a_br_b]. eexists. split; [vm_compute; reflexivity|]. split.
  - intro H. apply str_eqb_eq in H. vm_compute in H. discriminate H.
  - eexists. split; vm_compute; reflexivity.
Qed.

(* ------------------------------------------------- non-vacuity / examples *)

Example skip_scan_ex :
  fst (skip_scan (env_end s_zz) [] (toks_of ex_body_zz)) = [36; 123]%N /\
  texts (snd (skip_scan (env_end s_zz) [] (toks_of ex_body_zz)))
    = [92; 101; 110; 100; 123; 122; 122; 125; 121]%N.
Proof. vm_compute. split; reflexivity. Qed.

(* the body tokens are a math switch and a group opener *)
Example skip_scan_ex_cats :
  map tcat (firstn 2 (toks_of ex_body_zz)) = [TMathSwitch; TGroupBegin].
Proof. vm_compute. reflexivity. Qed.

Example read_skip_env_ok_ex :
  exists r, read_skip_env s_zz [] 7 (toks_of ex_body_zz)
            = Ok (ENamed s_zz [] [ERaw [36; 123]%N 0] 7, r) /\ texts r = [121]%N.
Proof. eexists. vm_compute. split; reflexivity. Qed.

Example read_skip_env_eof_ex :
  read_skip_env s_zz [] 7 (toks_of ex_body_none) = Err EOFError /\
  read_skip_env s_zz [] 7 [] = Err EOFError.
Proof. vm_compute. split; reflexivity. Qed.

Example roundtrip_hyp_ex :
  texts (firstn 5 (snd (skip_scan (env_end s_zz) [] (toks_of ex_body_zz)))) = env_end s_zz.
Proof. vm_compute. reflexivity. Qed.

Example skip_scan_text_only_ex :
  let t1 := toks_of ex_body_zz in
  let t2 := map (fun t => mkt (ttext t) 0 TText) t1 in
  map ttext t1 = map ttext t2 /\ map tcat t1 <> map tcat t2.
Proof. vm_compute. split; [reflexivity|discriminate]. Qed.

Example end_here_text_ex :
  Forall (fun t => ttext t <> []) (toks_of ex_body_zz).
Proof. vm_compute. repeat constructor; discriminate. Qed.

Example same_members_ex : same_members [s_zz; s_verbatim] [s_verbatim; s_zz; s_zz].
Proof. apply same_members_In. intro n. simpl. tauto. Qed.

Example builtin_ex : mem_str s_verbatim Tables.skip_env_names = true.
Proof. vm_compute. reflexivity. Qed.

Example read_expr_begin_skip_ex :
  match toks_of ex_zz_bad with
  | c :: src =>
    math_kind_of_begin (tcat c) = None /\ is_tc TEscape c = true /\
    exists a0 src1,
      read_command 20 (-1) (-1) 0 true MNonMath src = Ok ((s_begin, [a0]), src1) /\
      mem_str (strip (arg_string a0)) [s_zz] = true /\
      mem_str (strip (arg_string a0)) [] = false
  | [] => False
  end.
Proof. vm_compute. split; [reflexivity|]. split; [reflexivity|]. eexists. eexists. repeat split. Qed.

Example group_begin_ex : tcat (hd tok0 (toks_of [123]%N)) = TGroupBegin.
Proof. vm_compute. reflexivity. Qed.

Example math_begin_ex : math_kind_of_begin (tcat (hd tok0 (toks_of [36]%N))) = Some MInline.
Proof. vm_compute. reflexivity. Qed.

Example loops_hyp_ex :
  let t := hd tok0 (toks_of [120]%N) in
  is_group_end GBrace t = false /\ is_math_end MInline t = false /\
  is_tc TEscape t = false /\ is_tc TGroupEnd t = false.
Proof. vm_compute. repeat split. Qed.

Example loops_cmd_hyp_ex :
  let toks := toks_of ex_top in
  is_tc TEscape (hd tok0 toks) = true /\
  exists cargs x, read_command 20 (-1) (-1) 1 true MNonMath toks = Ok ((s_begin, cargs), x) /\
    str_eqb s_begin s_end = false /\ str_eqb s_begin s_end || str_eqb s_begin s_item = false.
Proof. vm_compute. split; [reflexivity|]. eexists. eexists. repeat split. Qed.

(* --- at top level and nested in named environments the body is opaque --- *)

Example C11_top_level_opaque :
  parse ex_top true [] = Ok (ERoot [ENamed s_verbatim [] [ERaw [36]%N 16] 0]).
Proof. vm_compute. reflexivity. Qed.

Example C11_nested_in_named_env_opaque :
  parse ex_nested true [] =
  Ok (ERoot [ENamed [97]%N [] [ENamed s_verbatim [] [ERaw [36; 123]%N 25] 9] 0]).
Proof. vm_compute. reflexivity. Qed.

(* an unclosed body is the only failure *)
Example C11_unclosed_eof : parse ex_unclosed true [] = Err EOFError.
Proof. vm_compute. reflexivity. Qed.

(* --- inside an argument group, math or \item the body IS parsed --- *)

Example C11_in_arg_parsed_error :
  parse ex_in_arg true [] = Err EOFError /\ parse ex_in_arg false [] = Err EOFError.
Proof. vm_compute. split; reflexivity. Qed.

Example C11_in_arg_parsed_math :
  parse ex_in_arg_math true [] =
  Ok (ERoot [ECmd [120]%N
               [EGroup GBrace
                  [ENamed s_verbatim []
                     [EMath MInline [EText (mkt [120]%N 20 TText)] 19] 3] 2] [] 0]).
Proof. vm_compute. reflexivity. Qed.

Example C11_in_math_parsed : parse ex_in_math true [] = Err EOFError.
Proof. vm_compute. reflexivity. Qed.

Example C11_in_item_parsed : parse ex_in_item true [] = Err TypeError.
Proof. vm_compute. reflexivity. Qed.

(* --- a user name: opaque with the option, parsed normally without --- *)

Example C11_without_option_parsed :
  parse ex_zz_math true [] =
    Ok (ERoot [ENamed s_zz [] [EMath MInline [EText (mkt [120]%N 11 TText)] 10] 0]) /\
  parse ex_zz_math true [s_zz] =
    Ok (ERoot [ENamed s_zz [] [ERaw [36; 120; 36]%N 10] 0]).
Proof. vm_compute. split; reflexivity. Qed.

Example C11_without_option_error :
  parse ex_zz_bad true [] = Err TypeError /\
  parse ex_zz_bad true [s_zz] = Ok (ERoot [ENamed s_zz [] [ERaw [36; 123]%N 10] 0]).
Proof. vm_compute. split; reflexivity. Qed.

(* --- the stated proviso is too weak: a body that starts with a spacer (blanks,
   at most one newline) FOLLOWED by a brace/bracket group is also read as
   environment options - e.g. a verbatim block whose first line is {x} - and the
   spacer disappears from the serialisation --- *)
Definition ex_spacer_brace : str :=   (* \begin{verbatim}<LF>{x}<LF>\end{verbatim} *)
  [92; 98; 101; 103; 105; 110; 123; 118; 101; 114; 98; 97; 116; 105; 109; 125; 10; 123; 120; 125; 10; 92; 101; 110; 100; 123; 118; 101; 114; 98; 97; 116; 105; 109; 125]%N.

Theorem C11_body_after_spacer_refuted :
  exists s t,
    s = env_begin s_verbatim ++ [10; 123; 120; 125; 10]%N ++ env_end s_verbatim /\
    parse s true [] = Ok t /\
    t = ERoot [ENamed s_verbatim [EGroup GBrace [EText (mkt [120]%N 18 TText)] 17]
                 [ERaw [10]%N 20] 0] /\
    estr t <> s.
Proof.
  exists ex_spacer_brace. eexists. split; [vm_compute; reflexivity|].
  split; [vm_compute; reflexivity|]. split; [reflexivity|].
  intro H. apply str_eqb_eq in H. vm_compute in H. discriminate H.
Qed.

(* --- why the provisos "does not end with a backslash" and "no % before the
   closing \end on its line" are needed: \\ and a comment are single tokens, so
   the \end{verbatim} inside them is not at a token boundary and the body runs
   on to the next one --- *)
Definition ex_backslash : str :=   (* \begin{verbatim}a\\end{verbatim}b\end{verbatim} *)
  [92; 98; 101; 103; 105; 110; 123; 118; 101; 114; 98; 97; 116; 105; 109; 125; 97; 92; 92; 101; 110; 100; 123; 118; 101; 114; 98; 97; 116; 105; 109; 125; 98; 92; 101; 110; 100; 123; 118; 101; 114; 98; 97; 116; 105; 109; 125]%N.
Definition ex_comment : str :=   (* \begin{verbatim}a%\end{verbatim}<LF>b\end{verbatim} *)
  [92; 98; 101; 103; 105; 110; 123; 118; 101; 114; 98; 97; 116; 105; 109; 125; 97; 37; 92; 101; 110; 100; 123; 118; 101; 114; 98; 97; 116; 105; 109; 125; 10; 98; 92; 101; 110; 100; 123; 118; 101; 114; 98; 97; 116; 105; 109; 125]%N.

Example C11_proviso_backslash_needed :
  parse ex_backslash true [] =
  Ok (ERoot [ENamed s_verbatim [] [ERaw [97; 92; 92; 101; 110; 100; 123; 118; 101; 114; 98; 97; 116; 105; 109; 125; 98]%N 16] 0]).   (* a\\end{verbatim}b *)
Proof. vm_compute. reflexivity. Qed.

Example C11_proviso_comment_needed :
  parse ex_comment true [] =
  Ok (ERoot [ENamed s_verbatim [] [ERaw [97; 37; 92; 101; 110; 100; 123; 118; 101; 114; 98; 97; 116; 105; 109; 125; 10; 98]%N 16] 0]).   (* a%\end{verbatim}<LF>b *)
Proof. vm_compute. reflexivity. Qed.

(* with the option, \begin{name} ... yields a tree or EOFError, whatever follows *)
Corollary read_expr_begin_skip_cases f skip strict m c src a0 args' src1 :
  math_kind_of_begin (tcat c) = None -> is_tc TEscape c = true ->
  read_command f (-1) (-1) 0 strict m src = Ok ((s_begin, a0 :: args'), src1) ->
  mode_is_special m = false ->
  mem_str (strip (arg_string a0)) skip = true ->
  (exists body p rest',
     read_expr (S f) skip strict m (c :: src) =
     Ok (ENamed (strip (arg_string a0)) args' [ERaw body p] (tpos c), rest')) \/
  read_expr (S f) skip strict m (c :: src) = Err EOFError.
Proof.
  intros Hk He Hc Hm Hs. rewrite (read_expr_begin_skip _ _ _ _ _ _ _ _ _ Hk He Hc Hm Hs).
  destruct (read_skip_env_cases (strip (arg_string a0)) args' (tpos c) src1)
    as [(e & rest' & H)|H]; [left|right; exact H].
  destruct (skip_env_single_raw _ _ _ _ _ _ H) as (body & p & E & _). subst e. eauto.
Qed.

Example skip_scan_complete_ex :
  exists pre rest, pre <> [] /\ rest <> [] /\
    no_end_inside (env_end s_zz) pre rest /\ end_here (env_end s_zz) rest = true.
Proof.
  destruct (skip_scan (env_end s_zz) [] (toks_of ex_body_zz)) as [body rest] eqn:E.
  pose proof E as E'. apply skip_scan_spec in E. destruct E as (pre & _ & Hb & Hno & Hend).
  vm_compute in E'. injection E' as Eb Er.
  exists pre, rest. split; [intro; subst pre; rewrite <- Eb in Hb; discriminate Hb|].
  split; [rewrite <- Er; discriminate|]. split; [exact Hno|].
  destruct Hend as [Hend|Hend]; [rewrite <- Er in Hend; discriminate Hend|exact Hend].
Qed.

Example permutation_ex : Permutation [s_zz; s_verbatim] [s_verbatim; s_zz].
Proof. apply perm_swap. Qed.
