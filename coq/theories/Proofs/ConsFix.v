(* fixed point of the parser under the (decidable) round-trip conditions *)
From Coq Require Import List NArith ZArith Bool.
From TexModel Require Import Base Tables Chars Tokenizer Tree Reader.
From TexProofs Require Import TokProofs ReaderLen ReaderCons ConsBridge.
Import ListNotations.

Theorem parse_fixed_point (s : str) user t :
  parse s true user = Ok t ->
  hypb (all_skip user) (fst (tokens_of_string s)) = true ->
  nobare t = true ->
  no_arg_spacer (fst (tokens_of_string s)) = true ->
  Forall (fun c => ign c = false) (categorize s) ->
  parse (estr t) true user = Ok t /\
  (forall t', parse (estr t) true user = Ok t' -> estr t' = estr t).
Proof.
  intros H Hb Hn Hs Hi.
  pose proof (parse_roundtrip s user t H Hb Hn Hs Hi) as E.
  rewrite E. split; [exact H|]. intros t' H'. rewrite H in H'. inversion H' as [Ht]. subst t'.
  exact E.
Qed.
