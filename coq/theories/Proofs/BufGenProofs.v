(* The methods of class Buffer generated from the Python source (Model/BufGen.v,
   written by harness/gen_buffer.py on every run) denote the hand-written
   operations of Model/Buffer.v.

   For each method M and all arguments:
       call (S^k n) gen_cls (CMeth M) args (cc s) = done (hand_M s args)
   i.e. the interpreter of BufDSL.v, run on the translated body from the object
   `cc s` that the hand-written state s stands for, finishes inside the
   modelled fragment, within its loop fuel and call depth (ODone), with the
   result AND the new state of the hand-written operation.  `run_*` restate
   this for `run_meth` (call depth 8), `gen_step_ok` for all thirteen
   operations of Buffer.step at once, `gen_session_ok` for Buffer(l) followed
   by ANY operation sequence (no guard), `gen_session_refines` transfers
   C20_refines.

   Hypotheses: __next__, position, __iter__, __init__ need only
   wf s := mat s <= length (items s) (the queue is a prefix of the sequence);
   everything built on __getitem__ needs Pre s (BufferProofs: additionally
   0 <= cursor s), which every method preserves (step_Pre) -- the code asserts
   it in backward().  Without it the hand-written scan of forward_until runs
   out of ITS fuel where the code and the generated method do not
   (gen_forward_until_unconditional_refuted, replayed on the code).

   Method: __next__ by induction on what the iterator still holds; the loops of
   __getitem__, forward_until and num_forward_until by lockstep simulation of
   Buffer.advance / Buffer.scan (any fuel not smaller than the hand-written
   one); the other methods by evaluation.  The proofs compute with the
   generated terms, so a change of a method body that changes what the method
   computes makes the lemma named after the method fail.

   Shape-robustness: the statements are fixed equalities with the hand-written
   model, but the scripts of __getitem__, forward_until, num_forward_until,
   backward and peek do not follow the exact shape of the generated body.
   They evaluate it statement by statement up to the while statement (the
   continuation is hidden meanwhile), recognise the loop by its test
   (gi_loop_gen: ANY test that evaluates to Buffer.bound_ok; nfu/fu_loop_gen:
   the scanning test, accumulator and counter at ANY local index, anything
   else in the locals carried along), replace it by the hand-written
   advance / scan and evaluate the rest, splitting on whatever comparison or
   list access the evaluation meets.  Named temporaries, a conditional
   expression for an if statement, one return for two, `i = 0; c = ''` for
   `i, c = 0, ''`, `assert a >= b` for `assert a - b >= 0` leave all lemmas
   provable by the same scripts. *)
From Coq Require Import List ZArith Bool Lia Arith.
From TexModel Require Import Buffer BufDSL BufGen.
From TexProofs Require Import BufferProofs.
Import ListNotations.
Open Scope Z_scope.

Local Arguments call : simpl never.
Local Arguments while_loop : simpl never.
Local Arguments Z.add : simpl never.
Local Arguments Z.sub : simpl never.
Local Arguments Z.opp : simpl never.
Local Arguments Z.of_nat : simpl never.
Local Arguments Z.to_nat : simpl never.
Local Arguments Z.ltb : simpl never.
Local Arguments Z.leb : simpl never.
Local Arguments Z.eqb : simpl never.
Local Arguments py_index : simpl never.
Local Arguments py_slice : simpl never.
Local Arguments loop_fuel : simpl never.

Definition fj := VFn FTokenJoin.
Definition fi := VFn (FLam 1).
Definition fe := VFn (FLam 0).
Definition mk (it q : list Z) (i : Z) : dstate := mkD it q i fj fi fe.

Lemma call_S n c ce vs d : call (S n) c ce vs d = call_body c (call n c) ce vs d.
Proof. reflexivity. Qed.

Lemma init_lam n x z it q i :
  call (S n) gen_cls (CFn (FLam 1)) [VRaw x; VInt z] (mk it q i) = ODone (mk it q i) (RVal (VItem x)).
Proof. reflexivity. Qed.

Definition next_cond := ECmp CGe (EField F_i) (ELen (EField F_queue)).
Definition next_body := blk [SAppend F_queue (ECallVal (EField F_init) (args_of [ENextField F_iterator; EField F_i]))].

Lemma next_loop n en i : forall it q f, (length it < f)%nat -> Z.of_nat (length q) <= i ->
  while_loop (eval (call (S n) gen_cls) next_cond) (exec_block (call (S n) gen_cls) next_body) f en (mk it q i) =
  if i + 1 <=? Z.of_nat (length q + length it) then
    let k := Z.to_nat (i + 1 - Z.of_nat (length q)) in
    XNormal en (mk (skipn k it) (q ++ firstn k it) i)
  else XExc StopIteration (mk [] (q ++ it) i).
Proof.
  induction it as [|x r IH]; intros q f Hf Hq.
  - destruct f as [|f]; [simpl in Hf; lia|].
    unfold while_loop. cbn.
    assert (E : (Z.of_nat (length q) <=? i) = true) by (apply Z.leb_le; lia). rewrite E. cbn.
    assert (E2 : (i + 1 <=? Z.of_nat (length q + 0)) = false) by (apply Z.leb_gt; lia). rewrite E2.
    rewrite app_nil_r. reflexivity.
  - destruct f as [|f]; [simpl in Hf; lia|].
    unfold while_loop; fold while_loop. cbn.
    assert (E : (Z.of_nat (length q) <=? i) = true) by (apply Z.leb_le; lia). rewrite E. cbn.
    fold (mk r q i). rewrite init_lam. cbn. fold (mk r (q ++ [x]) i).
    destruct (Z_lt_le_dec i (Z.of_nat (length q) + 1)) as [Hlt|Hge].
    + (* the appended element is the one wanted: the loop stops *)
      destruct f as [|f]; [simpl in Hf; lia|].
      unfold while_loop. cbn. rewrite app_length. cbn [length].
      assert (E3 : (Z.of_nat (length q + 1) <=? i) = false) by (apply Z.leb_gt; lia). rewrite E3. cbn.
      assert (E4 : (i + 1 <=? Z.of_nat (length q + S (length r))) = true) by (apply Z.leb_le; lia).
      rewrite E4. cbv zeta.
      replace (Z.to_nat (i + 1 - Z.of_nat (length q))) with 1%nat by lia. reflexivity.
    + rewrite IH; [| simpl in Hf; lia | rewrite app_length; cbn [length]; lia].
      rewrite app_length. cbn [length].
      replace (length q + 1 + length r)%nat with (length q + S (length r))%nat by lia.
      destruct (i + 1 <=? Z.of_nat (length q + S (length r))) eqn:E5.
      * cbv zeta.
        replace (Z.to_nat (i + 1 - Z.of_nat (length q))) with (S (Z.to_nat (i + 1 - Z.of_nat (length q + 1)))) by lia.
        cbn [skipn firstn]. rewrite <- app_assoc. reflexivity.
      * rewrite <- app_assoc. reflexivity.
Qed.
Definition cc (s : state) : dstate := conc fj fi fe s.
Definition done (r : state * out) : outcome := ODone (cc (fst r)) (of_out (snd r)).

Lemma firstn_S_snoc {A} (l : list A) : forall m x r, skipn m l = x :: r ->
  firstn (S m) l = firstn m l ++ [x] /\ skipn (S m) l = r.
Proof.
  induction l as [|y l IH]; intros [|m] x r H; simpl in H; try discriminate.
  - injection H as -> ->. split; reflexivity.
  - destruct (IH m x r H) as [H1 H2]. split; [|exact H2].
    change (firstn (S (S m)) (y :: l)) with (y :: firstn (S m) l). rewrite H1. reflexivity.
Qed.

Lemma skipn_skipn {A} (l : list A) : forall a b, skipn a (skipn b l) = skipn (b + a) l.
Proof.
  induction l as [|y l IH]; intros a [|b]; simpl.
  - destruct a; reflexivity.
  - destruct a; reflexivity.
  - reflexivity.
  - apply IH.
Qed.

Lemma gen_next_ok n s : (mat s <= length (items s))%nat ->
  call (S (S n)) gen_cls (CMeth M_next) [] (cc s) = done (next_raw s).
Proof.
  destruct s as [L m i]. cbn [items mat cursor]. intros Hm.
  rewrite call_S. unfold call_body, cc, conc. cbn [items mat cursor].
  cbn [gen_cls c_meth gen_meth gen_next m_params m_body bind_params].
  fold (mk (skipn m L) (firstn m L) i).
  assert (Hlq : length (firstn m L) = m) by (apply firstn_length_le; exact Hm).
  assert (Hli : length (skipn m L) = (length L - m)%nat) by apply skipn_length.
  unfold next_raw, done. cbn [items mat cursor]. cbv zeta.
  destruct (i <? Z.of_nat m) eqn:Elt.
  - (* already materialised *)
    apply Z.ltb_lt in Elt.
    cbn. unfold while_loop, loop_fuel. cbn. rewrite Hlq.
    assert (E : (Z.of_nat m <=? i) = false) by (apply Z.leb_gt; lia). rewrite E. cbn.
    replace (i + 1 - 1) with i by lia. unfold queue. cbn [items mat].
    destruct (py_index (firstn m L) i); reflexivity.
  - apply Z.ltb_ge in Elt.
    cbn [blk exec_block exec_stmt].
    change (ECmp CGe (EField F_i) (ELen (EField F_queue))) with next_cond.
    change (BCons (SAppend F_queue (ECallVal (EField F_init) (args_of [ENextField F_iterator; EField F_i]))) BNil) with next_body.
    rewrite next_loop; [| unfold loop_fuel, mk; cbn [d_q d_it d_i]; lia | rewrite Hlq; exact Elt].
    rewrite Hlq, Hli. replace (m + (length L - m))%nat with (length L) by lia.
    destruct (i + 1 <=? Z.of_nat (length L)) eqn:E1.
    + apply Z.leb_le in E1. cbv zeta.
      set (k := Z.to_nat (i + 1 - Z.of_nat m)).
      assert (Hq : firstn m L ++ firstn k (skipn m L) = firstn (Z.to_nat (i + 1)) L).
      { replace (Z.to_nat (i + 1)) with (m + k)%nat by lia. symmetry. apply firstn_add_split. }
      assert (Hs : skipn k (skipn m L) = skipn (Z.to_nat (i + 1)) L).
      { rewrite skipn_skipn. f_equal. lia. }
      rewrite Hq, Hs. cbn. replace (i + 1 - 1) with i by lia.
      unfold queue. cbn [items mat].
      destruct (py_index (firstn (Z.to_nat (i + 1)) L) i); reflexivity.
    + cbn. rewrite firstn_skipn. unfold cc, conc. cbn [items mat cursor]. rewrite firstn_all, skipn_all. reflexivity.
Qed.
Local Arguments cc : simpl never.
Lemma d_i_cc s : d_i (cc s) = cursor s. Proof. reflexivity. Qed.
Lemma d_q_cc s : d_q (cc s) = queue s. Proof. reflexivity. Qed.
Lemma cc_set_i s z :
  mkD (d_it (cc s)) (d_q (cc s)) z (d_join (cc s)) (d_init (cc s)) (d_empty (cc s)) = cc (set_cursor s z).
Proof. reflexivity. Qed.
Lemma d_join_cc s : d_join (cc s) = fj. Proof. reflexivity. Qed.
Lemma d_init_cc s : d_init (cc s) = fi. Proof. reflexivity. Qed.
Lemma d_empty_cc s : d_empty (cc s) = fe. Proof. reflexivity. Qed.

Definition wf (s : state) : Prop := (mat s <= length (items s))%nat.

Lemma next_raw_wf s : wf s -> wf (fst (next_raw s)).
Proof.
  unfold wf, next_raw. destruct s as [L m i]. cbn [items mat cursor]. cbv zeta. intros H.
  destruct (i <? Z.of_nat m); [exact H|].
  destruct (Z.leb_spec (i + 1) (Z.of_nat (length L))); cbn [fst items mat]; lia.
Qed.

Lemma next_raw_items s : items (fst (next_raw s)) = items s.
Proof.
  unfold next_raw. destruct s as [L m i]. cbn [items mat cursor]. cbv zeta.
  destruct (i <? Z.of_nat m); [reflexivity|].
  destruct (i + 1 <=? Z.of_nat (length L)); reflexivity.
Qed.

Definition jval (J : option Z) : value := match J with None => VNone | Some k => VInt k end.

(* The loop of __getitem__: `while <bound> : try: next(self) except StopIteration: break`.
   The lemma is stated for ANY test expression and ANY locals such that the
   test evaluates, without effect, to "the bound j is None or cursor <= j"
   (Buffer.bound_ok); the proofs of the two __getitem__ lemmas find the loop in
   the evaluated body, whatever precedes and follows it, and discharge that
   side condition by computation.  So they hold of every equivalent way of
   writing the method that the translator accepts (named temporaries, a
   conditional expression for an if statement, one return for two), and still
   fail when the body computes something else. *)
Definition gi_cond := EOr (EIsNone (EVar 2)) (ECmp CLe (EField F_i) (EVar 2)).
Definition gi_body := blk [STry (blk [SExpr (ECallMeth M_next (args_of []))]) StopIteration (blk [SBreak])].

Definition xloop (en : env) (r : state * option exn) : xres :=
  match snd r with
  | None => XNormal en (cc (fst r))
  | Some e => XExc e (cc (fst r))
  end.

Lemma gi_cond_eval cf a o J s :
  eval cf gi_cond [Some a; Some o; Some (jval J)] (cc s) = EV (VBool (bound_ok (cursor s) J)) (cc s).
Proof. destruct J as [k|]; reflexivity. Qed.

Lemma gi_loop_gen n cond en J :
  (forall s, eval (call (S (S n)) gen_cls) cond en (cc s) = EV (VBool (bound_ok (cursor s) J)) (cc s)) ->
  forall f2 f1 s, (f2 < f1)%nat -> wf s ->
  snd (advance f2 s J) <> Some OutOfFuel ->
  while_loop (eval (call (S (S n)) gen_cls) cond) (exec_block (call (S (S n)) gen_cls) gi_body) f1
             en (cc s)
  = xloop en (advance f2 s J).
Proof.
  intros Hc.
  induction f2 as [|f2 IH]; intros f1 s Hf Hwf Hno;
    (destruct f1 as [|f1]; [lia|]); unfold while_loop; fold while_loop; rewrite Hc;
    cbn [truthy].
  - unfold advance in *. destruct (bound_ok (cursor s) J) eqn:HB.
    + exfalso. apply Hno. reflexivity.
    + reflexivity.
  - rewrite advance_S in *. destruct (bound_ok (cursor s) J) eqn:HB; [|reflexivity].
    cbn [gi_body blk exec_block exec_stmt eval eval_args args_of].
    rewrite gen_next_ok by exact Hwf. unfold done.
    pose proof (next_raw_wf s Hwf) as Hwf1.
    destruct (next_raw s) as [s1 x]. cbn [fst snd] in *.
    destruct x as [y| |l|b|z|e]; cbn [of_out of_outcome exn_eqb];
      try (apply IH; [lia|exact Hwf1|exact Hno]).
    destruct e; reflexivity.
Qed.

Lemma gi_loop n a o J : forall f2 f1 s, (f2 < f1)%nat -> wf s ->
  snd (advance f2 s J) <> Some OutOfFuel ->
  while_loop (eval (call (S (S n)) gen_cls) gi_cond) (exec_block (call (S (S n)) gen_cls) gi_body) f1
             [Some a; Some o; Some (jval J)] (cc s)
  = xloop [Some a; Some o; Some (jval J)] (advance f2 s J).
Proof. apply gi_loop_gen. intros s. apply gi_cond_eval. Qed.
Lemma loop_fuel_cc s : wf s -> (advance_fuel s < loop_fuel (cc s))%nat.
Proof.
  unfold wf, loop_fuel, advance_fuel, cc, conc. cbn [d_q d_it d_i]. intros H.
  rewrite firstn_length_le by exact H. rewrite skipn_length. lia.
Qed.

Lemma join_call n c l d : call (S n) c (CFn FTokenJoin) [VList l] d = ODone d (RVal (VStr l)).
Proof. reflexivity. Qed.

Ltac ev :=
  cbn [blk exec_block exec_stmt eval eval_args args_of lookup nth_error BufDSL.truthy get_field
       set_field lift_v lift_rv py_getitem py_stop py_add py_sub py_cmp py_eq py_len py_token
       py_strtest text_of is_simple option_map set_vars set_var aug bound_of ints_of of_outcome
       of_out exn_eqb finish fst snd jval nonempty negb bind_params m_params m_body
       gen_cls c_meth gen_meth gen_init gen_hasNext gen_startswith gen_endswith gen_forward
       gen_num_forward_until gen_forward_until gen_backward gen_peek gen_next gen_getitem
       gen_iter gen_position].

Lemma exec_while cf c b en d :
  exec_stmt cf (SWhile c b) en d = while_loop (eval cf c) (exec_block cf b) (loop_fuel d) en d.
Proof. reflexivity. Qed.

(* a statement list as its first statement and the continuation *)
Definition seq (x : xres) (k : env -> dstate -> xres) : xres :=
  match x with
  | XNormal en d => k en d
  | y => y
  end.

Lemma exec_block_cons cf st b en d :
  exec_block cf (BCons st b) en d = seq (exec_stmt cf st en d) (exec_block cf b).
Proof.
  change (exec_block cf (BCons st b) en d)
    with (match exec_stmt cf st en d with XNormal en' d' => exec_block cf b en' d' | x => x end).
  unfold seq. destruct (exec_stmt cf st en d); reflexivity.
Qed.

(* enter the method and evaluate, statement by statement, what precedes its
   while statement (the continuation is hidden meanwhile, so that the test and
   the body of the loop stay syntactically visible) *)
Ltac gi_prefix :=
  repeat match goal with
  | |- context [exec_block ?cf (BCons (SWhile ?c ?b) ?rest) ?en ?d] => fail 1
  | |- context [exec_block ?cf (BCons ?st ?rest) ?en ?d] =>
    rewrite (exec_block_cons cf st rest en d);
    let K := fresh "K" in let HK := fresh "HK" in
    remember (exec_block cf rest) as K eqn:HK; ev; cbn [seq]; subst K
  end.

Ltac gi_enter :=
  rewrite call_S; unfold call_body;
  cbn [gen_cls c_meth gen_meth gen_getitem m_params m_body bind_params option_map blk];
  gi_prefix; rewrite ?d_i_cc.

(* replace the loop of __getitem__ by the hand-written `advance` (gi_loop_gen;
   J is the bound the caller passed); K names the statements after the loop *)
Ltac gi_find_loop n s J Hwf Hno K HK :=
  match goal with
  | |- context [exec_block ?cf (BCons (SWhile ?c ?b) ?rest) ?en (cc s)] =>
    rewrite (exec_block_cons cf (SWhile c b) rest en (cc s)), exec_while;
    remember (exec_block cf rest) as K eqn:HK;
    change b with gi_body;
    rewrite (gi_loop_gen n c en J (fun s' => eq_refl) (advance_fuel s) (loop_fuel (cc s)) s);
    [| apply loop_fuel_cc; exact Hwf | exact Hwf | exact Hno]
  end.

(* evaluate what follows the loop *)
Ltac gi_tail :=
  repeat first
  [ reflexivity
  | progress cbn [seq]
  | progress ev
  | rewrite cc_set_i
  | rewrite d_q_cc
  | rewrite d_i_cc
  | rewrite d_join_cc; unfold fj
  | rewrite join_call
  | match goal with |- context [py_index ?l ?k] => destruct (py_index l k) end ].

Lemma gen_getitem_int_gen n s k : wf s ->
  snd (advance (advance_fuel s) s (Some k)) <> Some OutOfFuel ->
  call (S (S (S n))) gen_cls (CMeth M_getitem) [VInt k] (cc s) = done (getitem_int s k).
Proof.
  intros Hwf Hno. gi_enter.
  gi_find_loop n s (Some k) Hwf Hno K HK.
  unfold getitem_int, done, xloop.
  destruct (advance (advance_fuel s) s (Some k)) as [s1 r]. cbn [fst snd seq] in *.
  destruct r as [e|]; [reflexivity|].
  subst K. gi_tail.
Qed.

Lemma gen_getitem_slice_gen n s lo hi : wf s ->
  snd (advance (advance_fuel s) s hi) <> Some OutOfFuel ->
  call (S (S (S n))) gen_cls (CMeth M_getitem) [VSlice lo hi] (cc s) = done (getitem_slice s lo hi).
Proof.
  intros Hwf Hno.
  destruct hi as [h|]; gi_enter.
  - gi_find_loop n s (Some h) Hwf Hno K HK.
    unfold getitem_slice, done, xloop.
    destruct (advance (advance_fuel s) s (Some h)) as [s1 r]. cbn [fst snd seq] in *.
    destruct r as [e|]; [reflexivity|].
    subst K. gi_tail.
  - gi_find_loop n s (@None Z) Hwf Hno K HK.
    unfold getitem_slice, done, xloop.
    destruct (advance (advance_fuel s) s None) as [s1 r]. cbn [fst snd seq] in *.
    destruct r as [e|]; [reflexivity|].
    subst K. gi_tail.
Qed.
Ltac enter := rewrite call_S; unfold call_body; ev.

Lemma advance_no_fuel s J : Pre s -> snd (advance (advance_fuel s) s J) <> Some OutOfFuel.
Proof.
  destruct s as [L q i]. unfold Pre, advance_fuel. cbn [items mat cursor]. intros [Hi Hq].
  destruct (advance_spec J (S (length L) + Z.to_nat (- i)) L q i) as [c Hc]; try lia.
  rewrite Hc. discriminate.
Qed.

Lemma Pre_wf s : Pre s -> wf s.
Proof. unfold Pre, wf. intros [_ H]. exact H. Qed.

Lemma gen_getitem_int_ok n s k : Pre s ->
  call (S (S (S n))) gen_cls (CMeth M_getitem) [VInt k] (cc s) = done (getitem_int s k).
Proof.
  intros H. apply gen_getitem_int_gen; [apply Pre_wf; exact H|apply advance_no_fuel; exact H].
Qed.

Lemma gen_getitem_slice_ok n s lo hi : Pre s ->
  call (S (S (S n))) gen_cls (CMeth M_getitem) [VSlice lo hi] (cc s) = done (getitem_slice s lo hi).
Proof.
  intros H. apply gen_getitem_slice_gen; [apply Pre_wf; exact H|apply advance_no_fuel; exact H].
Qed.

(* Pre is kept by everything built on __getitem__ *)
Lemma getitem_int_Pre s k : Pre s -> Pre (fst (getitem_int s k)).
Proof.
  destruct s as [L q i]. intros H. pose proof H as [Hi Hq]. cbn [items mat cursor] in Hi, Hq.
  rewrite getitem_int_gen by assumption. cbn [fst]. unfold Pre. cbn [items mat cursor].
  pose proof (mat_after_bounds (length L) q i (Some k) Hq). lia.
Qed.

Lemma getitem_slice_Pre s lo hi : Pre s -> Pre (fst (getitem_slice s lo hi)).
Proof.
  destruct s as [L q i]. intros H. pose proof H as [Hi Hq]. cbn [items mat cursor] in Hi, Hq.
  rewrite getitem_slice_gen by assumption. cbn [fst]. unfold Pre. cbn [items mat cursor].
  pose proof (mat_after_bounds (length L) q i hi Hq). lia.
Qed.

Lemma fst_catch r : fst (catch_index r) = fst r.
Proof. destruct r as [s [| | | | |[]]]; reflexivity. Qed.

(* ------------------------------------------------------------------ peek *)

Lemma gen_peek_int_ok n s j : Pre s ->
  call (S (S (S (S n)))) gen_cls (CMeth M_peek) [VInt j] (cc s) = done (peek_int s j).
Proof.
  intros H. enter. rewrite d_i_cc. rewrite gen_getitem_int_ok by exact H.
  unfold peek_int, done. destruct (getitem_int s (cursor s + j)) as [s1 o]. cbn [fst snd].
  destruct o as [x| |l|b|z|e]; try reflexivity. destruct e; reflexivity.
Qed.

Lemma tup0 a b : py_index [a; b] 0 = OItem a. Proof. reflexivity. Qed.
Lemma tup1 a b : py_index [a; b] 1 = OItem b. Proof. reflexivity. Qed.

Lemma gen_peek_range_ok n s a b : Pre s ->
  call (S (S (S (S n)))) gen_cls (CMeth M_peek) [VTup [a; b]] (cc s) = done (peek_range s a b).
Proof.
  intros H. enter. repeat first [progress ev | rewrite tup0 | rewrite tup1 | rewrite d_i_cc].
  rewrite gen_getitem_slice_ok by exact H.
  unfold peek_range, done.
  destruct (getitem_slice s (Some (cursor s + a)) (Some (cursor s + b))) as [s1 o]. cbn [fst snd].
  destruct o as [x| |l|b0|z|e]; try reflexivity. destruct e; reflexivity.
Qed.

Lemma gen_peek_default n s : Pre s ->
  call (S (S (S (S n)))) gen_cls (CMeth M_peek) [] (cc s) = done (peek_int s 0).
Proof. intros H. rewrite <- (gen_peek_int_ok n s 0 H). reflexivity. Qed.

Lemma peek_int_Pre s j : Pre s -> Pre (fst (peek_int s j)).
Proof. intros H. unfold peek_int. rewrite fst_catch. apply getitem_int_Pre. exact H. Qed.

Lemma peek_range_Pre s a b : Pre s -> Pre (fst (peek_range s a b)).
Proof. intros H. unfold peek_range. rewrite fst_catch. apply getitem_slice_Pre. exact H. Qed.

(* --------------------------------------------------------------- hasNext *)

Lemma gen_hasNext_ok n s k : Pre s ->
  call (S (S (S (S (S n))))) gen_cls (CMeth M_hasNext) [VInt k] (cc s) = done (has_next s k).
Proof.
  intros H. enter. rewrite gen_peek_int_ok by exact H.
  unfold has_next, done. destruct (peek_int s (k - 1)) as [s1 o]. cbn [fst snd].
  destruct o as [x| |l|b|z|e]; reflexivity.
Qed.

Lemma gen_hasNext_default n s : Pre s ->
  call (S (S (S (S (S n))))) gen_cls (CMeth M_hasNext) [] (cc s) = done (has_next s 1).
Proof. intros H. rewrite <- (gen_hasNext_ok n s 1 H). reflexivity. Qed.

Lemma has_next_Pre s k : Pre s -> Pre (fst (has_next s k)).
Proof.
  intros H. unfold has_next. pose proof (peek_int_Pre s (k - 1) H) as HP.
  destruct (peek_int s (k - 1)) as [s1 o]. destruct o; exact HP.
Qed.
(* ---------------------------------------------------- forward / backward *)

Lemma set_cursor_Pre s c : Pre s -> 0 <= c -> Pre (set_cursor s c).
Proof. unfold Pre, set_cursor. cbn [items mat cursor]. intros [_ H] Hc. split; assumption. Qed.

Lemma gen_forward_nonneg n s j : Pre s -> 0 <= j ->
  call (S (S (S (S n)))) gen_cls (CMeth M_forward) [VInt j] (cc s) = done (forward_pos s j).
Proof.
  intros H Hj. enter.
  assert (E : (j <? 0) = false) by (apply Z.ltb_ge; lia). rewrite E. ev.
  rewrite !d_i_cc, cc_set_i. ev. rewrite !d_i_cc.
  rewrite gen_getitem_slice_ok by (apply set_cursor_Pre; [exact H|destruct H; lia]).
  unfold forward_pos, done. cbv zeta.
  destruct (getitem_slice (set_cursor s (cursor s + j))
             (Some (cursor (set_cursor s (cursor s + j)) - j))
             (Some (cursor (set_cursor s (cursor s + j))))) as [s1 o].
  destruct o as [x| |l|b|z|e]; reflexivity.
Qed.

(* split on an integer comparison the evaluation is stuck on, keeping only the
   case(s) consistent with the hypotheses (so `assert a - b >= 0` and
   `assert a >= b` are the same to the proofs) *)
Ltac split_cmp :=
  match goal with
  | |- context [Z.leb ?a ?b] => destruct (Z.leb_spec a b); try (exfalso; lia)
  | |- context [Z.ltb ?a ?b] => destruct (Z.ltb_spec a b); try (exfalso; lia)
  end.

Lemma gen_backward_nonneg n s j : Pre s -> 0 <= j ->
  call (S (S (S (S n)))) gen_cls (CMeth M_backward) [VInt j] (cc s) = done (backward_pos s j).
Proof.
  intros H Hj. enter.
  assert (E : (j <? 0) = false) by (apply Z.ltb_ge; lia). rewrite E. ev.
  rewrite !d_i_cc. unfold backward_pos.
  destruct (cursor s - j <? 0) eqn:E2; [apply Z.ltb_lt in E2 | apply Z.ltb_ge in E2].
  - repeat first [reflexivity | progress ev | split_cmp].
  - repeat first [progress ev | split_cmp | rewrite cc_set_i | rewrite d_i_cc].
    rewrite gen_getitem_slice_ok by (apply set_cursor_Pre; [exact H|lia]).
    unfold done. cbv zeta.
    destruct (getitem_slice (set_cursor s (cursor s - j))
               (Some (cursor (set_cursor s (cursor s - j))))
               (Some (cursor (set_cursor s (cursor s - j)) + j))) as [s1 o].
    destruct o as [x| |l|b|z|e]; reflexivity.
Qed.

Lemma gen_forward_ok n s j : Pre s ->
  call (S (S (S (S (S n))))) gen_cls (CMeth M_forward) [VInt j] (cc s) = done (forward s j).
Proof.
  intros H. unfold forward. destruct (j <? 0) eqn:E.
  - enter. rewrite E. ev. apply Z.ltb_lt in E.
    rewrite gen_backward_nonneg by (try exact H; lia).
    replace (0 - j) with (- j) by lia. unfold done.
    destruct (backward_pos s (- j)) as [s1 o]. destruct o; reflexivity.
  - apply Z.ltb_ge in E. apply gen_forward_nonneg; assumption.
Qed.

Lemma gen_backward_ok n s j : Pre s ->
  call (S (S (S (S (S n))))) gen_cls (CMeth M_backward) [VInt j] (cc s) = done (backward s j).
Proof.
  intros H. unfold backward. destruct (j <? 0) eqn:E.
  - enter. rewrite E. ev. apply Z.ltb_lt in E.
    rewrite gen_forward_nonneg by (try exact H; lia).
    replace (0 - j) with (- j) by lia. unfold done.
    destruct (forward_pos s (- j)) as [s1 o]. destruct o; reflexivity.
  - apply Z.ltb_ge in E. apply gen_backward_nonneg; assumption.
Qed.

Lemma gen_forward_default n s : Pre s ->
  call (S (S (S (S (S n))))) gen_cls (CMeth M_forward) [] (cc s) = done (forward s 1).
Proof. intros H. rewrite <- (gen_forward_ok n s 1 H). reflexivity. Qed.

Lemma gen_backward_default n s : Pre s ->
  call (S (S (S (S (S n))))) gen_cls (CMeth M_backward) [] (cc s) = done (backward s 1).
Proof. intros H. rewrite <- (gen_backward_ok n s 1 H). reflexivity. Qed.

Lemma forward_pos_Pre s j : Pre s -> 0 <= j -> Pre (fst (forward_pos s j)).
Proof.
  intros H Hj. unfold forward_pos. cbv zeta. apply getitem_slice_Pre.
  apply set_cursor_Pre; [exact H|destruct H; lia].
Qed.

Lemma backward_pos_Pre s j : Pre s -> Pre (fst (backward_pos s j)).
Proof.
  intros H. unfold backward_pos. destruct (cursor s - j <? 0) eqn:E; [exact H|].
  cbv zeta. apply getitem_slice_Pre. apply set_cursor_Pre; [exact H|]. apply Z.ltb_ge in E. exact E.
Qed.

Lemma forward_Pre s j : Pre s -> Pre (fst (forward s j)).
Proof.
  intros H. unfold forward. destruct (j <? 0) eqn:E.
  - apply backward_pos_Pre; exact H.
  - apply forward_pos_Pre; [exact H|apply Z.ltb_ge in E; exact E].
Qed.

Lemma backward_Pre s j : Pre s -> Pre (fst (backward s j)).
Proof.
  intros H. unfold backward. destruct (j <? 0) eqn:E.
  - apply forward_pos_Pre; [exact H|apply Z.ltb_lt in E; lia].
  - apply backward_pos_Pre; exact H.
Qed.

(* -------------------------------------------------- startswith / endswith *)

Lemma peek_range_shape s a b :
  match snd (peek_range s a b) with OItems _ | ONone | OExc _ => True | _ => False end.
Proof.
  unfold peek_range, getitem_slice. cbv zeta.
  destruct (advance (advance_fuel s) s (Some (cursor s + b))) as [s1 [e|]]; cbn [catch_index snd].
  - destruct e; exact I.
  - exact I.
Qed.

Lemma gen_startswith_ok n s p : Pre s ->
  call (S (S (S (S (S n))))) gen_cls (CMeth M_startswith) [VStr p] (cc s) = done (starts_with s p).
Proof.
  intros H. enter. rewrite gen_peek_range_ok by exact H.
  unfold starts_with, done. pose proof (peek_range_shape s 0 (Z.of_nat (length p))) as Hsh.
  destruct (peek_range s 0 (Z.of_nat (length p))) as [s1 o]. cbn [fst snd] in *.
  destruct o as [x| |l|b|z|e]; try reflexivity; contradiction.
Qed.

Lemma gen_endswith_ok n s p : Pre s ->
  call (S (S (S (S (S n))))) gen_cls (CMeth M_endswith) [VStr p] (cc s) = done (ends_with s p).
Proof.
  intros H. enter. rewrite gen_peek_range_ok by exact H.
  replace (0 - Z.of_nat (length p)) with (- Z.of_nat (length p)) by lia.
  unfold ends_with, done. pose proof (peek_range_shape s (- Z.of_nat (length p)) 0) as Hsh.
  destruct (peek_range s (- Z.of_nat (length p)) 0) as [s1 o]. cbn [fst snd] in *.
  destruct o as [x| |l|b|z|e]; try reflexivity; contradiction.
Qed.

Lemma starts_with_Pre s p : Pre s -> Pre (fst (starts_with s p)).
Proof.
  intros H. unfold starts_with. pose proof (peek_range_Pre s 0 (Z.of_nat (length p)) H) as HP.
  destruct (peek_range s 0 (Z.of_nat (length p))) as [s1 o]. destruct o; exact HP.
Qed.

Lemma ends_with_Pre s p : Pre s -> Pre (fst (ends_with s p)).
Proof.
  intros H. unfold ends_with. pose proof (peek_range_Pre s (- Z.of_nat (length p)) 0 H) as HP.
  destruct (peek_range s (- Z.of_nat (length p)) 0) as [s1 o]. destruct o; exact HP.
Qed.

(* ------------------------------------------- position, __iter__, __init__ *)

Lemma gen_position_ok n s :
  call (S n) gen_cls (CMeth M_position) [] (cc s) = done (s, OInt (cursor s)).
Proof. reflexivity. Qed.

Lemma gen_iter_ok n d :
  call (S n) gen_cls (CMeth M_iter) [] d = ODone d (RVal VSelf).
Proof. reflexivity. Qed.

Lemma gen_init_ok n l :
  call (S n) gen_cls (CMeth M_init) [VIterable l] blank = ODone (cc (init_state l)) (RVal VNone).
Proof. reflexivity. Qed.

(* Buffer(b) for ANOTHER Buffer b (how every token-backed buffer is made:
   Buffer(tokenize(..)) wraps the Buffer that to_buffer returns): the new buffer
   holds what b has not yet consumed -- the items of b from its cursor on,
   INCLUDING those b has already pulled into its look-ahead queue *)
Lemma gen_init_buffer_ok n s : Pre s ->
  call (S n) gen_cls (CMeth M_init) [buf_arg s] blank
  = ODone (cc (init_state (skipn (Z.to_nat (cursor s)) (items s)))) (RVal VNone).
Proof.
  intros [Hi Hq]. rewrite call_S. unfold call_body, buf_arg.
  assert (E : (0 <=? cursor s) = true) by (apply Z.leb_le; exact Hi).
  repeat first [reflexivity | progress ev | rewrite E | rewrite firstn_skipn].
Qed.
(* ------------------------------------------------- the scanning loops *)

Lemma py_index_shape l k :
  match py_index l k with OItem _ | OExc _ => True | _ => False end.
Proof.
  unfold py_index. cbv zeta.
  match goal with |- context [if (?a || ?b)%bool then _ else _] => destruct (a || b)%bool end;
    [exact I|].
  destruct (nth_error _ _); exact I.
Qed.

Lemma getitem_int_shape s k :
  match snd (getitem_int s k) with OItem _ | OExc _ => True | _ => False end.
Proof.
  unfold getitem_int. destruct (advance (advance_fuel s) s (Some k)) as [s1 [e|]]; cbn [snd]; [exact I|].
  apply py_index_shape.
Qed.

Lemma peek_int_shape s j :
  match snd (peek_int s j) with OItem _ | ONone | OExc _ => True | _ => False end.
Proof.
  unfold peek_int. pose proof (getitem_int_shape s (cursor s + j)) as H.
  destruct (getitem_int s (cursor s + j)) as [s1 o]. cbn [snd] in H.
  destruct o as [x| |l|b|z|e]; try contradiction; cbn [catch_index snd]; [exact I|].
  destruct e; exact I.
Qed.

Lemma has_next_shape s k :
  match snd (has_next s k) with OBool _ | OExc _ => True | _ => False end.
Proof.
  unfold has_next. destruct (peek_int s (k - 1)) as [s1 o]. destruct o; exact I.
Qed.

Lemma getitem_slice_shape s lo hi :
  match snd (getitem_slice s lo hi) with OItems _ | OExc _ => True | _ => False end.
Proof.
  unfold getitem_slice. destruct (advance (advance_fuel s) s hi) as [s1 [e|]]; exact I.
Qed.

Lemma forward_shape s j :
  match snd (forward s j) with OItems _ | OExc _ => True | _ => False end.
Proof.
  unfold forward, backward_pos, forward_pos. cbv zeta.
  destruct (j <? 0); [destruct (cursor s - - j <? 0); [exact I|]|]; apply getitem_slice_shape.
Qed.

Lemma backward_shape s j :
  match snd (backward s j) with OItems _ | OExc _ => True | _ => False end.
Proof.
  unfold backward, backward_pos, forward_pos. cbv zeta.
  destruct (j <? 0); [|destruct (cursor s - j <? 0); [exact I|]]; apply getitem_slice_shape.
Qed.

(* the test `self.hasNext() and not condition(self.peek())` *)
Definition scan_test (k : Z) (s : state) : eres :=
  match has_next s 1 with
  | (s1, OExc e) => EX e (cc s1)
  | (s1, OBool false) => EV (VBool false) (cc s1)
  | (s1, _) =>
    match peek_int s1 0 with
    | (s2, OExc e) => EX e (cc s2)
    | (s2, pk) => EV (VBool (negb (cond_holds k pk))) (cc s2)
    end
  end.

Lemma cond_call n k v d b : cond_value k v = Some b ->
  call (S n) gen_cls (CFn (FCond k)) [v] d = ODone d (RVal (VBool b)).
Proof. intros H. rewrite call_S. unfold call_body. rewrite H. reflexivity. Qed.

Definition nfu_cond :=
  EAnd (ECallMeth M_hasNext (args_of []))
       (ENot (ECallVal (EVar 0) (args_of [ECallMeth M_peek (args_of [])]))).

Definition fu_cond :=
  EAnd (ECallMeth M_hasNext (args_of []))
       (ENot (ECallVal (EVar 0) (args_of [EIfExp (EVar 1) (ECallMeth M_peek (args_of [])) ESelf]))).

Lemma nfu_cond_eval n k rest s : Pre s ->
  eval (call (S (S (S (S (S n))))) gen_cls) nfu_cond (Some (VFn (FCond k)) :: rest) (cc s)
  = scan_test k s.
Proof.
  intros H. unfold nfu_cond, scan_test. ev. rewrite gen_hasNext_default by exact H.
  unfold done. pose proof (has_next_shape s 1) as Hsh. pose proof (has_next_Pre s 1 H) as HP.
  destruct (has_next s 1) as [s1 o]. cbn [fst snd] in *.
  destruct o as [x| |l|b|z|e]; try contradiction; ev; [|reflexivity].
  destruct b; [|reflexivity].
  rewrite gen_peek_default by exact HP. unfold done.
  pose proof (peek_int_shape s1 0) as Hsh2.
  destruct (peek_int s1 0) as [s2 pk]. cbn [fst snd] in *.
  destruct pk as [x| |l|b|z|e]; try contradiction; ev.
  - rewrite (cond_call _ k (VItem x) _ (pred k x)) by reflexivity. reflexivity.
  - rewrite (cond_call _ k VNone _ (pred_none k)) by reflexivity. reflexivity.
  - reflexivity.
Qed.

Lemma fu_cond_eval n k rest s : Pre s ->
  eval (call (S (S (S (S (S n))))) gen_cls) fu_cond
       (Some (VFn (FCond k)) :: Some (VBool true) :: rest) (cc s)
  = scan_test k s.
Proof.
  intros H. unfold fu_cond, scan_test. ev. rewrite gen_hasNext_default by exact H.
  unfold done. pose proof (has_next_shape s 1) as Hsh. pose proof (has_next_Pre s 1 H) as HP.
  destruct (has_next s 1) as [s1 o]. cbn [fst snd] in *.
  destruct o as [x| |l|b|z|e]; try contradiction; ev; [|reflexivity].
  destruct b; [|reflexivity].
  rewrite gen_peek_default by exact HP. unfold done.
  pose proof (peek_int_shape s1 0) as Hsh2.
  destruct (peek_int s1 0) as [s2 pk]. cbn [fst snd] in *.
  destruct pk as [x| |l|b|z|e]; try contradiction; ev.
  - rewrite (cond_call _ k (VItem x) _ (pred k x)) by reflexivity. reflexivity.
  - rewrite (cond_call _ k VNone _ (pred_none k)) by reflexivity. reflexivity.
  - reflexivity.
Qed.
Definition scan_exn (r : state * option exn * list Z * Z) : option exn := snd (fst (fst r)).

(* ---- locals: the loops below are proved for ANY local-variable layout.  The
   accumulator (and the counter) may have any index; whatever else the locals
   hold is carried along. *)

Lemma lookup_cons a en x : lookup (a :: en) (S x) = lookup en x.
Proof. reflexivity. Qed.

Lemma lookup_nil x : lookup [] x = None.
Proof. destruct x; reflexivity. Qed.

Lemma lookup_set_same x : forall en v, lookup (set_var en x v) x = Some v.
Proof.
  induction x as [|x IH]; intros [|a r] v; cbn [set_var]; try reflexivity;
    rewrite lookup_cons; apply IH.
Qed.

Lemma lookup_set_other x : forall en y v, x <> y -> lookup (set_var en x v) y = lookup en y.
Proof.
  induction x as [|x IH]; intros [|a r] [|y] v Hne; cbn [set_var]; try congruence; try reflexivity.
  - rewrite lookup_cons, !lookup_nil. reflexivity.
  - rewrite !lookup_cons, lookup_nil. rewrite IH by congruence. apply lookup_nil.
  - rewrite !lookup_cons. apply IH. congruence.
Qed.

Lemma set_set x : forall en v w, set_var (set_var en x v) x w = set_var en x w.
Proof.
  induction x as [|x IH]; intros [|a r] v w; cbn [set_var]; try reflexivity; f_equal; apply IH.
Qed.

Lemma set_same x : forall en v, lookup en x = Some v -> set_var en x v = en.
Proof.
  induction x as [|x IH]; intros [|a r] v H; cbn [set_var].
  - discriminate H.
  - unfold lookup in H. cbn in H. destruct a as [a|]; [|discriminate]. congruence.
  - rewrite lookup_nil in H. discriminate.
  - rewrite lookup_cons in H. f_equal. apply IH. exact H.
Qed.

Lemma set_comm x : forall en y v w, x <> y ->
  set_var (set_var en x v) y w = set_var (set_var en y w) x v.
Proof.
  induction x as [|x IH]; intros [|a r] [|y] v w Hne; cbn [set_var]; try congruence; try reflexivity;
    f_equal; apply IH; congruence.
Qed.

Lemma set2_same en x y v w : lookup en x = Some v -> lookup en y = Some w ->
  set_var (set_var en x v) y w = en.
Proof. intros Hx Hy. rewrite (set_same x en v Hx). apply set_same. exact Hy. Qed.

Lemma set4 en x y a c a' c' : x <> y ->
  set_var (set_var (set_var (set_var en x a) y c) x a') y c' = set_var (set_var en x a') y c'.
Proof.
  intros Hne. rewrite (set_comm y (set_var en x a) x c a') by congruence.
  rewrite set_set, set_set. reflexivity.
Qed.

Lemma env_shape1 en a : lookup en 0 = Some a -> exists rest, en = Some a :: rest.
Proof.
  destruct en as [|[v|] rest]; unfold lookup; cbn; intros H; try discriminate.
  exists rest. congruence.
Qed.

Lemma env_shape2 en a b : lookup en 0 = Some a -> lookup en 1 = Some b ->
  exists rest, en = Some a :: Some b :: rest.
Proof.
  intros H0 H1. destruct (env_shape1 en a H0) as [r ->]. rewrite lookup_cons in H1.
  destruct (env_shape1 r b H1) as [r' ->]. exists r'. reflexivity.
Qed.

Lemma nfu_cond_eval_gen n k en s : lookup en 0 = Some (VFn (FCond k)) -> Pre s ->
  eval (call (S (S (S (S (S n))))) gen_cls) nfu_cond en (cc s) = scan_test k s.
Proof. intros H0 HP. destruct (env_shape1 en _ H0) as [r ->]. apply nfu_cond_eval. exact HP. Qed.

Lemma fu_cond_eval_gen n k en s :
  lookup en 0 = Some (VFn (FCond k)) -> lookup en 1 = Some (VBool true) -> Pre s ->
  eval (call (S (S (S (S (S n))))) gen_cls) fu_cond en (cc s) = scan_test k s.
Proof. intros H0 H1 HP. destruct (env_shape2 en _ _ H0 H1) as [r ->]. apply fu_cond_eval. exact HP. Qed.

(* ---- the scanning loops, for any index of the accumulator / counter *)

Definition fwd1 : expr := ECallMeth M_forward (args_of [EInt 1]).
Definition nfu_body_at (xa xc : nat) : block := blk [SAugVar xa AugAdd fwd1; SAugVar xc AugAdd (EInt 1)].
Definition fu_body_at (xa : nat) : block := blk [SAugVar xa AugAdd fwd1].

Lemma nfu_loop_gen n k xa xc : (1 <= xa)%nat -> (1 <= xc)%nat -> xa <> xc ->
  forall f2 f1 s en acc cnt, (f2 <= f1)%nat -> Pre s ->
  lookup en 0 = Some (VFn (FCond k)) -> lookup en xa = Some (VStr acc) ->
  lookup en xc = Some (VInt cnt) ->
  scan_exn (scan f2 s k acc cnt) <> Some OutOfFuel ->
  while_loop (eval (call (S (S (S (S (S n))))) gen_cls) nfu_cond)
             (exec_block (call (S (S (S (S (S n))))) gen_cls) (nfu_body_at xa xc)) f1 en (cc s)
  = match scan f2 s k acc cnt with
    | (s', Some e, _, _) => XExc e (cc s')
    | (s', None, acc', cnt') =>
      XNormal (set_var (set_var en xa (VStr acc')) xc (VInt cnt')) (cc s')
    end.
Proof.
  intros Hxa Hxc Hne.
  induction f2 as [|f2 IH]; intros f1 s en acc cnt Hf HP H0 Ha Hc Hno.
  - exfalso. apply Hno. reflexivity.
  - destruct f1 as [|f1]; [lia|]. unfold while_loop; fold while_loop.
    rewrite (nfu_cond_eval_gen n k en s H0 HP). rewrite scan_S in *. unfold scan_test.
    pose proof (has_next_shape s 1) as Hsh. pose proof (has_next_Pre s 1 HP) as HP1.
    destruct (has_next s 1) as [s1 o]. cbn [fst snd] in *.
    destruct o as [x| |l|b|z|e]; try contradiction; [|reflexivity].
    destruct b; [|cbn [BufDSL.truthy]; rewrite (set2_same en xa xc _ _ Ha Hc); reflexivity].
    pose proof (peek_int_shape s1 0) as Hsh2. pose proof (peek_int_Pre s1 0 HP1) as HP2.
    destruct (peek_int s1 0) as [s2 pk]. cbn [fst snd] in *.
    assert (Hbody : forall pk', scan_exn (if cond_holds k pk' then (s2, None, acc, cnt)
                      else match forward s2 1 with
                           | (s3, OItems l) => scan f2 s3 k (acc ++ l) (cnt + 1)
                           | (s3, OExc e) => (s3, Some e, acc, cnt)
                           | (s3, _) => (s3, Some AttributeError, acc, cnt)
                           end) <> Some OutOfFuel ->
      match BufDSL.truthy (VBool (negb (cond_holds k pk'))) with
      | Some true =>
        match exec_block (call (S (S (S (S (S n))))) gen_cls) (nfu_body_at xa xc) en (cc s2) with
        | XNormal en2 d2 => while_loop (eval (call (S (S (S (S (S n))))) gen_cls) nfu_cond)
             (exec_block (call (S (S (S (S (S n))))) gen_cls) (nfu_body_at xa xc)) f1 en2 d2
        | XBreak en2 d2 => XNormal en2 d2
        | x => x
        end
      | Some false => XNormal en (cc s2)
      | None => XUnsup
      end =
      match (if cond_holds k pk' then (s2, None, acc, cnt)
             else match forward s2 1 with
                  | (s3, OItems l) => scan f2 s3 k (acc ++ l) (cnt + 1)
                  | (s3, OExc e) => (s3, Some e, acc, cnt)
                  | (s3, _) => (s3, Some AttributeError, acc, cnt)
                  end) with
      | (s', Some e, _, _) => XExc e (cc s')
      | (s', None, acc', cnt') =>
        XNormal (set_var (set_var en xa (VStr acc')) xc (VInt cnt')) (cc s')
      end).
    { intros pk' Hno'. destruct (cond_holds k pk').
      - cbn [negb BufDSL.truthy]. rewrite (set2_same en xa xc _ _ Ha Hc). reflexivity.
      - cbn [negb BufDSL.truthy].
        change (exec_block (call (S (S (S (S (S n))))) gen_cls) (nfu_body_at xa xc) en (cc s2))
          with (exec_block (call (S (S (S (S (S n))))) gen_cls)
                  (blk [SAugVar xa AugAdd fwd1; SAugVar xc AugAdd (EInt 1)]) en (cc s2)).
        unfold fwd1 at 1. ev. rewrite Ha. ev.
        rewrite gen_forward_ok by exact HP2. unfold done.
        pose proof (forward_shape s2 1) as Hsh3. pose proof (forward_Pre s2 1 HP2) as HP3.
        destruct (forward s2 1) as [s3 o3]. cbn [fst snd] in *.
        destruct o3 as [x| |l|b|z|e]; try contradiction; ev; [|reflexivity].
        rewrite (lookup_set_other xa en xc) by exact Hne. rewrite Hc. ev.
        rewrite (IH f1 s3 _ (acc ++ l) (cnt + 1)); try assumption; try lia.
        + destruct (scan f2 s3 k (acc ++ l) (cnt + 1)) as [[[s' oe] acc'] cnt'].
          destruct oe as [e|]; [reflexivity|]. rewrite set4 by exact Hne. reflexivity.
        + rewrite !lookup_set_other by lia. exact H0.
        + rewrite (lookup_set_other xc) by congruence. apply lookup_set_same.
        + apply lookup_set_same. }
    destruct pk as [x| |l|b|z|e]; try contradiction.
    + apply Hbody. exact Hno.
    + apply Hbody. exact Hno.
    + reflexivity.
Qed.

Lemma fu_loop_gen n k xa : (2 <= xa)%nat ->
  forall f2 f1 s en acc cnt, (f2 <= f1)%nat -> Pre s ->
  lookup en 0 = Some (VFn (FCond k)) -> lookup en 1 = Some (VBool true) ->
  lookup en xa = Some (VStr acc) ->
  scan_exn (scan f2 s k acc cnt) <> Some OutOfFuel ->
  while_loop (eval (call (S (S (S (S (S n))))) gen_cls) fu_cond)
             (exec_block (call (S (S (S (S (S n))))) gen_cls) (fu_body_at xa)) f1 en (cc s)
  = match scan f2 s k acc cnt with
    | (s', Some e, _, _) => XExc e (cc s')
    | (s', None, acc', _) => XNormal (set_var en xa (VStr acc')) (cc s')
    end.
Proof.
  intros Hxa.
  induction f2 as [|f2 IH]; intros f1 s en acc cnt Hf HP H0 H1 Ha Hno.
  - exfalso. apply Hno. reflexivity.
  - destruct f1 as [|f1]; [lia|]. unfold while_loop; fold while_loop.
    rewrite (fu_cond_eval_gen n k en s H0 H1 HP). rewrite scan_S in *. unfold scan_test.
    pose proof (has_next_shape s 1) as Hsh. pose proof (has_next_Pre s 1 HP) as HP1.
    destruct (has_next s 1) as [s1 o]. cbn [fst snd] in *.
    destruct o as [x| |l|b|z|e]; try contradiction; [|reflexivity].
    destruct b; [|cbn [BufDSL.truthy]; rewrite (set_same xa en _ Ha); reflexivity].
    pose proof (peek_int_shape s1 0) as Hsh2. pose proof (peek_int_Pre s1 0 HP1) as HP2.
    destruct (peek_int s1 0) as [s2 pk]. cbn [fst snd] in *.
    assert (Hbody : forall pk', scan_exn (if cond_holds k pk' then (s2, None, acc, cnt)
                      else match forward s2 1 with
                           | (s3, OItems l) => scan f2 s3 k (acc ++ l) (cnt + 1)
                           | (s3, OExc e) => (s3, Some e, acc, cnt)
                           | (s3, _) => (s3, Some AttributeError, acc, cnt)
                           end) <> Some OutOfFuel ->
      match BufDSL.truthy (VBool (negb (cond_holds k pk'))) with
      | Some true =>
        match exec_block (call (S (S (S (S (S n))))) gen_cls) (fu_body_at xa) en (cc s2) with
        | XNormal en2 d2 => while_loop (eval (call (S (S (S (S (S n))))) gen_cls) fu_cond)
             (exec_block (call (S (S (S (S (S n))))) gen_cls) (fu_body_at xa)) f1 en2 d2
        | XBreak en2 d2 => XNormal en2 d2
        | x => x
        end
      | Some false => XNormal en (cc s2)
      | None => XUnsup
      end =
      match (if cond_holds k pk' then (s2, None, acc, cnt)
             else match forward s2 1 with
                  | (s3, OItems l) => scan f2 s3 k (acc ++ l) (cnt + 1)
                  | (s3, OExc e) => (s3, Some e, acc, cnt)
                  | (s3, _) => (s3, Some AttributeError, acc, cnt)
                  end) with
      | (s', Some e, _, _) => XExc e (cc s')
      | (s', None, acc', _) => XNormal (set_var en xa (VStr acc')) (cc s')
      end).
    { intros pk' Hno'. destruct (cond_holds k pk').
      - cbn [negb BufDSL.truthy]. rewrite (set_same xa en _ Ha). reflexivity.
      - cbn [negb BufDSL.truthy].
        change (exec_block (call (S (S (S (S (S n))))) gen_cls) (fu_body_at xa) en (cc s2))
          with (exec_block (call (S (S (S (S (S n))))) gen_cls)
                  (blk [SAugVar xa AugAdd fwd1]) en (cc s2)).
        unfold fwd1 at 1. ev. rewrite Ha. ev.
        rewrite gen_forward_ok by exact HP2. unfold done.
        pose proof (forward_shape s2 1) as Hsh3. pose proof (forward_Pre s2 1 HP2) as HP3.
        destruct (forward s2 1) as [s3 o3]. cbn [fst snd] in *.
        destruct o3 as [x| |l|b|z|e]; try contradiction; ev; [|reflexivity].
        rewrite (IH f1 s3 _ (acc ++ l) (cnt + 1)); try assumption; try lia.
        + destruct (scan f2 s3 k (acc ++ l) (cnt + 1)) as [[[s' oe] acc'] cnt'].
          destruct oe as [e|]; [reflexivity|]. rewrite set_set. reflexivity.
        + rewrite lookup_set_other by lia. exact H0.
        + rewrite lookup_set_other by lia. exact H1.
        + apply lookup_set_same. }
    destruct pk as [x| |l|b|z|e]; try contradiction.
    + apply Hbody. exact Hno.
    + apply Hbody. exact Hno.
    + reflexivity.
Qed.

Lemma scan_fuel_cc s : Pre s -> (scan_fuel s <= loop_fuel (cc s))%nat.
Proof.
  unfold Pre, loop_fuel, scan_fuel, cc, conc. cbn [d_q d_it d_i]. intros [_ H].
  rewrite firstn_length_le by exact H. rewrite skipn_length. lia.
Qed.

Lemma scan_Pre k : forall f s acc cnt, Pre s -> Pre (fst (fst (fst (scan f s k acc cnt)))).
Proof.
  induction f as [|f IH]; intros s acc cnt HP; [exact HP|].
  rewrite scan_S. pose proof (has_next_Pre s 1 HP) as HP1.
  destruct (has_next s 1) as [s1 o]. cbn [fst] in HP1.
  assert (Hrest : Pre (fst (fst (fst
     match peek_int s1 0 with
     | (s2, OExc e) => (s2, Some e, acc, cnt)
     | (s2, pk) =>
       if cond_holds k pk then (s2, None, acc, cnt)
       else match forward s2 1 with
            | (s3, OItems l) => scan f s3 k (acc ++ l) (cnt + 1)
            | (s3, OExc e) => (s3, Some e, acc, cnt)
            | (s3, _) => (s3, Some AttributeError, acc, cnt)
            end
     end)))).
  { pose proof (peek_int_Pre s1 0 HP1) as HP2.
    destruct (peek_int s1 0) as [s2 pk]. cbn [fst] in HP2.
    assert (Hb : forall pk', Pre (fst (fst (fst
       (if cond_holds k pk' then (s2, None, acc, cnt)
        else match forward s2 1 with
             | (s3, OItems l) => scan f s3 k (acc ++ l) (cnt + 1)
             | (s3, OExc e) => (s3, Some e, acc, cnt)
             | (s3, _) => (s3, Some AttributeError, acc, cnt)
             end))))).
    { intros pk'. destruct (cond_holds k pk'); [exact HP2|].
      pose proof (forward_Pre s2 1 HP2) as HP3.
      destruct (forward s2 1) as [s3 o3]. cbn [fst] in HP3.
      destruct o3; try exact HP3. apply IH. exact HP3. }
    destruct pk; try apply Hb. exact HP2. }
  destruct o as [x| |l|b|z|e]; try exact Hrest; [|exact HP1].
  destruct b; [exact Hrest|exact HP1].
Qed.

(* ---- the two scanning methods.  The proofs evaluate the body statement by
   statement up to its while statement (whatever the statements before it are
   called and however many there are), recognise the loop by its test and the
   shape of its body (the accumulator / counter may be any local), replace it
   by the hand-written scan (nfu_loop_gen / fu_loop_gen) and evaluate the
   rest.  They hold of every equivalent way of writing the methods that the
   translator accepts and that keeps the loop, and fail when something else is
   computed. *)

Lemma empty_lam n d : call (S n) gen_cls (CFn (FLam 0)) [] d = ODone d (RVal (VStr [])).
Proof. reflexivity. Qed.

Lemma init_lam_str n l v d : (v = VPos \/ exists z, v = VInt z) ->
  call (S n) gen_cls (CFn (FLam 1)) [VStr l; v] d = ODone d (RVal (VStr l)).
Proof. intros [->|[z ->]]; reflexivity. Qed.

(* take the first statement off the block in the goal; K names the rest *)
Ltac peel K HK :=
  match goal with
  | |- context [exec_block ?cf (BCons (SWhile ?c ?b) ?rest) ?en ?d] => fail 1
  | |- context [exec_block ?cf (BCons ?st ?rest) ?en ?d] =>
    rewrite (exec_block_cons cf st rest en d);
    remember (exec_block cf rest) as K eqn:HK
  end.

(* one step of evaluating a statement that reads the attributes / calls the
   default function attributes / peeks *)
Ltac scan_step :=
  first
  [ reflexivity
  | progress cbn [seq]
  | progress ev
  | rewrite d_init_cc; unfold fi
  | rewrite d_empty_cc; unfold fe
  | rewrite d_i_cc
  | rewrite empty_lam
  | rewrite init_lam_str by (first [left; reflexivity | right; eexists; reflexivity])
  | match goal with
    | HP : Pre ?s |- context [call _ gen_cls (CMeth M_peek) [] (cc ?s)] =>
      rewrite gen_peek_default by exact HP; unfold done;
      let Hsh := fresh "Hsh" in let HP0 := fresh "HP" in
      let s0 := fresh "s" in let first := fresh "first" in
      pose proof (peek_int_shape s 0) as Hsh; pose proof (peek_int_Pre s 0 HP) as HP0;
      destruct (peek_int s 0) as [s0 first]; cbn [fst snd] in *;
      destruct first; try contradiction
    end ].

Ltac scan_prefix :=
  repeat (let K := fresh "K" in let HK := fresh "HK" in peel K HK; repeat scan_step; subst K).

Lemma gen_num_forward_until_gen n s k : Pre s ->
  scan_exn (scan (scan_fuel s) s k [] 0) <> Some OutOfFuel ->
  call (S (S (S (S (S (S n)))))) gen_cls (CMeth M_num_forward_until) [VFn (FCond k)] (cc s)
  = done (num_forward_until s k).
Proof.
  intros HP Hno. rewrite call_S. unfold call_body.
  cbn [gen_cls c_meth gen_meth gen_num_forward_until m_params m_body bind_params option_map blk].
  unfold num_forward_until, done.
  scan_prefix.
  match goal with
  | |- context [exec_block ?cf (BCons (SWhile ?c (BCons (SAugVar ?xa AugAdd ?e)
                                 (BCons (SAugVar ?xc AugAdd (EInt 1)) BNil))) ?rest) ?en (cc s)] =>
    rewrite (exec_block_cons cf (SWhile c (BCons (SAugVar xa AugAdd e)
               (BCons (SAugVar xc AugAdd (EInt 1)) BNil))) rest en (cc s)), exec_while;
    remember (exec_block cf rest) as K eqn:HK;
    change c with nfu_cond;
    change (BCons (SAugVar xa AugAdd e) (BCons (SAugVar xc AugAdd (EInt 1)) BNil))
      with (nfu_body_at xa xc);
    rewrite (nfu_loop_gen n k xa xc ltac:(lia) ltac:(lia) ltac:(lia)
               (scan_fuel s) (loop_fuel (cc s)) s en [] 0);
    [| apply scan_fuel_cc; exact HP | exact HP | reflexivity | reflexivity | reflexivity | exact Hno]
  end.
  pose proof (scan_Pre k (scan_fuel s) s [] 0 HP) as HP1.
  destruct (scan (scan_fuel s) s k [] 0) as [[[s1 oe] acc] cnt]. cbn [fst snd seq] in *.
  destruct oe as [e|]; [reflexivity|]. subst K.
  repeat first
  [ reflexivity
  | progress cbn [seq]
  | progress ev
  | match goal with
    | |- context [call _ gen_cls (CMeth M_backward) [VInt ?c] (cc s1)] =>
      rewrite gen_backward_ok by exact HP1; unfold done;
      let Hsh := fresh "Hsh" in pose proof (backward_shape s1 c) as Hsh;
      let s2 := fresh "s" in let o := fresh "o" in
      destruct (backward s1 c) as [s2 o]; cbn [fst snd] in *;
      destruct o; try contradiction
    | |- context [list_eqb ?l ?a] => destruct (list_eqb l a)
    end ].
Qed.

Lemma gen_forward_until_gen n s k : Pre s ->
  scan_exn (scan (scan_fuel (fst (peek_int s 0))) (fst (peek_int s 0)) k [] 0) <> Some OutOfFuel ->
  call (S (S (S (S (S (S n)))))) gen_cls (CMeth M_forward_until) [VFn (FCond k)] (cc s)
  = done (forward_until s k).
Proof.
  intros HP Hno. rewrite call_S. unfold call_body.
  cbn [gen_cls c_meth gen_meth gen_forward_until m_params m_body bind_params option_map blk].
  unfold forward_until, done.
  scan_prefix.
  all: match goal with
  | HP0 : Pre ?s0 |-
    context [exec_block ?cf (BCons (SWhile ?c (BCons (SAugVar ?xa AugAdd ?e) BNil)) ?rest) ?en (cc ?s0)] =>
    rewrite (exec_block_cons cf (SWhile c (BCons (SAugVar xa AugAdd e) BNil)) rest en (cc s0)),
      exec_while;
    remember (exec_block cf rest) as K eqn:HK;
    change c with fu_cond;
    change (BCons (SAugVar xa AugAdd e) BNil) with (fu_body_at xa);
    rewrite (fu_loop_gen n k xa ltac:(lia) (scan_fuel s0) (loop_fuel (cc s0)) s0 en [] 0);
    [| apply scan_fuel_cc; exact HP0 | exact HP0 | reflexivity | reflexivity | reflexivity | exact Hno];
    destruct (scan (scan_fuel s0) s0 k [] 0) as [[[s1 oe] acc] cnt]; cbn [fst snd seq] in *;
    destruct oe as [e0|]; [reflexivity|]; subst K; repeat first [reflexivity | progress cbn [seq] | progress ev]
  end.
Qed.
(* the hand-written scan never runs out of fuel from a state satisfying Pre *)
Lemma has_next_1_Pre L q i : 0 <= i -> (q <= length L)%nat ->
  has_next (mkS L q i) 1 =
  (mkS L (mat_after (length L) q i (Some (i + (1 - 1)))) i, OBool (i <? Z.of_nat (length L))).
Proof.
  intros Hi Hq. unfold has_next, peek_int. cbn [cursor].
  rewrite getitem_int_spec by lia. cbn [catch_index].
  replace (i + (1 - 1)) with i by lia.
  destruct (nth_error L (Z.to_nat i)) as [x|] eqn:En; cbn [catch_index].
  - assert (Hlt : (Z.to_nat i < length L)%nat) by (apply nth_error_Some; congruence).
    assert (E : (i <? Z.of_nat (length L)) = true) by (apply Z.ltb_lt; lia).
    rewrite E. reflexivity.
  - apply nth_error_None in En.
    assert (E : (i <? Z.of_nat (length L)) = false) by (apply Z.ltb_ge; lia).
    rewrite E. reflexivity.
Qed.

Lemma scan_no_fuel k : forall fuel L q i acc cnt,
  0 <= i -> (q <= length L)%nat -> (1 <= fuel)%nat ->
  Z.of_nat (length L) - i + 1 <= Z.of_nat fuel ->
  scan_exn (scan fuel (mkS L q i) k acc cnt) <> Some OutOfFuel.
Proof.
  induction fuel as [|f IH]; intros L q i acc cnt Hi Hq Hf Hfuel; [lia|].
  rewrite scan_S. rewrite has_next_1_Pre by assumption.
  set (q1 := mat_after (length L) q i (Some (i + (1 - 1)))).
  pose proof (mat_after_bounds (length L) q i (Some (i + (1 - 1))) Hq) as Hb1. fold q1 in Hb1.
  destruct (Z.ltb_spec i (Z.of_nat (length L))) as [Hin|Hout]; [|discriminate].
  assert (Hq1 : i <= Z.of_nat q1).
  { unfold q1, mat_after. replace (i + (1 - 1)) with i by lia. rewrite Z.leb_refl.
    destruct (Z.ltb_spec i (Z.of_nat (length L))); lia. }
  rewrite peek_int_spec by lia.
  set (q2 := mat_after (length L) q1 i (Some (i + 0))).
  pose proof (mat_after_bounds (length L) q1 i (Some (i + 0))) as Hb2. fold q2 in Hb2.
  assert (Hstep : forall pk, scan_exn
     (if cond_holds k pk then (mkS L q2 i, None, acc, cnt)
      else match forward (mkS L q2 i) 1 with
           | (s3, OItems l) => scan f s3 k (acc ++ l) (cnt + 1)
           | (s3, OExc e) => (s3, Some e, acc, cnt)
           | (s3, _) => (s3, Some AttributeError, acc, cnt)
           end) <> Some OutOfFuel).
  { intros pk. destruct (cond_holds k pk); [discriminate|].
    unfold forward. cbn [Z.ltb Z.compare]. rewrite forward_pos_spec by lia.
    pose proof (mat_after_bounds (length L) q2 (i + 1) (Some (i + 1))).
    apply IH; lia. }
  destruct (nth_error L (Z.to_nat (i + 0))); apply Hstep.
Qed.

Lemma scan_no_fuel_Pre s k : Pre s -> scan_exn (scan (scan_fuel s) s k [] 0) <> Some OutOfFuel.
Proof.
  destruct s as [L q i]. unfold Pre, scan_fuel. cbn [items mat cursor]. intros [Hi Hq].
  apply scan_no_fuel; lia.
Qed.

Lemma gen_num_forward_until_ok n s k : Pre s ->
  call (S (S (S (S (S (S n)))))) gen_cls (CMeth M_num_forward_until) [VFn (FCond k)] (cc s)
  = done (num_forward_until s k).
Proof.
  intros H. apply gen_num_forward_until_gen; [exact H|apply scan_no_fuel_Pre; exact H].
Qed.

Lemma gen_forward_until_ok n s k : Pre s ->
  call (S (S (S (S (S (S n)))))) gen_cls (CMeth M_forward_until) [VFn (FCond k)] (cc s)
  = done (forward_until s k).
Proof.
  intros H. apply gen_forward_until_gen; [exact H|].
  apply scan_no_fuel_Pre. apply peek_int_Pre. exact H.
Qed.

Lemma gen_forward_until_peek_true n s k : Pre s ->
  call (S (S (S (S (S (S n)))))) gen_cls (CMeth M_forward_until) [VFn (FCond k); VBool true] (cc s)
  = done (forward_until s k).
Proof. intros H. rewrite <- (gen_forward_until_ok n s k H). reflexivity. Qed.

Lemma num_forward_until_Pre s k : Pre s -> Pre (fst (num_forward_until s k)).
Proof.
  intros H. unfold num_forward_until.
  pose proof (scan_Pre k (scan_fuel s) s [] 0 H) as HP1.
  destruct (scan (scan_fuel s) s k [] 0) as [[[s1 oe] acc] cnt]. cbn [fst] in HP1.
  destruct oe as [e|]; [exact HP1|].
  pose proof (backward_Pre s1 cnt HP1) as HP2.
  destruct (backward s1 cnt) as [s2 o]. cbn [fst] in HP2.
  destruct o; try exact HP2. destruct (list_eqb l acc); exact HP2.
Qed.

Lemma forward_until_Pre s k : Pre s -> Pre (fst (forward_until s k)).
Proof.
  intros H. unfold forward_until. pose proof (peek_int_Pre s 0 H) as HP0.
  destruct (peek_int s 0) as [s0 o]. cbn [fst] in HP0.
  assert (Hr : Pre (fst (let '(s1, oe, acc, _) := scan (scan_fuel s0) s0 k [] 0 in
                         match oe with Some e => (s1, OExc e) | None => (s1, OItems acc) end))).
  { pose proof (scan_Pre k (scan_fuel s0) s0 [] 0 HP0) as HP1.
    destruct (scan (scan_fuel s0) s0 k [] 0) as [[[s1 oe] acc] cnt]. cbn [fst] in HP1.
    destruct oe; exact HP1. }
  destruct o; try exact Hr. exact HP0.
Qed.
(* ====================================================================== *)
(* All operations, operation sequences                                     *)
(* ====================================================================== *)

Lemma next_raw_Pre s : Pre s -> Pre (fst (next_raw s)).
Proof.
  intros H. pose proof (next_raw_wf s (Pre_wf s H)) as Hw. destruct H as [Hi Hq].
  split; [|exact Hw]. clear Hw. unfold next_raw. destruct s as [L m i].
  cbn [items mat cursor] in *. cbv zeta.
  destruct (i <? Z.of_nat m); [cbn [fst cursor]; lia|].
  destruct (i + 1 <=? Z.of_nat (length L)); cbn [fst cursor]; lia.
Qed.

Lemma step_Pre s o : Pre s -> Pre (fst (step s o)).
Proof.
  intros H. destruct o; cbn [step].
  - apply next_raw_Pre; exact H.
  - apply has_next_Pre; exact H.
  - apply peek_int_Pre; exact H.
  - apply peek_range_Pre; exact H.
  - apply forward_Pre; exact H.
  - apply backward_Pre; exact H.
  - apply getitem_slice_Pre; exact H.
  - apply getitem_int_Pre; exact H.
  - apply starts_with_Pre; exact H.
  - apply ends_with_Pre; exact H.
  - apply forward_until_Pre; exact H.
  - apply num_forward_until_Pre; exact H.
  - exact H.
Qed.

Lemma gen_step_ok s o : Pre s -> gen_step gen_cls (cc s) o = done (step s o).
Proof.
  intros H. destruct o; cbn [gen_step step]; unfold run_meth, call_depth.
  - apply gen_next_ok. apply Pre_wf; exact H.
  - apply gen_hasNext_ok; exact H.
  - apply gen_peek_int_ok; exact H.
  - apply gen_peek_range_ok; exact H.
  - apply gen_forward_ok; exact H.
  - apply gen_backward_ok; exact H.
  - apply gen_getitem_slice_ok; exact H.
  - apply gen_getitem_int_ok; exact H.
  - apply gen_startswith_ok; exact H.
  - apply gen_endswith_ok; exact H.
  - apply gen_forward_until_ok; exact H.
  - apply gen_num_forward_until_ok; exact H.
  - apply gen_position_ok.
Qed.

Lemma to_of_out o : to_out (of_out o) = Some o.
Proof. destruct o; reflexivity. Qed.

Lemma gen_run_ok : forall ops s, Pre s -> gen_run gen_cls (cc s) ops = Some (run_ops s ops).
Proof.
  induction ops as [|o r IH]; intros s H; [reflexivity|].
  cbn [gen_run run_ops]. rewrite gen_step_ok by exact H. unfold done.
  pose proof (step_Pre s o H) as H'.
  destruct (step s o) as [s' x]. cbn [fst snd] in *.
  rewrite to_of_out, (IH s' H'). reflexivity.
Qed.

Lemma Pre_init l : Pre (init_state l).
Proof. apply Inv_Pre, Inv_init. Qed.

Theorem gen_session_ok l ops : gen_session gen_cls l ops = Some (run_ops (init_state l) ops).
Proof.
  unfold gen_session, run_meth, call_depth. rewrite gen_init_ok.
  apply gen_run_ok. apply Pre_init.
Qed.

Theorem gen_session_refines l ops : guards_ok l 0 ops = true ->
  gen_session gen_cls l ops = Some (run_ref l 0 ops).
Proof. intros H. rewrite gen_session_ok, (C20_refines_proof l ops H). reflexivity. Qed.

(* without Pre (a negative cursor, which no method can produce) the
   hand-written scan runs out of its fuel and the generated one does not *)
Definition neg_state : state := mkS [2; 1] 2 (-3).
Theorem gen_forward_until_unconditional_refuted :
  exists s k, (mat s <= length (items s))%nat /\
    run_meth gen_cls M_forward_until [VFn (FCond k)] (cc s) <> done (forward_until s k).
Proof. exists neg_state, 7. split; [cbn; lia|]. vm_compute. discriminate. Qed.

(* ====================================================================== *)
(* The same for run_meth (what Props/C20gen.v states)                      *)
(* ====================================================================== *)

Lemma run_next s : wf s -> run_meth gen_cls M_next [] (cc s) = done (next_raw s).
Proof. apply (gen_next_ok 6). Qed.

Lemma run_getitem_int s k : Pre s ->
  run_meth gen_cls M_getitem [VInt k] (cc s) = done (getitem_int s k).
Proof. apply (gen_getitem_int_ok 5). Qed.

Lemma run_getitem_slice s lo hi : Pre s ->
  run_meth gen_cls M_getitem [VSlice lo hi] (cc s) = done (getitem_slice s lo hi).
Proof. apply (gen_getitem_slice_ok 5). Qed.

Lemma run_peek_int s j : Pre s -> run_meth gen_cls M_peek [VInt j] (cc s) = done (peek_int s j).
Proof. apply (gen_peek_int_ok 4). Qed.

Lemma run_peek_range s a b : Pre s ->
  run_meth gen_cls M_peek [VTup [a; b]] (cc s) = done (peek_range s a b).
Proof. apply (gen_peek_range_ok 4). Qed.

Lemma run_peek_default s : Pre s -> run_meth gen_cls M_peek [] (cc s) = done (peek_int s 0).
Proof. apply (gen_peek_default 4). Qed.

Lemma run_hasNext s k : Pre s -> run_meth gen_cls M_hasNext [VInt k] (cc s) = done (has_next s k).
Proof. apply (gen_hasNext_ok 3). Qed.

Lemma run_hasNext_default s : Pre s -> run_meth gen_cls M_hasNext [] (cc s) = done (has_next s 1).
Proof. apply (gen_hasNext_default 3). Qed.

Lemma run_forward s j : Pre s -> run_meth gen_cls M_forward [VInt j] (cc s) = done (forward s j).
Proof. apply (gen_forward_ok 3). Qed.

Lemma run_forward_default s : Pre s -> run_meth gen_cls M_forward [] (cc s) = done (forward s 1).
Proof. apply (gen_forward_default 3). Qed.

Lemma run_backward s j : Pre s -> run_meth gen_cls M_backward [VInt j] (cc s) = done (backward s j).
Proof. apply (gen_backward_ok 3). Qed.

Lemma run_backward_default s : Pre s -> run_meth gen_cls M_backward [] (cc s) = done (backward s 1).
Proof. apply (gen_backward_default 3). Qed.

Lemma run_startswith s p : Pre s ->
  run_meth gen_cls M_startswith [VStr p] (cc s) = done (starts_with s p).
Proof. apply (gen_startswith_ok 3). Qed.

Lemma run_endswith s p : Pre s ->
  run_meth gen_cls M_endswith [VStr p] (cc s) = done (ends_with s p).
Proof. apply (gen_endswith_ok 3). Qed.

Lemma run_forward_until s k : Pre s ->
  run_meth gen_cls M_forward_until [VFn (FCond k)] (cc s) = done (forward_until s k).
Proof. apply (gen_forward_until_ok 2). Qed.

Lemma run_forward_until_peek_true s k : Pre s ->
  run_meth gen_cls M_forward_until [VFn (FCond k); VBool true] (cc s) = done (forward_until s k).
Proof. apply (gen_forward_until_peek_true 2). Qed.

Lemma run_num_forward_until s k : Pre s ->
  run_meth gen_cls M_num_forward_until [VFn (FCond k)] (cc s) = done (num_forward_until s k).
Proof. apply (gen_num_forward_until_ok 2). Qed.

Lemma run_position s : run_meth gen_cls M_position [] (cc s) = done (s, OInt (cursor s)).
Proof. apply (gen_position_ok 7). Qed.

Lemma run_iter d : run_meth gen_cls M_iter [] d = ODone d (RVal VSelf).
Proof. apply (gen_iter_ok 7). Qed.

Lemma run_init l :
  run_meth gen_cls M_init [VIterable l] blank = ODone (cc (init_state l)) (RVal VNone).
Proof. apply (gen_init_ok 7). Qed.

Lemma run_init_buffer s : Pre s ->
  run_meth gen_cls M_init [buf_arg s] blank
  = ODone (cc (init_state (skipn (Z.to_nat (cursor s)) (items s)))) (RVal VNone).
Proof. apply (gen_init_buffer_ok 7). Qed.

(* ====================================================================== *)
(* Non-vacuity                                                             *)
(* ====================================================================== *)

(* a state satisfying Pre but not Inv (cursor beyond the materialised prefix) *)
Definition ex_state : state := mkS [97; 98; 99; 98] 1 2.
Example ex_Pre : Pre ex_state.
Proof. unfold Pre, ex_state. cbn. lia. Qed.
Example ex_wf : wf ex_state.
Proof. unfold wf, ex_state. cbn. lia. Qed.

(* wrapping a buffer that has looked ahead: queue [97], source still holds
   [98; 99; 98], cursor 2 -- the new buffer starts at 99 *)
Example ex_init_of_buffer :
  run_meth gen_cls M_init [buf_arg (mkS [97; 98; 99; 98] 1 2)] blank
  = ODone (cc (init_state [99; 98])) (RVal VNone).
Proof. vm_compute. reflexivity. Qed.

Example ex_run_peek :
  run_meth gen_cls M_peek [VInt 1] (cc ex_state) = ODone (cc (mkS [97; 98; 99; 98] 4 2)) (RVal (VItem 98)).
Proof. vm_compute. reflexivity. Qed.

Example ex_run_forward_until :
  run_meth gen_cls M_forward_until [VFn (FCond 98)] (cc ex_state)
  = ODone (cc (mkS [97; 98; 99; 98] 4 3)) (RVal (VStr [99])).
Proof. vm_compute. reflexivity. Qed.

Example ex_session :
  gen_session gen_cls ex_items ex_ops = Some (run_ref ex_items 0 ex_ops).
Proof. vm_compute. reflexivity. Qed.

(* an unguarded session: out-of-contract calls agree as well *)
Example ex_session_unguarded :
  gen_session gen_cls [97; 98] [Peek (-1); Forward 5; Backward 9; Next; Getitem (-1); Slice (Some (-1)) None]
  = Some [(ONone, 0); (OItems [97; 98], 5); (OExc AssertionError, 5);
          (OExc StopIteration, 5); (OItem 98, 5); (OItems [98], 5)].
Proof. vm_compute. reflexivity. Qed.
