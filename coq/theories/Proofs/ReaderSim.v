(* C07, first clause: whatever strict parsing accepts, tolerant parsing
   accepts with the identical result.  Tolerance is consulted only on error
   branches, so every successful strict run is also a tolerant run. *)
From Coq Require Import List NArith ZArith Bool Lia.
From TexModel Require Import Base Tables Chars Tokenizer Tree Reader.
From TexProofs Require Import ReaderLen.
Import ListNotations.

Definition sim_expr f := forall skip m toks r,
  read_expr f skip true m toks = Ok r -> read_expr f skip false m toks = Ok r.
Definition sim_math f := forall k pos acc toks r,
  read_math_loop f k pos true acc toks = Ok r -> read_math_loop f k pos false acc toks = Ok r.
Definition sim_env f := forall name args pos skip m acc toks r,
  read_env_loop f name args pos skip true m acc toks = Ok r ->
  read_env_loop f name args pos skip false m acc toks = Ok r.
Definition sim_command f := forall nreq nopt sk m toks r,
  read_command f nreq nopt sk true m toks = Ok r -> read_command f nreq nopt sk false m toks = Ok r.
Definition sim_args f := forall nreq nopt m toks r,
  read_args f nreq nopt true m toks = Ok r -> read_args f nreq nopt false m toks = Ok r.
Definition sim_opt f := forall args nopt m toks r,
  read_arg_optional f args nopt true m toks = Ok r -> read_arg_optional f args nopt false m toks = Ok r.
Definition sim_req f := forall args nreq m toks r,
  read_arg_required f args nreq true m toks = Ok r -> read_arg_required f args nreq false m toks = Ok r.
Definition sim_arg f := forall c m toks r,
  read_arg f c true m toks = Ok r -> read_arg f c false m toks = Ok r.
Definition sim_argloop f := forall k pos m acc toks r,
  read_arg_loop f k pos true m acc toks = Ok r -> read_arg_loop f k pos false m acc toks = Ok r.

Definition sim_all f :=
  sim_expr f /\ sim_math f /\ sim_env f /\ sim_command f /\ sim_args f /\
  sim_opt f /\ sim_req f /\ sim_arg f /\ sim_argloop f.

Ltac use_sim :=
  repeat match goal with
  | IH : sim_expr ?f, H : read_expr ?f _ true _ _ = Ok _ |- _ => apply IH in H
  | IH : sim_math ?f, H : read_math_loop ?f _ _ true _ _ = Ok _ |- _ => apply IH in H
  | IH : sim_env ?f, H : read_env_loop ?f _ _ _ _ true _ _ _ = Ok _ |- _ => apply IH in H
  | IH : sim_command ?f, H : read_command ?f _ _ _ true _ _ = Ok _ |- _ => apply IH in H
  | IH : sim_args ?f, H : read_args ?f _ _ true _ _ = Ok _ |- _ => apply IH in H
  | IH : sim_opt ?f, H : read_arg_optional ?f _ _ true _ _ = Ok _ |- _ => apply IH in H
  | IH : sim_req ?f, H : read_arg_required ?f _ _ true _ _ = Ok _ |- _ => apply IH in H
  | IH : sim_arg ?f, H : read_arg ?f _ true _ _ = Ok _ |- _ => apply IH in H
  | IH : sim_argloop ?f, H : read_arg_loop ?f _ _ true _ _ _ = Ok _ |- _ => apply IH in H
  end.

Ltac rw_ctx :=
  repeat (match goal with
          | E : ?l = _ |- context [?l] => tryif is_var l then fail else rewrite E
          end; cbn [bind]).

Ltac sim_case H := simpl in H |- *; peel_all H; use_sim; rw_ctx; simpl; try reflexivity; try assumption.

Lemma sim_all_holds : forall f, sim_all f.
Proof.
  induction f as [|f IH].
  { unfold sim_all, sim_expr, sim_math, sim_env, sim_command, sim_args, sim_opt, sim_req,
      sim_arg, sim_argloop.
    repeat match goal with |- _ /\ _ => split end; intros; simpl in *; discriminate. }
  destruct IH as (Se & Sm & Sv & Sc & Sa & So & Sr & Sg & Sl).
  unfold sim_all.
  repeat match goal with |- _ /\ _ => split end;
    [unfold sim_expr | unfold sim_math | unfold sim_env | unfold sim_command | unfold sim_args
     | unfold sim_opt | unfold sim_req | unfold sim_arg | unfold sim_argloop].
  - intros skip m toks r H. sim_case H.
  - intros k pos acc toks r H. sim_case H.
  - intros name args pos skip m acc toks r H. sim_case H.
  - intros nreq nopt sk m toks r H. sim_case H.
  - intros nreq nopt m toks r H. sim_case H.
  - intros args nopt m toks r H. sim_case H.
  - intros args nreq m toks r H. sim_case H.
  - intros c m toks r H. sim_case H.
  - intros k pos m acc toks r H. sim_case H.
Qed.

Lemma read_tex_loop_sim fuel efuel skip acc toks r :
  read_tex_loop fuel efuel skip true acc toks = Ok r ->
  read_tex_loop fuel efuel skip false acc toks = Ok r.
Proof.
  revert acc toks; induction fuel as [|fu IH]; intros acc toks H; [discriminate|].
  simpl in H |- *. destruct toks as [|t ts]; [exact H|].
  apply bind_ok in H. destruct H as ([e rest] & He & H).
  apply (sim_all_holds efuel) in He. rewrite He. simpl. apply IH. exact H.
Qed.

Theorem parse_conservative (s : str) user_skip t :
  parse s true user_skip = Ok t -> parse s false user_skip = Ok t.
Proof.
  unfold parse. destruct (tokens_of_string s) as [toks e]. destruct e; try discriminate.
  unfold parse_tokens. intro H. apply bind_ok in H. destruct H as (body & Hb & H).
  apply read_tex_loop_sim in Hb. rewrite Hb. exact H.
Qed.
